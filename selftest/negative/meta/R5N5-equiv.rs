// Behavioural pin-down of the generator / hashing / (de)serialisation helpers of the BBS+ part of
// the crate.  Everything here goes through the public API only and is deterministic: values that
// depend on randomness are only checked through round trips, all other values are folded into a
// transcript whose SHA-256 digest is compared with a constant recorded on the reference revision.
#![cfg(all(feature = "bbsplus", feature = "bbsplus_blind"))]
#![allow(non_snake_case)]

use bls12_381_plus::{G1Projective, G2Projective, Scalar};
use elliptic_curve::group::Curve;
use elliptic_curve::hash2curve::ExpandMsg;
use sha2::{Digest, Sha256};
use std::panic::{catch_unwind, AssertUnwindSafe};
use zkryptium::bbsplus::ciphersuites::{BbsCiphersuite, Bls12381Sha256, Bls12381Shake256};
use zkryptium::bbsplus::commitment::BBSplusCommitment;
use zkryptium::bbsplus::generators::Generators;
use zkryptium::bbsplus::keys::{BBSplusPublicKey, BBSplusSecretKey};
use zkryptium::bbsplus::proof::{BBSplusPoKSignature, BBSplusZKPoK};
use zkryptium::bbsplus::signature::BBSplusSignature;
use zkryptium::errors::Error;
use zkryptium::keys::pair::KeyPair;
use zkryptium::schemes::algorithms::BBSplus;
use zkryptium::schemes::generics::{BlindSignature, Commitment, PoKSignature, Signature};
use zkryptium::utils::message::bbsplus_message::BBSplusMessage;
use zkryptium::utils::util::bbsplus_utils::{
    calculate_blind_challenge, get_messages, get_messages_vec, hash_to_scalar, i2osp, serialize,
    ScalarExt,
};

// ---------------------------------------------------------------------------------------------
// helpers
// ---------------------------------------------------------------------------------------------

/// The order r of the scalar field, big endian.
const R_BE: &str = "73eda753299d7d483339d80809a1d80553bda402fffe5bfeffffffff00000001";
/// r - 1
const R_MINUS_1_BE: &str = "73eda753299d7d483339d80809a1d80553bda402fffe5bfeffffffff00000000";

struct Transcript {
    name: &'static str,
    lines: Vec<String>,
}

impl Transcript {
    fn new(name: &'static str) -> Self {
        Self {
            name,
            lines: Vec::new(),
        }
    }

    fn put(&mut self, label: impl AsRef<str>, value: impl AsRef<str>) {
        self.lines
            .push(format!("{} = {}", label.as_ref(), value.as_ref()));
    }

    fn put_bytes(&mut self, label: impl AsRef<str>, value: impl AsRef<[u8]>) {
        self.put(label, hex::encode(value));
    }

    fn put_scalar_result(&mut self, label: impl AsRef<str>, value: &Result<Scalar, Error>) {
        match value {
            Ok(s) => self.put_bytes(label, s.to_be_bytes()),
            Err(e) => self.put(label, format!("ERR {}", variant(e))),
        }
    }

    fn finish(self, expected: &str) {
        let text = self.lines.join("\n");
        let digest = hex::encode(Sha256::digest(text.as_bytes()));
        if digest != expected {
            eprintln!("---- transcript {} ----\n{}\n----", self.name, text);
        }
        assert_eq!(digest, expected, "transcript digest of `{}`", self.name);
    }
}

/// Name of the error variant only: message texts are not part of the contract.
fn variant(e: &Error) -> String {
    let dbg = format!("{:?}", e);
    dbg.split(|c| c == '(' || c == ' ' || c == '{')
        .next()
        .unwrap()
        .to_owned()
}

fn res_variant<T>(r: &Result<T, Error>) -> String {
    match r {
        Ok(_) => "OK".to_owned(),
        Err(e) => format!("ERR {}", variant(e)),
    }
}

fn panics<T>(f: impl FnOnce() -> T) -> bool {
    catch_unwind(AssertUnwindSafe(f)).is_err()
}

fn g1(p: &G1Projective) -> String {
    hex::encode(p.to_affine().to_compressed())
}

fn msgs(n: usize) -> Vec<Vec<u8>> {
    (0..n)
        .map(|i| {
            // different lengths, including the empty message at position 2
            let len = if i == 2 { 0 } else { 3 + 7 * i };
            (0..len).map(|j| (i * 31 + j * 7 + 1) as u8).collect()
        })
        .collect()
}

fn keypair<CS>() -> KeyPair<BBSplus<CS>>
where
    CS: BbsCiphersuite,
    CS::Expander: for<'a> ExpandMsg<'a>,
{
    let ikm: Vec<u8> = (0u8..48).map(|i| i.wrapping_mul(5).wrapping_add(3)).collect();
    KeyPair::<BBSplus<CS>>::generate(&ikm, Some(b"equiv-key-info"), None).unwrap()
}

// ---------------------------------------------------------------------------------------------
// i2osp
// ---------------------------------------------------------------------------------------------

#[test]
fn i2osp_values_and_overflow() {
    assert_eq!(i2osp::<0>(0), [0u8; 0]);
    assert_eq!(i2osp::<1>(0), [0]);
    assert_eq!(i2osp::<1>(255), [255]);
    assert_eq!(i2osp::<2>(0x0102), [1, 2]);
    assert_eq!(i2osp::<2>(0xffff), [255, 255]);
    assert_eq!(i2osp::<3>(0x01_0203), [1, 2, 3]);
    assert_eq!(i2osp::<4>(0xdead_beef), [0xde, 0xad, 0xbe, 0xef]);
    assert_eq!(i2osp::<7>(0x00ff_eedd_ccbb_aa99), [0xff, 0xee, 0xdd, 0xcc, 0xbb, 0xaa, 0x99]);
    assert_eq!(i2osp::<8>(0), [0; 8]);
    assert_eq!(i2osp::<8>(1), [0, 0, 0, 0, 0, 0, 0, 1]);
    assert_eq!(i2osp::<8>(usize::MAX), [255; 8]);
    assert_eq!(
        i2osp::<8>(0x0102_0304_0506_0708),
        [1, 2, 3, 4, 5, 6, 7, 8]
    );
    assert_eq!(
        i2osp::<9>(usize::MAX),
        [0, 255, 255, 255, 255, 255, 255, 255, 255]
    );
    let wide = i2osp::<16>(0x0102_0304_0506_0708);
    assert_eq!(wide[..8], [0; 8]);
    assert_eq!(wide[8..], [1, 2, 3, 4, 5, 6, 7, 8]);
    assert_eq!(i2osp::<32>(7)[..31], [0u8; 31]);
    assert_eq!(i2osp::<32>(7)[31], 7);

    assert!(panics(|| i2osp::<0>(1)));
    assert!(panics(|| i2osp::<1>(256)));
    assert!(panics(|| i2osp::<2>(0x1_0000)));
    assert!(panics(|| i2osp::<3>(0x1234_5678)));
    assert!(panics(|| i2osp::<7>(usize::MAX)));
    assert!(!panics(|| i2osp::<7>(usize::MAX >> 8)));
    assert!(!panics(|| i2osp::<8>(usize::MAX)));
}

// ---------------------------------------------------------------------------------------------
// hash_to_scalar
// ---------------------------------------------------------------------------------------------

fn hash_to_scalar_cases<CS>(t: &mut Transcript)
where
    CS: BbsCiphersuite,
    CS::Expander: for<'a> ExpandMsg<'a>,
{
    let long_msg: Vec<u8> = (0..1000u32).map(|i| (i % 251) as u8).collect();
    let inputs: Vec<(&str, Vec<u8>)> = vec![
        ("empty", vec![]),
        ("one", vec![0x00]),
        ("abc", b"abc".to_vec()),
        ("long", long_msg),
    ];
    let dsts: Vec<(&str, Vec<u8>)> = vec![
        ("dst0", vec![]),
        ("dst1", b"X".to_vec()),
        ("dst_h2s", [CS::API_ID, CS::H2S].concat()),
        ("dst254", vec![0x41; 254]),
        ("dst255", vec![0x42; 255]),
        ("dst256", vec![0x43; 256]),
        ("dst1000", vec![0x44; 1000]),
    ];
    for (ml, m) in &inputs {
        for (dl, d) in &dsts {
            let r = hash_to_scalar::<CS>(m, d);
            t.put_scalar_result(format!("h2s {} {}", ml, dl), &r);
            if d.len() > 255 {
                assert!(matches!(r, Err(Error::HashToScalarError)));
            }
            if !d.is_empty() && d.len() <= 255 {
                assert!(r.is_ok());
            }
        }
    }
}

#[test]
fn hash_to_scalar_sha256() {
    let mut t = Transcript::new("hash_to_scalar_sha256");
    hash_to_scalar_cases::<Bls12381Sha256>(&mut t);
    t.finish(GOLD_H2S_SHA256);
}

#[test]
fn hash_to_scalar_shake256() {
    let mut t = Transcript::new("hash_to_scalar_shake256");
    hash_to_scalar_cases::<Bls12381Shake256>(&mut t);
    t.finish(GOLD_H2S_SHAKE256);
}

// ---------------------------------------------------------------------------------------------
// generators
// ---------------------------------------------------------------------------------------------

fn generators_cases<CS>(t: &mut Transcript)
where
    CS: BbsCiphersuite,
    CS::Expander: for<'a> ExpandMsg<'a>,
{
    let big = Generators::create::<CS>(12, Some(CS::API_ID));
    assert_eq!(big.values.len(), 12);
    assert_eq!(g1(&big.g1_base_point), CS::P1);
    for (i, p) in big.values.iter().enumerate() {
        t.put(format!("api gen {}", i), g1(p));
    }
    // all different
    for i in 0..big.values.len() {
        for j in 0..i {
            assert_ne!(big.values[i], big.values[j]);
        }
    }

    for count in [0usize, 1, 2, 3, 5, 11, 12] {
        let g = Generators::create::<CS>(count, Some(CS::API_ID));
        assert_eq!(g.values.len(), count);
        assert_eq!(g.g1_base_point, big.g1_base_point);
        // the list for a smaller count is a prefix of the list for a larger count
        assert_eq!(g.values[..], big.values[..count]);
    }

    // None and Some(empty) are the same thing, and differ from the api_id lists
    let none = Generators::create::<CS>(4, None);
    let empty = Generators::create::<CS>(4, Some(b""));
    assert_eq!(none, empty);
    assert_ne!(none.values[0], big.values[0]);
    for (i, p) in none.values.iter().enumerate() {
        t.put(format!("none gen {}", i), g1(p));
    }
    let blind = Generators::create::<CS>(3, Some(CS::API_ID_BLIND));
    for (i, p) in blind.values.iter().enumerate() {
        t.put(format!("blind gen {}", i), g1(p));
    }
    let odd = Generators::create::<CS>(2, Some(&[0u8, 255, 1, 254]));
    for (i, p) in odd.values.iter().enumerate() {
        t.put(format!("odd gen {}", i), g1(p));
    }

    let zero = Generators::create::<CS>(0, None);
    assert!(zero.values.is_empty());
    t.put("json zero", serde_json::to_string(&zero).unwrap());
    t.put("json blind", serde_json::to_string(&blind).unwrap());
}

#[test]
fn generators_sha256() {
    let mut t = Transcript::new("generators_sha256");
    generators_cases::<Bls12381Sha256>(&mut t);
    t.finish(GOLD_GEN_SHA256);
}

#[test]
fn generators_shake256() {
    let mut t = Transcript::new("generators_shake256");
    generators_cases::<Bls12381Shake256>(&mut t);
    t.finish(GOLD_GEN_SHAKE256);
}

#[test]
fn generators_match_draft_fixture() {
    // first entries of the official fixture (bls12-381-sha-256/generators.json)
    let g = Generators::create::<Bls12381Sha256>(2, Some(Bls12381Sha256::API_ID));
    assert_eq!(
        g1(&g.values[0]),
        "a9ec65b70a7fbe40c874c9eb041c2cb0a7af36ccec1bea48fa2ba4c2eb67ef7f9ecb17ed27d38d27cdeddff44c8137be"
    );
    assert_eq!(
        g1(&g.values[1]),
        "98cd5313283aaf5db1b3ba8611fe6070d19e605de4078c38df36019fbaad0bd28dd090fd24ed27f7f4d22d5ff5dea7d4"
    );
}

// ---------------------------------------------------------------------------------------------
// BBSplusMessage
// ---------------------------------------------------------------------------------------------

fn message_cases<CS>(t: &mut Transcript)
where
    CS: BbsCiphersuite,
    CS::Expander: for<'a> ExpandMsg<'a>,
{
    for n in [0usize, 1, 2, 3, 7] {
        let m = msgs(n);
        for (al, api) in [("api", CS::API_ID), ("blind", CS::API_ID_BLIND), ("none", &b""[..])] {
            let list = BBSplusMessage::messages_to_scalar::<CS>(&m, api).unwrap();
            assert_eq!(list.len(), n);
            for (i, s) in list.iter().enumerate() {
                let single =
                    BBSplusMessage::map_message_to_scalar_as_hash::<CS>(&m[i], api).unwrap();
                assert_eq!(*s, single);
                assert_eq!(
                    s.value,
                    hash_to_scalar::<CS>(&m[i], &[api, CS::MAP_MSG_SCALAR].concat()).unwrap()
                );
                t.put_bytes(format!("msg n{} {} {}", n, al, i), s.to_bytes_be());
            }
        }
    }

    // a too long api_id makes the dst longer than 255 bytes
    let long_api = vec![0x61u8; 255 - CS::MAP_MSG_SCALAR.len() + 1];
    let ok_api = vec![0x61u8; 255 - CS::MAP_MSG_SCALAR.len()];
    let two = msgs(2);
    assert!(matches!(
        BBSplusMessage::messages_to_scalar::<CS>(&two, &long_api),
        Err(Error::HashToScalarError)
    ));
    assert!(matches!(
        BBSplusMessage::map_message_to_scalar_as_hash::<CS>(&two[0], &long_api),
        Err(Error::HashToScalarError)
    ));
    // ... but no message, no error
    assert_eq!(
        BBSplusMessage::messages_to_scalar::<CS>(&[], &long_api).unwrap(),
        vec![]
    );
    let ok = BBSplusMessage::messages_to_scalar::<CS>(&two, &ok_api).unwrap();
    t.put_bytes("msg ok_api 0", ok[0].to_bytes_be());
    t.put_bytes("msg ok_api 1", ok[1].to_bytes_be());
}

#[test]
fn messages_sha256() {
    let mut t = Transcript::new("messages_sha256");
    message_cases::<Bls12381Sha256>(&mut t);
    t.finish(GOLD_MSG_SHA256);
}

#[test]
fn messages_shake256() {
    let mut t = Transcript::new("messages_shake256");
    message_cases::<Bls12381Shake256>(&mut t);
    t.finish(GOLD_MSG_SHAKE256);
}

fn arr32(hexstr: &str) -> [u8; 32] {
    hex::decode(hexstr).unwrap().try_into().unwrap()
}

#[test]
fn scalar_codecs() {
    let zero = [0u8; 32];
    let mut one = [0u8; 32];
    one[31] = 1;
    let r = arr32(R_BE);
    let r_minus_1 = arr32(R_MINUS_1_BE);
    let mut r_plus_1 = r;
    r_plus_1[31] += 1;
    let ff = [0xffu8; 32];
    let mut top = [0u8; 32];
    top[0] = 0x74;

    // BBSplusMessage::from_bytes_be
    assert_eq!(BBSplusMessage::from_bytes_be(&zero).unwrap().value, Scalar::ZERO);
    assert_eq!(BBSplusMessage::from_bytes_be(&one).unwrap().value, Scalar::ONE);
    assert_eq!(
        BBSplusMessage::from_bytes_be(&r_minus_1).unwrap().value,
        -Scalar::ONE
    );
    for bad in [&r, &r_plus_1, &ff, &top] {
        assert!(matches!(
            BBSplusMessage::from_bytes_be(bad),
            Err(Error::Unspecified)
        ));
    }
    for good in [&zero, &one, &r_minus_1] {
        let m = BBSplusMessage::from_bytes_be(good).unwrap();
        assert_eq!(&m.to_bytes_be(), good);
        assert_eq!(BBSplusMessage::new(m.value), m);
    }

    // ScalarExt::from_bytes_be: any slice length
    assert_eq!(Scalar::from_bytes_be(&zero).unwrap(), Scalar::ZERO);
    assert_eq!(Scalar::from_bytes_be(&one).unwrap(), Scalar::ONE);
    assert_eq!(Scalar::from_bytes_be(&r_minus_1).unwrap(), -Scalar::ONE);
    for bad in [&r[..], &r_plus_1[..], &ff[..], &top[..]] {
        assert!(matches!(
            Scalar::from_bytes_be(bad),
            Err(Error::DeserializationError(_))
        ));
    }
    for len in [0usize, 1, 16, 31, 33, 48, 64] {
        assert!(matches!(
            Scalar::from_bytes_be(&vec![0u8; len]),
            Err(Error::DeserializationError(_))
        ));
    }
    let s = Scalar::from(0x0102_0304_0506_0708u64);
    assert_eq!(ScalarExt::to_bytes_be(&s)[24..], [1, 2, 3, 4, 5, 6, 7, 8]);
    assert_eq!(ScalarExt::to_bytes_be(&s)[..24], [0u8; 24]);
    assert_eq!(
        s.encode(),
        "0000000000000000000000000000000000000000000000000102030405060708"
    );
    assert_eq!((-Scalar::ONE).encode(), R_MINUS_1_BE);
    assert_eq!(Scalar::from_bytes_be(&ScalarExt::to_bytes_be(&s)).unwrap(), s);
}

// ---------------------------------------------------------------------------------------------
// serialize / get_messages
// ---------------------------------------------------------------------------------------------

#[test]
fn serialize_lists() {
    let scalars = [Scalar::ZERO, Scalar::ONE, -Scalar::ONE, Scalar::from(77u64)];
    let expected: Vec<u8> = scalars.iter().flat_map(|s| s.to_be_bytes()).collect();
    assert_eq!(serialize(&scalars), expected);
    assert_eq!(serialize(&scalars[..1]), vec![0u8; 32]);
    assert_eq!(serialize::<Scalar>(&[]), Vec::<u8>::new());

    let g = Generators::create::<Bls12381Sha256>(3, None);
    let mut points = g.values.clone();
    points.push(G1Projective::IDENTITY);
    points.push(G1Projective::GENERATOR);
    let expected: Vec<u8> = points
        .iter()
        .flat_map(|p| p.to_affine().to_compressed())
        .collect();
    assert_eq!(serialize(&points), expected);
    assert_eq!(serialize(&points).len(), 48 * 5);
    assert_eq!(serialize::<G1Projective>(&[]), Vec::<u8>::new());

    let g2s = [
        G2Projective::GENERATOR,
        G2Projective::IDENTITY,
        G2Projective::GENERATOR * Scalar::from(5u64),
    ];
    let expected: Vec<u8> = g2s
        .iter()
        .flat_map(|p| p.to_affine().to_compressed())
        .collect();
    assert_eq!(serialize(&g2s), expected);
    assert_eq!(serialize(&g2s).len(), 96 * 3);
    assert_eq!(serialize::<G2Projective>(&[]), Vec::<u8>::new());

    // types the function does not know yield nothing
    assert_eq!(serialize(&[1u8, 2, 3]), Vec::<u8>::new());
    assert_eq!(serialize(&[0usize; 0]), Vec::<u8>::new());
    assert_eq!(serialize(&["a".to_owned()]), Vec::<u8>::new());
    assert_eq!(
        serialize(&[BBSplusMessage::new(Scalar::ONE)]),
        Vec::<u8>::new()
    );
    assert_eq!(
        serialize(&[G1Projective::GENERATOR.to_affine()]),
        Vec::<u8>::new()
    );

    let mut t = Transcript::new("serialize");
    t.put_bytes("scalars", serialize(&scalars));
    t.put_bytes("g1", serialize(&points));
    t.put_bytes("g2", serialize(&g2s));
    t.finish(GOLD_SERIALIZE);
}

#[test]
fn message_selection() {
    let raw = msgs(6);
    let scalars =
        BBSplusMessage::messages_to_scalar::<Bls12381Sha256>(&raw, Bls12381Sha256::API_ID).unwrap();

    assert_eq!(get_messages(&scalars, &[]), vec![]);
    assert_eq!(get_messages(&[], &[]), vec![]);
    assert_eq!(get_messages(&scalars, &[5]), vec![scalars[5]]);
    assert_eq!(
        get_messages(&scalars, &[0, 1, 2, 3, 4, 5]),
        scalars.to_vec()
    );
    assert_eq!(
        get_messages(&scalars, &[4, 0, 4, 2]),
        vec![scalars[4], scalars[0], scalars[4], scalars[2]]
    );
    assert!(panics(|| get_messages(&scalars, &[6])));
    assert!(panics(|| get_messages(&scalars, &[0, 1, usize::MAX])));
    assert!(panics(|| get_messages(&[], &[0])));

    assert_eq!(get_messages_vec(&raw, &[]), Vec::<Vec<u8>>::new());
    assert_eq!(get_messages_vec(&[], &[]), Vec::<Vec<u8>>::new());
    assert_eq!(get_messages_vec(&raw, &[5]), vec![raw[5].clone()]);
    assert_eq!(get_messages_vec(&raw, &[0, 1, 2, 3, 4, 5]), raw);
    assert_eq!(
        get_messages_vec(&raw, &[2, 2, 5, 0]),
        vec![raw[2].clone(), raw[2].clone(), raw[5].clone(), raw[0].clone()]
    );
    assert!(panics(|| get_messages_vec(&raw, &[6])));
    assert!(panics(|| get_messages_vec(&raw, &[3, usize::MAX])));
    assert!(panics(|| get_messages_vec(&[], &[0])));
}

// ---------------------------------------------------------------------------------------------
// calculate_blind_challenge
// ---------------------------------------------------------------------------------------------

fn blind_challenge_cases<CS>(t: &mut Transcript)
where
    CS: BbsCiphersuite,
    CS::Expander: for<'a> ExpandMsg<'a>,
{
    let gens = Generators::create::<CS>(6, Some(CS::API_ID_BLIND)).values;
    let C = G1Projective::GENERATOR * Scalar::from(11u64);
    let Cbar = G1Projective::GENERATOR * Scalar::from(13u64);

    for api in [None, Some(&b""[..]), Some(CS::API_ID), Some(CS::API_ID_BLIND)] {
        assert!(matches!(
            calculate_blind_challenge::<CS>(C, Cbar, &[], api),
            Err(Error::NotEnoughGenerators)
        ));
    }

    for n in [1usize, 2, 3, 6] {
        let none = calculate_blind_challenge::<CS>(C, Cbar, &gens[..n], None);
        let empty = calculate_blind_challenge::<CS>(C, Cbar, &gens[..n], Some(b""));
        assert_eq!(none.clone().unwrap(), empty.unwrap());
        t.put_scalar_result(format!("chal none {}", n), &none);
        let api = calculate_blind_challenge::<CS>(C, Cbar, &gens[..n], Some(CS::API_ID_BLIND));
        t.put_scalar_result(format!("chal blind {}", n), &api);
        let swapped = calculate_blind_challenge::<CS>(Cbar, C, &gens[..n], Some(CS::API_ID_BLIND));
        assert_ne!(api.unwrap(), swapped.clone().unwrap());
        t.put_scalar_result(format!("chal swapped {}", n), &swapped);
    }
    // identity points are fine
    let id = calculate_blind_challenge::<CS>(
        G1Projective::IDENTITY,
        G1Projective::IDENTITY,
        &[G1Projective::IDENTITY],
        None,
    );
    t.put_scalar_result("chal identity", &id);

    // reference computation of the documented encoding
    let mut input = Vec::new();
    input.extend_from_slice(&2u64.to_be_bytes());
    for p in &gens[..3] {
        input.extend_from_slice(&p.to_affine().to_compressed());
    }
    input.extend_from_slice(&C.to_affine().to_compressed());
    input.extend_from_slice(&Cbar.to_affine().to_compressed());
    assert_eq!(
        calculate_blind_challenge::<CS>(C, Cbar, &gens[..3], Some(CS::API_ID_BLIND)).unwrap(),
        hash_to_scalar::<CS>(&input, &[CS::API_ID_BLIND, CS::H2S].concat()).unwrap()
    );

    // dst longer than 255
    let long_api = vec![0x7au8; 252];
    assert!(matches!(
        calculate_blind_challenge::<CS>(C, Cbar, &gens[..2], Some(&long_api)),
        Err(Error::HashToScalarError)
    ));
    // the emptiness check comes first
    assert!(matches!(
        calculate_blind_challenge::<CS>(C, Cbar, &[], Some(&long_api)),
        Err(Error::NotEnoughGenerators)
    ));
    let ok_api = vec![0x7au8; 251];
    t.put_scalar_result(
        "chal api251",
        &calculate_blind_challenge::<CS>(C, Cbar, &gens[..2], Some(&ok_api)),
    );
}

#[test]
fn blind_challenge_sha256() {
    let mut t = Transcript::new("blind_challenge_sha256");
    blind_challenge_cases::<Bls12381Sha256>(&mut t);
    t.finish(GOLD_CHAL_SHA256);
}

#[test]
fn blind_challenge_shake256() {
    let mut t = Transcript::new("blind_challenge_shake256");
    blind_challenge_cases::<Bls12381Shake256>(&mut t);
    t.finish(GOLD_CHAL_SHAKE256);
}

// ---------------------------------------------------------------------------------------------
// signatures: deterministic, they pin calculate_domain / serialize / generators / messages
// ---------------------------------------------------------------------------------------------

fn signature_cases<CS>(t: &mut Transcript)
where
    CS: BbsCiphersuite,
    CS::Expander: for<'a> ExpandMsg<'a>,
{
    let kp = keypair::<CS>();
    let (sk, pk) = (kp.private_key(), kp.public_key());
    t.put_bytes("sk", sk.to_bytes());
    t.put_bytes("pk", pk.to_bytes());

    let headers: [(&str, Option<&[u8]>); 3] = [
        ("none", None),
        ("empty", Some(b"")),
        ("hdr", Some(b"equiv header \x00\xff")),
    ];
    for n in [0usize, 1, 2, 3, 5, 10] {
        let m = msgs(n);
        for (hl, header) in headers {
            let sig = Signature::<BBSplus<CS>>::sign(Some(&m), sk, pk, header).unwrap();
            t.put_bytes(format!("sig n{} {}", n, hl), sig.to_bytes());
            assert!(sig.verify(pk, Some(&m), header).is_ok());
            // round trip through bytes
            let again = Signature::<BBSplus<CS>>::from_bytes(&sig.to_bytes()).unwrap();
            assert_eq!(again.to_bytes(), sig.to_bytes());
            assert!(again.verify(pk, Some(&m), header).is_ok());
            // another header does not verify
            assert!(matches!(
                sig.verify(pk, Some(&m), Some(b"other")),
                Err(Error::SignatureVerificationError)
            ));
            if n > 0 {
                // one message less, one more, or swapped
                assert!(sig.verify(pk, Some(&m[..n - 1]), header).is_err());
                let mut more = m.clone();
                more.push(vec![1]);
                assert!(sig.verify(pk, Some(&more), header).is_err());
            }
            if n > 1 {
                let mut sw = m.clone();
                sw.swap(0, n - 1);
                assert!(sig.verify(pk, Some(&sw), header).is_err());
            }
        }
    }
    // None header == empty header ; None messages == no messages
    let m = msgs(3);
    let a = Signature::<BBSplus<CS>>::sign(Some(&m), sk, pk, None).unwrap();
    let b = Signature::<BBSplus<CS>>::sign(Some(&m), sk, pk, Some(b"")).unwrap();
    assert_eq!(a.to_bytes(), b.to_bytes());
    let a = Signature::<BBSplus<CS>>::sign(None, sk, pk, Some(b"h")).unwrap();
    let b = Signature::<BBSplus<CS>>::sign(Some(&[]), sk, pk, Some(b"h")).unwrap();
    assert_eq!(a.to_bytes(), b.to_bytes());
    assert!(a.verify(pk, None, Some(b"h")).is_ok());
    assert!(a.verify(pk, Some(&[]), Some(b"h")).is_ok());
    assert!(a.verify(pk, None, None).is_err());
}

#[test]
fn signatures_sha256() {
    let mut t = Transcript::new("signatures_sha256");
    signature_cases::<Bls12381Sha256>(&mut t);
    t.finish(GOLD_SIG_SHA256);
}

#[test]
fn signatures_shake256() {
    let mut t = Transcript::new("signatures_shake256");
    signature_cases::<Bls12381Shake256>(&mut t);
    t.finish(GOLD_SIG_SHAKE256);
}

// ---------------------------------------------------------------------------------------------
// decoding of untrusted bytes: point and scalar parsers behind the public `from_bytes` functions
// ---------------------------------------------------------------------------------------------

#[test]
fn public_key_decoding() {
    let kp = keypair::<Bls12381Sha256>();
    let pk = kp.public_key();
    let bytes = pk.to_bytes();
    assert_eq!(&BBSplusPublicKey::from_bytes(&bytes).unwrap(), pk);
    assert_eq!(pk.encode(), hex::encode(bytes));

    // wrong lengths
    for len in [0usize, 1, 48, 95, 97, 192] {
        let mut v = bytes.to_vec();
        v.resize(len, 0);
        assert!(matches!(
            BBSplusPublicKey::from_bytes(&v),
            Err(Error::KeyDeserializationError)
        ));
    }
    // the uncompressed form is not accepted by from_bytes
    let unc = pk.0.to_affine().to_uncompressed();
    assert!(BBSplusPublicKey::from_bytes(&unc).is_err());
    // compression flag missing / garbage
    assert!(BBSplusPublicKey::from_bytes(&[0u8; 96]).is_err());
    assert!(BBSplusPublicKey::from_bytes(&[0xffu8; 96]).is_err());
    let mut no_flag = bytes;
    no_flag[0] &= 0x7f;
    assert!(BBSplusPublicKey::from_bytes(&no_flag).is_err());
    // identity (compressed infinity) decodes as a point but is refused as a key
    let mut inf = [0u8; 96];
    inf[0] = 0xc0;
    assert!(matches!(
        BBSplusPublicKey::from_bytes(&inf),
        Err(Error::KeyDeserializationError)
    ));
    // infinity flag with a stray bit
    inf[95] = 1;
    assert!(BBSplusPublicKey::from_bytes(&inf).is_err());
    // every single-byte corruption either fails or gives another key, never a panic
    let mut t = Transcript::new("public_key_decoding");
    for pos in [0usize, 1, 47, 48, 95] {
        for flip in [0x01u8, 0x20, 0x80] {
            let mut v = bytes;
            v[pos] ^= flip;
            let r = BBSplusPublicKey::from_bytes(&v);
            if let Ok(k) = &r {
                assert_ne!(k, pk);
                assert_eq!(k.to_bytes(), v);
            }
            t.put(format!("pk flip {} {:02x}", pos, flip), res_variant(&r));
        }
    }

    // coordinates (uncompressed parser)
    let (x, y) = pk.to_coordinates();
    assert_eq!(&BBSplusPublicKey::from_coordinates(&x, &y).unwrap(), pk);
    assert_eq!([&x[..], &y[..]].concat(), unc.to_vec());
    assert!(matches!(
        BBSplusPublicKey::from_coordinates(&y, &x),
        Err(Error::KeyDeserializationError)
    ));
    assert!(matches!(
        BBSplusPublicKey::from_coordinates(&[0u8; 96], &[0u8; 96]),
        Err(Error::KeyDeserializationError)
    ));
    let mut inf_x = [0u8; 96];
    inf_x[0] = 0x40;
    assert!(matches!(
        BBSplusPublicKey::from_coordinates(&inf_x, &[0u8; 96]),
        Err(Error::KeyDeserializationError)
    ));
    for pos in [0usize, 50, 95] {
        let mut y2 = y;
        y2[pos] ^= 0x04;
        let r = BBSplusPublicKey::from_coordinates(&x, &y2);
        t.put(format!("coord flip y {}", pos), res_variant(&r));
        let mut x2 = x;
        x2[pos] ^= 0x04;
        let r = BBSplusPublicKey::from_coordinates(&x2, &y);
        t.put(format!("coord flip x {}", pos), res_variant(&r));
    }
    t.finish(GOLD_PK_DECODING);

    // secret key decoding for completeness of the key round trip
    let sk = kp.private_key();
    assert_eq!(&BBSplusSecretKey::from_bytes(&sk.to_bytes()).unwrap(), sk);
    assert_eq!(&sk.public_key(), pk);
}

#[test]
fn signature_decoding() {
    let kp = keypair::<Bls12381Sha256>();
    let (sk, pk) = (kp.private_key(), kp.public_key());
    let m = msgs(3);
    let sig = Signature::<BBSplus<Bls12381Sha256>>::sign(Some(&m), sk, pk, None).unwrap();
    let bytes = sig.to_bytes();
    let inner = BBSplusSignature::from_bytes(&bytes).unwrap();
    assert_eq!(inner.to_bytes(), bytes);
    assert_eq!(&inner, sig.bbsPlusSignature());

    let mut t = Transcript::new("signature_decoding");
    // A invalid
    let mut v = bytes;
    v[..48].copy_from_slice(&[0u8; 48]);
    assert!(matches!(
        BBSplusSignature::from_bytes(&v),
        Err(Error::InvalidSignature)
    ));
    // A = identity
    let mut v = bytes;
    v[..48].copy_from_slice(&[0u8; 48]);
    v[0] = 0xc0;
    assert!(matches!(
        BBSplusSignature::from_bytes(&v),
        Err(Error::InvalidSignature)
    ));
    // e = 0, e = r, e = r - 1
    let mut v = bytes;
    v[48..].copy_from_slice(&[0u8; 32]);
    assert!(matches!(
        BBSplusSignature::from_bytes(&v),
        Err(Error::InvalidSignature)
    ));
    v[48..].copy_from_slice(&arr32(R_BE));
    assert!(matches!(
        BBSplusSignature::from_bytes(&v),
        Err(Error::InvalidSignature)
    ));
    v[48..].copy_from_slice(&[0xffu8; 32]);
    assert!(matches!(
        BBSplusSignature::from_bytes(&v),
        Err(Error::InvalidSignature)
    ));
    v[48..].copy_from_slice(&arr32(R_MINUS_1_BE));
    let edge = BBSplusSignature::from_bytes(&v).unwrap();
    assert_eq!(edge.to_bytes(), v);
    assert!(matches!(
        Signature::<BBSplus<Bls12381Sha256>>::from_bytes(&v)
            .unwrap()
            .verify(pk, Some(&m), None),
        Err(Error::SignatureVerificationError)
    ));
    for pos in [0usize, 1, 20, 47, 48, 60, 79] {
        for flip in [0x01u8, 0x20, 0x80] {
            let mut v = bytes;
            v[pos] ^= flip;
            let r = BBSplusSignature::from_bytes(&v);
            if let Ok(s) = &r {
                assert_eq!(s.to_bytes(), v);
                let s = Signature::<BBSplus<Bls12381Sha256>>::from_bytes(&v).unwrap();
                assert!(s.verify(pk, Some(&m), None).is_err());
            }
            t.put(format!("sig flip {} {:02x}", pos, flip), res_variant(&r));
        }
    }
    // proof_gen takes the signature as a slice
    for len in [0usize, 79, 81] {
        let mut v = bytes.to_vec();
        v.resize(len, 0);
        assert!(matches!(
            PoKSignature::<BBSplus<Bls12381Sha256>>::proof_gen(pk, &v, None, None, Some(&m), None),
            Err(Error::InvalidSignature)
        ));
    }
    t.finish(GOLD_SIG_DECODING);
}

fn proof_cases<CS>(t: &mut Transcript)
where
    CS: BbsCiphersuite,
    CS::Expander: for<'a> ExpandMsg<'a>,
{
    let kp = keypair::<CS>();
    let (sk, pk) = (kp.private_key(), kp.public_key());
    let header: Option<&[u8]> = Some(b"hdr");
    let ph: Option<&[u8]> = Some(b"presentation");

    for n in [0usize, 1, 4] {
        let m = msgs(n);
        let sig = Signature::<BBSplus<CS>>::sign(Some(&m), sk, pk, header).unwrap();
        let mut index_sets: Vec<Vec<usize>> = vec![vec![]];
        if n > 0 {
            index_sets.push(vec![n - 1]);
            index_sets.push((0..n).collect());
        }
        if n > 2 {
            index_sets.push(vec![0, 2]);
        }
        for idx in &index_sets {
            let disclosed = get_messages_vec(&m, idx);
            for (il, idx_arg) in [("some", Some(&idx[..])), ("none", None)] {
                if idx_arg.is_none() && !idx.is_empty() {
                    continue;
                }
                let proof = PoKSignature::<BBSplus<CS>>::proof_gen(
                    pk,
                    &sig.to_bytes(),
                    header,
                    ph,
                    Some(&m),
                    idx_arg,
                )
                .unwrap();
                let bytes = proof.to_bytes();
                assert_eq!(bytes.len(), 272 + 32 * (n - idx.len()));
                t.put(
                    format!("proof n{} idx{:?} {}", n, idx, il),
                    bytes.len().to_string(),
                );
                assert!(proof
                    .proof_verify(pk, Some(&disclosed), idx_arg, header, ph)
                    .is_ok());
                let again = PoKSignature::<BBSplus<CS>>::from_bytes(&bytes).unwrap();
                assert_eq!(again.to_bytes(), bytes);
                assert!(again
                    .proof_verify(pk, Some(&disclosed), Some(idx), header, ph)
                    .is_ok());
                assert!(again
                    .proof_verify(pk, Some(&disclosed), Some(idx), header, None)
                    .is_err());
                assert!(again
                    .proof_verify(pk, Some(&disclosed), Some(idx), None, ph)
                    .is_err());

                let inner = BBSplusPoKSignature::from_bytes(&bytes).unwrap();
                assert_eq!(inner.to_bytes(), bytes);

                // malformed encodings
                for cut in [0usize, 1, 47, 48, 144, 240, 271] {
                    assert!(matches!(
                        BBSplusPoKSignature::from_bytes(&bytes[..cut]),
                        Err(Error::InvalidProofOfKnowledgeSignature)
                    ));
                }
                for extra in [1usize, 31, 33] {
                    let mut v = bytes.clone();
                    v.resize(bytes.len() + extra, 0);
                    assert!(matches!(
                        BBSplusPoKSignature::from_bytes(&v),
                        Err(Error::InvalidProofOfKnowledgeSignature)
                    ));
                }
                if bytes.len() > 272 {
                    assert!(matches!(
                        BBSplusPoKSignature::from_bytes(&bytes[..bytes.len() - 1]),
                        Err(Error::InvalidProofOfKnowledgeSignature)
                    ));
                    // dropping a whole scalar still parses but must not verify
                    let shorter = PoKSignature::<BBSplus<CS>>::from_bytes(&bytes[..bytes.len() - 32])
                        .unwrap();
                    assert!(shorter
                        .proof_verify(pk, Some(&disclosed), Some(idx), header, ph)
                        .is_err());
                }
                // each of the three points and each scalar replaced by something undecodable
                for off in [0usize, 48, 96] {
                    let mut v = bytes.clone();
                    v[off..off + 48].copy_from_slice(&[0u8; 48]);
                    assert!(matches!(
                        BBSplusPoKSignature::from_bytes(&v),
                        Err(Error::InvalidProofOfKnowledgeSignature)
                    ));
                    // identity
                    v[off] = 0xc0;
                    assert!(matches!(
                        BBSplusPoKSignature::from_bytes(&v),
                        Err(Error::InvalidProofOfKnowledgeSignature)
                    ));
                }
                let mut off = 144;
                while off < bytes.len() {
                    let mut v = bytes.clone();
                    v[off..off + 32].copy_from_slice(&arr32(R_BE));
                    assert!(matches!(
                        BBSplusPoKSignature::from_bytes(&v),
                        Err(Error::InvalidProofOfKnowledgeSignature)
                    ));
                    // r - 1 decodes, the proof is then wrong
                    v[off..off + 32].copy_from_slice(&arr32(R_MINUS_1_BE));
                    let p = PoKSignature::<BBSplus<CS>>::from_bytes(&v).unwrap();
                    assert!(p
                        .proof_verify(pk, Some(&disclosed), Some(idx), header, ph)
                        .is_err());
                    off += 32;
                }
            }
        }
        if n > 0 {
            // out of range / too many indexes
            for bad in [vec![n], vec![0, n], vec![usize::MAX], (0..=n).collect::<Vec<_>>()] {
                let r = PoKSignature::<BBSplus<CS>>::proof_gen(
                    pk,
                    &sig.to_bytes(),
                    header,
                    ph,
                    Some(&m),
                    Some(&bad),
                );
                assert!(r.is_err());
                t.put(format!("proof n{} bad{:?}", n, bad), res_variant(&r));
            }
        }
    }
}

#[test]
fn proofs_sha256() {
    let mut t = Transcript::new("proofs_sha256");
    proof_cases::<Bls12381Sha256>(&mut t);
    t.finish(GOLD_PROOF_SHA256);
}

#[test]
fn proofs_shake256() {
    let mut t = Transcript::new("proofs_shake256");
    proof_cases::<Bls12381Shake256>(&mut t);
    t.finish(GOLD_PROOF_SHAKE256);
}

fn blind_cases<CS>(t: &mut Transcript)
where
    CS: BbsCiphersuite,
    CS::Expander: for<'a> ExpandMsg<'a>,
{
    let kp = keypair::<CS>();
    let (sk, pk) = (kp.private_key(), kp.public_key());
    let header: Option<&[u8]> = Some(b"blind hdr");

    for (nc, nm) in [(0usize, 0usize), (0, 2), (1, 0), (2, 3), (4, 1)] {
        let committed = msgs(nc + 1)[1..].to_vec();
        let m = msgs(nm);
        for committed_arg in [Some(&committed[..]), None] {
            if committed_arg.is_none() && nc != 0 {
                continue;
            }
            let (commitment, secret) = Commitment::<BBSplus<CS>>::commit(committed_arg).unwrap();
            let cbytes = commitment.to_bytes();
            assert_eq!(cbytes.len(), 48 + 32 * (nc + 2));
            t.put(
                format!("commit c{} m{} {}", nc, nm, committed_arg.is_some()),
                cbytes.len().to_string(),
            );
            let again = Commitment::<BBSplus<CS>>::from_bytes(&cbytes).unwrap();
            assert_eq!(again.to_bytes(), cbytes);
            assert_eq!(BBSplusCommitment::from_bytes(&cbytes).unwrap().to_bytes(), cbytes);

            let bsig = BlindSignature::<BBSplus<CS>>::blind_sign(
                sk,
                pk,
                Some(&cbytes),
                header,
                Some(&m),
            )
            .unwrap();
            // blind signing is deterministic in the commitment
            let bsig2 = BlindSignature::<BBSplus<CS>>::blind_sign(
                sk,
                pk,
                Some(&cbytes),
                header,
                Some(&m),
            )
            .unwrap();
            assert_eq!(bsig.to_bytes(), bsig2.to_bytes());
            assert!(bsig
                .verify_blind_sign(pk, header, Some(&m), committed_arg, Some(&secret))
                .is_ok());
            assert!(bsig
                .verify_blind_sign(pk, None, Some(&m), committed_arg, Some(&secret))
                .is_err());

            // malformed commitments
            for cut in [0usize, 1, 47, 48, 79, 80, 111] {
                let r = BBSplusCommitment::from_bytes(&cbytes[..cut]);
                assert!(r.is_err());
                t.put(format!("commit cut {}", cut), res_variant(&r));
                let r = BlindSignature::<BBSplus<CS>>::blind_sign(
                    sk,
                    pk,
                    Some(&cbytes[..cut]),
                    header,
                    Some(&m),
                );
                if cut == 0 {
                    // the empty string means "no commitment"
                    assert!(r.is_ok());
                } else {
                    assert!(r.is_err());
                }
            }
            let mut v = cbytes.clone();
            v.push(0);
            assert!(matches!(
                BBSplusCommitment::from_bytes(&v),
                Err(Error::InvalidCommitmentProof)
            ));
            let mut v = cbytes.clone();
            v[..48].copy_from_slice(&[0u8; 48]);
            assert!(matches!(
                BBSplusCommitment::from_bytes(&v),
                Err(Error::InvalidCommitment)
            ));
            let mut off = 48;
            while off < cbytes.len() {
                let mut v = cbytes.clone();
                v[off..off + 32].copy_from_slice(&arr32(R_BE));
                assert!(matches!(
                    BBSplusCommitment::from_bytes(&v),
                    Err(Error::InvalidCommitmentProof)
                ));
                v[off..off + 32].copy_from_slice(&arr32(R_MINUS_1_BE));
                assert!(BBSplusCommitment::from_bytes(&v).is_ok());
                // a tampered proof of the commitment is refused by the signer
                assert!(BlindSignature::<BBSplus<CS>>::blind_sign(
                    sk,
                    pk,
                    Some(&v),
                    header,
                    Some(&m)
                )
                .is_err());
                off += 32;
            }
            // one extra / one missing response scalar changes the generator count
            let mut v = cbytes.clone();
            v.extend_from_slice(&[0u8; 32]);
            assert!(BBSplusCommitment::from_bytes(&v).is_ok());
            assert!(
                BlindSignature::<BBSplus<CS>>::blind_sign(sk, pk, Some(&v), header, Some(&m))
                    .is_err()
            );
        }
    }

    // ZKPoK codec on its own
    let z = BBSplusZKPoK::new(
        Scalar::from(3u64),
        vec![Scalar::from(4u64), -Scalar::ONE],
        Scalar::from(5u64),
    );
    let zb = z.to_bytes();
    assert_eq!(zb.len(), 128);
    assert_eq!(BBSplusZKPoK::from_bytes(&zb).unwrap(), z);
    let z0 = BBSplusZKPoK::new(Scalar::ZERO, vec![], Scalar::ZERO);
    assert_eq!(z0.to_bytes(), vec![0u8; 64]);
    assert_eq!(BBSplusZKPoK::from_bytes(&[0u8; 64]).unwrap(), z0);
    for len in [0usize, 1, 32, 63, 65, 95, 97] {
        let r = BBSplusZKPoK::from_bytes(&vec![0u8; len]);
        assert!(r.is_err());
        t.put(format!("zkpok len {}", len), res_variant(&r));
    }
    t.put_bytes("zkpok", &zb);
}

#[test]
fn blind_sha256() {
    let mut t = Transcript::new("blind_sha256");
    blind_cases::<Bls12381Sha256>(&mut t);
    t.finish(GOLD_BLIND_SHA256);
}

#[test]
fn blind_shake256() {
    let mut t = Transcript::new("blind_shake256");
    blind_cases::<Bls12381Shake256>(&mut t);
    t.finish(GOLD_BLIND_SHAKE256);
}

// ---------------------------------------------------------------------------------------------
// transcript digests recorded on the reference revision
// ---------------------------------------------------------------------------------------------

const GOLD_H2S_SHA256: &str =
    "dec63ed0cbe7284b994e31e602d01a644b9edd96778c0e01f947377cdbcbbe83";
const GOLD_H2S_SHAKE256: &str =
    "1d540fb631ab431308168dad42684f1437c6c8b74200455cc6f57e0b300f589b";
const GOLD_GEN_SHA256: &str =
    "b6e15669d57c5ed0d8add8483a0bd8c43de286da2f9ad058e059c24bff29d968";
const GOLD_GEN_SHAKE256: &str =
    "bfb6838b2f708ab13111b323a060fc34c76d95f27ae30920ff0b2b502cc5b194";
const GOLD_MSG_SHA256: &str =
    "2b97fa96ae9b13535b494fcc805f5389f8b7b82cbc0d8d7ca92072aa317c0151";
const GOLD_MSG_SHAKE256: &str =
    "01e2a49c79055bd7e3ea2118903eea59e10bdab52e95d871f33054edf7539484";
const GOLD_SERIALIZE: &str =
    "4cab887b7ed8a59906e693ee176b3244204d9f9c4e4162b0a092cfb8d8e62b44";
const GOLD_CHAL_SHA256: &str =
    "af77720583871f561bdbeb43b0797f8e46f81d49d0c147871c0c0d16772113b4";
const GOLD_CHAL_SHAKE256: &str =
    "170c90f0d9ba1f59cf8843c38bfdc0e2fb6b3e8bee12ec94cd826f5284822529";
const GOLD_SIG_SHA256: &str =
    "7039f6305339d5571b26583f2f21ff06dc818e1cccd025145fbe4d220bb169d1";
const GOLD_SIG_SHAKE256: &str =
    "be89307e3f44382eabe90d2573d0e73501e8e1109d18c31bb9809aef6bbc5091";
const GOLD_PK_DECODING: &str =
    "e36e4ab3127a440876386f133263779a70f2bb4871a073b8f4d5d10fc4072b28";
const GOLD_SIG_DECODING: &str =
    "30108b8dfab3171aeabed4a8a99fde300606fea6967b6c804af7301bf1ce37ad";
const GOLD_PROOF_SHA256: &str =
    "01bdb54f1ddcc51916e1703fcceb29de0632bae29d76a776b7064a17c3b45d45";
const GOLD_PROOF_SHAKE256: &str =
    "01bdb54f1ddcc51916e1703fcceb29de0632bae29d76a776b7064a17c3b45d45";
const GOLD_BLIND_SHA256: &str =
    "c00889eb161dda656f8b09326f6f440cbbe9170f7e9da1981739e47aa7e00114";
const GOLD_BLIND_SHAKE256: &str =
    "c00889eb161dda656f8b09326f6f440cbbe9170f7e9da1981739e47aa7e00114";
