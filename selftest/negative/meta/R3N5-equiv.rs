// Equivalence tests for the BBS+ key / generator / utility / message helpers.
//
// Public API only, deterministic. Every value that ends up on the wire is
// compared with a constant recorded on the reference revision (table GOLDEN
// below), so that a behaviour-preserving refactoring has to reproduce it byte
// for byte. Randomised operations (proofs, commitments, random keypairs) are
// only checked through round trips.
//
// To (re)generate the table: EQUIV_DUMP=1 cargo test --test equiv -- --nocapture --test-threads 1

#![allow(non_snake_case)]

use bls12_381_plus::{G1Affine, G1Projective, G2Affine, G2Projective, Scalar};
use elliptic_curve::group::Curve;
use elliptic_curve::hash2curve::ExpandMsg;
use sha2::{Digest, Sha256};
use zkryptium::bbsplus::ciphersuites::{BbsCiphersuite, Bls12381Sha256, Bls12381Shake256};
use zkryptium::bbsplus::generators::Generators;
use zkryptium::bbsplus::keys::{BBSplusPublicKey, BBSplusSecretKey};
use zkryptium::errors::Error;
use zkryptium::keys::pair::KeyPair;
use zkryptium::keys::traits::{PrivateKey, PublicKey};
use zkryptium::schemes::algorithms::BBSplus;
use zkryptium::schemes::generics::{BlindSignature, Commitment, PoKSignature, Signature};
use zkryptium::utils::message::bbsplus_message::BBSplusMessage;
use zkryptium::utils::util::bbsplus_utils::{
    calculate_blind_challenge, calculate_random_scalars, generate_random_secret, get_messages,
    get_messages_vec, hash_to_scalar, i2osp, serialize, ScalarExt,
};

const GOLDEN: &[(&str, &str)] = &[
    // GOLDEN-BEGIN
    ("sha256/blind-challenge/api251", "43ed95ea07e4961030031a162dd646f40beca1453cbbb30779987bcb78964ced"),
    ("sha256/blind-challenge/none/1", "1cbcc1caca62b898361ae77d52983f71b11606ad08824e46c6b6fbfb694ed5f7"),
    ("sha256/blind-challenge/api/1", "6d2c230d77252b54f28406a567f27ce978ed76ccda6b48c53fdbfd224a570cc4"),
    ("sha256/blind-challenge/none/2", "5fcad680d803f1edaf962012ac1afd89a4de99a1c8e00e538455c52f73c4352b"),
    ("sha256/blind-challenge/api/2", "21b74933119a10e4441d6562ab4e40b9835d5d9d49bdf0a612db8dc8ab5d4be5"),
    ("sha256/blind-challenge/none/3", "4b82e9c3af644dcb1b03fb6f486e49a8731be8fd3f889f5c2d82da6008b9e4ba"),
    ("sha256/blind-challenge/api/3", "330885678bedf795abf850d1fa09fe709faca7a65b45a882019a03f72c9a729e"),
    ("sha256/blind-challenge/none/6", "5f32e84e7b7a0e22a7984c482155e271f46ceb50f1325a365c8f6b17615bfa3f"),
    ("sha256/blind-challenge/api/6", "66fa8110cbe3675bfcb6e95a41063649a8ec4dc59eac0646a2238cc480f82b1f"),
    ("sha256/blind-challenge/identity", "2a5e8a85d1fb53007f07d7312b86a1c025480f59b734b778f930223119ebafd2"),
    ("shake256/blind-challenge/api251", "259bed363e6fcd42928ee79d66635362a4d6d86ca0c6dcc2e2801195b1e7def0"),
    ("shake256/blind-challenge/none/1", "166762f205033d31479297cde1621e83c9676638671fdfb24c4bb931046b51a8"),
    ("shake256/blind-challenge/api/1", "39a77a81bb3637dc81aa82e340781443125a1ebacb611578570b97bc381e9038"),
    ("shake256/blind-challenge/none/2", "46334d150256f3548617b4b2c19fabb09d54637ce4bbd3db9df04f40081d5088"),
    ("shake256/blind-challenge/api/2", "6bd84289eaf0bb6bf28c8aa5b140937c151e2383c6c6dc4abc955525bc6799d3"),
    ("shake256/blind-challenge/none/3", "5076277eb7f652e55bf59eb79df9adfac9720a466cb030980c09193d22b39395"),
    ("shake256/blind-challenge/api/3", "480d043fb37e8b8022c6b752ea7140554bc1a33c1d61727bdd02555b992945f5"),
    ("shake256/blind-challenge/none/6", "0efff98fd485d980ac0b73e76881081f62ab69201b9172a5c60200b1d3a47f58"),
    ("shake256/blind-challenge/api/6", "1db360c9abfde4016ca953d13dcadc61a3901954e2696b9b41d21df34a37f504"),
    ("shake256/blind-challenge/identity", "7012d79b607afe29d4d76dda29191fd70e67d323e0b48525f5299a70fc410e2d"),
    ("sha256/generators/none/0", "e3b0c44298fc1c149afbf4c8996fb92427ae41e4649b934ca495991b7852b855"),
    ("sha256/generators/empty/0", "e3b0c44298fc1c149afbf4c8996fb92427ae41e4649b934ca495991b7852b855"),
    ("sha256/generators/api/0", "e3b0c44298fc1c149afbf4c8996fb92427ae41e4649b934ca495991b7852b855"),
    ("sha256/generators/blind/0", "e3b0c44298fc1c149afbf4c8996fb92427ae41e4649b934ca495991b7852b855"),
    ("sha256/generators/none/1", "de40a699c3fbdc0b6f0256835681223e5a9e2fdf6e530d7cde027042b3b6169c"),
    ("sha256/generators/empty/1", "de40a699c3fbdc0b6f0256835681223e5a9e2fdf6e530d7cde027042b3b6169c"),
    ("sha256/generators/api/1", "c88f6a3958e570b20df11ba1b0f0e6055b69780df5b79ec17434d381257143b6"),
    ("sha256/generators/blind/1", "66717ba7b871b091b6cc331c4ea0018c6387c95b7ba37bf039da6e1a4b6070b5"),
    ("sha256/generators/none/2", "62a25ef4dffc7fef4ffa37c95744fb4a3edc9dd18c5c9a4a9afb67a6b5764925"),
    ("sha256/generators/empty/2", "62a25ef4dffc7fef4ffa37c95744fb4a3edc9dd18c5c9a4a9afb67a6b5764925"),
    ("sha256/generators/api/2", "049b224777796e3fe8cba1edb0632d53004daf7121eccda43abc796822e4b54f"),
    ("sha256/generators/blind/2", "2ddd1282a7717761b00389aecca7fcaaac984c90090c4447570d7723442b1d36"),
    ("sha256/generators/none/3", "c4bfe613695929edd92011dd47d19d5636c5fec18cbfe807df8030ec88105fbe"),
    ("sha256/generators/empty/3", "c4bfe613695929edd92011dd47d19d5636c5fec18cbfe807df8030ec88105fbe"),
    ("sha256/generators/api/3", "b1efa4c8737e654cd1d208eda32fcec1b50c9577d4cf88f56a3d2f6130195ceb"),
    ("sha256/generators/blind/3", "062b0cea09917fdd0f2c01cffcdce52ed2a1f44dc19ad589efc6e3b331bb0bea"),
    ("sha256/generators/none/5", "5739fad10e40656f4897c6df81ff4086e68a41c655afa55f266f313469d12ef8"),
    ("sha256/generators/empty/5", "5739fad10e40656f4897c6df81ff4086e68a41c655afa55f266f313469d12ef8"),
    ("sha256/generators/api/5", "0b05ed54192ac7347f084c3f3948185497ec8a653242395afff68c110777363a"),
    ("sha256/generators/blind/5", "b860ceaf8110a261bec29b7199f67aa487164c11b07612c0ded2927c95cbcdb7"),
    ("sha256/generators/none/12", "0cac1fcfba3fc178be765b7849268034b2aab611d5d011f0aa1ddeac11355563"),
    ("sha256/generators/empty/12", "0cac1fcfba3fc178be765b7849268034b2aab611d5d011f0aa1ddeac11355563"),
    ("sha256/generators/api/12", "c60e4e3ba4bf003d6127e953568957056b13907de1a5a1f692fd2ca5dc9003fb"),
    ("sha256/generators/blind/12", "5cf9ae1f9433de72eb1627fff903845af7afa8820d92e9f06d82ee45e38d6747"),
    ("sha256/generators/api/first", "a9ec65b70a7fbe40c874c9eb041c2cb0a7af36ccec1bea48fa2ba4c2eb67ef7f9ecb17ed27d38d27cdeddff44c8137be"),
    ("sha256/generators/api/last", "889b76d1df62140633f1635c8b82a273308bf801f64e3e12bad0c9b48e62a626aeb08a7ffb30211be340f1d92d94b0c2"),
    ("sha256/generators/json/2", "{\"BP\":\"a8ce256102840821a3e94ea9025e4662b205762f9776b3a766c872b948f1fd225e7c59698588e70d11406d161b4e28c9\",\"Generators\":[\"a9ec65b70a7fbe40c874c9eb041c2cb0a7af36ccec1bea48fa2ba4c2eb67ef7f9ecb17ed27d38d27cdeddff44c8137be\",\"98cd5313283aaf5db1b3ba8611fe6070d19e605de4078c38df36019fbaad0bd28dd090fd24ed27f7f4d22d5ff5dea7d4\"]}"),
    ("sha256/generators/json/0", "{\"BP\":\"a8ce256102840821a3e94ea9025e4662b205762f9776b3a766c872b948f1fd225e7c59698588e70d11406d161b4e28c9\",\"Generators\":[]}"),
    ("shake256/generators/none/0", "e3b0c44298fc1c149afbf4c8996fb92427ae41e4649b934ca495991b7852b855"),
    ("shake256/generators/empty/0", "e3b0c44298fc1c149afbf4c8996fb92427ae41e4649b934ca495991b7852b855"),
    ("shake256/generators/api/0", "e3b0c44298fc1c149afbf4c8996fb92427ae41e4649b934ca495991b7852b855"),
    ("shake256/generators/blind/0", "e3b0c44298fc1c149afbf4c8996fb92427ae41e4649b934ca495991b7852b855"),
    ("shake256/generators/none/1", "912cab830fd7a688438a72e2c4d6fb8e61c09ba280c53ec2aef9c92dd80e299f"),
    ("shake256/generators/empty/1", "912cab830fd7a688438a72e2c4d6fb8e61c09ba280c53ec2aef9c92dd80e299f"),
    ("shake256/generators/api/1", "8042a983f6b57c9e44895d0408652f5e201cbb97d2fb1ebd8f6f8c262ddb7703"),
    ("shake256/generators/blind/1", "11c07999ab1d317d1385ffc41f1088d3be91cc4dddcbba220db9afc2ead70226"),
    ("shake256/generators/none/2", "7b8007f09ad66df5414f9fb1deb71c94b514682661d9b46389692cd3f699ac13"),
    ("shake256/generators/empty/2", "7b8007f09ad66df5414f9fb1deb71c94b514682661d9b46389692cd3f699ac13"),
    ("shake256/generators/api/2", "6773bc46c1eb1faeb307948b6830b0429092321e64e5483018450a9a73135fdd"),
    ("shake256/generators/blind/2", "dce2079f292a5b983a22b418246ef6c879f485b8771752ee373f8569391760ce"),
    ("shake256/generators/none/3", "c7194fada243cb01272b182c5f75d4192aecb1ae50f0d2e67d4fa0492fd5c75c"),
    ("shake256/generators/empty/3", "c7194fada243cb01272b182c5f75d4192aecb1ae50f0d2e67d4fa0492fd5c75c"),
    ("shake256/generators/api/3", "c77a87ea55ad1368f816f34171399a64b681ee407f0bb9088a3b5f089dd5f02f"),
    ("shake256/generators/blind/3", "32ec02028e85740c990271e3173d41b43fc745a036bba5282ef9536264ef75ca"),
    ("shake256/generators/none/5", "aa0f21368c93ec71ac460b3ccf513dbdeb7d16e1647b1aec3adf4f9abbb1549d"),
    ("shake256/generators/empty/5", "aa0f21368c93ec71ac460b3ccf513dbdeb7d16e1647b1aec3adf4f9abbb1549d"),
    ("shake256/generators/api/5", "121f49092e5fddc4c273ee09e4b8bc4addec7272e6ee20eed7bd75f53892d227"),
    ("shake256/generators/blind/5", "468cec1f70d371507ed820c2ca71ffd65427af5288de79d5421e8a54edaca788"),
    ("shake256/generators/none/12", "321b70819ac6ba1e6addf7697aded70c5cf43d00375a4ec0c78c46358584e9b2"),
    ("shake256/generators/empty/12", "321b70819ac6ba1e6addf7697aded70c5cf43d00375a4ec0c78c46358584e9b2"),
    ("shake256/generators/api/12", "ea9f50e5efd35a71764a3552df356c59436a1e9e5ac94e655c6adcf23b992d04"),
    ("shake256/generators/blind/12", "0a547067f32fe1b9498e727f28ef56c0fefef7f1da9af1adb4b5cd63a492dbbb"),
    ("shake256/generators/api/first", "a9d40131066399fd41af51d883f4473b0dcd7d028d3d34ef17f3241d204e28507d7ecae032afa1d5490849b7678ec1f8"),
    ("shake256/generators/api/last", "ad08122aa400de6a785078d0b515c85c0890640f11e29963580af89d9c96931a3816a341e174460980b41709218a18a1"),
    ("shake256/generators/json/2", "{\"BP\":\"8929dfbc7e6642c4ed9cba0856e493f8b9d7d5fcb0c31ef8fdcd34d50648a56c795e106e9eada6e0bda386b414150755\",\"Generators\":[\"a9d40131066399fd41af51d883f4473b0dcd7d028d3d34ef17f3241d204e28507d7ecae032afa1d5490849b7678ec1f8\",\"903c7ca0b7e78a2017d0baf74103bd00ca8ff9bf429f834f071c75ffe6bfdec6d6dca15417e4ac08ca4ae1e78b7adc0e\"]}"),
    ("shake256/generators/json/0", "{\"BP\":\"8929dfbc7e6642c4ed9cba0856e493f8b9d7d5fcb0c31ef8fdcd34d50648a56c795e106e9eada6e0bda386b414150755\",\"Generators\":[]}"),
    ("sha256/h2s/empty-empty", "57aa152a26e291d58c5323c7ee7fc227d9b09502e4b24f41fa09ed8b0ab8c468"),
    ("sha256/h2s/empty-dst", "4f86940f937e1e2a92c59fd5c05f8a783458339776b9bdcea60764970b2ee0e7"),
    ("sha256/h2s/msg-emptydst", "3c71b41eed91205a50aa62ff56daa81c2e71688a2aae9a85382f6481ed62f62d"),
    ("sha256/h2s/msg-dst", "0f0c6727793167190316929c57dc0483d7039c9b54fedd9fce3c17a08e5cd279"),
    ("sha256/h2s/long-dst", "66a941f0bdc42941d1ff4aa5b1e454a4e9c65258daffa1335bc858867d824f81"),
    ("sha256/h2s/msg-dst255", "65c4725af705b0953017d95090b589ff62327f06df3f62919111c7cb1980439b"),
    ("shake256/h2s/empty-empty", "0cb6b67f55f461f686be9af802abed959126536354f0e5562e2677ef2e5a062c"),
    ("shake256/h2s/empty-dst", "4afc0697e7a7f4ce7a42c5331dedecd4981eccd7f98030481563f008d30878c0"),
    ("shake256/h2s/msg-emptydst", "2acf24f8432ed035e356df40615bad54751500f98f4a3a2186abfdfeb60946f6"),
    ("shake256/h2s/msg-dst", "4197d1aad6553613755c50c4f7c14deb9ccf5e2eed7815e2c127e6cd417c6168"),
    ("shake256/h2s/long-dst", "6446de19b211cc9ffb27bff3f2b6fa741a80e4c572ea2d244aef8c5d5459cc4d"),
    ("shake256/h2s/msg-dst255", "38dce2ba16b93e6de528cc86301a630de319a8c5f0526ec09c9f6428be2afb97"),
    ("sha256/keys/none/sk", "4a9d8740c08314795d0ef3026b443ef6bfea34f587581b27de70dbbb8198d7b5"),
    ("sha256/keys/none/pk", "a5ff76dffeda13a651ea570cc16bbbe3c4153fef38e2e77a0864988f734b25c42b286b54dbff2d0afc2f5bc91cd1b0d8192123dd0450738f9b9361e0e21e2bab7b4e0721c93d79dbd0cb2628e3fd2cb83cbe8d76c08495ecd61f0d0eba6a2b34"),
    ("sha256/keys/none/json", "{\"public\":\"a5ff76dffeda13a651ea570cc16bbbe3c4153fef38e2e77a0864988f734b25c42b286b54dbff2d0afc2f5bc91cd1b0d8192123dd0450738f9b9361e0e21e2bab7b4e0721c93d79dbd0cb2628e3fd2cb83cbe8d76c08495ecd61f0d0eba6a2b34\",\"private\":\"4a9d8740c08314795d0ef3026b443ef6bfea34f587581b27de70dbbb8198d7b5\"}"),
    ("sha256/keys/info/sk", "2284463afe3133da06cfd4b782b62c0844b41225f19ac358bbe320113d11e6ca"),
    ("sha256/keys/info/pk", "b9536811608fb8e73aa9e1bf7bba188fd65ad66db9b0bfd777ebb7bc624db439ca007c9ae21da3a439fcb9b048382b7f129c26609002de9cd1ef28080ef0255428a1c871792d5937a2d38d6d66402e53a2ebaa27d775a7ef7b58178bb0252efd"),
    ("sha256/keys/custom/sk", "38f3ce2e0cbecf56a204bc2884a61078ba218a320e88416bd5e8bc954392bb12"),
    ("sha256/keys/emptydst/sk", "244f5e8a58eb2cabfdd118a04f79a90cbec4105c5d20239db60f1e04e6dcbbb0"),
    ("sha256/keys/ikm32/sk", "251fd2d1ad75610bc7c2705ca276faeb14bcb01460ccd44db35139d6aee8f20b"),
    ("sha256/keys/info65535/sk", "6df9b30e9cc9020197ebd75fdb4dd8bebf6d1cbf2046df2c162f302dd50e0346"),
    ("sha256/keys/dst255/sk", "0396005ce41d5b5a08e44096746b18612001f687213e5248a788c904fcc7cd44"),
    ("shake256/keys/none/sk", "6d2152123ef3964ad8f9a8e130716d44067547ba530f89adcad12f23faa7b41f"),
    ("shake256/keys/none/pk", "8ce676fc71fc04c3359894255e553130737364172f07627f0679aa1f4d418c73a74b3638556b27c0a1d4eb59978aed44034da99582c0f24639fecb3dea4d1eb9ccdd395030d75baf3d04c06bfc471f74d47cb510f4205f4742890f84b49167b5"),
    ("shake256/keys/none/json", "{\"public\":\"8ce676fc71fc04c3359894255e553130737364172f07627f0679aa1f4d418c73a74b3638556b27c0a1d4eb59978aed44034da99582c0f24639fecb3dea4d1eb9ccdd395030d75baf3d04c06bfc471f74d47cb510f4205f4742890f84b49167b5\",\"private\":\"6d2152123ef3964ad8f9a8e130716d44067547ba530f89adcad12f23faa7b41f\"}"),
    ("shake256/keys/info/sk", "59814c614bbcfe1b0ea0d074545ed3948029daeabe2a7196d44845426c16b681"),
    ("shake256/keys/info/pk", "875f16d3ea3d460e483008588a4882daac73b782db7a70be16dbc529e5984644178d23ae3026e4d6130493e9f79a9439125448e79fb3ac19276aeb27d82ae0e1088d3f0a339ae7271a1e8f276b95248a2df1c6c2c5ce08b58dd304c912982dda"),
    ("shake256/keys/custom/sk", "083728df65a2cf2d3984b840b7e4373512162655ec4bac3b84d82ac00f34f076"),
    ("shake256/keys/emptydst/sk", "11c40657a3c915f32b9a09c3fe91ad6615cab3597aa63574081348729533d352"),
    ("shake256/keys/ikm32/sk", "47120e2ea38f77b7b87c9fa6af42935da18a39cad3c5f09ef8cc28828f4976ba"),
    ("shake256/keys/info65535/sk", "18bdee403832b689461cae838b96e82282f391c5c6086caf997233a3a46de5e9"),
    ("shake256/keys/dst255/sk", "5928f3cb445e027f33dbfb2dedd4cd64fda6221fe5df1197c2fc9fbf2a02a7d2"),
    ("message/json", "{\"value\":\"4aca6b6217d002027c697caa3d0d0a60452a59ac3087702f2187ae0b2289012a\"}"),
    ("sha256/messages/api/1", "ff2d0d0abd3871f39ab59e46bb6d3d9663dd7c6c91625a205f5e3c538d27b9bf"),
    ("sha256/messages/empty/1", "2d52a4d9adbc793d282be547bd1f56fe0977d6127618bc4629159814cd35daf1"),
    ("sha256/messages/api/2", "68b9b320d0925e29cc030c90e909721c7642e97b6358c3637ecb788829f6f9be"),
    ("sha256/messages/empty/2", "b1f4cc705de027e918e48578b8cca2d782e7c3e610f06493a5cd38510e7d203b"),
    ("sha256/messages/api/5", "3459c123019ff33fe48074897c62aa6a92f470ad9f11b2787efef5a4aa0bfadc"),
    ("sha256/messages/empty/5", "a4ee546ea74993871bfa8ec522f90c9a96a1303e2e6362692da5b095cc139bfd"),
    ("sha256/messages/api/9", "a0a889eb636653855da8ddf5dc0a250cf8fc3686110daeeb4fe0747407085f68"),
    ("sha256/messages/empty/9", "b0a3d7f43d4d0622e94dcb88844f9612bd482b5b4399fc695d2a39b665f7fb6a"),
    ("sha256/messages/maxapi", "1b5890536aa869c5bf5a98c86281055ebae6be65f29afce37bfdc593f43fb9c7"),
    ("shake256/messages/api/1", "3919f8613ff7649f17744763dc7ddacc1f1660b63a33e37438979fcb837ae042"),
    ("shake256/messages/empty/1", "56b84558183a97a83abfb8f02d7326b4ac18fe15b0708bd9368717e266b67252"),
    ("shake256/messages/api/2", "d1ca506d9eabfd08782032deab755e6c4a780c210e0e0f23c9ddb17eb59d9011"),
    ("shake256/messages/empty/2", "d1143164d4bdcc84a96f8ba3803c73f174c422c03d9b7e88ddc8e5ffcbfdc666"),
    ("shake256/messages/api/5", "27bfa94abe25bc5b959386346a7c3a4dcda5a145b4417715b8e46228a1eb907a"),
    ("shake256/messages/empty/5", "73aea485e39419c4060c6d35c2c4cf53c5bfff06a77b3d96af8762cc34a03f75"),
    ("shake256/messages/api/9", "e6fe57e707ac42e4d09a6b163e462c433770b69efea8799c130b90d9730ce127"),
    ("shake256/messages/empty/9", "1e99f637142e8e59046ab6d918594e910a5ea86bae4f50b61f79b6b085c36b10"),
    ("shake256/messages/maxapi", "5dd97233d8731b0808b591b228cc550e786f19f9fc2ec0830ed1f3efffa7aef2"),
    ("pk/perturbed/rejected", "8"),
    ("pk/coords/x", "050c09a9c5c3f141f0a2c0cfaaef026430fdfd42683ead508a317c9d6e5c2d03dd64ec8a29cffaa804ac2bfb02028a390e29a2a39e49fb816408d19661bd456fe71974ae92998151d29c376ea7b6604d04076d00995d493e927676d40228bbe7"),
    ("pk/coords/y", "0983c8353ee10c2315fffa039751c2e3f55dbbe7dba92132363cd4f5b54fc7e1057b31178afdcb7c92b05fdfab8d5355076a14ec25b21623d0fcebf6e3dc2f57007095177524652f693bb4df3ca2158c93e159c9875c30870dff9e50be57abdf"),
    ("pk/json", "\"850c09a9c5c3f141f0a2c0cfaaef026430fdfd42683ead508a317c9d6e5c2d03dd64ec8a29cffaa804ac2bfb02028a390e29a2a39e49fb816408d19661bd456fe71974ae92998151d29c376ea7b6604d04076d00995d493e927676d40228bbe7\""),
    ("sk/json", "\"47120e2ea38f77b7b87c9fa6af42935da18a39cad3c5f09ef8cc28828f4976ba\""),
    ("serialize/scalars", "249de568bc210799886ca1be3ef9924d99fb8bbe6f3a30604a13247a1017b39b"),
    ("serialize/g1", "82714f3e06ed2d89a0537ddc69367269bea5cb584792029a7d4b68221b44bfd9"),
    ("serialize/g2", "dc923f0aa95d73afe50675ceb904ae2e70f3dfddb349486249992c8c100eb832"),
    ("sha256/sign/0/none", "8030a5e0c1c1107aceccbfeaa1663a751f32e6d276645a6bf23ecd26ae2275372dbe82b9ed7fccafbd8869e30c8344975f99c48f0e708ffcdff474a0c32d1c134e559d75ee3db74e1e78468f0af525e2"),
    ("sha256/sign/0/empty", "8030a5e0c1c1107aceccbfeaa1663a751f32e6d276645a6bf23ecd26ae2275372dbe82b9ed7fccafbd8869e30c8344975f99c48f0e708ffcdff474a0c32d1c134e559d75ee3db74e1e78468f0af525e2"),
    ("sha256/sign/0/hdr", "8725fd98a234a8a0ec3ff4d07400185cb4a877f4ba0c2a7847f4d874e70f8965a03a36f5a17b930da2a48b3b4905aa816a5ee39474994877c2d682663061f50e454121a6578356b1f776ee56dd5ce361"),
    ("sha256/sign/1/none", "a41cb69fe7258343c00be5629c2fe4bef4dc5f9bdafbfa5dc7ac96fcefbf62e4ebc5b5ef7bcc074642781dbb42b6e36f229b3138adfa643a66db8f40a6e48e2eb729dbeac282d4e1250d2c54f17ef779"),
    ("sha256/sign/1/empty", "a41cb69fe7258343c00be5629c2fe4bef4dc5f9bdafbfa5dc7ac96fcefbf62e4ebc5b5ef7bcc074642781dbb42b6e36f229b3138adfa643a66db8f40a6e48e2eb729dbeac282d4e1250d2c54f17ef779"),
    ("sha256/sign/1/hdr", "a5ce55eb1d865d3bfbf091e19ebe5103c07060c0a0e5857ce97dc79d1b5f63f5c8f8ec224e3699158ed45f9816e5de515cc133e01ec84bf7aada1e1887b45d899b979a7568d7a730fbb332921b90183e"),
    ("sha256/sign/2/none", "a357ecaa13f232a8ea325fcde7ed86d874a3d1d82bc0308642617e0a09f3facd817d576525f6a1b6586acf07c9fd17501ba4326620d257756ec90af6ce8e0fd8a156ff6b7778b7fc0aa3e868fdc2b048"),
    ("sha256/sign/2/empty", "a357ecaa13f232a8ea325fcde7ed86d874a3d1d82bc0308642617e0a09f3facd817d576525f6a1b6586acf07c9fd17501ba4326620d257756ec90af6ce8e0fd8a156ff6b7778b7fc0aa3e868fdc2b048"),
    ("sha256/sign/2/hdr", "809d7abd9ee2de59c92e692945fe3063bf42730df75e66bc2eae5a86340c1db7d2d674baf18a9daa061d996524f82d331a0cf1b768319f48b3ead2634940098f3945783fbc8e740ac594e854e21c2897"),
    ("sha256/sign/4/none", "8cb65cf64aeff3abbda1f09a85599b2e6011fd1509b15bdd82025529373625387a931260625ba9478cbae70d1dcc3e2e1ee1d1bb3d8ab4275e190353ac9a7cf3d0846cb2ea91fbc243b15b1526af3d3b"),
    ("sha256/sign/4/empty", "8cb65cf64aeff3abbda1f09a85599b2e6011fd1509b15bdd82025529373625387a931260625ba9478cbae70d1dcc3e2e1ee1d1bb3d8ab4275e190353ac9a7cf3d0846cb2ea91fbc243b15b1526af3d3b"),
    ("sha256/sign/4/hdr", "a956366ef038e9b5e36701d80eebc92c01825b3cd0d4f3719b406203558d9cff3632c77e9bdead8751be07400b6430ea334652799472bdd8166df8dfff65b3e3a2f167a029ba957f404a4437a49da868"),
    ("sha256/sign/10/none", "a78ee7a65379c2b14a309d098bfae9ee1d3237344dbe165aefae536a4a438523e760a01890df265524709be3b187d53904f7bb4c5ffbf2daa7d537b9b3f3beeca03164d1ff332ce41418e617ef5222be"),
    ("sha256/sign/10/empty", "a78ee7a65379c2b14a309d098bfae9ee1d3237344dbe165aefae536a4a438523e760a01890df265524709be3b187d53904f7bb4c5ffbf2daa7d537b9b3f3beeca03164d1ff332ce41418e617ef5222be"),
    ("sha256/sign/10/hdr", "ad18eda5a076c6b685a46eac61bbcf7be01d29e0c90ed8a4391a7982f661dc374101d6a38de54211710bdc28245990f96d3cb55503076cfeb97b999033e3e1ad9b3b1fb1bc83f20c8427942e4d94eef8"),
    ("shake256/sign/0/none", "990076d7e51a35b3aa58e6bb883c3810fe18ba5343512e409f0ff8a9d3571f9c4587f5ea43838675cc057fffe7866e15396294faa3df80997247f9bbcb999180ae01fa21f1936ccb726eadcc72ab67e3"),
    ("shake256/sign/0/empty", "990076d7e51a35b3aa58e6bb883c3810fe18ba5343512e409f0ff8a9d3571f9c4587f5ea43838675cc057fffe7866e15396294faa3df80997247f9bbcb999180ae01fa21f1936ccb726eadcc72ab67e3"),
    ("shake256/sign/0/hdr", "a5d9887a01caa4ac5d78b8c3b2e56c4936a92e6ebc21d1548f3a814e6ea06b43699402cfea56d756133719d72da2f308474ed8a437fa7f028b25886157c103ff9e25c72b02c0b163bc5a4bf63dc56e92"),
    ("shake256/sign/1/none", "a1cb873b94e0e2461b1ab37c95d866293e0d4cbc060cb844284b73802cbd7788f1e90a4c22254f2ceb76d46bf4f5f56d1471830814e051770782b2b861205ef1a8412cd811ee10f3e9352fcea7bdb73b"),
    ("shake256/sign/1/empty", "a1cb873b94e0e2461b1ab37c95d866293e0d4cbc060cb844284b73802cbd7788f1e90a4c22254f2ceb76d46bf4f5f56d1471830814e051770782b2b861205ef1a8412cd811ee10f3e9352fcea7bdb73b"),
    ("shake256/sign/1/hdr", "8e31320ccae7676d20ceb154fd7f96ae5bd67a2dbe5dd14409eefb454649418b1cb9d7dc8ec2179609fe1490e93f555f2b0f54888cf657459c77e058866a04aff02b9a55f8b6e2169f9496dece01fe58"),
    ("shake256/sign/2/none", "ab60fab83f8dffdc9b66bc36c3e7a2d52128444c85a2ae0f228fcb40da9fd7dbec2a851b25831161fd72becf9461166c263f740a4aef624ee7201de41ecec509f0f727b8e3bbf40ff1877e0f499f70d3"),
    ("shake256/sign/2/empty", "ab60fab83f8dffdc9b66bc36c3e7a2d52128444c85a2ae0f228fcb40da9fd7dbec2a851b25831161fd72becf9461166c263f740a4aef624ee7201de41ecec509f0f727b8e3bbf40ff1877e0f499f70d3"),
    ("shake256/sign/2/hdr", "a799036cb0e9f66c86a7d37115f4ae84078eb973453caddcebb570c7a714804025467f5ccfcd2fff63573c0cafa7ae49378bb9dd7c2e7e721687d4f383a7f4511677373d0e1f283cbccf14d5e40a2c64"),
    ("shake256/sign/4/none", "90992308c109f789fed87b9aa7c8b3ac3a9cc0c32ee6a8f2f95ec15a9b30fadd395e655b61888277b45944287114f11506e21569c16506533fe3b39692a25d7bc8a97e4520e870e68a1ed83697c77282"),
    ("shake256/sign/4/empty", "90992308c109f789fed87b9aa7c8b3ac3a9cc0c32ee6a8f2f95ec15a9b30fadd395e655b61888277b45944287114f11506e21569c16506533fe3b39692a25d7bc8a97e4520e870e68a1ed83697c77282"),
    ("shake256/sign/4/hdr", "8c4d398e909b3fff5464bd7cc203230d2136f87e0e275fddb6bee39eaf51878f53455114ef13c0b009979d43ebe5e7ac36ae5c7c0223b9704f26403233cc6fcde04c25613115f5a1382bd6aaf29f9fe6"),
    ("shake256/sign/10/none", "9389036e514bbba3dae67f313d44676bad8095fb5223a28382ac32ede1b29be90a44b3abdd65a53394da375ca5dda50a19eb9aa3186980cf570d599c439237efd9a3eef53339f0381281bcbbc913042a"),
    ("shake256/sign/10/empty", "9389036e514bbba3dae67f313d44676bad8095fb5223a28382ac32ede1b29be90a44b3abdd65a53394da375ca5dda50a19eb9aa3186980cf570d599c439237efd9a3eef53339f0381281bcbbc913042a"),
    ("shake256/sign/10/hdr", "af210bbe8b1e542a644d1cd57fd4a6c215ef04b27dfa6f948edde8cb0c04d23dbba1a43c3a5d64dcd5be95341667e8502d7ec4700238c03d0faed2afa8abef2d462bb6c2edc993ae552346fb245ea721"),
    // GOLDEN-END
];

fn golden(name: &str, actual: &str) {
    if std::env::var("EQUIV_DUMP").is_ok() {
        println!("GOLDEN    (\"{}\", \"{}\"),", name, actual);
        return;
    }
    let expected = GOLDEN
        .iter()
        .find(|(n, _)| *n == name)
        .unwrap_or_else(|| panic!("no golden value recorded for {}", name))
        .1;
    assert_eq!(expected, actual, "golden value mismatch for {}", name);
}

fn digest(bytes: &[u8]) -> String {
    hex::encode(Sha256::digest(bytes))
}

fn ikm(n: usize) -> Vec<u8> {
    (0..n).map(|i| (i * 7 + 3) as u8).collect()
}

fn msgs(n: usize) -> Vec<Vec<u8>> {
    // messages of different lengths, the first one empty
    (0..n)
        .map(|i| (0..(i * 5)).map(|j| (i * 31 + j) as u8).collect())
        .collect()
}

// the group order r, big endian
const R_BE: &str = "73eda753299d7d483339d80809a1d80553bda402fffe5bfeffffffff00000001";

fn r_minus_one() -> [u8; 32] {
    let mut b: [u8; 32] = hex::decode(R_BE).unwrap().try_into().unwrap();
    b[31] -= 1;
    b
}

fn r_bytes() -> [u8; 32] {
    hex::decode(R_BE).unwrap().try_into().unwrap()
}

// ------------------------------------------------------------------ keys

fn keys_suite<CS>(tag: &str)
where
    CS: BbsCiphersuite + std::fmt::Debug + Clone,
    CS::Expander: for<'a> ExpandMsg<'a>,
{
    let material = ikm(40);

    // None and Some(empty) key_info agree, None and explicit default key_dst agree
    let kp_none = KeyPair::<BBSplus<CS>>::generate(&material, None, None).unwrap();
    let kp_empty = KeyPair::<BBSplus<CS>>::generate(&material, Some(&[]), None).unwrap();
    let default_dst = [CS::API_ID, CS::KEYGEN_DST].concat();
    let kp_dst =
        KeyPair::<BBSplus<CS>>::generate(&material, Some(b""), Some(&default_dst)).unwrap();
    assert_eq!(kp_none, kp_empty);
    assert_eq!(kp_none, kp_dst);
    golden(
        &format!("{tag}/keys/none/sk"),
        &kp_none.private_key().encode(),
    );
    golden(
        &format!("{tag}/keys/none/pk"),
        &kp_none.public_key().encode(),
    );
    golden(
        &format!("{tag}/keys/none/json"),
        &serde_json::to_string(&kp_none).unwrap(),
    );

    // the public key is SkToPk(sk)
    assert_eq!(kp_none.private_key().public_key(), *kp_none.public_key());
    assert_eq!(
        kp_none.public_key().0,
        G2Projective::GENERATOR * kp_none.private_key().0
    );
    let (sk_part, pk_part) = kp_none.clone().into_parts();
    assert_eq!(&sk_part, kp_none.private_key());
    assert_eq!(&pk_part, kp_none.public_key());

    // key_info / key_dst variations
    let kp_info = KeyPair::<BBSplus<CS>>::generate(&material, Some(b"some key info"), None).unwrap();
    assert_ne!(kp_info, kp_none);
    golden(
        &format!("{tag}/keys/info/sk"),
        &kp_info.private_key().encode(),
    );
    golden(
        &format!("{tag}/keys/info/pk"),
        &kp_info.public_key().encode(),
    );
    let kp_custom =
        KeyPair::<BBSplus<CS>>::generate(&material, Some(b"i"), Some(b"custom dst")).unwrap();
    golden(
        &format!("{tag}/keys/custom/sk"),
        &kp_custom.private_key().encode(),
    );
    let kp_empty_dst = KeyPair::<BBSplus<CS>>::generate(&material, None, Some(b"")).unwrap();
    golden(
        &format!("{tag}/keys/emptydst/sk"),
        &kp_empty_dst.private_key().encode(),
    );

    // key material length boundary
    assert!(matches!(
        KeyPair::<BBSplus<CS>>::generate(&ikm(31), None, None),
        Err(Error::KeyGenError(_))
    ));
    assert!(matches!(
        KeyPair::<BBSplus<CS>>::generate(&[], None, None),
        Err(Error::KeyGenError(_))
    ));
    let kp32 = KeyPair::<BBSplus<CS>>::generate(&ikm(32), None, None).unwrap();
    golden(&format!("{tag}/keys/ikm32/sk"), &kp32.private_key().encode());

    // key_info length boundary
    let info_max = vec![0x5au8; 65535];
    let info_over = vec![0x5au8; 65536];
    let kp_max = KeyPair::<BBSplus<CS>>::generate(&material, Some(&info_max), None).unwrap();
    golden(
        &format!("{tag}/keys/info65535/sk"),
        &kp_max.private_key().encode(),
    );
    assert!(matches!(
        KeyPair::<BBSplus<CS>>::generate(&material, Some(&info_over), None),
        Err(Error::KeyGenError(_))
    ));
    // short key material is reported before an over-long key_info
    assert!(matches!(
        KeyPair::<BBSplus<CS>>::generate(&ikm(3), Some(&info_over), None),
        Err(Error::KeyGenError(_))
    ));

    // key_dst length boundary (hash_to_scalar refuses dst longer than 255)
    let dst255 = vec![b'd'; 255];
    let dst256 = vec![b'd'; 256];
    let kp255 = KeyPair::<BBSplus<CS>>::generate(&material, None, Some(&dst255)).unwrap();
    golden(
        &format!("{tag}/keys/dst255/sk"),
        &kp255.private_key().encode(),
    );
    assert!(matches!(
        KeyPair::<BBSplus<CS>>::generate(&material, None, Some(&dst256)),
        Err(Error::HashToScalarError)
    ));

    // random keypairs are consistent and distinct
    let r1 = KeyPair::<BBSplus<CS>>::random().unwrap();
    let r2 = KeyPair::<BBSplus<CS>>::random().unwrap();
    assert_eq!(r1.private_key().public_key(), *r1.public_key());
    assert_eq!(r2.private_key().public_key(), *r2.public_key());
    assert_ne!(r1, r2);
    let back: KeyPair<BBSplus<CS>> =
        serde_json::from_str(&serde_json::to_string(&r1).unwrap()).unwrap();
    assert_eq!(back, r1);
}

#[test]
fn keys_sha256() {
    keys_suite::<Bls12381Sha256>("sha256");
}

#[test]
fn keys_shake256() {
    keys_suite::<Bls12381Shake256>("shake256");
}

#[test]
fn public_key_encodings() {
    let kp = KeyPair::<BBSplus<Bls12381Sha256>>::generate(&ikm(32), None, None).unwrap();
    let pk = kp.public_key();

    // compressed round trip
    let bytes = pk.to_bytes();
    assert_eq!(bytes.len(), 96);
    assert_eq!(&BBSplusPublicKey::from_bytes(&bytes).unwrap(), pk);
    assert_eq!(pk.encode(), hex::encode(bytes));
    assert_eq!(PublicKey::to_bytes(pk), bytes);
    assert_eq!(PublicKey::encode(pk), hex::encode(bytes));
    assert_eq!(bytes, pk.0.to_affine().to_compressed());

    // wrong lengths
    for len in [0usize, 1, 48, 95, 97, 192] {
        let mut v = bytes.to_vec();
        v.resize(len, 0);
        assert!(
            matches!(
                BBSplusPublicKey::from_bytes(&v),
                Err(Error::KeyDeserializationError)
            ),
            "len {}",
            len
        );
    }

    // identity, compressed form
    let mut id = [0u8; 96];
    id[0] = 0xc0;
    assert_eq!(id, G2Affine::identity().to_compressed());
    assert!(matches!(
        BBSplusPublicKey::from_bytes(&id),
        Err(Error::KeyDeserializationError)
    ));

    // malformed encodings
    assert!(BBSplusPublicKey::from_bytes(&[0u8; 96]).is_err());
    assert!(BBSplusPublicKey::from_bytes(&[0xffu8; 96]).is_err());
    let mut flipped = bytes;
    flipped[0] &= 0x7f; // compression flag cleared
    assert!(BBSplusPublicKey::from_bytes(&flipped).is_err());
    let mut inf_flag = bytes;
    inf_flag[0] |= 0x40; // infinity flag on a non-zero body
    assert!(BBSplusPublicKey::from_bytes(&inf_flag).is_err());
    // x coordinates that are (very probably) not on the curve or not in the subgroup
    let mut rejected = 0;
    for k in 1u8..=8 {
        let mut b = bytes;
        b[95] ^= k;
        match BBSplusPublicKey::from_bytes(&b) {
            Ok(p) => assert_eq!(p.to_bytes(), b),
            Err(Error::KeyDeserializationError) => rejected += 1,
            Err(e) => panic!("unexpected error {:?}", e),
        }
    }
    golden("pk/perturbed/rejected", &rejected.to_string());
    // the sign bit selects the other root: still a valid key, a different one
    let mut neg = bytes;
    neg[0] ^= 0x20;
    let neg_pk = BBSplusPublicKey::from_bytes(&neg).unwrap();
    assert_eq!(neg_pk.0, -pk.0);

    // coordinates round trip
    let (x, y) = pk.to_coordinates();
    assert_eq!(x.len(), BBSplusPublicKey::COORDINATE_LEN);
    let uncompressed = pk.0.to_affine().to_uncompressed();
    assert_eq!(&x[..], &uncompressed[..96]);
    assert_eq!(&y[..], &uncompressed[96..]);
    assert_eq!(&BBSplusPublicKey::from_coordinates(&x, &y).unwrap(), pk);
    golden("pk/coords/x", &hex::encode(x));
    golden("pk/coords/y", &hex::encode(y));

    // identity, uncompressed form
    let mut idx = [0u8; 96];
    idx[0] = 0x40;
    let idy = [0u8; 96];
    assert!(matches!(
        BBSplusPublicKey::from_coordinates(&idx, &idy),
        Err(Error::KeyDeserializationError)
    ));
    // malformed coordinates
    assert!(matches!(
        BBSplusPublicKey::from_coordinates(&[0u8; 96], &[0u8; 96]),
        Err(Error::KeyDeserializationError)
    ));
    assert!(matches!(
        BBSplusPublicKey::from_coordinates(&[0xffu8; 96], &[0xffu8; 96]),
        Err(Error::KeyDeserializationError)
    ));
    // swapped coordinates: not on the curve
    assert!(matches!(
        BBSplusPublicKey::from_coordinates(&y, &x),
        Err(Error::KeyDeserializationError)
    ));
    // wrong y
    let mut y_bad = y;
    y_bad[95] ^= 1;
    assert!(matches!(
        BBSplusPublicKey::from_coordinates(&x, &y_bad),
        Err(Error::KeyDeserializationError)
    ));
    // compressed-flag set in the uncompressed form
    let mut x_flag = x;
    x_flag[0] |= 0x80;
    assert!(BBSplusPublicKey::from_coordinates(&x_flag, &y).is_err());

    // serde
    let json = serde_json::to_string(pk).unwrap();
    golden("pk/json", &json);
    let back: BBSplusPublicKey = serde_json::from_str(&json).unwrap();
    assert_eq!(&back, pk);
}

#[test]
fn secret_key_encodings() {
    let kp = KeyPair::<BBSplus<Bls12381Shake256>>::generate(&ikm(32), None, None).unwrap();
    let sk = kp.private_key();
    let bytes = sk.to_bytes();
    assert_eq!(&BBSplusSecretKey::from_bytes(&bytes).unwrap(), sk);
    assert_eq!(sk.encode(), hex::encode(bytes));
    assert_eq!(PrivateKey::to_bytes(sk), bytes);
    assert_eq!(PrivateKey::encode(sk), hex::encode(bytes));
    assert_eq!(bytes, sk.0.to_be_bytes());

    for len in [0usize, 1, 31, 33, 64] {
        let mut v = bytes.to_vec();
        v.resize(len, 0);
        assert!(
            matches!(
                BBSplusSecretKey::from_bytes(&v),
                Err(Error::KeyDeserializationError)
            ),
            "len {}",
            len
        );
    }
    // range boundary
    assert!(BBSplusSecretKey::from_bytes(&r_minus_one()).is_ok());
    assert!(matches!(
        BBSplusSecretKey::from_bytes(&r_bytes()),
        Err(Error::KeyDeserializationError)
    ));
    assert!(matches!(
        BBSplusSecretKey::from_bytes(&[0xffu8; 32]),
        Err(Error::KeyDeserializationError)
    ));
    // zero and one are decoded as they are
    assert_eq!(
        BBSplusSecretKey::from_bytes(&[0u8; 32]).unwrap().0,
        Scalar::ZERO
    );
    let mut one = [0u8; 32];
    one[31] = 1;
    let sk_one = BBSplusSecretKey::from_bytes(&one).unwrap();
    assert_eq!(sk_one.0, Scalar::ONE);
    assert_eq!(sk_one.public_key().0, G2Projective::GENERATOR);

    let json = serde_json::to_string(sk).unwrap();
    golden("sk/json", &json);
    let back: BBSplusSecretKey = serde_json::from_str(&json).unwrap();
    assert_eq!(&back, sk);
}

// ------------------------------------------------------------ generators

fn generators_suite<CS>(tag: &str)
where
    CS: BbsCiphersuite + std::fmt::Debug + Clone,
    CS::Expander: for<'a> ExpandMsg<'a>,
{
    let big = Generators::create::<CS>(12, Some(CS::API_ID));
    assert_eq!(big.values.len(), 12);
    assert_eq!(
        hex::encode(big.g1_base_point.to_affine().to_compressed()),
        CS::P1
    );

    for count in [0usize, 1, 2, 3, 5, 12] {
        for (api_tag, api_id) in [
            ("none", None),
            ("empty", Some(&b""[..])),
            ("api", Some(CS::API_ID)),
            ("blind", Some(CS::API_ID_BLIND)),
        ] {
            let g = Generators::create::<CS>(count, api_id);
            assert_eq!(g.values.len(), count);
            assert_eq!(g.g1_base_point, big.g1_base_point);
            let bytes: Vec<u8> = g
                .values
                .iter()
                .flat_map(|p| p.to_affine().to_compressed())
                .collect();
            golden(
                &format!("{tag}/generators/{api_tag}/{count}"),
                &digest(&bytes),
            );
            if api_tag == "api" {
                // the list for a smaller count is a prefix of the list for a larger one
                assert_eq!(&g.values[..], &big.values[..count]);
            }
            // all different, none is the identity
            for (i, p) in g.values.iter().enumerate() {
                assert_ne!(*p, G1Projective::IDENTITY);
                for q in &g.values[..i] {
                    assert_ne!(p, q);
                }
            }
        }
        // None and Some(empty) agree
        assert_eq!(
            Generators::create::<CS>(count, None),
            Generators::create::<CS>(count, Some(b""))
        );
    }

    // first and last generators in clear
    golden(
        &format!("{tag}/generators/api/first"),
        &hex::encode(big.values[0].to_affine().to_compressed()),
    );
    golden(
        &format!("{tag}/generators/api/last"),
        &hex::encode(big.values[11].to_affine().to_compressed()),
    );

    // serde: the hand written serializer
    let small = Generators::create::<CS>(2, Some(CS::API_ID));
    golden(
        &format!("{tag}/generators/json/2"),
        &serde_json::to_string(&small).unwrap(),
    );
    golden(
        &format!("{tag}/generators/json/0"),
        &serde_json::to_string(&Generators::create::<CS>(0, None)).unwrap(),
    );
    // a clone is equal
    assert_eq!(small.clone(), small);
}

#[test]
fn generators_sha256() {
    generators_suite::<Bls12381Sha256>("sha256");
}

#[test]
fn generators_shake256() {
    generators_suite::<Bls12381Shake256>("shake256");
}

// ------------------------------------------------------------------ util

#[test]
fn i2osp_forms() {
    assert_eq!(i2osp::<8>(0), [0u8; 8]);
    assert_eq!(i2osp::<8>(1), [0, 0, 0, 0, 0, 0, 0, 1]);
    assert_eq!(i2osp::<8>(usize::MAX), [0xff; 8]);
    assert_eq!(i2osp::<8>(0x0102030405060708), [1, 2, 3, 4, 5, 6, 7, 8]);
    assert_eq!(i2osp::<2>(0), [0, 0]);
    assert_eq!(i2osp::<2>(65535), [0xff, 0xff]);
    assert_eq!(i2osp::<2>(0x1234), [0x12, 0x34]);
    assert_eq!(i2osp::<1>(255), [0xff]);
    assert_eq!(i2osp::<4>(0xdeadbeef), [0xde, 0xad, 0xbe, 0xef]);
    assert_eq!(i2osp::<7>(0x00ffeeddccbbaa99), [0xff, 0xee, 0xdd, 0xcc, 0xbb, 0xaa, 0x99]);
    // wider than the machine word: left padded
    assert_eq!(
        i2osp::<9>(usize::MAX),
        [0, 0xff, 0xff, 0xff, 0xff, 0xff, 0xff, 0xff, 0xff]
    );
    assert_eq!(
        i2osp::<12>(0x0102030405060708),
        [0, 0, 0, 0, 1, 2, 3, 4, 5, 6, 7, 8]
    );
    assert_eq!(i2osp::<16>(0), [0u8; 16]);
    assert_eq!(i2osp::<0>(0), [0u8; 0]);

    // overflow panics
    assert!(std::panic::catch_unwind(|| i2osp::<2>(65536)).is_err());
    assert!(std::panic::catch_unwind(|| i2osp::<1>(256)).is_err());
    assert!(std::panic::catch_unwind(|| i2osp::<7>(1usize << 56)).is_err());
    assert!(std::panic::catch_unwind(|| i2osp::<0>(1)).is_err());
}

fn h2s_suite<CS>(tag: &str)
where
    CS: BbsCiphersuite + std::fmt::Debug + Clone,
    CS::Expander: for<'a> ExpandMsg<'a>,
{
    let long_msg = vec![0xabu8; 1000];
    let dst255 = vec![b'x'; 255];
    let cases: [(&str, &[u8], &[u8]); 6] = [
        ("empty-empty", b"", b""),
        ("empty-dst", b"", b"some dst"),
        ("msg-emptydst", b"a message", b""),
        ("msg-dst", b"a message", b"some dst"),
        ("long-dst", &long_msg, CS::API_ID),
        ("msg-dst255", b"a message", &dst255),
    ];
    for (name, msg, dst) in cases {
        let s = hash_to_scalar::<CS>(msg, dst).unwrap();
        golden(&format!("{tag}/h2s/{name}"), &s.encode());
        assert_eq!(s.encode(), hex::encode(s.to_bytes_be()));
    }
    assert!(matches!(
        hash_to_scalar::<CS>(b"a message", &vec![b'x'; 256]),
        Err(Error::HashToScalarError)
    ));
    assert!(matches!(
        hash_to_scalar::<CS>(b"", &vec![0u8; 1000]),
        Err(Error::HashToScalarError)
    ));
}

#[test]
fn hash_to_scalar_sha256() {
    h2s_suite::<Bls12381Sha256>("sha256");
}

#[test]
fn hash_to_scalar_shake256() {
    h2s_suite::<Bls12381Shake256>("shake256");
}

#[test]
fn scalar_ext() {
    let s = hash_to_scalar::<Bls12381Sha256>(b"scalar", b"dst").unwrap();
    let be = s.to_bytes_be();
    assert_eq!(be, s.to_be_bytes());
    assert_eq!(Scalar::from_bytes_be(&be).unwrap(), s);
    assert_eq!(s.encode(), hex::encode(be));

    for len in [0usize, 1, 31, 33, 48, 64] {
        let mut v = be.to_vec();
        v.resize(len, 0);
        assert!(
            matches!(
                Scalar::from_bytes_be(&v),
                Err(Error::DeserializationError(_))
            ),
            "len {}",
            len
        );
    }
    assert_eq!(Scalar::from_bytes_be(&[0u8; 32]).unwrap(), Scalar::ZERO);
    assert_eq!(
        Scalar::from_bytes_be(&r_minus_one()).unwrap(),
        -Scalar::ONE
    );
    assert!(matches!(
        Scalar::from_bytes_be(&r_bytes()),
        Err(Error::DeserializationError(_))
    ));
    assert!(matches!(
        Scalar::from_bytes_be(&[0xffu8; 32]),
        Err(Error::DeserializationError(_))
    ));
    // the bytes are read big endian: the reversed encoding of r - 1 is another (valid) scalar
    let mut le = r_minus_one();
    le.reverse();
    let other = Scalar::from_bytes_be(&le).unwrap();
    assert_ne!(other, -Scalar::ONE);
    assert_eq!(other.to_bytes_be(), le);
}

#[test]
fn serialize_lists() {
    let scalars: Vec<Scalar> = (0..4u64).map(|i| Scalar::from(i * 1000 + 7)).collect();
    let g1: Vec<G1Projective> = scalars.iter().map(|s| G1Projective::GENERATOR * s).collect();
    let g2: Vec<G2Projective> = scalars.iter().map(|s| G2Projective::GENERATOR * s).collect();

    for n in 0..=4usize {
        let expect_s: Vec<u8> = scalars[..n].iter().flat_map(|s| s.to_be_bytes()).collect();
        assert_eq!(serialize(&scalars[..n]), expect_s);
        let expect_1: Vec<u8> = g1[..n]
            .iter()
            .flat_map(|p| p.to_affine().to_compressed())
            .collect();
        assert_eq!(serialize(&g1[..n]), expect_1);
        let expect_2: Vec<u8> = g2[..n]
            .iter()
            .flat_map(|p| p.to_affine().to_compressed())
            .collect();
        assert_eq!(serialize(&g2[..n]), expect_2);
    }
    golden("serialize/scalars", &digest(&serialize(&scalars)));
    golden("serialize/g1", &digest(&serialize(&g1)));
    golden("serialize/g2", &digest(&serialize(&g2)));

    // identity elements
    assert_eq!(
        serialize(&[G1Projective::IDENTITY]),
        G1Affine::identity().to_compressed().to_vec()
    );
    assert_eq!(
        serialize(&[G2Projective::IDENTITY]),
        G2Affine::identity().to_compressed().to_vec()
    );
    // unknown element types give nothing
    assert_eq!(serialize(&[1u8, 2, 3]), Vec::<u8>::new());
    assert_eq!(serialize::<u8>(&[]), Vec::<u8>::new());
    assert_eq!(serialize(&[G1Affine::generator()]), Vec::<u8>::new());
    assert_eq!(serialize(&["a", "b"]), Vec::<u8>::new());
}

#[test]
fn get_messages_selection() {
    let raw = msgs(6);
    let scalars =
        BBSplusMessage::messages_to_scalar::<Bls12381Sha256>(&raw, Bls12381Sha256::API_ID).unwrap();

    let index_lists: [&[usize]; 7] = [
        &[],
        &[0],
        &[5],
        &[0, 5],
        &[5, 0, 3],
        &[2, 2, 2],
        &[0, 1, 2, 3, 4, 5],
    ];
    for idx in index_lists {
        let picked = get_messages(&scalars, idx);
        let picked_raw = get_messages_vec(&raw, idx);
        assert_eq!(picked.len(), idx.len());
        assert_eq!(picked_raw.len(), idx.len());
        for (k, &i) in idx.iter().enumerate() {
            assert_eq!(picked[k], scalars[i]);
            assert_eq!(picked_raw[k], raw[i]);
        }
    }
    // empty source, empty selection
    assert!(get_messages(&[], &[]).is_empty());
    assert!(get_messages_vec(&[], &[]).is_empty());

    // an index past the end panics (in both helpers)
    let s2 = scalars.clone();
    assert!(std::panic::catch_unwind(move || get_messages(&s2, &[6])).is_err());
    let s3 = scalars.clone();
    assert!(std::panic::catch_unwind(move || get_messages(&s3, &[0, usize::MAX])).is_err());
    let r2 = raw.clone();
    assert!(std::panic::catch_unwind(move || get_messages_vec(&r2, &[1, 6])).is_err());
    assert!(std::panic::catch_unwind(|| get_messages(&[], &[0])).is_err());
    assert!(std::panic::catch_unwind(|| get_messages_vec(&[], &[0])).is_err());
}

#[test]
fn random_helpers() {
    for n in [0usize, 1, 5, 32, 33] {
        assert_eq!(generate_random_secret(n).len(), n);
    }
    assert_ne!(generate_random_secret(32), generate_random_secret(32));

    for n in [0usize, 1, 2, 7] {
        let v = calculate_random_scalars(n);
        assert_eq!(v.len(), n);
        for (i, a) in v.iter().enumerate() {
            for b in &v[..i] {
                assert_ne!(a, b);
            }
        }
    }
}

fn blind_challenge_suite<CS>(tag: &str)
where
    CS: BbsCiphersuite + std::fmt::Debug + Clone,
    CS::Expander: for<'a> ExpandMsg<'a>,
{
    let gens = Generators::create::<CS>(6, Some(CS::API_ID_BLIND)).values;
    let C = G1Projective::GENERATOR * Scalar::from(1234567u64);
    let Cbar = G1Projective::GENERATOR * Scalar::from(7654321u64);

    // no generators at all
    for api in [None, Some(&b""[..]), Some(CS::API_ID_BLIND)] {
        assert!(matches!(
            calculate_blind_challenge::<CS>(C, Cbar, &[], api),
            Err(Error::NotEnoughGenerators)
        ));
    }
    // a too long api_id is only noticed when there are generators
    let long_api = vec![b'a'; 252];
    assert!(matches!(
        calculate_blind_challenge::<CS>(C, Cbar, &[], Some(&long_api)),
        Err(Error::NotEnoughGenerators)
    ));
    assert!(matches!(
        calculate_blind_challenge::<CS>(C, Cbar, &gens[..1], Some(&long_api)),
        Err(Error::HashToScalarError)
    ));
    let api251 = vec![b'a'; 251];
    let c251 = calculate_blind_challenge::<CS>(C, Cbar, &gens[..1], Some(&api251)).unwrap();
    golden(&format!("{tag}/blind-challenge/api251"), &c251.encode());

    for n in [1usize, 2, 3, 6] {
        let none = calculate_blind_challenge::<CS>(C, Cbar, &gens[..n], None).unwrap();
        let empty = calculate_blind_challenge::<CS>(C, Cbar, &gens[..n], Some(b"")).unwrap();
        let api =
            calculate_blind_challenge::<CS>(C, Cbar, &gens[..n], Some(CS::API_ID_BLIND)).unwrap();
        assert_eq!(none, empty);
        assert_ne!(none, api);
        golden(&format!("{tag}/blind-challenge/none/{n}"), &none.encode());
        golden(&format!("{tag}/blind-challenge/api/{n}"), &api.encode());

        // the definition, spelled out
        let mut c_arr = Vec::new();
        c_arr.extend_from_slice(&((n - 1) as u64).to_be_bytes());
        for g in &gens[..n] {
            c_arr.extend_from_slice(&g.to_affine().to_compressed());
        }
        c_arr.extend_from_slice(&C.to_affine().to_compressed());
        c_arr.extend_from_slice(&Cbar.to_affine().to_compressed());
        let dst = [CS::API_ID_BLIND, CS::H2S].concat();
        assert_eq!(api, hash_to_scalar::<CS>(&c_arr, &dst).unwrap());
    }
    // argument order matters, identity points are accepted
    let swapped = calculate_blind_challenge::<CS>(Cbar, C, &gens[..2], None).unwrap();
    assert_ne!(
        swapped,
        calculate_blind_challenge::<CS>(C, Cbar, &gens[..2], None).unwrap()
    );
    let with_id = calculate_blind_challenge::<CS>(
        G1Projective::IDENTITY,
        G1Projective::IDENTITY,
        &[G1Projective::IDENTITY],
        None,
    )
    .unwrap();
    golden(&format!("{tag}/blind-challenge/identity"), &with_id.encode());
}

#[test]
fn blind_challenge_sha256() {
    blind_challenge_suite::<Bls12381Sha256>("sha256");
}

#[test]
fn blind_challenge_shake256() {
    blind_challenge_suite::<Bls12381Shake256>("shake256");
}

// --------------------------------------------------------------- message

fn message_suite<CS>(tag: &str)
where
    CS: BbsCiphersuite + std::fmt::Debug + Clone,
    CS::Expander: for<'a> ExpandMsg<'a>,
{
    // empty list
    assert_eq!(
        BBSplusMessage::messages_to_scalar::<CS>(&[], CS::API_ID).unwrap(),
        vec![]
    );
    assert_eq!(
        BBSplusMessage::messages_to_scalar::<CS>(&[], b"").unwrap(),
        vec![]
    );

    for n in [1usize, 2, 5, 9] {
        let raw = msgs(n);
        for (api_tag, api) in [("api", CS::API_ID), ("empty", &b""[..])] {
            let list = BBSplusMessage::messages_to_scalar::<CS>(&raw, api).unwrap();
            assert_eq!(list.len(), n);
            for (m, s) in raw.iter().zip(&list) {
                let single = BBSplusMessage::map_message_to_scalar_as_hash::<CS>(m, api).unwrap();
                assert_eq!(single, *s);
                let dst = [api, CS::MAP_MSG_SCALAR].concat();
                assert_eq!(s.value, hash_to_scalar::<CS>(m, &dst).unwrap());
                assert_eq!(BBSplusMessage::new(s.value), *s);
            }
            let bytes: Vec<u8> = list.iter().flat_map(|s| s.to_bytes_be()).collect();
            golden(&format!("{tag}/messages/{api_tag}/{n}"), &digest(&bytes));
        }
    }
    // equal messages map to equal scalars, in order
    let dup = vec![b"x".to_vec(), b"y".to_vec(), b"x".to_vec()];
    let list = BBSplusMessage::messages_to_scalar::<CS>(&dup, CS::API_ID).unwrap();
    assert_eq!(list[0], list[2]);
    assert_ne!(list[0], list[1]);

    // api_id so long that the dst exceeds 255 octets
    let max_api = vec![b'a'; 255 - CS::MAP_MSG_SCALAR.len()];
    let over_api = vec![b'a'; 256 - CS::MAP_MSG_SCALAR.len()];
    let ok = BBSplusMessage::messages_to_scalar::<CS>(&msgs(2), &max_api).unwrap();
    golden(
        &format!("{tag}/messages/maxapi"),
        &hex::encode(ok[1].to_bytes_be()),
    );
    assert!(matches!(
        BBSplusMessage::messages_to_scalar::<CS>(&msgs(2), &over_api),
        Err(Error::HashToScalarError)
    ));
    assert!(matches!(
        BBSplusMessage::map_message_to_scalar_as_hash::<CS>(b"m", &over_api),
        Err(Error::HashToScalarError)
    ));
    // ... which goes unnoticed when there is nothing to hash
    assert_eq!(
        BBSplusMessage::messages_to_scalar::<CS>(&[], &over_api).unwrap(),
        vec![]
    );
}

#[test]
fn messages_sha256() {
    message_suite::<Bls12381Sha256>("sha256");
}

#[test]
fn messages_shake256() {
    message_suite::<Bls12381Shake256>("shake256");
}

#[test]
fn message_bytes() {
    let m = BBSplusMessage::map_message_to_scalar_as_hash::<Bls12381Sha256>(b"hello", b"api")
        .unwrap();
    let be = m.to_bytes_be();
    assert_eq!(be, m.value.to_be_bytes());
    assert_eq!(BBSplusMessage::from_bytes_be(&be).unwrap(), m);

    assert_eq!(
        BBSplusMessage::from_bytes_be(&[0u8; 32]).unwrap().value,
        Scalar::ZERO
    );
    assert_eq!(
        BBSplusMessage::from_bytes_be(&r_minus_one()).unwrap().value,
        -Scalar::ONE
    );
    assert!(matches!(
        BBSplusMessage::from_bytes_be(&r_bytes()),
        Err(Error::Unspecified)
    ));
    assert!(matches!(
        BBSplusMessage::from_bytes_be(&[0xffu8; 32]),
        Err(Error::Unspecified)
    ));

    let json = serde_json::to_string(&m).unwrap();
    golden("message/json", &json);
    let back: BBSplusMessage = serde_json::from_str(&json).unwrap();
    assert_eq!(back, m);
}

// ------------------------------------------- through the signature scheme

fn signature_suite<CS>(tag: &str)
where
    CS: BbsCiphersuite + std::fmt::Debug + Clone,
    CS::Expander: for<'a> ExpandMsg<'a>,
{
    let kp = KeyPair::<BBSplus<CS>>::generate(&ikm(48), Some(b"info"), None).unwrap();
    let (sk, pk) = (kp.private_key(), kp.public_key());
    let header = b"a header".to_vec();

    // signing is deterministic: domain calculation, generators and message mapping are all pinned
    for n in [0usize, 1, 2, 4, 10] {
        let m = msgs(n);
        for (h_tag, h) in [
            ("none", None),
            ("empty", Some(&b""[..])),
            ("hdr", Some(&header[..])),
        ] {
            let sig = Signature::<BBSplus<CS>>::sign(Some(&m), sk, pk, h).unwrap();
            golden(
                &format!("{tag}/sign/{n}/{h_tag}"),
                &hex::encode(sig.to_bytes()),
            );
            sig.verify(pk, Some(&m), h).unwrap();
            if n == 0 {
                let sig_none = Signature::<BBSplus<CS>>::sign(None, sk, pk, h).unwrap();
                assert_eq!(sig_none.to_bytes(), sig.to_bytes());
                sig.verify(pk, None, h).unwrap();
            } else {
                assert!(sig.verify(pk, None, h).is_err());
                assert!(sig.verify(pk, Some(&m[..n - 1]), h).is_err());
                let mut reordered = m.clone();
                reordered.rotate_left(1);
                if n > 1 {
                    assert!(sig.verify(pk, Some(&reordered), h).is_err());
                }
            }
            // a different header does not verify
            assert!(sig.verify(pk, Some(&m), Some(b"another header")).is_err());
        }
        // None and Some(empty) headers agree
        let a = Signature::<BBSplus<CS>>::sign(Some(&m), sk, pk, None).unwrap();
        let b = Signature::<BBSplus<CS>>::sign(Some(&m), sk, pk, Some(b"")).unwrap();
        assert_eq!(a.to_bytes(), b.to_bytes());
        a.verify(pk, Some(&m), Some(b"")).unwrap();
        b.verify(pk, Some(&m), None).unwrap();
    }

    // another key does not verify
    let other = KeyPair::<BBSplus<CS>>::generate(&ikm(33), None, None).unwrap();
    let m = msgs(3);
    let sig = Signature::<BBSplus<CS>>::sign(Some(&m), sk, pk, Some(&header)).unwrap();
    assert!(sig
        .verify(other.public_key(), Some(&m), Some(&header))
        .is_err());

    // proofs (randomised): every selection of disclosed indexes round trips
    let m = msgs(5);
    let sig = Signature::<BBSplus<CS>>::sign(Some(&m), sk, pk, Some(&header)).unwrap();
    let selections: [&[usize]; 6] = [&[], &[0], &[4], &[0, 4], &[1, 2, 3], &[0, 1, 2, 3, 4]];
    for sel in selections {
        for ph in [None, Some(&b"nonce"[..])] {
            let proof = PoKSignature::<BBSplus<CS>>::proof_gen(
                pk,
                &sig.to_bytes(),
                Some(&header),
                ph,
                Some(&m),
                Some(sel),
            )
            .unwrap();
            let disclosed = get_messages_vec(&m, sel);
            proof
                .proof_verify(pk, Some(&disclosed), Some(sel), Some(&header), ph)
                .unwrap();
            // through the wire format
            let decoded = PoKSignature::<BBSplus<CS>>::from_bytes(&proof.to_bytes()).unwrap();
            decoded
                .proof_verify(pk, Some(&disclosed), Some(sel), Some(&header), ph)
                .unwrap();
            // a different header is refused
            assert!(proof
                .proof_verify(pk, Some(&disclosed), Some(sel), None, ph)
                .is_err());
        }
    }
    // an index past the end is refused, not a panic
    assert!(PoKSignature::<BBSplus<CS>>::proof_gen(
        pk,
        &sig.to_bytes(),
        Some(&header),
        None,
        Some(&m),
        Some(&[5]),
    )
    .is_err());
}

#[test]
fn signature_sha256() {
    signature_suite::<Bls12381Sha256>("sha256");
}

#[test]
fn signature_shake256() {
    signature_suite::<Bls12381Shake256>("shake256");
}

fn blind_suite<CS>()
where
    CS: BbsCiphersuite + std::fmt::Debug + Clone,
    CS::Expander: for<'a> ExpandMsg<'a>,
{
    let kp = KeyPair::<BBSplus<CS>>::generate(&ikm(32), None, None).unwrap();
    let (sk, pk) = (kp.private_key(), kp.public_key());
    let header = b"blind header".to_vec();

    for (n_committed, n_msgs) in [(0usize, 0usize), (0, 2), (1, 0), (2, 3), (4, 1)] {
        let committed = msgs(n_committed);
        let m = msgs(n_msgs);
        for committed_arg in [Some(&committed[..]), None] {
            if committed_arg.is_none() && n_committed != 0 {
                continue;
            }
            let (commitment, blind) = Commitment::<BBSplus<CS>>::commit(committed_arg).unwrap();
            let sig = BlindSignature::<BBSplus<CS>>::blind_sign(
                sk,
                pk,
                Some(&commitment.to_bytes()),
                Some(&header),
                Some(&m),
            )
            .unwrap();
            sig.verify_blind_sign(
                pk,
                Some(&header),
                Some(&m),
                committed_arg,
                Some(&blind),
            )
            .unwrap();
            assert!(sig
                .verify_blind_sign(pk, None, Some(&m), committed_arg, Some(&blind))
                .is_err());

            // a tampered commitment proof is refused by the signer
            let mut bad = commitment.to_bytes();
            let last = bad.len() - 1;
            bad[last] ^= 1;
            assert!(BlindSignature::<BBSplus<CS>>::blind_sign(
                sk,
                pk,
                Some(&bad),
                Some(&header),
                Some(&m),
            )
            .is_err());
        }
    }
}

#[test]
fn blind_sha256() {
    blind_suite::<Bls12381Sha256>();
}

#[test]
fn blind_shake256() {
    blind_suite::<Bls12381Shake256>();
}
