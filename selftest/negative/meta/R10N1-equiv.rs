// Behaviour pins for the verifier side of src/bbsplus/proof.rs (public API only).
//
// Every expectation below is either taken from the fixture files shipped with the crate or follows from a small
// model written out in the test itself (which inputs are refused, which are accepted). Freshly generated proofs use
// the library's own randomness, but only their accept / refuse outcome and their octet round trip are asserted,
// so the outcome of every test is deterministic.
#![allow(non_snake_case)]

use zkryptium::{
    bbsplus::{
        ciphersuites::{BbsCiphersuite, Bls12381Sha256, Bls12381Shake256},
        keys::BBSplusPublicKey,
        proof::BBSplusPoKSignature,
    },
    errors::Error,
    keys::pair::KeyPair,
    schemes::{
        algorithms::BBSplus,
        generics::{BlindSignature, Commitment, PoKSignature, Signature},
    },
};

use elliptic_curve::hash2curve::ExpandMsg;

const SHA: &str = "bls12-381-sha-256";
const SHAKE: &str = "bls12-381-shake-256";

// ---------------------------------------------------------------------------------------------------------------
// helpers
// ---------------------------------------------------------------------------------------------------------------

fn json(path: &str) -> serde_json::Value {
    let data = std::fs::read_to_string(path).unwrap_or_else(|_| panic!("cannot read {path}"));
    serde_json::from_str(&data).expect("fixture is JSON")
}

fn hexs(v: &serde_json::Value) -> Vec<u8> {
    hex::decode(v.as_str().expect("hex string")).expect("hex")
}

fn hex_list(v: &serde_json::Value) -> Vec<Vec<u8>> {
    v.as_array().expect("array").iter().map(hexs).collect()
}

/// name of the variant, so that the error *kind* is pinned and not the message text
fn kind<T>(r: &Result<T, Error>) -> &'static str {
    match r {
        Ok(_) => "Ok",
        Err(Error::InvalidProofOfKnowledgeSignature) => "InvalidProofOfKnowledgeSignature",
        Err(Error::PoKSVerificationError(_)) => "PoKSVerificationError",
        Err(Error::NotEnoughGenerators) => "NotEnoughGenerators",
        Err(Error::DeserializationError(_)) => "DeserializationError",
        Err(Error::UnespectedError) => "UnespectedError",
        Err(_) => "other",
    }
}

struct PlainFixture {
    pk: BBSplusPublicKey,
    header: Vec<u8>,
    ph: Vec<u8>,
    messages: Vec<Vec<u8>>,
    disclosed_indexes: Vec<usize>,
    proof: Vec<u8>,
    valid: bool,
}

fn plain_fixture(suite: &str, n: usize) -> PlainFixture {
    let j = json(&format!("./fixture_data/{suite}/proof/proof{n:03}.json"));
    PlainFixture {
        pk: BBSplusPublicKey::from_bytes(&hexs(&j["signerPublicKey"])).unwrap(),
        header: hexs(&j["header"]),
        ph: hexs(&j["presentationHeader"]),
        messages: hex_list(&j["messages"]),
        disclosed_indexes: j["disclosedIndexes"]
            .as_array()
            .unwrap()
            .iter()
            .map(|i| i.as_u64().unwrap() as usize)
            .collect(),
        proof: hexs(&j["proof"]),
        valid: j["result"]["valid"].as_bool().unwrap(),
    }
}

fn pick(messages: &[Vec<u8>], indexes: &[usize]) -> Vec<Vec<u8>> {
    indexes.iter().map(|&i| messages[i].clone()).collect()
}

struct BlindFixture {
    pk: BBSplusPublicKey,
    header: Vec<u8>,
    ph: Vec<u8>,
    L: usize,
    msgs: Option<Vec<Vec<u8>>>,
    idx: Option<Vec<usize>>,
    cmsgs: Option<Vec<Vec<u8>>>,
    cidx: Option<Vec<usize>>,
    proof: Vec<u8>,
    valid: bool,
}

fn revealed(v: &serde_json::Value) -> (Option<Vec<Vec<u8>>>, Option<Vec<usize>>) {
    match v.as_object() {
        None => (None, None),
        Some(map) => {
            let mut pairs: Vec<(usize, Vec<u8>)> =
                map.iter().map(|(k, m)| (k.parse().unwrap(), hexs(m))).collect();
            pairs.sort();
            let (i, m): (Vec<usize>, Vec<Vec<u8>>) = pairs.into_iter().unzip();
            (Some(m), Some(i))
        }
    }
}

fn blind_fixture(suite: &str, n: usize) -> BlindFixture {
    let j = json(&format!("./fixture_data_blind/{suite}/proof/proof{n:03}.json"));
    let (msgs, idx) = revealed(&j["revealedMessages"]);
    let (cmsgs, cidx) = revealed(&j["revealedCommittedMessages"]);
    BlindFixture {
        pk: BBSplusPublicKey::from_bytes(&hexs(&j["signerPublicKey"])).unwrap(),
        header: hexs(&j["header"]),
        ph: hexs(&j["presentationHeader"]),
        L: j["L"].as_u64().unwrap() as usize,
        msgs,
        idx,
        cmsgs,
        cidx,
        proof: hexs(&j["proof"]),
        valid: j["result"]["valid"].as_bool().unwrap(),
    }
}

/// what the derives on the generic wrappers ask of a ciphersuite
trait Suite: BbsCiphersuite + std::fmt::Debug + serde::Serialize + serde::de::DeserializeOwned {}
impl<T: BbsCiphersuite + std::fmt::Debug + serde::Serialize + serde::de::DeserializeOwned> Suite for T {}

type Proof<CS> = PoKSignature<BBSplus<CS>>;

fn plain_verify<CS: Suite>(
    f: &PlainFixture,
    proof: &[u8],
    msgs: Option<&[Vec<u8>]>,
    idx: Option<&[usize]>,
) -> Result<(), Error>
where
    CS::Expander: for<'a> ExpandMsg<'a>,
{
    Proof::<CS>::from_bytes(proof)?.proof_verify(&f.pk, msgs, idx, Some(&f.header), Some(&f.ph))
}

#[allow(clippy::too_many_arguments)]
fn blind_verify<CS: Suite>(
    f: &BlindFixture,
    proof: &[u8],
    L: Option<usize>,
    msgs: Option<&[Vec<u8>]>,
    cmsgs: Option<&[Vec<u8>]>,
    idx: Option<&[usize]>,
    cidx: Option<&[usize]>,
) -> Result<(), Error>
where
    CS::Expander: for<'a> ExpandMsg<'a>,
{
    Proof::<CS>::from_bytes(proof)?.blind_proof_verify(
        &f.pk,
        Some(&f.header),
        Some(&f.ph),
        L,
        msgs,
        cmsgs,
        idx,
        cidx,
    )
}

// ---------------------------------------------------------------------------------------------------------------
// octets: from_bytes / to_bytes
// ---------------------------------------------------------------------------------------------------------------

/// the octet form that `from_bytes` accepts: three points, three scalars, U >= 0 scalars, the challenge
fn length_is_acceptable(n: usize) -> bool {
    n >= 272 && (n - 240) % 32 == 0
}

fn octets_fixture_round_trip<CS: Suite>(suite: &str)
where
    CS::Expander: for<'a> ExpandMsg<'a>,
{
    for n in 1..=15 {
        let f = plain_fixture(suite, n);
        let inner = BBSplusPoKSignature::from_bytes(&f.proof).expect("fixture proofs decode");
        assert_eq!(inner.to_bytes(), f.proof, "{suite} {n}: inner round trip");
        let outer = Proof::<CS>::from_bytes(&f.proof).expect("fixture proofs decode");
        assert_eq!(outer.to_bytes(), f.proof, "{suite} {n}: outer round trip");
        assert_eq!(outer.to_bbsplus_proof(), &inner);
        assert_eq!(outer.to_bbsplus_proof().to_bytes(), f.proof);

        // the serde form carries the same value
        let text = serde_json::to_string(&outer).unwrap();
        let back: Proof<CS> = serde_json::from_str(&text).unwrap();
        assert_eq!(back, outer);
        assert_eq!(back.to_bytes(), f.proof);
        let text = serde_json::to_string(&inner).unwrap();
        let back: BBSplusPoKSignature = serde_json::from_str(&text).unwrap();
        assert_eq!(back.to_bytes(), f.proof);
    }
    for n in 1..=8 {
        let f = blind_fixture(suite, n);
        let outer = Proof::<CS>::from_bytes(&f.proof).expect("fixture proofs decode");
        assert_eq!(outer.to_bytes(), f.proof, "{suite} blind {n}");
    }
}

#[test]
fn octets_fixture_round_trip_sha256() {
    octets_fixture_round_trip::<Bls12381Sha256>(SHA);
}

#[test]
fn octets_fixture_round_trip_shake256() {
    octets_fixture_round_trip::<Bls12381Shake256>(SHAKE);
}

#[test]
fn octets_every_prefix_length() {
    // proof003 has six undisclosed messages (464 octets); a prefix that ends on a scalar boundary is again a
    // well formed proof (with fewer undisclosed messages), every other prefix is refused
    let f = plain_fixture(SHA, 3);
    assert_eq!(f.proof.len(), 464);
    for n in 0..=f.proof.len() {
        let prefix = &f.proof[..n];
        let r = BBSplusPoKSignature::from_bytes(prefix);
        let outer = Proof::<Bls12381Sha256>::from_bytes(prefix);
        if length_is_acceptable(n) {
            assert_eq!(r.expect("acceptable length").to_bytes(), prefix, "prefix {n}");
            assert_eq!(outer.expect("acceptable length").to_bytes(), prefix, "prefix {n}");
        } else {
            assert_eq!(kind(&r), "InvalidProofOfKnowledgeSignature", "prefix {n}");
            assert_eq!(kind(&outer), "InvalidProofOfKnowledgeSignature", "prefix {n}");
        }
    }
    // ... and the same for a proof without undisclosed messages (272 octets, the shortest form)
    let f = plain_fixture(SHA, 2);
    assert_eq!(f.proof.len(), 272);
    for n in 0..=272 {
        assert_eq!(BBSplusPoKSignature::from_bytes(&f.proof[..n]).is_ok(), n == 272, "prefix {n}");
    }
}

#[test]
fn octets_extended_and_odd_lengths() {
    let f = plain_fixture(SHA, 3);
    // one more scalar: a well formed proof with seven undisclosed messages
    let mut longer = f.proof.clone();
    longer.extend_from_slice(&f.proof[144..176]);
    let p = BBSplusPoKSignature::from_bytes(&longer).expect("a whole number of scalars");
    assert_eq!(p.to_bytes(), longer);
    // many more
    let mut much_longer = f.proof.clone();
    for _ in 0..40 {
        much_longer.extend_from_slice(&f.proof[176..208]);
    }
    let p = BBSplusPoKSignature::from_bytes(&much_longer).expect("a whole number of scalars");
    assert_eq!(p.to_bytes(), much_longer);
    // a partial scalar at the end
    for extra in [1usize, 16, 31, 33, 47, 48] {
        let mut odd = f.proof.clone();
        odd.extend(std::iter::repeat(1u8).take(extra));
        assert_eq!(
            kind(&BBSplusPoKSignature::from_bytes(&odd)),
            "InvalidProofOfKnowledgeSignature",
            "{extra} extra octets"
        );
    }
    // lengths around the minimum, filled with octets that do not even decode
    for n in [0usize, 1, 47, 48, 144, 240, 241, 271, 272, 273, 303, 304, 305] {
        for fill in [0u8, 0xff] {
            assert_eq!(
                kind(&BBSplusPoKSignature::from_bytes(&vec![fill; n])),
                "InvalidProofOfKnowledgeSignature",
                "{n} octets of {fill}"
            );
        }
    }
}

#[test]
fn octets_bad_points_and_scalars() {
    for (suite, n) in [(SHA, 1), (SHA, 2), (SHA, 3), (SHAKE, 3), (SHA, 12)] {
        let f = plain_fixture(suite, n);
        let len = f.proof.len();
        let scalars = (len - 144) / 32;

        // the identity, a point that is not on the curve / not canonical, an uncompressed flag
        let mut identity = [0u8; 48];
        identity[0] = 0xc0;
        for p in 0..3 {
            let at = 48 * p;
            let mut b = f.proof.clone();
            b[at..at + 48].copy_from_slice(&identity);
            assert_eq!(kind(&BBSplusPoKSignature::from_bytes(&b)), "InvalidProofOfKnowledgeSignature", "identity {p}");
            let mut b = f.proof.clone();
            b[at..at + 48].copy_from_slice(&[0u8; 48]);
            assert_eq!(kind(&BBSplusPoKSignature::from_bytes(&b)), "InvalidProofOfKnowledgeSignature", "zeros {p}");
            let mut b = f.proof.clone();
            b[at..at + 48].copy_from_slice(&[0xffu8; 48]);
            assert_eq!(kind(&BBSplusPoKSignature::from_bytes(&b)), "InvalidProofOfKnowledgeSignature", "ones {p}");
            let mut b = f.proof.clone();
            b[at] &= 0x7f;
            assert_eq!(kind(&BBSplusPoKSignature::from_bytes(&b)), "InvalidProofOfKnowledgeSignature", "flag {p}");
            // another valid point in this place decodes (the proof is wrong, the octets are fine)
            let mut b = f.proof.clone();
            let other = 48 * ((p + 1) % 3);
            let replacement = f.proof[other..other + 48].to_vec();
            b[at..at + 48].copy_from_slice(&replacement);
            assert_eq!(BBSplusPoKSignature::from_bytes(&b).expect("valid point").to_bytes(), b);
        }

        // a zero scalar and a scalar that is not reduced, in every position (e^, r1^, r3^, every m^, the challenge)
        let r = hex::decode("73eda753299d7d483339d80809a1d80553bda402fffe5bfeffffffff00000001").unwrap();
        let mut r_minus_1 = r.clone();
        r_minus_1[31] = 0;
        for s in 0..scalars {
            let at = 144 + 32 * s;
            let mut b = f.proof.clone();
            b[at..at + 32].copy_from_slice(&[0u8; 32]);
            assert_eq!(kind(&BBSplusPoKSignature::from_bytes(&b)), "InvalidProofOfKnowledgeSignature", "zero {s}");
            assert_eq!(
                kind(&Proof::<Bls12381Sha256>::from_bytes(&b)),
                "InvalidProofOfKnowledgeSignature",
                "zero {s}"
            );
            let mut b = f.proof.clone();
            b[at..at + 32].copy_from_slice(&r);
            assert_eq!(kind(&BBSplusPoKSignature::from_bytes(&b)), "InvalidProofOfKnowledgeSignature", "r {s}");
            let mut b = f.proof.clone();
            b[at..at + 32].copy_from_slice(&[0xffu8; 32]);
            assert_eq!(kind(&BBSplusPoKSignature::from_bytes(&b)), "InvalidProofOfKnowledgeSignature", "ones {s}");
            // r - 1 and 1 are the largest and the smallest scalar of a proof
            let mut b = f.proof.clone();
            b[at..at + 32].copy_from_slice(&r_minus_1);
            assert_eq!(BBSplusPoKSignature::from_bytes(&b).expect("r - 1").to_bytes(), b, "r - 1 at {s}");
            let mut b = f.proof.clone();
            b[at..at + 32].copy_from_slice(&[0u8; 32]);
            b[at + 31] = 1;
            assert_eq!(BBSplusPoKSignature::from_bytes(&b).expect("one").to_bytes(), b, "one at {s}");
        }
    }
}

#[test]
fn serde_refuses_what_the_octets_refuse() {
    let f = plain_fixture(SHA, 3);
    let proof = BBSplusPoKSignature::from_bytes(&f.proof).unwrap();
    let good = serde_json::to_value(&proof).unwrap();
    let one_undisclosed = good["m_cap"][0].clone();
    let zero_scalar = serde_json::to_value(bls12_381_plus::Scalar::ZERO).unwrap();
    let identity = serde_json::to_value(bls12_381_plus::G1Projective::IDENTITY).unwrap();
    for field in ["e_cap", "r1_cap", "r3_cap", "challenge"] {
        let mut v = good.clone();
        v[field] = zero_scalar.clone();
        assert!(serde_json::from_value::<BBSplusPoKSignature>(v).is_err(), "{field}");
        let mut v = good.clone();
        v[field] = one_undisclosed.clone();
        let p = serde_json::from_value::<BBSplusPoKSignature>(v).expect("a non zero scalar");
        // what serde accepts, the octet decoder accepts, and verification refuses without panic
        let q = Proof::<Bls12381Sha256>::from_bytes(&p.to_bytes()).unwrap();
        let r = q.proof_verify(
            &f.pk,
            Some(&pick(&f.messages, &f.disclosed_indexes)),
            Some(&f.disclosed_indexes),
            Some(&f.header),
            Some(&f.ph),
        );
        assert_eq!(kind(&r), "PoKSVerificationError", "{field}");
    }
    for at in 0..6 {
        let mut v = good.clone();
        v["m_cap"][at] = zero_scalar.clone();
        assert!(serde_json::from_value::<BBSplusPoKSignature>(v).is_err(), "m_cap {at}");
    }
    for field in ["Abar", "Bbar", "D"] {
        let mut v = good.clone();
        v[field] = identity.clone();
        assert!(serde_json::from_value::<BBSplusPoKSignature>(v).is_err(), "{field}");
    }
}

// ---------------------------------------------------------------------------------------------------------------
// proof_verify
// ---------------------------------------------------------------------------------------------------------------

fn plain_fixtures<CS: Suite>(suite: &str)
where
    CS::Expander: for<'a> ExpandMsg<'a>,
{
    for n in 1..=15 {
        let f = plain_fixture(suite, n);
        let disclosed = pick(&f.messages, &f.disclosed_indexes);
        let r = plain_verify::<CS>(&f, &f.proof, Some(&disclosed), Some(&f.disclosed_indexes));
        assert_eq!(r.is_ok(), f.valid, "{suite} {n}");
        if !f.valid {
            assert_eq!(kind(&r), "PoKSVerificationError", "{suite} {n}");
        }
    }
}

#[test]
fn plain_fixtures_sha256() {
    plain_fixtures::<Bls12381Sha256>(SHA);
}

#[test]
fn plain_fixtures_shake256() {
    plain_fixtures::<Bls12381Shake256>(SHAKE);
}

fn plain_index_lists<CS: Suite>(suite: &str)
where
    CS::Expander: for<'a> ExpandMsg<'a>,
{
    // ten messages, 0 2 4 6 disclosed, six undisclosed
    let f = plain_fixture(suite, 3);
    let m = |idx: &[usize]| pick(&f.messages, idx);
    let good_idx = [0usize, 2, 4, 6];
    let v = |msgs: Option<&[Vec<u8>]>, idx: Option<&[usize]>| kind(&plain_verify::<CS>(&f, &f.proof, msgs, idx));

    assert_eq!(v(Some(&m(&good_idx)), Some(&good_idx)), "Ok");

    // nothing given: the proof is then one of six messages, none disclosed, and does not verify
    assert_eq!(v(None, None), "PoKSVerificationError");
    assert_eq!(v(Some(&[]), Some(&[])), "PoKSVerificationError");
    assert_eq!(v(None, Some(&[])), "PoKSVerificationError");
    assert_eq!(v(Some(&[]), None), "PoKSVerificationError");
    // one list without the other
    assert_eq!(v(Some(&m(&good_idx)), None), "PoKSVerificationError");
    assert_eq!(v(None, Some(&good_idx)), "PoKSVerificationError");
    assert_eq!(v(Some(&m(&[0, 2, 4])), Some(&good_idx)), "PoKSVerificationError");
    assert_eq!(v(Some(&m(&[0, 2, 4, 6, 8])), Some(&good_idx)), "PoKSVerificationError");
    assert_eq!(v(Some(&m(&good_idx)), Some(&[0, 2, 4])), "PoKSVerificationError");

    // order
    for idx in [
        vec![6usize, 4, 2, 0],
        vec![0, 2, 6, 4],
        vec![2, 0, 4, 6],
        vec![0, 0, 4, 6],
        vec![0, 2, 4, 4],
        vec![0, 2, 2, 6],
        vec![6, 6, 6, 6],
    ] {
        assert_eq!(v(Some(&m(&idx)), Some(&idx)), "PoKSVerificationError", "{idx:?}");
    }
    // range: ten messages, so 9 is the largest index and 10 is outside
    let four = m(&good_idx);
    for idx in [
        vec![0usize, 2, 4, 10],
        vec![0, 2, 4, 11],
        vec![0, 2, 4, usize::MAX],
        vec![0, 2, 4, usize::MAX - 1],
        vec![10, 11, 12, 13],
        vec![usize::MAX - 3, usize::MAX - 2, usize::MAX - 1, usize::MAX],
    ] {
        assert_eq!(v(Some(&four), Some(&idx)), "PoKSVerificationError", "{idx:?}");
    }
    // in range and ascending, but not the indexes of the proof
    for idx in [vec![0usize, 2, 4, 9], vec![1, 2, 4, 6], vec![0, 2, 4, 7], vec![6, 7, 8, 9]] {
        assert_eq!(v(Some(&four), Some(&idx)), "PoKSVerificationError", "{idx:?}");
        assert_eq!(v(Some(&m(&idx)), Some(&idx)), "PoKSVerificationError", "{idx:?}");
    }
    // a single index, with and without its message
    assert_eq!(v(Some(&m(&[0])), Some(&[0])), "PoKSVerificationError");
    assert_eq!(v(Some(&m(&[6])), Some(&[6])), "PoKSVerificationError");
    assert_eq!(v(Some(&m(&[6])), Some(&[7])), "PoKSVerificationError");
    assert_eq!(v(None, Some(&[0])), "PoKSVerificationError");
    assert_eq!(v(None, Some(&[usize::MAX])), "PoKSVerificationError");

    // shorter and longer proofs with the good lists
    let shorter = &f.proof[..f.proof.len() - 32];
    assert_eq!(
        kind(&plain_verify::<CS>(&f, shorter, Some(&four), Some(&good_idx))),
        "PoKSVerificationError"
    );
    // with five undisclosed messages left, 9 is out of range and 8 is the largest index
    assert_eq!(
        kind(&plain_verify::<CS>(&f, shorter, Some(&four), Some(&[0, 2, 4, 9]))),
        "PoKSVerificationError"
    );
    assert_eq!(
        kind(&plain_verify::<CS>(&f, shorter, Some(&four), Some(&[0, 2, 4, 8]))),
        "PoKSVerificationError"
    );
    let mut longer = f.proof.clone();
    longer.extend_from_slice(&f.proof[144..176]);
    assert_eq!(
        kind(&plain_verify::<CS>(&f, &longer, Some(&four), Some(&good_idx))),
        "PoKSVerificationError"
    );
    // the shortest proof (no undisclosed messages, nothing disclosed): no message at all
    let shortest = &f.proof[..272];
    assert_eq!(kind(&plain_verify::<CS>(&f, shortest, None, None)), "PoKSVerificationError");
    assert_eq!(kind(&plain_verify::<CS>(&f, shortest, None, Some(&[0]))), "PoKSVerificationError");
    assert_eq!(kind(&plain_verify::<CS>(&f, shortest, Some(&m(&[0])), Some(&[0]))), "PoKSVerificationError");
    assert_eq!(kind(&plain_verify::<CS>(&f, shortest, Some(&m(&[0])), Some(&[1]))), "PoKSVerificationError");
}

#[test]
fn plain_index_lists_sha256() {
    plain_index_lists::<Bls12381Sha256>(SHA);
}

#[test]
fn plain_index_lists_shake256() {
    plain_index_lists::<Bls12381Shake256>(SHAKE);
}

fn messages(n: usize, tag: u8) -> Vec<Vec<u8>> {
    (0..n).map(|i| vec![tag, i as u8, 0x5a, (i * 7) as u8][..(i % 4) + 1].to_vec()).collect()
}

fn subsets(n: usize) -> Vec<Vec<usize>> {
    (0..1usize << n).map(|mask| (0..n).filter(|i| mask >> i & 1 == 1).collect()).collect()
}

fn plain_generated<CS: Suite>()
where
    CS::Expander: for<'a> ExpandMsg<'a>,
{
    let keypair = KeyPair::<BBSplus<CS>>::generate(&[7u8; 64], Some(b"equiv"), None).unwrap();
    let (sk, pk) = (keypair.private_key(), keypair.public_key());
    let header = b"header".to_vec();
    let ph = b"presentation".to_vec();

    for L in [0usize, 1, 2, 3, 5] {
        let msgs = messages(L, 1);
        let signature = Signature::<BBSplus<CS>>::sign(Some(&msgs), sk, pk, Some(&header)).unwrap();
        for idx in subsets(L) {
            let proof = Proof::<CS>::proof_gen(
                pk,
                &signature.to_bytes(),
                Some(&header),
                Some(&ph),
                Some(&msgs),
                Some(&idx),
            )
            .unwrap();
            let bytes = proof.to_bytes();
            assert_eq!(bytes.len(), 272 + 32 * (L - idx.len()));
            let decoded = Proof::<CS>::from_bytes(&bytes).unwrap();
            assert_eq!(decoded, proof);
            assert_eq!(decoded.to_bytes(), bytes);

            let disclosed = pick(&msgs, &idx);
            let v = |m: Option<&[Vec<u8>]>, i: Option<&[usize]>| {
                kind(&decoded.proof_verify(pk, m, i, Some(&header), Some(&ph)))
            };
            assert_eq!(v(Some(&disclosed), Some(&idx)), "Ok", "L {L} {idx:?}");
            if idx.is_empty() {
                assert_eq!(v(None, None), "Ok");
                assert_eq!(v(Some(&[]), None), "Ok");
                assert_eq!(v(None, Some(&[])), "Ok");
            } else {
                assert_eq!(v(None, None), "PoKSVerificationError");
                assert_eq!(v(Some(&disclosed), None), "PoKSVerificationError");
                assert_eq!(v(None, Some(&idx)), "PoKSVerificationError");
                // the last index moved out of range, to the largest index, and duplicated
                let mut moved = idx.clone();
                *moved.last_mut().unwrap() = L;
                assert_eq!(v(Some(&disclosed), Some(&moved)), "PoKSVerificationError");
                *moved.last_mut().unwrap() = usize::MAX;
                assert_eq!(v(Some(&disclosed), Some(&moved)), "PoKSVerificationError");
                if *idx.last().unwrap() != L - 1 {
                    *moved.last_mut().unwrap() = L - 1;
                    assert_eq!(v(Some(&disclosed), Some(&moved)), "PoKSVerificationError");
                }
                if idx.len() > 1 {
                    let mut rev = idx.clone();
                    rev.reverse();
                    let mut rev_m = disclosed.clone();
                    rev_m.reverse();
                    assert_eq!(v(Some(&rev_m), Some(&rev)), "PoKSVerificationError");
                    let mut dup = idx.clone();
                    dup[1] = dup[0];
                    assert_eq!(v(Some(&disclosed), Some(&dup)), "PoKSVerificationError");
                }
            }
            // other header / presentation header / key
            assert_eq!(
                kind(&decoded.proof_verify(pk, Some(&disclosed), Some(&idx), None, Some(&ph))),
                "PoKSVerificationError"
            );
            assert_eq!(
                kind(&decoded.proof_verify(pk, Some(&disclosed), Some(&idx), Some(&header), None)),
                "PoKSVerificationError"
            );
        }
    }
}

#[test]
fn plain_generated_sha256() {
    plain_generated::<Bls12381Sha256>();
}

#[test]
fn plain_generated_shake256() {
    plain_generated::<Bls12381Shake256>();
}

// ---------------------------------------------------------------------------------------------------------------
// blind_proof_verify
// ---------------------------------------------------------------------------------------------------------------

fn blind_fixtures<CS: Suite>(suite: &str)
where
    CS::Expander: for<'a> ExpandMsg<'a>,
{
    for n in 1..=8 {
        let f = blind_fixture(suite, n);
        let r = blind_verify::<CS>(
            &f,
            &f.proof,
            Some(f.L),
            f.msgs.as_deref(),
            f.cmsgs.as_deref(),
            f.idx.as_deref(),
            f.cidx.as_deref(),
        );
        assert_eq!(r.is_ok(), f.valid, "{suite} blind {n}");
        // None and Some(empty) are the same list
        let e_m: &[Vec<u8>] = &[];
        let e_i: &[usize] = &[];
        let r = blind_verify::<CS>(
            &f,
            &f.proof,
            Some(f.L),
            Some(f.msgs.as_deref().unwrap_or(e_m)),
            Some(f.cmsgs.as_deref().unwrap_or(e_m)),
            Some(f.idx.as_deref().unwrap_or(e_i)),
            Some(f.cidx.as_deref().unwrap_or(e_i)),
        );
        assert_eq!(r.is_ok(), f.valid, "{suite} blind {n} Some(empty)");
        let none_if_empty_m = |x: &Option<Vec<Vec<u8>>>| x.clone().filter(|l| !l.is_empty());
        let none_if_empty_i = |x: &Option<Vec<usize>>| x.clone().filter(|l| !l.is_empty());
        let r = blind_verify::<CS>(
            &f,
            &f.proof,
            Some(f.L),
            none_if_empty_m(&f.msgs).as_deref(),
            none_if_empty_m(&f.cmsgs).as_deref(),
            none_if_empty_i(&f.idx).as_deref(),
            none_if_empty_i(&f.cidx).as_deref(),
        );
        assert_eq!(r.is_ok(), f.valid, "{suite} blind {n} None");
        // the proof does not verify as a plain proof
        let p = Proof::<CS>::from_bytes(&f.proof).unwrap();
        assert_eq!(
            kind(&p.proof_verify(&f.pk, f.msgs.as_deref(), f.idx.as_deref(), Some(&f.header), Some(&f.ph))),
            "PoKSVerificationError"
        );
    }
}

#[test]
fn blind_fixtures_sha256() {
    blind_fixtures::<Bls12381Sha256>(SHA);
}

#[test]
fn blind_fixtures_shake256() {
    blind_fixtures::<Bls12381Shake256>(SHAKE);
}

fn blind_index_lists<CS: Suite>(suite: &str)
where
    CS::Expander: for<'a> ExpandMsg<'a>,
{
    // proof004: L = 10 signer messages (0 2 4 6 8 disclosed), M = 5 committed messages (0 2 4 disclosed),
    // eight undisclosed (five signer messages, the blind factor, two committed messages)
    let f = blind_fixture(suite, 4);
    let all = json("./fixture_data_blind/messages.json");
    let signer = hex_list(&all["messages"]);
    let committed = hex_list(&all["committedMessages"]);
    let idx = f.idx.clone().unwrap();
    let cidx = f.cidx.clone().unwrap();
    assert_eq!((idx.as_slice(), cidx.as_slice()), (&[0usize, 2, 4, 6, 8][..], &[0usize, 2, 4][..]));
    let msgs = pick(&signer, &idx);
    let cmsgs = pick(&committed, &cidx);
    assert_eq!(Some(&msgs), f.msgs.as_ref());
    assert_eq!(Some(&cmsgs), f.cmsgs.as_ref());

    let v = |L: Option<usize>, m: Option<&[Vec<u8>]>, cm: Option<&[Vec<u8>]>, i: Option<&[usize]>, ci: Option<&[usize]>| {
        kind(&blind_verify::<CS>(&f, &f.proof, L, m, cm, i, ci))
    };
    let good = |L: Option<usize>| v(L, Some(&msgs), Some(&cmsgs), Some(&idx), Some(&cidx));
    assert_eq!(good(Some(10)), "Ok");

    // L: 16 slots in all (10 + 1 + 5)
    for L in [None, Some(0), Some(1), Some(8), Some(9), Some(11), Some(12), Some(14), Some(15), Some(16), Some(17), Some(usize::MAX - 1), Some(usize::MAX)] {
        assert_eq!(good(L), "PoKSVerificationError", "L {L:?}");
    }
    // the lists left out
    assert_eq!(v(Some(10), None, None, None, None), "PoKSVerificationError");
    assert_eq!(v(None, None, None, None, None), "PoKSVerificationError");
    assert_eq!(v(Some(10), Some(&msgs), None, Some(&idx), None), "PoKSVerificationError");
    assert_eq!(v(Some(10), None, Some(&cmsgs), None, Some(&cidx)), "PoKSVerificationError");
    assert_eq!(v(Some(10), Some(&msgs), Some(&cmsgs), Some(&idx), None), "PoKSVerificationError");
    assert_eq!(v(Some(10), Some(&msgs), Some(&cmsgs), None, Some(&cidx)), "PoKSVerificationError");
    assert_eq!(v(Some(10), Some(&msgs), None, Some(&idx), Some(&cidx)), "PoKSVerificationError");
    assert_eq!(v(Some(10), None, Some(&cmsgs), Some(&idx), Some(&cidx)), "PoKSVerificationError");
    assert_eq!(v(Some(10), Some(&[]), Some(&[]), Some(&[]), Some(&[])), "PoKSVerificationError");

    // per-list lengths: the sums agree, the lists do not
    let mut m_plus = msgs.clone();
    m_plus.push(cmsgs[2].clone());
    assert_eq!(v(Some(10), Some(&m_plus), Some(&cmsgs[..2]), Some(&idx), Some(&cidx)), "PoKSVerificationError");
    let mut cm_plus = vec![msgs[4].clone()];
    cm_plus.extend(cmsgs.iter().cloned());
    assert_eq!(v(Some(10), Some(&msgs[..4]), Some(&cm_plus), Some(&idx), Some(&cidx)), "PoKSVerificationError");
    assert_eq!(v(Some(10), Some(&msgs[..4]), Some(&cmsgs), Some(&idx), Some(&cidx)), "PoKSVerificationError");
    assert_eq!(v(Some(10), Some(&msgs), Some(&cmsgs[..2]), Some(&idx), Some(&cidx)), "PoKSVerificationError");
    assert_eq!(v(Some(10), Some(&msgs), Some(&cmsgs), Some(&idx[..4]), Some(&cidx)), "PoKSVerificationError");
    assert_eq!(v(Some(10), Some(&msgs), Some(&cmsgs), Some(&idx), Some(&cidx[..2])), "PoKSVerificationError");

    // order, in either list
    for bad in [vec![8usize, 6, 4, 2, 0], vec![0, 2, 4, 8, 6], vec![0, 0, 4, 6, 8], vec![0, 2, 4, 6, 6], vec![2, 0, 4, 6, 8]] {
        assert_eq!(v(Some(10), Some(&msgs), Some(&cmsgs), Some(&bad), Some(&cidx)), "PoKSVerificationError", "{bad:?}");
    }
    for bad in [vec![4usize, 2, 0], vec![0, 4, 2], vec![0, 0, 4], vec![0, 4, 4], vec![2, 0, 4]] {
        assert_eq!(v(Some(10), Some(&msgs), Some(&cmsgs), Some(&idx), Some(&bad)), "PoKSVerificationError", "{bad:?}");
    }
    // range: a signer index below L = 10, a committed index below M = 5 (five committed messages)
    for bad in [
        vec![0usize, 2, 4, 6, 10],
        vec![0, 2, 4, 6, 11],
        vec![0, 2, 4, 6, 15],
        vec![0, 2, 4, 6, usize::MAX],
        vec![10, 11, 12, 13, 14],
        vec![0, 2, 4, 6, 9],
        vec![1, 2, 4, 6, 8],
    ] {
        assert_eq!(v(Some(10), Some(&msgs), Some(&cmsgs), Some(&bad), Some(&cidx)), "PoKSVerificationError", "{bad:?}");
    }
    for bad in [
        vec![0usize, 2, 5],
        vec![0, 2, 6],
        vec![0, 2, usize::MAX],
        vec![0, 2, usize::MAX - 11],
        vec![0, 2, usize::MAX - 10],
        vec![5, 6, 7],
        vec![0, 2, 3],
        vec![0, 1, 4],
        vec![1, 2, 4],
    ] {
        assert_eq!(v(Some(10), Some(&msgs), Some(&cmsgs), Some(&idx), Some(&bad)), "PoKSVerificationError", "{bad:?}");
    }
    // a committed message shown as a signer message at the matching slot and the reverse (same slots, other kind)
    assert_eq!(
        v(Some(10), Some(&m_plus), Some(&cmsgs[..2]), Some(&[0, 2, 4, 6, 8, 15]), Some(&[0, 2])),
        "PoKSVerificationError"
    );
    assert_eq!(
        v(Some(10), Some(&m_plus), Some(&cmsgs[..2]), Some(&[0, 2, 4, 6, 8, 9]), Some(&[0, 2])),
        "PoKSVerificationError"
    );

    // shorter proofs: fewer slots, so M shrinks; with the 272 octet form M would be negative for L = 10
    for cut in 1..=8usize {
        let shorter = &f.proof[..f.proof.len() - 32 * cut];
        let r = blind_verify::<CS>(&f, shorter, Some(10), Some(&msgs), Some(&cmsgs), Some(&idx), Some(&cidx));
        assert_eq!(kind(&r), "PoKSVerificationError", "cut {cut}");
    }
    let shortest = &f.proof[..272];
    for L in [None, Some(0), Some(1), Some(usize::MAX)] {
        let r = blind_verify::<CS>(&f, shortest, L, None, None, None, None);
        assert_eq!(kind(&r), "PoKSVerificationError", "shortest, L {L:?}");
        let r = blind_verify::<CS>(&f, shortest, L, Some(&[]), Some(&[]), Some(&[]), Some(&[]));
        assert_eq!(kind(&r), "PoKSVerificationError", "shortest, L {L:?}");
    }
    // one slot only (the blind factor): L = 0 and M = 0 pass the list checks, the proof does not verify
    let one = &f.proof[..304];
    for L in [None, Some(0), Some(1), Some(2)] {
        let r = blind_verify::<CS>(&f, one, L, None, None, None, None);
        assert_eq!(kind(&r), "PoKSVerificationError", "one slot, L {L:?}");
    }
    let r = blind_verify::<CS>(&f, one, Some(0), None, Some(&cmsgs[..1]), None, Some(&[0]));
    assert_eq!(kind(&r), "PoKSVerificationError");
    let r = blind_verify::<CS>(&f, one, Some(1), Some(&msgs[..1]), None, Some(&[0]), None);
    assert_eq!(kind(&r), "PoKSVerificationError");
    let r = blind_verify::<CS>(&f, one, Some(1), Some(&msgs[..1]), None, Some(&[1]), None);
    assert_eq!(kind(&r), "PoKSVerificationError");
}

#[test]
fn blind_index_lists_sha256() {
    blind_index_lists::<Bls12381Sha256>(SHA);
}

#[test]
fn blind_index_lists_shake256() {
    blind_index_lists::<Bls12381Shake256>(SHAKE);
}

fn blind_generated<CS: Suite>()
where
    CS::Expander: for<'a> ExpandMsg<'a>,
{
    let keypair = KeyPair::<BBSplus<CS>>::generate(&[9u8; 64], None, None).unwrap();
    let (sk, pk) = (keypair.private_key(), keypair.public_key());
    let header = b"blind header".to_vec();
    let ph = b"blind presentation".to_vec();

    for (L, C) in [(0usize, 0usize), (1, 0), (0, 1), (2, 2), (3, 1), (1, 3)] {
        let msgs = messages(L, 2);
        let cmsgs = messages(C, 3);
        let (commitment, blind) = Commitment::<BBSplus<CS>>::commit(Some(&cmsgs)).unwrap();
        let signature = BlindSignature::<BBSplus<CS>>::blind_sign(
            sk,
            pk,
            Some(&commitment.to_bytes()),
            Some(&header),
            Some(&msgs),
        )
        .unwrap();
        signature
            .verify_blind_sign(pk, Some(&header), Some(&msgs), Some(&cmsgs), Some(&blind))
            .unwrap();

        for idx in subsets(L) {
            for cidx in subsets(C) {
                let proof = Proof::<CS>::blind_proof_gen(
                    pk,
                    &signature.to_bytes(),
                    Some(&header),
                    Some(&ph),
                    Some(&msgs),
                    Some(&cmsgs),
                    Some(&idx),
                    Some(&cidx),
                    Some(&blind),
                )
                .unwrap();
                let bytes = proof.to_bytes();
                assert_eq!(bytes.len(), 272 + 32 * (L + 1 + C - idx.len() - cidx.len()));
                let decoded = Proof::<CS>::from_bytes(&bytes).unwrap();
                assert_eq!(decoded, proof);

                let d = pick(&msgs, &idx);
                let cd = pick(&cmsgs, &cidx);
                let v = |l: Option<usize>, m: Option<&[Vec<u8>]>, cm: Option<&[Vec<u8>]>, i: Option<&[usize]>, ci: Option<&[usize]>| {
                    kind(&decoded.blind_proof_verify(pk, Some(&header), Some(&ph), l, m, cm, i, ci))
                };
                let case = format!("L {L} C {C} {idx:?} {cidx:?}");
                assert_eq!(v(Some(L), Some(&d), Some(&cd), Some(&idx), Some(&cidx)), "Ok", "{case}");
                if L == 0 {
                    assert_eq!(v(None, Some(&d), Some(&cd), Some(&idx), Some(&cidx)), "Ok", "{case}");
                } else {
                    assert_eq!(v(None, Some(&d), Some(&cd), Some(&idx), Some(&cidx)), "PoKSVerificationError", "{case}");
                }
                let opt_m = |x: &Vec<Vec<u8>>| if x.is_empty() { None } else { Some(x.clone()) };
                let opt_i = |x: &Vec<usize>| if x.is_empty() { None } else { Some(x.clone()) };
                assert_eq!(
                    v(Some(L), opt_m(&d).as_deref(), opt_m(&cd).as_deref(), opt_i(&idx).as_deref(), opt_i(&cidx).as_deref()),
                    "Ok",
                    "{case}"
                );
                // L one off in either direction
                assert_eq!(v(Some(L + 1), Some(&d), Some(&cd), Some(&idx), Some(&cidx)), "PoKSVerificationError", "{case}");
                if L > 0 {
                    assert_eq!(v(Some(L - 1), Some(&d), Some(&cd), Some(&idx), Some(&cidx)), "PoKSVerificationError", "{case}");
                }
                // the last index of each list moved to the first value outside its range
                if !idx.is_empty() {
                    let mut moved = idx.clone();
                    *moved.last_mut().unwrap() = L;
                    assert_eq!(v(Some(L), Some(&d), Some(&cd), Some(&moved), Some(&cidx)), "PoKSVerificationError", "{case}");
                    assert_eq!(v(Some(L), Some(&d[1..]), Some(&cd), Some(&idx), Some(&cidx)), "PoKSVerificationError", "{case}");
                }
                if !cidx.is_empty() {
                    let mut moved = cidx.clone();
                    *moved.last_mut().unwrap() = C;
                    assert_eq!(v(Some(L), Some(&d), Some(&cd), Some(&idx), Some(&moved)), "PoKSVerificationError", "{case}");
                    *moved.last_mut().unwrap() = usize::MAX - L;
                    assert_eq!(v(Some(L), Some(&d), Some(&cd), Some(&idx), Some(&moved)), "PoKSVerificationError", "{case}");
                    assert_eq!(v(Some(L), Some(&d), Some(&cd[1..]), Some(&idx), Some(&cidx)), "PoKSVerificationError", "{case}");
                }
                if idx.len() > 1 {
                    let (mut r, mut rm) = (idx.clone(), d.clone());
                    r.reverse();
                    rm.reverse();
                    assert_eq!(v(Some(L), Some(&rm), Some(&cd), Some(&r), Some(&cidx)), "PoKSVerificationError", "{case}");
                }
                if cidx.len() > 1 {
                    let (mut r, mut rm) = (cidx.clone(), cd.clone());
                    r.reverse();
                    rm.reverse();
                    assert_eq!(v(Some(L), Some(&d), Some(&rm), Some(&idx), Some(&r)), "PoKSVerificationError", "{case}");
                    let mut dup = cidx.clone();
                    dup[1] = dup[0];
                    assert_eq!(v(Some(L), Some(&d), Some(&cd), Some(&idx), Some(&dup)), "PoKSVerificationError", "{case}");
                }
            }
        }
    }
}

#[test]
fn blind_generated_sha256() {
    blind_generated::<Bls12381Sha256>();
}

#[test]
fn blind_generated_shake256() {
    blind_generated::<Bls12381Shake256>();
}
