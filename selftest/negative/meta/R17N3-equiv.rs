#![cfg(feature = "cl03")]
#![allow(non_snake_case)]

// Behavioural pins for the verifier side of the CL03 proofs (ZKPoK::verify_proof, PoKSignature::proof_verify and the
// sigma protocols below them). Keys and proofs are random, the verdicts asserted here are not.

use serde_json::Value;
use std::panic::{catch_unwind, AssertUnwindSafe};
use zkryptium::{
    cl03::{
        bases::Bases,
        ciphersuites::CL1024Sha256,
        keys::{CL03CommitmentPublicKey, CL03PublicKey},
    },
    keys::pair::KeyPair,
    schemes::{
        algorithms::CL03,
        generics::{Commitment, PoKSignature, Signature, ZKPoK},
    },
    utils::message::cl03_message::CL03Message,
};

type CS = CL1024Sha256;
type S = CL03<CS>;

const MSGS: &[&str] = &[
    "9872ad089e452c7b6e283dfac2a80d58e8d0ff71cc4d5e310a1debdda4a45f02",
    "9872ad089e452c7b6e283dfac2a80d58e8d0ff71cc4d5e310a1debdda4a45f03",
    "9872ad089e452c7b6e283dfac2a80d58e8d0ff71cc4d5e310a1debdda4a45f04",
    "9872ad089e452c7b6e283dfac2a80d58e8d0ff71cc4d5e310a1debdda4a45f05",
];

fn messages(n: usize) -> Vec<CL03Message> {
    MSGS[..n]
        .iter()
        .map(|m| CL03Message::map_message_to_integer_as_hash::<CS>(&hex::decode(m).unwrap()))
        .collect()
}

fn revealed(msgs: &[CL03Message], hidden: &[usize]) -> Vec<CL03Message> {
    msgs.iter()
        .enumerate()
        .filter(|(i, _)| !hidden.contains(i))
        .map(|(_, m)| m.clone())
        .collect()
}

fn edit<T: serde::Serialize + serde::de::DeserializeOwned>(x: &T, f: impl FnOnce(&mut Value)) -> T {
    let mut v = serde_json::to_value(x).unwrap();
    f(&mut v["CL03"]);
    serde_json::from_value(v).unwrap()
}

fn arr<'a>(v: &'a mut Value, path: &[&str]) -> &'a mut Vec<Value> {
    let mut cur = v;
    for p in path {
        cur = &mut cur[*p];
    }
    cur.as_array_mut().unwrap()
}

fn panics<R>(f: impl FnOnce() -> R) -> bool {
    let hook = std::panic::take_hook();
    std::panic::set_hook(Box::new(|_| {}));
    let r = catch_unwind(AssertUnwindSafe(f)).is_err();
    std::panic::set_hook(hook);
    r
}

struct Ctx {
    pk: CL03PublicKey,
    a_bases: Bases,
    cpk: CL03CommitmentPublicKey,
    msgs: Vec<CL03Message>,
}

fn zk_verify(
    c: &Ctx,
    z: &ZKPoK<S>,
    C: &Commitment<S>,
    trusted: Option<&Commitment<S>>,
    cpk: Option<&CL03CommitmentPublicKey>,
    hidden: &[usize],
) -> bool {
    z.verify_proof(
        C.cl03Commitment(),
        trusted.map(|t| t.cl03Commitment()),
        &c.pk,
        &c.a_bases,
        cpk,
        hidden,
    )
}

fn zkpok_cases(c: &Ctx) {
    let hidden_sets: &[&[usize]] = &[&[0], &[3], &[0, 2], &[1, 2, 3], &[0, 1, 2, 3], &[]];
    for hidden in hidden_sets {
        let hidden: &[usize] = hidden;
        let C = Commitment::<S>::commit_with_pk(&c.msgs, &c.pk, &c.a_bases, Some(hidden));
        let z = ZKPoK::<S>::generate_proof(
            &c.msgs,
            C.cl03Commitment(),
            None,
            &c.pk,
            &c.a_bases,
            None,
            hidden,
        );
        assert!(zk_verify(c, &z, &C, None, None, hidden), "plain {:?}", hidden);

        // another commitment (fresh randomness) does not fit the proof
        let C2 = Commitment::<S>::commit_with_pk(&c.msgs, &c.pk, &c.a_bases, Some(hidden));
        assert!(!zk_verify(c, &z, &C2, None, None, hidden));

        // None / Some mismatches between trusted commitment, its key and its part of the proof
        let T = Commitment::<S>::commit_with_commitment_pk(&c.msgs, &c.cpk, Some(hidden));
        assert!(!zk_verify(c, &z, &C, Some(&T), None, hidden));
        assert!(!zk_verify(c, &z, &C, None, Some(&c.cpk), hidden));
        assert!(!zk_verify(c, &z, &C, Some(&T), Some(&c.cpk), hidden));

        // number of hidden positions differs from what the proof carries
        let mut longer = hidden.to_vec();
        longer.push(0);
        assert!(!zk_verify(c, &z, &C, None, None, &longer));
        if !hidden.is_empty() {
            assert!(!zk_verify(c, &z, &C, None, None, &hidden[1..]));
            assert!(!zk_verify(c, &z, &C, None, None, &[]));
            // same length, other positions
            let other: Vec<usize> = hidden.iter().map(|i| (i + 1) % 4).collect();
            assert!(!zk_verify(c, &z, &C, None, None, &other));
            // position past the bases, same length: the sub-verifier refuses with a panic
            let mut past = hidden.to_vec();
            *past.last_mut().unwrap() = 4;
            assert!(panics(|| zk_verify(c, &z, &C, None, None, &past)));
        }

        // malformed proofs
        if !hidden.is_empty() {
            let z1 = edit(&z, |v| {
                arr(v, &["proofs_commited_mi"]).pop();
            });
            assert!(!zk_verify(c, &z1, &C, None, None, hidden));
            let z2 = edit(&z, |v| {
                arr(v, &["range_proofs_mi"]).pop();
            });
            assert!(!zk_verify(c, &z2, &C, None, None, hidden));
            let z3 = edit(&z, |v| {
                let a = arr(v, &["range_proofs_mi"]);
                let x = a[0].clone();
                a.push(x);
            });
            assert!(!zk_verify(c, &z3, &C, None, None, hidden));
            // the range proof of r in place of the range proof of the first attribute
            let z4 = edit(&z, |v| {
                let r = v["range_proof_r"].clone();
                arr(v, &["range_proofs_mi"])[0] = r;
            });
            assert!(!zk_verify(c, &z4, &C, None, None, hidden));
            // commitment of the first attribute replaced by the commitment of r
            let z5 = edit(&z, |v| {
                let r = v["proof_r"]["commitment"].clone();
                arr(v, &["proofs_commited_mi"])[0]["commitment"] = r;
            });
            assert!(!zk_verify(c, &z5, &C, None, None, hidden));
            // first attribute's range proof in the place of r's
            let z6 = edit(&z, |v| {
                let r = arr(v, &["range_proofs_mi"])[0].clone();
                v["range_proof_r"] = r;
            });
            assert!(!zk_verify(c, &z6, &C, None, None, hidden));
        }
        if hidden.len() >= 2 {
            let z7 = edit(&z, |v| arr(v, &["proofs_commited_mi"]).swap(0, 1));
            assert!(!zk_verify(c, &z7, &C, None, None, hidden));
            let z8 = edit(&z, |v| arr(v, &["range_proofs_mi"]).swap(0, 1));
            assert!(!zk_verify(c, &z8, &C, None, None, hidden));
            let z9 = edit(&z, |v| arr(v, &["proof_commited_msgs", "s1"]).swap(0, 1));
            assert!(!zk_verify(c, &z9, &C, None, None, hidden));
        }
        let z10 = edit(&z, |v| {
            let e = v["proof_r"]["commitment"]["randomness"].clone();
            v["range_proof_r"]["E"] = e;
        });
        assert!(!zk_verify(c, &z10, &C, None, None, hidden));
        // one response too many in the proof of the committed attributes: refused with a panic
        let z11 = edit(&z, |v| {
            let e = v["proof_commited_msgs"]["s2"].clone();
            arr(v, &["proof_commited_msgs", "s1"]).push(e);
        });
        assert!(panics(|| zk_verify(c, &z11, &C, None, None, hidden)));

        // with a trusted party commitment
        if hidden.len() <= 2 {
            let zt = ZKPoK::<S>::generate_proof(
                &c.msgs,
                C.cl03Commitment(),
                Some(T.cl03Commitment()),
                &c.pk,
                &c.a_bases,
                Some(&c.cpk),
                hidden,
            );
            assert!(zk_verify(c, &zt, &C, Some(&T), Some(&c.cpk), hidden));
            assert!(!zk_verify(c, &zt, &C, None, None, hidden));
            assert!(!zk_verify(c, &zt, &C, Some(&T), None, hidden));
            assert!(!zk_verify(c, &zt, &C, None, Some(&c.cpk), hidden));
            let T2 = Commitment::<S>::commit_with_commitment_pk(&c.msgs, &c.cpk, Some(hidden));
            assert!(!zk_verify(c, &zt, &C, Some(&T2), Some(&c.cpk), hidden));
            assert!(!zk_verify(c, &zt, &C2, Some(&T), Some(&c.cpk), hidden));
            // responses of the equality proof: one dropped, one added
            let zt1 = edit(&zt, |v| {
                let d2 = v["proof_C_Ctrusted"]["d_2"].clone();
                arr(v, &["proof_C_Ctrusted", "d"]).push(d2);
            });
            assert!(!zk_verify(c, &zt1, &C, Some(&T), Some(&c.cpk), hidden));
            if !hidden.is_empty() {
                let zt2 = edit(&zt, |v| {
                    arr(v, &["proof_C_Ctrusted", "d"]).pop();
                });
                assert!(!zk_verify(c, &zt2, &C, Some(&T), Some(&c.cpk), hidden));
                // the length check of the outer verifier comes before the equality proof
                assert!(!zk_verify(c, &zt, &C, Some(&T), Some(&c.cpk), &longer));
            }
            let zt3 = edit(&zt, |v| {
                let x = v["proof_C_Ctrusted"]["d_1"].clone();
                v["proof_C_Ctrusted"]["d_2"] = x;
            });
            assert!(!zk_verify(c, &zt3, &C, Some(&T), Some(&c.cpk), hidden));
            // the trusted part removed from the proof
            let zt4 = edit(&zt, |v| v["proof_C_Ctrusted"] = Value::Null);
            assert!(!zk_verify(c, &zt4, &C, Some(&T), Some(&c.cpk), hidden));
            assert!(zk_verify(c, &zt4, &C, None, None, hidden));
        }
    }
}

fn spok_verify(c: &Ctx, p: &PoKSignature<S>, rev: &[CL03Message], hidden: &[usize], n: usize) -> bool {
    p.proof_verify(&c.cpk, &c.pk, &c.a_bases, rev, hidden, n)
}

fn spok_cases(c: &Ctx, sig: &Signature<S>) {
    let n = c.msgs.len();
    let hidden_sets: &[&[usize]] = &[&[0], &[3], &[0, 2], &[1, 2, 3], &[0, 1, 2, 3], &[]];
    for hidden in hidden_sets {
        let hidden: &[usize] = hidden;
        let rev = revealed(&c.msgs, hidden);
        let p = PoKSignature::<S>::proof_gen(
            sig.cl03Signature(),
            &c.cpk,
            &c.pk,
            &c.a_bases,
            &c.msgs,
            hidden,
        );
        assert!(spok_verify(c, &p, &rev, hidden, n), "spok {:?}", hidden);

        // statement shape
        // more signed attributes than bases on both sides: refused with a panic, before anything else
        assert!(panics(|| spok_verify(c, &p, &rev, hidden, n + 1)));
        assert!(!spok_verify(c, &p, &rev, hidden, n - 1));
        assert!(!spok_verify(c, &p, &c.msgs, hidden, n) || hidden.is_empty());
        let mut longer = hidden.to_vec();
        longer.push(4);
        assert!(!spok_verify(c, &p, &rev, &longer, n));
        assert!(panics(|| spok_verify(c, &p, &rev, &longer, n + 1)));
        if !hidden.is_empty() {
            assert!(!spok_verify(c, &p, &rev, &hidden[1..], n));
            assert!(!spok_verify(c, &p, &rev, &[], n));
            let mut dup = hidden.to_vec();
            dup[0] = *dup.last().unwrap();
            if hidden.len() >= 2 {
                assert!(!spok_verify(c, &p, &rev, &dup, n));
                let mut rv = hidden.to_vec();
                rv.reverse();
                assert!(!spok_verify(c, &p, &rev, &rv, n));
            }
            let mut past = hidden.to_vec();
            *past.last_mut().unwrap() = n;
            assert!(!spok_verify(c, &p, &rev, &past, n));
        }
        if rev.len() >= 1 {
            // a revealed attribute replaced, dropped, out of range
            let mut w = rev.clone();
            w[0] = c.msgs[hidden.first().copied().unwrap_or(1)].clone();
            assert!(!spok_verify(c, &p, &w, hidden, n));
            assert!(!spok_verify(c, &p, &rev[1..], hidden, n));
            let mut w = rev.clone();
            w[0] = CL03Message::new(-w[0].value.clone());
            assert!(!spok_verify(c, &p, &w, hidden, n));
            let mut w = rev.clone();
            let last = w.len() - 1;
            w[last] = CL03Message::new(w[last].value.clone() + (rug::Integer::from(1) << 256));
            assert!(!spok_verify(c, &p, &w, hidden, n));
            // other position hidden, same count
            if hidden.len() == 1 {
                let other = [(hidden[0] + 1) % n];
                assert!(!spok_verify(c, &p, &rev, &other, n));
            }
        }

        // malformed proofs
        let p1 = edit(&p, |v| {
            let x = v["spok"]["s_9"].clone();
            arr(v, &["spok", "s_5"]).push(x);
        });
        assert!(!spok_verify(c, &p1, &rev, hidden, n));
        for f in ["Cx", "Cv", "Cw", "Ce"] {
            // a commitment replaced by a non-canonical representative (the randomness of another one is >= 0 and not the value)
            let p2 = edit(&p, |v| {
                let x = v["spok"]["s_2"].clone();
                v["spok"][f]["value"] = x;
            });
            assert!(!spok_verify(c, &p2, &rev, hidden, n), "{}", f);
        }
        let p3 = edit(&p, |v| {
            let x = v["spok"]["Cw"]["value"].clone();
            v["range_proof_e"]["E"] = x;
        });
        assert!(!spok_verify(c, &p3, &rev, hidden, n));
        let p4 = edit(&p, |v| {
            let x = v["spok"]["Cw"].clone();
            v["spok"]["Ce"] = x;
        });
        assert!(!spok_verify(c, &p4, &rev, hidden, n));
        let p5 = edit(&p, |v| {
            let x = v["range_proof_e"].clone();
            arr(v, &["range_proofs_commited_mi"]).push(x);
        });
        assert!(!spok_verify(c, &p5, &rev, hidden, n));
        if !hidden.is_empty() {
            let p6 = edit(&p, |v| {
                arr(v, &["spok", "s_5"]).pop();
            });
            assert!(!spok_verify(c, &p6, &rev, hidden, n));
            let p7 = edit(&p, |v| {
                arr(v, &["proofs_commited_mi"]).pop();
            });
            assert!(!spok_verify(c, &p7, &rev, hidden, n));
            let p8 = edit(&p, |v| {
                arr(v, &["range_proofs_commited_mi"]).pop();
            });
            assert!(!spok_verify(c, &p8, &rev, hidden, n));
            let p9 = edit(&p, |v| {
                let x = v["range_proof_e"].clone();
                arr(v, &["range_proofs_commited_mi"])[0] = x;
            });
            assert!(!spok_verify(c, &p9, &rev, hidden, n));
            let p10 = edit(&p, |v| {
                let x = v["spok"]["Ce"].clone();
                arr(v, &["proofs_commited_mi"])[0]["commitment"] = x;
            });
            assert!(!spok_verify(c, &p10, &rev, hidden, n));
            // the range proof of an attribute in place of the one of e
            let p11 = edit(&p, |v| {
                let x = arr(v, &["range_proofs_commited_mi"])[0].clone();
                v["range_proof_e"] = x;
            });
            assert!(!spok_verify(c, &p11, &rev, hidden, n));
        }
        if hidden.len() >= 2 {
            let p12 = edit(&p, |v| arr(v, &["spok", "s_5"]).swap(0, 1));
            assert!(!spok_verify(c, &p12, &rev, hidden, n));
            let p13 = edit(&p, |v| arr(v, &["proofs_commited_mi"]).swap(0, 1));
            assert!(!spok_verify(c, &p13, &rev, hidden, n));
            let p14 = edit(&p, |v| arr(v, &["range_proofs_commited_mi"]).swap(0, 1));
            assert!(!spok_verify(c, &p14, &rev, hidden, n));
            // both lists swapped consistently: each pair is still sound, but sits at the wrong position
            let p15 = edit(&p, |v| {
                arr(v, &["proofs_commited_mi"]).swap(0, 1);
                arr(v, &["range_proofs_commited_mi"]).swap(0, 1);
            });
            assert!(!spok_verify(c, &p15, &rev, hidden, n));
        }
    }

    // fewer bases than signed attributes on one side only: indexing past the end panics
    let short = Ctx {
        pk: c.pk.clone(),
        a_bases: Bases(c.a_bases.0[..3].to_vec()),
        cpk: c.cpk.clone(),
        msgs: c.msgs.clone(),
    };
    let hidden = [0usize];
    let rev = revealed(&c.msgs, &hidden);
    let p = PoKSignature::<S>::proof_gen(sig.cl03Signature(), &c.cpk, &c.pk, &c.a_bases, &c.msgs, &hidden);
    assert!(panics(|| spok_verify(&short, &p, &rev, &hidden, 4)));
    // ... while a malformed statement is rejected before
    assert!(!spok_verify(&short, &p, &rev, &[0, 0], 4));
}

#[test]
fn cl03_verifiers() {
    let kp = KeyPair::<S>::generate();
    let pk = kp.public_key().clone();
    let n = 4;
    let c = Ctx {
        a_bases: Bases::generate(&pk, n),
        cpk: CL03CommitmentPublicKey::generate::<CS>(Some(pk.N.clone()), Some(n)),
        msgs: messages(n),
        pk,
    };
    zkpok_cases(&c);

    let sig = Signature::<S>::sign_multiattr(&c.pk, kp.private_key(), &c.a_bases, &c.msgs);
    assert!(sig.verify_multiattr(&c.pk, &c.a_bases, &c.msgs));
    spok_cases(&c, &sig);

    // a proof for another signature size: one attribute, hidden
    let c1 = Ctx {
        pk: c.pk.clone(),
        a_bases: Bases(c.a_bases.0[..1].to_vec()),
        cpk: CL03CommitmentPublicKey {
            N: c.cpk.N.clone(),
            h: c.cpk.h.clone(),
            g_bases: c.cpk.g_bases[..1].to_vec(),
        },
        msgs: messages(1),
    };
    let sig1 = Signature::<S>::sign_multiattr(&c1.pk, kp.private_key(), &c1.a_bases, &c1.msgs);
    let p = PoKSignature::<S>::proof_gen(sig1.cl03Signature(), &c1.cpk, &c1.pk, &c1.a_bases, &c1.msgs, &[0]);
    assert!(spok_verify(&c1, &p, &[], &[0], 1));
    assert!(!spok_verify(&c1, &p, &c1.msgs, &[], 1));
    assert!(!spok_verify(&c1, &p, &[], &[0], 0));
    assert!(!spok_verify(&c, &p, &c.msgs[1..], &[0], 4));
}
