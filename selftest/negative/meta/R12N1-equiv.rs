// Behavioural pins for the BBS+ key and signature code (public API only, deterministic).
//
// The test builds a textual transcript of Ok values (hex) and Err variants for a fixed set of
// inputs and compares it with the transcript recorded on the reference tree.
// Run with `EQUIV_PRINT=1 cargo test --offline --test equiv -- --nocapture` to print the transcript.

#![allow(non_snake_case)]

use bls12_381_plus::{G1Projective, G2Projective, Scalar};
use elliptic_curve::hash2curve::ExpandMsg;
use std::fmt::Write as _;
use std::marker::PhantomData;
use zkryptium::{
    bbsplus::{
        ciphersuites::{BbsCiphersuite, Bls12381Sha256, Bls12381Shake256},
        keys::{BBSplusPublicKey, BBSplusSecretKey},
        signature::BBSplusSignature,
    },
    errors::Error,
    keys::pair::KeyPair,
    schemes::{
        algorithms::BBSplus,
        generics::{BlindSignature, PoKSignature, Signature},
    },
};

const IKM: &str = "746869732d49532d6a7573742d616e2d546573742d494b4d2d746f2d67656e65726174652d246528724074232d6b6579";
const KEY_INFO: &str = "746869732d49532d736f6d652d6b65792d6d657461646174612d746f2d62652d757365642d696e2d746573742d6b65792d67656e";
const HEADER: &str = "11223344556677889900aabbccddeeff";
// the order r of the scalar field, big endian
const R_HEX: &str = "73eda753299d7d483339d80809a1d80553bda402fffe5bfeffffffff00000001";
const R_MINUS_1_HEX: &str = "73eda753299d7d483339d80809a1d80553bda402fffe5bfeffffffff00000000";

fn variant(e: &Error) -> String {
    let d = format!("{:?}", e);
    d.split('(').next().unwrap().to_owned()
}

fn show<T: AsRef<[u8]>>(r: &Result<T, Error>) -> String {
    match r {
        Ok(v) => hex::encode(v.as_ref()),
        Err(e) => format!("ERR {}", variant(e)),
    }
}

fn unit(r: &Result<(), Error>) -> String {
    match r {
        Ok(()) => "ok".to_owned(),
        Err(e) => format!("ERR {}", variant(e)),
    }
}

fn msgs(n: usize) -> Vec<Vec<u8>> {
    // different lengths, the first one empty, deterministic contents
    (0..n)
        .map(|i| (0..(i * 7) % 40).map(|j| (i * 31 + j * 3 + 1) as u8).collect())
        .collect()
}

fn keys<CS: BbsCiphersuite + Clone + std::fmt::Debug>(out: &mut String, tag: &str)
where
    CS::Expander: for<'a> ExpandMsg<'a>,
{
    let ikm = hex::decode(IKM).unwrap();
    let info = hex::decode(KEY_INFO).unwrap();
    let default_dst = [CS::API_ID, CS::KEYGEN_DST].concat();
    let long_info_ok = vec![0x5au8; 65535];
    let long_info_bad = vec![0x5au8; 65536];
    let dst255 = vec![0x41u8; 255];
    let dst256 = vec![0x41u8; 256];

    let cases: Vec<(&str, &[u8], Option<&[u8]>, Option<&[u8]>)> = vec![
        ("ikm48/none/none", &ikm, None, None),
        ("ikm48/empty/none", &ikm, Some(&[]), None),
        ("ikm48/info/none", &ikm, Some(&info), None),
        ("ikm48/info/default", &ikm, Some(&info), Some(&default_dst)),
        ("ikm48/info/custom", &ikm, Some(&info), Some(b"custom-dst")),
        ("ikm48/info/emptydst", &ikm, Some(&info), Some(&[])),
        ("ikm48/none/dst255", &ikm, None, Some(&dst255)),
        ("ikm48/none/dst256", &ikm, None, Some(&dst256)),
        ("ikm31", &ikm[..31], None, None),
        ("ikm31/info65536", &ikm[..31], Some(&long_info_bad), None),
        ("ikm32", &ikm[..32], None, None),
        ("ikm33", &ikm[..33], Some(&info[..1]), None),
        ("ikm0", &[], None, None),
        ("ikm48/info65535", &ikm, Some(&long_info_ok), None),
        ("ikm48/info65536", &ikm, Some(&long_info_bad), None),
        ("ikm48/info65536/dst256", &ikm, Some(&long_info_bad), Some(&dst256)),
    ];
    for (name, km, ki, kd) in cases {
        match KeyPair::<BBSplus<CS>>::generate(km, ki, kd) {
            Ok(kp) => {
                let sk = kp.private_key();
                let pk = kp.public_key();
                // the several encoders agree with one another
                assert_eq!(sk.encode(), hex::encode(sk.to_bytes()));
                assert_eq!(pk.encode(), hex::encode(pk.to_bytes()));
                assert_eq!(&sk.public_key(), pk);
                assert_eq!(&BBSplusSecretKey::from_bytes(&sk.to_bytes()).unwrap(), sk);
                assert_eq!(&BBSplusPublicKey::from_bytes(&pk.to_bytes()).unwrap(), pk);
                let (x, y) = pk.to_coordinates();
                assert_eq!(&BBSplusPublicKey::from_coordinates(&x, &y).unwrap(), pk);
                let (sk2, pk2) = kp.clone().into_parts();
                assert_eq!((&sk2, &pk2), (sk, pk));
                writeln!(out, "{tag} keygen {name}: {} {} {}", sk.encode(), pk.encode(), hex::encode(x)).unwrap();
            }
            Err(e) => writeln!(out, "{tag} keygen {name}: ERR {}", variant(&e)).unwrap(),
        }
    }

    // None and Some(empty) key_info, None and the default dst give the same key
    let a = KeyPair::<BBSplus<CS>>::generate(&ikm, None, None).unwrap();
    let b = KeyPair::<BBSplus<CS>>::generate(&ikm, Some(&[]), Some(&default_dst)).unwrap();
    assert_eq!(a, b);

    // random(): only shape properties can be pinned
    let r1 = KeyPair::<BBSplus<CS>>::random().unwrap();
    let r2 = KeyPair::<BBSplus<CS>>::random().unwrap();
    assert_ne!(r1, r2);
    assert_eq!(&r1.private_key().public_key(), r1.public_key());
    assert_ne!(r1.private_key().0, Scalar::ZERO);
}

fn key_decoders(out: &mut String) {
    // secret keys
    let mut one = [0u8; 32];
    one[31] = 1;
    let mut le_one = [0u8; 32];
    le_one[0] = 1;
    let sk_cases: Vec<(&str, Vec<u8>)> = vec![
        ("empty", vec![]),
        ("len31", vec![1u8; 31]),
        ("len33", vec![1u8; 33]),
        ("len64", vec![0u8; 64]),
        ("zero", vec![0u8; 32]),
        ("one", one.to_vec()),
        ("le_one", le_one.to_vec()),
        ("r", hex::decode(R_HEX).unwrap()),
        ("r-1", hex::decode(R_MINUS_1_HEX).unwrap()),
        ("ff", vec![0xffu8; 32]),
    ];
    for (name, bytes) in &sk_cases {
        let r = BBSplusSecretKey::from_bytes(bytes);
        if let Ok(sk) = &r {
            assert_eq!(&sk.to_bytes()[..], &bytes[..]);
        }
        let r = r.map(|sk| sk.public_key().to_bytes());
        writeln!(out, "sk.from_bytes {name}: {}", show(&r)).unwrap();
    }

    // public keys
    let kp = KeyPair::<BBSplus<Bls12381Sha256>>::generate(&hex::decode(IKM).unwrap(), None, None).unwrap();
    let good = kp.public_key().to_bytes();
    let mut identity = [0u8; 96];
    identity[0] = 0xc0;
    let mut identity_bad_flag = [0u8; 96];
    identity_bad_flag[0] = 0x40;
    let mut uncompressed_flag = good;
    uncompressed_flag[0] &= 0x7f;
    let mut sort_flipped = good;
    sort_flipped[0] ^= 0x20;
    let mut last_flipped = good;
    last_flipped[95] ^= 0x01;
    let mut x_too_big = [0xffu8; 96];
    x_too_big[0] = 0x9f;
    let g2 = G2Projective::GENERATOR;
    let (x0, y0) = kp.public_key().to_coordinates();
    let pk_cases: Vec<(&str, Vec<u8>)> = vec![
        ("good", good.to_vec()),
        ("empty", vec![]),
        ("len95", good[..95].to_vec()),
        ("len97", [&good[..], &[0u8]].concat()),
        ("len192", [&x0[..], &y0[..]].concat()),
        ("identity", identity.to_vec()),
        ("identity_bad_flag", identity_bad_flag.to_vec()),
        ("zeros", vec![0u8; 96]),
        ("uncompressed_flag", uncompressed_flag.to_vec()),
        ("sort_flipped", sort_flipped.to_vec()),
        ("last_flipped", last_flipped.to_vec()),
        ("x_too_big", x_too_big.to_vec()),
        ("generator", BBSplusPublicKey(g2).to_bytes().to_vec()),
    ];
    for (name, bytes) in &pk_cases {
        let r = BBSplusPublicKey::from_bytes(bytes).map(|pk| {
            let (x, y) = pk.to_coordinates();
            [&pk.to_bytes()[..], &x[..], &y[..]].concat()
        });
        writeln!(out, "pk.from_bytes {name}: {}", show(&r)).unwrap();
    }

    // coordinates
    let (x, y) = kp.public_key().to_coordinates();
    let mut id_x = [0u8; 96];
    id_x[0] = 0x40;
    let mut y_flipped = y;
    y_flipped[95] ^= 1;
    let mut x_compressed_flag = x;
    x_compressed_flag[0] |= 0x80;
    let coord_cases: Vec<(&str, [u8; 96], [u8; 96])> = vec![
        ("good", x, y),
        ("swapped", y, x),
        ("identity", id_x, [0u8; 96]),
        ("zeros", [0u8; 96], [0u8; 96]),
        ("y_flipped", x, y_flipped),
        ("x_compressed_flag", x_compressed_flag, y),
    ];
    for (name, x, y) in &coord_cases {
        let r = BBSplusPublicKey::from_coordinates(x, y).map(|pk| pk.to_bytes());
        writeln!(out, "pk.from_coordinates {name}: {}", show(&r)).unwrap();
    }
}

fn signatures<CS: BbsCiphersuite + Clone + std::fmt::Debug>(out: &mut String, tag: &str)
where
    CS::Expander: for<'a> ExpandMsg<'a>,
{
    type Sig<CS> = Signature<BBSplus<CS>>;
    let ikm = hex::decode(IKM).unwrap();
    let info = hex::decode(KEY_INFO).unwrap();
    let header = hex::decode(HEADER).unwrap();
    let kp = KeyPair::<BBSplus<CS>>::generate(&ikm, Some(&info), None).unwrap();
    let (sk, pk) = (kp.private_key(), kp.public_key());
    let other = KeyPair::<BBSplus<CS>>::generate(&ikm[1..], None, None).unwrap();

    // sign / verify for several list sizes, with and without a header
    for n in [0usize, 1, 2, 3, 5, 10] {
        let m = msgs(n);
        for (hname, h) in [("none", None), ("empty", Some(&[][..])), ("hdr", Some(&header[..]))] {
            let sig = Sig::<CS>::sign(Some(&m), sk, pk, h);
            writeln!(out, "{tag} sign n={n} header={hname}: {}", show(&sig.as_ref().map(|s| s.to_bytes()).map_err(|e| e.clone()))).unwrap();
            let sig = sig.unwrap();
            assert_eq!(sig.to_bytes(), sig.bbsPlusSignature().to_bytes());
            assert_eq!(sig.a(), sig.bbsPlusSignature().A);
            assert_eq!(sig.e(), sig.bbsPlusSignature().e);
            assert_eq!(Sig::<CS>::from_bytes(&sig.to_bytes()).unwrap(), sig);
            assert!(sig.verify(pk, Some(&m), h).is_ok());
            if n == 0 {
                // None and Some(empty) are the same list
                assert_eq!(Sig::<CS>::sign(None, sk, pk, h).unwrap(), sig);
                assert!(sig.verify(pk, None, h).is_ok());
            }
            // negative cases
            let mut longer = m.clone();
            longer.push(vec![]);
            let mut changed = m.clone();
            if n > 0 {
                changed[n - 1].push(0);
            }
            let mut rotated = m.clone();
            rotated.rotate_left(n.min(1));
            let results = [
                sig.verify(pk, Some(&longer), h),
                sig.verify(pk, if n > 0 { Some(&m[..n - 1]) } else { Some(&longer) }, h),
                sig.verify(pk, Some(&changed), h),
                sig.verify(pk, Some(&rotated), h),
                sig.verify(pk, None, h),
                sig.verify(pk, Some(&m), Some(b"other header")),
                sig.verify(pk, Some(&m), if h == Some(&header[..]) { None } else { Some(&header[..]) }),
                sig.verify(other.public_key(), Some(&m), h),
                sig.verify(&BBSplusPublicKey(G2Projective::IDENTITY), Some(&m), h),
            ];
            let line: Vec<String> = results.iter().map(unit).collect();
            writeln!(out, "{tag} verify n={n} header={hname}: {}", line.join(",")).unwrap();
        }
    }

    // the public key is bound through the domain only: a foreign pk still signs, the result verifies under neither key
    let m3 = msgs(3);
    let mixed = Sig::<CS>::sign(Some(&m3), sk, other.public_key(), Some(&header)).unwrap();
    writeln!(
        out,
        "{tag} sign mixed keys: {} {} {}",
        hex::encode(mixed.to_bytes()),
        unit(&mixed.verify(pk, Some(&m3), Some(&header))),
        unit(&mixed.verify(other.public_key(), Some(&m3), Some(&header)))
    )
    .unwrap();

    // a long message and a long header
    let big = vec![vec![0xabu8; 70_000], vec![], vec![1u8; 1]];
    let big_header = vec![0xcdu8; 70_000];
    let s = Sig::<CS>::sign(Some(&big), sk, pk, Some(&big_header)).unwrap();
    writeln!(out, "{tag} sign big: {} {}", hex::encode(s.to_bytes()), unit(&s.verify(pk, Some(&big), Some(&big_header)))).unwrap();

    // values the verifier refuses whatever the rest looks like
    let good = Sig::<CS>::sign(Some(&m3), sk, pk, Some(&header)).unwrap();
    let forged = [
        ("A=identity", Sig::<CS>::BBSplus(BBSplusSignature { A: G1Projective::IDENTITY, e: good.e() })),
        ("e=0", Sig::<CS>::BBSplus(BBSplusSignature { A: good.a(), e: Scalar::ZERO })),
        ("both", Sig::<CS>::BBSplus(BBSplusSignature { A: G1Projective::IDENTITY, e: Scalar::ZERO })),
        ("A=-A", Sig::<CS>::BBSplus(BBSplusSignature { A: -good.a(), e: good.e() })),
        ("e=e+1", Sig::<CS>::BBSplus(BBSplusSignature { A: good.a(), e: good.e() + Scalar::ONE })),
        ("A=generator", Sig::<CS>::BBSplus(BBSplusSignature { A: G1Projective::GENERATOR, e: Scalar::ONE })),
        ("unreachable", Sig::<CS>::_Unreachable(PhantomData)),
    ];
    for (name, f) in &forged {
        writeln!(
            out,
            "{tag} verify forged {name}: {},{},{},{}",
            unit(&f.verify(pk, Some(&m3), Some(&header))),
            unit(&f.verify(pk, None, None)),
            unit(&f.verify(&BBSplusPublicKey(G2Projective::IDENTITY), Some(&m3), Some(&header))),
            show(&f.update_signature(sk, &m3[0], &m3[1], 0, 3).map(|s| s.to_bytes())),
        )
        .unwrap();
    }

    // octet decoder of signatures
    let good_bytes = good.to_bytes();
    let mut id_a = good_bytes;
    id_a[..48].fill(0);
    id_a[0] = 0xc0;
    let mut zero_e = good_bytes;
    zero_e[48..].fill(0);
    let mut big_e = good_bytes;
    big_e[48..].copy_from_slice(&hex::decode(R_HEX).unwrap());
    let mut max_e = good_bytes;
    max_e[48..].copy_from_slice(&hex::decode(R_MINUS_1_HEX).unwrap());
    let mut bad_a = good_bytes;
    bad_a[0] &= 0x7f;
    let mut off_curve = good_bytes;
    off_curve[47] ^= 1;
    let mut sort_flipped = good_bytes;
    sort_flipped[0] ^= 0x20;
    for (name, bytes) in [
        ("good", good_bytes),
        ("A=identity", id_a),
        ("e=0", zero_e),
        ("e=r", big_e),
        ("e=r-1", max_e),
        ("A uncompressed flag", bad_a),
        ("A last byte flipped", off_curve),
        ("A sort flipped", sort_flipped),
        ("zeros", [0u8; 80]),
        ("ff", [0xffu8; 80]),
    ] {
        let a = BBSplusSignature::from_bytes(&bytes);
        let b = Sig::<CS>::from_bytes(&bytes);
        assert_eq!(a.is_ok(), b.is_ok());
        let verdict = b.as_ref().map(|s| unit(&s.verify(pk, Some(&m3), Some(&header)))).unwrap_or_default();
        writeln!(out, "{tag} sig.from_bytes {name}: {} {verdict}", show(&a.map(|s| s.to_bytes()))).unwrap();
    }

    // update_signature
    for n in [1usize, 3, 6] {
        let m = msgs(n);
        let sig = Sig::<CS>::sign(Some(&m), sk, pk, Some(&header)).unwrap();
        let new_message = b"a new value".to_vec();
        for idx in [0usize, n / 2, n - 1, n, n + 1, usize::MAX] {
            let r = sig.update_signature(sk, &m[idx.min(n - 1)], &new_message, idx, n);
            let verdict = match &r {
                Ok(s) => {
                    let mut m2 = m.clone();
                    m2[idx] = new_message.clone();
                    assert!(s.verify(pk, Some(&m), Some(&header)).is_err());
                    unit(&s.verify(pk, Some(&m2), Some(&header)))
                }
                Err(_) => String::new(),
            };
            writeln!(out, "{tag} update n={n} idx={idx}: {} {verdict}", show(&r.map(|s| s.to_bytes()))).unwrap();
        }
        // same old and new value: the signature does not change
        assert_eq!(sig.update_signature(sk, &m[0], &m[0], 0, n).unwrap(), sig);
        // n larger than the signed list, wrong old value, wrong key: still a (useless) signature
        let r = sig.update_signature(sk, &m[0], &new_message, n + 1, n + 2);
        writeln!(out, "{tag} update n={n} beyond: {}", show(&r.map(|s| s.to_bytes()))).unwrap();
        let r = sig.update_signature(sk, b"not the old value", &new_message, 0, n);
        writeln!(out, "{tag} update n={n} wrong old: {}", show(&r.map(|s| s.to_bytes()))).unwrap();
        let r = sig.update_signature(other.private_key(), &m[0], &new_message, 0, n);
        writeln!(out, "{tag} update n={n} wrong key: {}", show(&r.map(|s| s.to_bytes()))).unwrap();
        // range checks come before anything expensive
        for (idx, total) in [(0usize, 0usize), (0, usize::MAX), (usize::MAX, usize::MAX), (usize::MAX - 1, usize::MAX), (5, 5), (5, 4)] {
            let r = sig.update_signature(sk, &m[0], &new_message, idx, total);
            writeln!(out, "{tag} update n={n} idx={idx} total={total}: {}", show(&r.map(|s| s.to_bytes()))).unwrap();
        }
        // sk + e = 0 has no inverse
        let r = sig.update_signature(&BBSplusSecretKey(-sig.e()), &m[0], &new_message, 0, n);
        writeln!(out, "{tag} update n={n} sk=-e: {}", show(&r.map(|s| s.to_bytes()))).unwrap();
    }

    // the callers of the shared domain / verification code: blind signatures without a commitment, proofs
    for n in [0usize, 2, 4] {
        let m = msgs(n);
        let b = BlindSignature::<BBSplus<CS>>::blind_sign(sk, pk, None, Some(&header), Some(&m)).unwrap();
        writeln!(
            out,
            "{tag} blind n={n}: {} {},{},{}",
            hex::encode(b.to_bytes()),
            unit(&b.verify_blind_sign(pk, Some(&header), Some(&m), None, None)),
            unit(&b.verify_blind_sign(pk, None, Some(&m), None, None)),
            unit(&b.verify_blind_sign(&BBSplusPublicKey(G2Projective::IDENTITY), Some(&header), Some(&m), None, None)),
        )
        .unwrap();

        let sig = Sig::<CS>::sign(Some(&m), sk, pk, Some(&header)).unwrap();
        let disclosed: Vec<usize> = (0..n).step_by(2).collect();
        let disclosed_msgs: Vec<Vec<u8>> = disclosed.iter().map(|&i| m[i].clone()).collect();
        let proof = PoKSignature::<BBSplus<CS>>::proof_gen(pk, &sig.to_bytes(), Some(&header), Some(b"nonce"), Some(&m), Some(&disclosed)).unwrap();
        writeln!(
            out,
            "{tag} proof n={n}: {},{}",
            unit(&proof.proof_verify(pk, Some(&disclosed_msgs), Some(&disclosed), Some(&header), Some(b"nonce"))),
            unit(&proof.proof_verify(pk, Some(&disclosed_msgs), Some(&disclosed), None, Some(b"nonce"))),
        )
        .unwrap();
    }
}

fn transcript() -> String {
    let mut out = String::new();
    keys::<Bls12381Sha256>(&mut out, "sha");
    keys::<Bls12381Shake256>(&mut out, "shake");
    key_decoders(&mut out);
    signatures::<Bls12381Sha256>(&mut out, "sha");
    signatures::<Bls12381Shake256>(&mut out, "shake");
    out
}

#[test]
fn transcript_matches_reference() {
    let t = transcript();
    if std::env::var("EQUIV_PRINT").is_ok() {
        println!("-----BEGIN-----\n{t}-----END-----");
    }
    let expected: Vec<&str> = GOLDEN.trim().lines().map(str::trim).collect();
    let got: Vec<&str> = t.trim().lines().map(str::trim).collect();
    for (i, (g, e)) in got.iter().zip(expected.iter()).enumerate() {
        assert_eq!(g, e, "transcript line {i} differs");
    }
    assert_eq!(got.len(), expected.len(), "transcript length differs");
}

#[test]
fn fixture_signatures() {
    // the draft's own vectors, through the public API
    fn run<CS: BbsCiphersuite + Clone + std::fmt::Debug>(dir: &str)
    where
        CS::Expander: for<'a> ExpandMsg<'a>,
    {
        for i in 1..=10 {
            let data = std::fs::read_to_string(format!("{dir}signature/signature{i:03}.json")).unwrap();
            let v: serde_json::Value = serde_json::from_str(&data).unwrap();
            let header = hex::decode(v["header"].as_str().unwrap()).unwrap();
            let m: Vec<Vec<u8>> = v["messages"].as_array().unwrap().iter().map(|m| hex::decode(m.as_str().unwrap()).unwrap()).collect();
            let sk = BBSplusSecretKey::from_bytes(&hex::decode(v["signerKeyPair"]["secretKey"].as_str().unwrap()).unwrap()).unwrap();
            let pk = BBSplusPublicKey::from_bytes(&hex::decode(v["signerKeyPair"]["publicKey"].as_str().unwrap()).unwrap()).unwrap();
            let expected = v["signature"].as_str().unwrap();
            let valid = v["result"]["valid"].as_bool().unwrap();
            let sig = Signature::<BBSplus<CS>>::sign(Some(&m), &sk, &pk, Some(&header)).unwrap();
            assert_eq!(hex::encode(sig.to_bytes()) == expected, valid, "{dir} {i}");
            let bytes: [u8; 80] = hex::decode(expected).unwrap().try_into().unwrap();
            let given = Signature::<BBSplus<CS>>::from_bytes(&bytes).unwrap();
            assert_eq!(given.verify(&pk, Some(&m), Some(&header)).is_ok(), valid, "{dir} {i}");
        }
        let data = std::fs::read_to_string(format!("{dir}keypair.json")).unwrap();
        let v: serde_json::Value = serde_json::from_str(&data).unwrap();
        let h = |k: &str| hex::decode(v[k].as_str().unwrap()).unwrap();
        let kp = KeyPair::<BBSplus<CS>>::generate(&h("keyMaterial"), Some(&h("keyInfo")), Some(&h("keyDst"))).unwrap();
        assert_eq!(kp.private_key().encode(), v["keyPair"]["secretKey"].as_str().unwrap());
        assert_eq!(kp.public_key().encode(), v["keyPair"]["publicKey"].as_str().unwrap());
    }
    run::<Bls12381Sha256>("./fixture_data/bls12-381-sha-256/");
    run::<Bls12381Shake256>("./fixture_data/bls12-381-shake-256/");
}

const GOLDEN: &str = r#"
sha keygen ikm48/none/none: 6e6f828d94a8758058b10f1977dcd20c3c0c2c5cfbc087a74adca213b2cc9f7a b9ce0b115515d22d5590caefa5f63879acbd4142ff2f87353cc8b5e7df5a11c6ea87feeb825680380e689aa522ef9bdd13f66c3b67cf96acadb9b295f49afd4908ae9953d33e1df5f185413ee91a85785c23ffcbfc487baf4fdfbdbe31f03a76 19ce0b115515d22d5590caefa5f63879acbd4142ff2f87353cc8b5e7df5a11c6ea87feeb825680380e689aa522ef9bdd13f66c3b67cf96acadb9b295f49afd4908ae9953d33e1df5f185413ee91a85785c23ffcbfc487baf4fdfbdbe31f03a76
sha keygen ikm48/empty/none: 6e6f828d94a8758058b10f1977dcd20c3c0c2c5cfbc087a74adca213b2cc9f7a b9ce0b115515d22d5590caefa5f63879acbd4142ff2f87353cc8b5e7df5a11c6ea87feeb825680380e689aa522ef9bdd13f66c3b67cf96acadb9b295f49afd4908ae9953d33e1df5f185413ee91a85785c23ffcbfc487baf4fdfbdbe31f03a76 19ce0b115515d22d5590caefa5f63879acbd4142ff2f87353cc8b5e7df5a11c6ea87feeb825680380e689aa522ef9bdd13f66c3b67cf96acadb9b295f49afd4908ae9953d33e1df5f185413ee91a85785c23ffcbfc487baf4fdfbdbe31f03a76
sha keygen ikm48/info/none: 60e55110f76883a13d030b2f6bd11883422d5abde717569fc0731f51237169fc a820f230f6ae38503b86c70dc50b61c58a77e45c39ab25c0652bbaa8fa136f2851bd4781c9dcde39fc9d1d52c9e60268061e7d7632171d91aa8d460acee0e96f1e7c4cfb12d3ff9ab5d5dc91c277db75c845d649ef3c4f63aebc364cd55ded0c 0820f230f6ae38503b86c70dc50b61c58a77e45c39ab25c0652bbaa8fa136f2851bd4781c9dcde39fc9d1d52c9e60268061e7d7632171d91aa8d460acee0e96f1e7c4cfb12d3ff9ab5d5dc91c277db75c845d649ef3c4f63aebc364cd55ded0c
sha keygen ikm48/info/default: 60e55110f76883a13d030b2f6bd11883422d5abde717569fc0731f51237169fc a820f230f6ae38503b86c70dc50b61c58a77e45c39ab25c0652bbaa8fa136f2851bd4781c9dcde39fc9d1d52c9e60268061e7d7632171d91aa8d460acee0e96f1e7c4cfb12d3ff9ab5d5dc91c277db75c845d649ef3c4f63aebc364cd55ded0c 0820f230f6ae38503b86c70dc50b61c58a77e45c39ab25c0652bbaa8fa136f2851bd4781c9dcde39fc9d1d52c9e60268061e7d7632171d91aa8d460acee0e96f1e7c4cfb12d3ff9ab5d5dc91c277db75c845d649ef3c4f63aebc364cd55ded0c
sha keygen ikm48/info/custom: 1cf69bd0531a638b661f3efc0b6c97af4d4fcb2052bd580ace3592442eb60b37 80bb1e9ca9c8dfc82fb0cbe6896f18fea5dbb45736033c322c61f95fe82ba716dd722f3940452c065447a6d0e6c1243c0cd417dcf9bb353d9f18c24d4e0be865e2ebc924e70c5af4c1921a01affb128ecec7fb1bbb18b5c2509e2582b74f7891 00bb1e9ca9c8dfc82fb0cbe6896f18fea5dbb45736033c322c61f95fe82ba716dd722f3940452c065447a6d0e6c1243c0cd417dcf9bb353d9f18c24d4e0be865e2ebc924e70c5af4c1921a01affb128ecec7fb1bbb18b5c2509e2582b74f7891
sha keygen ikm48/info/emptydst: 3f42f7271d9f45d35c1d6523989d5216be64549b073775f665d451d8911740af 935f6d22d4af5ce2aa3400619257faa015d6ae1ea329cd65f8e42903429090dcf3168906629675f005e65f24bd8551e714c7bb61786c5b35f54f816ed460835cd62b5938632103c3c1355a53e8fcf95ee0289f5277a310ad318c5f82088e8795 135f6d22d4af5ce2aa3400619257faa015d6ae1ea329cd65f8e42903429090dcf3168906629675f005e65f24bd8551e714c7bb61786c5b35f54f816ed460835cd62b5938632103c3c1355a53e8fcf95ee0289f5277a310ad318c5f82088e8795
sha keygen ikm48/none/dst255: 1e6408fe3c745e6c45e34ae5d605792f0ced7d5b68720193d1e321dfa8ac60e7 b7bc4e42a744b8a4ec8f2b3cb7791e959fa32a327eb99811bf7445efc411787fbac5c2192061ebc10e1ed462ee4df57b0976cbc3c9c6dc95a88da7221c930b9eb87b86e31ef35fe38b9c4ee8ed749c336b526819fc9dd075f021176af566df23 17bc4e42a744b8a4ec8f2b3cb7791e959fa32a327eb99811bf7445efc411787fbac5c2192061ebc10e1ed462ee4df57b0976cbc3c9c6dc95a88da7221c930b9eb87b86e31ef35fe38b9c4ee8ed749c336b526819fc9dd075f021176af566df23
sha keygen ikm48/none/dst256: ERR HashToScalarError
sha keygen ikm31: ERR KeyGenError
sha keygen ikm31/info65536: ERR KeyGenError
sha keygen ikm32: 055287ba6034a102f64d8604c98697adce1de234cd02e9c90e01b2682b7a8dfb 86cc2015113887b4e36053df600a0934b620cbe7c8f0dcf25d1309de046f9d2611fb2a4cb038cc34a308223483e28bed17e1c35b92e09f44d2cfeaf5b1aad187eddd94827b6dedf8f1b3bb5b644c037a19eb1ed837f0a5b490239ffe0f449ded 06cc2015113887b4e36053df600a0934b620cbe7c8f0dcf25d1309de046f9d2611fb2a4cb038cc34a308223483e28bed17e1c35b92e09f44d2cfeaf5b1aad187eddd94827b6dedf8f1b3bb5b644c037a19eb1ed837f0a5b490239ffe0f449ded
sha keygen ikm33: 64b734c5758eaa70797cab001a6f44a527d5b8c8fd70a3ec899de6a5d0b74694 b097d63d6f8182d7f46275905291bf60078d64684e8ae06852bf74e7875ae134d404106dd3569ab3acc767bd759bccb306b596f12b2f0ffd4b38b36f6094cbc82a4b8c8135e39225001d738e7c81d98a974e782106d2e98995b74d70f95aa61f 1097d63d6f8182d7f46275905291bf60078d64684e8ae06852bf74e7875ae134d404106dd3569ab3acc767bd759bccb306b596f12b2f0ffd4b38b36f6094cbc82a4b8c8135e39225001d738e7c81d98a974e782106d2e98995b74d70f95aa61f
sha keygen ikm0: ERR KeyGenError
sha keygen ikm48/info65535: 1bd4b607649f7b92e636843f9f6e6f3186675c37c2e6db732d3d906ef732128d 86041d96e2c7fe519fddc30abe0517b91c3b286f225b6bb09afc961f55bb28ddef6fdc2bd9731b3aaa1f3e6874f4ad5a14ca48ae63cf3a0a6231a0864a3813ddeb11d9dd22e91399ca15d1cfa8582f6eb6136db926432e1344283c5ea07b6db6 06041d96e2c7fe519fddc30abe0517b91c3b286f225b6bb09afc961f55bb28ddef6fdc2bd9731b3aaa1f3e6874f4ad5a14ca48ae63cf3a0a6231a0864a3813ddeb11d9dd22e91399ca15d1cfa8582f6eb6136db926432e1344283c5ea07b6db6
sha keygen ikm48/info65536: ERR KeyGenError
sha keygen ikm48/info65536/dst256: ERR KeyGenError
shake keygen ikm48/none/none: 2aa4ab5d2d5adeb6cc7e14db83c0e1ea0782d70b897701c73fa51062ccfc22b5 acf0e3f294abab91636cd48261e83154227fbca6ecadab4a4710428c190fe7289ece0e5d8d9b181555ebf5a7fc74995a1798b62a7e8e1b683c3657c916d9cfb45d6854ec4ceed69b8f26c49688b3b18818163a5e8a7ea1d3ded472c34d320c4b 0cf0e3f294abab91636cd48261e83154227fbca6ecadab4a4710428c190fe7289ece0e5d8d9b181555ebf5a7fc74995a1798b62a7e8e1b683c3657c916d9cfb45d6854ec4ceed69b8f26c49688b3b18818163a5e8a7ea1d3ded472c34d320c4b
shake keygen ikm48/empty/none: 2aa4ab5d2d5adeb6cc7e14db83c0e1ea0782d70b897701c73fa51062ccfc22b5 acf0e3f294abab91636cd48261e83154227fbca6ecadab4a4710428c190fe7289ece0e5d8d9b181555ebf5a7fc74995a1798b62a7e8e1b683c3657c916d9cfb45d6854ec4ceed69b8f26c49688b3b18818163a5e8a7ea1d3ded472c34d320c4b 0cf0e3f294abab91636cd48261e83154227fbca6ecadab4a4710428c190fe7289ece0e5d8d9b181555ebf5a7fc74995a1798b62a7e8e1b683c3657c916d9cfb45d6854ec4ceed69b8f26c49688b3b18818163a5e8a7ea1d3ded472c34d320c4b
shake keygen ikm48/info/none: 2eee0f60a8a3a8bec0ee942bfd46cbdae9a0738ee68f5a64e7238311cf09a079 92d37d1d6cd38fea3a873953333eab23a4c0377e3e049974eb62bd45949cdeb18fb0490edcd4429adff56e65cbce42cf188b31bddbd619e419b99c2c41b38179eb001963bc3decaae0d9f702c7a8c004f207f46c734a5eae2e8e82833f3e7ea5 12d37d1d6cd38fea3a873953333eab23a4c0377e3e049974eb62bd45949cdeb18fb0490edcd4429adff56e65cbce42cf188b31bddbd619e419b99c2c41b38179eb001963bc3decaae0d9f702c7a8c004f207f46c734a5eae2e8e82833f3e7ea5
shake keygen ikm48/info/default: 2eee0f60a8a3a8bec0ee942bfd46cbdae9a0738ee68f5a64e7238311cf09a079 92d37d1d6cd38fea3a873953333eab23a4c0377e3e049974eb62bd45949cdeb18fb0490edcd4429adff56e65cbce42cf188b31bddbd619e419b99c2c41b38179eb001963bc3decaae0d9f702c7a8c004f207f46c734a5eae2e8e82833f3e7ea5 12d37d1d6cd38fea3a873953333eab23a4c0377e3e049974eb62bd45949cdeb18fb0490edcd4429adff56e65cbce42cf188b31bddbd619e419b99c2c41b38179eb001963bc3decaae0d9f702c7a8c004f207f46c734a5eae2e8e82833f3e7ea5
shake keygen ikm48/info/custom: 2b4291ff41ade8a6e954dea0755643c8fe75c3397f8da34af8605d67da789936 974cc659933874f9403475b1e85a7004cad0a4fce7b5a7cc33c87057978340691af243aa39c3acfefb2b98abf335a878187e85130005bcf9d7fca969b51abffee01476a51760fd695b171d351c722942a4191de50e08fee92e4d1bae17fb94af 174cc659933874f9403475b1e85a7004cad0a4fce7b5a7cc33c87057978340691af243aa39c3acfefb2b98abf335a878187e85130005bcf9d7fca969b51abffee01476a51760fd695b171d351c722942a4191de50e08fee92e4d1bae17fb94af
shake keygen ikm48/info/emptydst: 4181cf9aec57aff0d2d49f4720477c5b3228387662047e92772c7fbe9936b2d4 a4c592702d5229d0315db000b16573eb8b767b5fcb6ccc508d2f0cb55e61484f7170957653231a5cc1f5ae19d08d7c150b89792637b426c828f9d7200e86ca926fa140c04538f06393eb35ea43f857866db28e2322be5253b65f5ba0fe688d07 04c592702d5229d0315db000b16573eb8b767b5fcb6ccc508d2f0cb55e61484f7170957653231a5cc1f5ae19d08d7c150b89792637b426c828f9d7200e86ca926fa140c04538f06393eb35ea43f857866db28e2322be5253b65f5ba0fe688d07
shake keygen ikm48/none/dst255: 0c86d441465f5e437729d4c4ce0306c58a5197853998cf0ac6cab81d4cc6828d 91eeb4728cccd419a359c53a6620be575fdde8744ce8ee414fb14f12a79434f686b333580085fdb8e28550fe0647bf220d88658261e3d7cde029767d3179b4813d57c5237ff9f55bf7b2267966cfe62d93da15b396f8215334864fa28454c0dc 11eeb4728cccd419a359c53a6620be575fdde8744ce8ee414fb14f12a79434f686b333580085fdb8e28550fe0647bf220d88658261e3d7cde029767d3179b4813d57c5237ff9f55bf7b2267966cfe62d93da15b396f8215334864fa28454c0dc
shake keygen ikm48/none/dst256: ERR HashToScalarError
shake keygen ikm31: ERR KeyGenError
shake keygen ikm31/info65536: ERR KeyGenError
shake keygen ikm32: 12e9e8f5bc2712e7907886ca6313fa664cd56f05aa134ae7d2e256b04c245151 a64756ccdb6fe785206946831f7cc9327740dbaa8e814b156bb2423af221a6f10597f1a01251c4a54837a4ab54d65410143f3ca8dd90ae88a949f712e45a427958093d6613d6ca641aede419e69a1ca84d178d4edf134193d974b7f666de086f 064756ccdb6fe785206946831f7cc9327740dbaa8e814b156bb2423af221a6f10597f1a01251c4a54837a4ab54d65410143f3ca8dd90ae88a949f712e45a427958093d6613d6ca641aede419e69a1ca84d178d4edf134193d974b7f666de086f
shake keygen ikm33: 285a937968551f4ecc16d072cb89699002da298dd03dceff77421e671b6ed203 8a67ab03c1d8f009fbf5a3fe690dcf01d2174bd30f99cfc9d327349812c8c16f20914b285e1650e80fd0effd825ccc7a13edc6ce9c72a4ddf826a61df6bb1befad307655e2779e3d4d9033c58c1dfcb71fa5f2dbd56208858722c120dcebffb2 0a67ab03c1d8f009fbf5a3fe690dcf01d2174bd30f99cfc9d327349812c8c16f20914b285e1650e80fd0effd825ccc7a13edc6ce9c72a4ddf826a61df6bb1befad307655e2779e3d4d9033c58c1dfcb71fa5f2dbd56208858722c120dcebffb2
shake keygen ikm0: ERR KeyGenError
shake keygen ikm48/info65535: 4503b8173d0c4546109bb50eb0ffff6826d7f64422f8a785bdd82a831951f7a7 984881dad35313654484eb8adc34441624a1ea5bb729f5a6cced3323c4c55727d819fdc41b3c3cbea3d55b1b45f0f9e713ae6567e8a6c9cf9c820e2387a5b381e88a6af253d5cfe18dbdc960245dba3713f36222e6c4bf4a0cd68bf0a2f837de 184881dad35313654484eb8adc34441624a1ea5bb729f5a6cced3323c4c55727d819fdc41b3c3cbea3d55b1b45f0f9e713ae6567e8a6c9cf9c820e2387a5b381e88a6af253d5cfe18dbdc960245dba3713f36222e6c4bf4a0cd68bf0a2f837de
shake keygen ikm48/info65536: ERR KeyGenError
shake keygen ikm48/info65536/dst256: ERR KeyGenError
sk.from_bytes empty: ERR KeyDeserializationError
sk.from_bytes len31: ERR KeyDeserializationError
sk.from_bytes len33: ERR KeyDeserializationError
sk.from_bytes len64: ERR KeyDeserializationError
sk.from_bytes zero: ERR KeyDeserializationError
sk.from_bytes one: 93e02b6052719f607dacd3a088274f65596bd0d09920b61ab5da61bbdc7f5049334cf11213945d57e5ac7d055d042b7e024aa2b2f08f0a91260805272dc51051c6e47ad4fa403b02b4510b647ae3d1770bac0326a805bbefd48056c8c121bdb8
sk.from_bytes le_one: b70f842a2c85614d88ce277000d12f08bf2ab38037e69b699902b78732d2b8d834f97b0a0205f130e5615d178a2ee4c90bcb66b915199dd61ea67d0eb55a2ca998cb3fb62cca7348b050c2f8fb411dcd79921567d01dc167de002370b21301d4
sk.from_bytes r: ERR KeyDeserializationError
sk.from_bytes r-1: b3e02b6052719f607dacd3a088274f65596bd0d09920b61ab5da61bbdc7f5049334cf11213945d57e5ac7d055d042b7e024aa2b2f08f0a91260805272dc51051c6e47ad4fa403b02b4510b647ae3d1770bac0326a805bbefd48056c8c121bdb8
sk.from_bytes ff: ERR KeyDeserializationError
pk.from_bytes good: b9ce0b115515d22d5590caefa5f63879acbd4142ff2f87353cc8b5e7df5a11c6ea87feeb825680380e689aa522ef9bdd13f66c3b67cf96acadb9b295f49afd4908ae9953d33e1df5f185413ee91a85785c23ffcbfc487baf4fdfbdbe31f03a7619ce0b115515d22d5590caefa5f63879acbd4142ff2f87353cc8b5e7df5a11c6ea87feeb825680380e689aa522ef9bdd13f66c3b67cf96acadb9b295f49afd4908ae9953d33e1df5f185413ee91a85785c23ffcbfc487baf4fdfbdbe31f03a760eafee550876c8c88d1fe2b7b95d3274951bcaf731f17742b0d2c1e205680206a1e6b1453dfd8995ed048469df7d70fd0f451b84c4da97d172683545c6fbf9b49c1f8fb2d0569884e34d000882154661ec0111157b17c2f72f912f96483d0fe8
pk.from_bytes empty: ERR KeyDeserializationError
pk.from_bytes len95: ERR KeyDeserializationError
pk.from_bytes len97: ERR KeyDeserializationError
pk.from_bytes len192: ERR KeyDeserializationError
pk.from_bytes identity: ERR KeyDeserializationError
pk.from_bytes identity_bad_flag: ERR KeyDeserializationError
pk.from_bytes zeros: ERR KeyDeserializationError
pk.from_bytes uncompressed_flag: ERR KeyDeserializationError
pk.from_bytes sort_flipped: 99ce0b115515d22d5590caefa5f63879acbd4142ff2f87353cc8b5e7df5a11c6ea87feeb825680380e689aa522ef9bdd13f66c3b67cf96acadb9b295f49afd4908ae9953d33e1df5f185413ee91a85785c23ffcbfc487baf4fdfbdbe31f03a7619ce0b115515d22d5590caefa5f63879acbd4142ff2f87353cc8b5e7df5a11c6ea87feeb825680380e689aa522ef9bdd13f66c3b67cf96acadb9b295f49afd4908ae9953d33e1df5f185413ee91a85785c23ffcbfc487baf4fdfbdbe31f03a760b51239531091dd1bdfbc4fe89ee7a62cf5b808dc1939b7cb65e10bef148f41d7cc54eb973567669ccfa7b96208239ae0abbf66574a54ec8d8b372707c4fb322c857bbd2232e7a3a83e3d298749bafc232aaeee9363c3d088a6dd069b7c29ac3
pk.from_bytes last_flipped: ERR KeyDeserializationError
pk.from_bytes x_too_big: ERR KeyDeserializationError
pk.from_bytes generator: 93e02b6052719f607dacd3a088274f65596bd0d09920b61ab5da61bbdc7f5049334cf11213945d57e5ac7d055d042b7e024aa2b2f08f0a91260805272dc51051c6e47ad4fa403b02b4510b647ae3d1770bac0326a805bbefd48056c8c121bdb813e02b6052719f607dacd3a088274f65596bd0d09920b61ab5da61bbdc7f5049334cf11213945d57e5ac7d055d042b7e024aa2b2f08f0a91260805272dc51051c6e47ad4fa403b02b4510b647ae3d1770bac0326a805bbefd48056c8c121bdb80606c4a02ea734cc32acd2b02bc28b99cb3e287e85a763af267492ab572e99ab3f370d275cec1da1aaa9075ff05f79be0ce5d527727d6e118cc9cdc6da2e351aadfd9baa8cbdd3a76d429a695160d12c923ac9cc3baca289e193548608b82801
pk.from_coordinates good: b9ce0b115515d22d5590caefa5f63879acbd4142ff2f87353cc8b5e7df5a11c6ea87feeb825680380e689aa522ef9bdd13f66c3b67cf96acadb9b295f49afd4908ae9953d33e1df5f185413ee91a85785c23ffcbfc487baf4fdfbdbe31f03a76
pk.from_coordinates swapped: ERR KeyDeserializationError
pk.from_coordinates identity: ERR KeyDeserializationError
pk.from_coordinates zeros: ERR KeyDeserializationError
pk.from_coordinates y_flipped: ERR KeyDeserializationError
pk.from_coordinates x_compressed_flag: ERR KeyDeserializationError
sha sign n=0 header=none: 933b67aa14d25672fcc081be8524285a5236380b9e39d44a0422b82cbc054acb600dcfc8d3e74796b129908326f293792f786cbf62e561836b2eff5cb38fb2ab7c75409df88d7456e0e521910564fc82
sha verify n=0 header=none: ERR SignatureVerificationError,ERR SignatureVerificationError,ok,ok,ok,ERR SignatureVerificationError,ERR SignatureVerificationError,ERR SignatureVerificationError,ERR SignatureVerificationError
sha sign n=0 header=empty: 933b67aa14d25672fcc081be8524285a5236380b9e39d44a0422b82cbc054acb600dcfc8d3e74796b129908326f293792f786cbf62e561836b2eff5cb38fb2ab7c75409df88d7456e0e521910564fc82
sha verify n=0 header=empty: ERR SignatureVerificationError,ERR SignatureVerificationError,ok,ok,ok,ERR SignatureVerificationError,ERR SignatureVerificationError,ERR SignatureVerificationError,ERR SignatureVerificationError
sha sign n=0 header=hdr: b2400767ba587b79d61fb09630ce03a2e8b3970efad84daca2e8776eab369b47a2a07a97ea066a25257e351fbcc0e16b3ecb1bc9fefd4ef3e7dc9e5921f5e7f2a032d0adb034b8b78e49b5c518c1f89a
sha verify n=0 header=hdr: ERR SignatureVerificationError,ERR SignatureVerificationError,ok,ok,ok,ERR SignatureVerificationError,ERR SignatureVerificationError,ERR SignatureVerificationError,ERR SignatureVerificationError
sha sign n=1 header=none: 817cfbc16e70dd03b56d053bb613e19e2bb63477884cdd8daecb8431291d6bef0e5a2fc51ebc2a79791423d18388a2772bc2118625941dbe76dc4597fbf59c04576126983bbe18af5b7467a3356c1e56
sha verify n=1 header=none: ERR SignatureVerificationError,ERR SignatureVerificationError,ERR SignatureVerificationError,ok,ERR SignatureVerificationError,ERR SignatureVerificationError,ERR SignatureVerificationError,ERR SignatureVerificationError,ERR SignatureVerificationError
sha sign n=1 header=empty: 817cfbc16e70dd03b56d053bb613e19e2bb63477884cdd8daecb8431291d6bef0e5a2fc51ebc2a79791423d18388a2772bc2118625941dbe76dc4597fbf59c04576126983bbe18af5b7467a3356c1e56
sha verify n=1 header=empty: ERR SignatureVerificationError,ERR SignatureVerificationError,ERR SignatureVerificationError,ok,ERR SignatureVerificationError,ERR SignatureVerificationError,ERR SignatureVerificationError,ERR SignatureVerificationError,ERR SignatureVerificationError
sha sign n=1 header=hdr: 8d53fc869178b0a6d63471eee12490f845e468ddf1fcfd0d54eff05d9b3f423dffe2b44eb1e6ebaa51011fb9d58ae03715652c6c1edbdf8ec56afcd2f2ab1a327d159f54250b3e4626370402e58a8a4a
sha verify n=1 header=hdr: ERR SignatureVerificationError,ERR SignatureVerificationError,ERR SignatureVerificationError,ok,ERR SignatureVerificationError,ERR SignatureVerificationError,ERR SignatureVerificationError,ERR SignatureVerificationError,ERR SignatureVerificationError
sha sign n=2 header=none: 8f4786832a4d6dac1a0f8f2793f1c9bfcef0b20afe0786286abea1ad5996302788ecebe808813cf09c0fdcd2933306183d772023e424b804dd164e17cb2ffc8392d0159e25b49bd9f0d99ec1a7a93a9c
sha verify n=2 header=none: ERR SignatureVerificationError,ERR SignatureVerificationError,ERR SignatureVerificationError,ERR SignatureVerificationError,ERR SignatureVerificationError,ERR SignatureVerificationError,ERR SignatureVerificationError,ERR SignatureVerificationError,ERR SignatureVerificationError
sha sign n=2 header=empty: 8f4786832a4d6dac1a0f8f2793f1c9bfcef0b20afe0786286abea1ad5996302788ecebe808813cf09c0fdcd2933306183d772023e424b804dd164e17cb2ffc8392d0159e25b49bd9f0d99ec1a7a93a9c
sha verify n=2 header=empty: ERR SignatureVerificationError,ERR SignatureVerificationError,ERR SignatureVerificationError,ERR SignatureVerificationError,ERR SignatureVerificationError,ERR SignatureVerificationError,ERR SignatureVerificationError,ERR SignatureVerificationError,ERR SignatureVerificationError
sha sign n=2 header=hdr: 8e4b6334350b12e28bde5606a8d016634f9b4bd9b5039a87c2358f98e3204abce2224039d6ba8c5064d45857462cf3576019090a7563c0c3d7d170c08f5c66a71f3f1d55ab00c539b195fa30f2a422b8
sha verify n=2 header=hdr: ERR SignatureVerificationError,ERR SignatureVerificationError,ERR SignatureVerificationError,ERR SignatureVerificationError,ERR SignatureVerificationError,ERR SignatureVerificationError,ERR SignatureVerificationError,ERR SignatureVerificationError,ERR SignatureVerificationError
sha sign n=3 header=none: aef1a1409a439654b99b746be013c6e311873a8602787df2b6e1b3beea5455eb6ea3b6482b13d316aad28a5e2255a87f3d9ebc36f540bc2f79b6031ddeca9d3a9eefbb0d4f466fe301318b3e4f5decb2
sha verify n=3 header=none: ERR SignatureVerificationError,ERR SignatureVerificationError,ERR SignatureVerificationError,ERR SignatureVerificationError,ERR SignatureVerificationError,ERR SignatureVerificationError,ERR SignatureVerificationError,ERR SignatureVerificationError,ERR SignatureVerificationError
sha sign n=3 header=empty: aef1a1409a439654b99b746be013c6e311873a8602787df2b6e1b3beea5455eb6ea3b6482b13d316aad28a5e2255a87f3d9ebc36f540bc2f79b6031ddeca9d3a9eefbb0d4f466fe301318b3e4f5decb2
sha verify n=3 header=empty: ERR SignatureVerificationError,ERR SignatureVerificationError,ERR SignatureVerificationError,ERR SignatureVerificationError,ERR SignatureVerificationError,ERR SignatureVerificationError,ERR SignatureVerificationError,ERR SignatureVerificationError,ERR SignatureVerificationError
sha sign n=3 header=hdr: a622ea28eda57238228a94debf8a8136f3c362d480b26efb378d9b6e6517d60e6ecc7a8eea62ef1a81a55f7c9ec46e911802ac8bf29adc1f22e7f01bf6ab1188b851a07bd5612a5dd7f9cf10c9b65664
sha verify n=3 header=hdr: ERR SignatureVerificationError,ERR SignatureVerificationError,ERR SignatureVerificationError,ERR SignatureVerificationError,ERR SignatureVerificationError,ERR SignatureVerificationError,ERR SignatureVerificationError,ERR SignatureVerificationError,ERR SignatureVerificationError
sha sign n=5 header=none: a439b0781b3978042724f38aeb9f0ff925d7dfbc8ff5e625a6d3d4ec0ecec798c298c72f49de8b301f11e9be057a98e671122ff99e36f5f5d736a416b2c8862487fb5cce5e79c960ec4937ca1e22ee77
sha verify n=5 header=none: ERR SignatureVerificationError,ERR SignatureVerificationError,ERR SignatureVerificationError,ERR SignatureVerificationError,ERR SignatureVerificationError,ERR SignatureVerificationError,ERR SignatureVerificationError,ERR SignatureVerificationError,ERR SignatureVerificationError
sha sign n=5 header=empty: a439b0781b3978042724f38aeb9f0ff925d7dfbc8ff5e625a6d3d4ec0ecec798c298c72f49de8b301f11e9be057a98e671122ff99e36f5f5d736a416b2c8862487fb5cce5e79c960ec4937ca1e22ee77
sha verify n=5 header=empty: ERR SignatureVerificationError,ERR SignatureVerificationError,ERR SignatureVerificationError,ERR SignatureVerificationError,ERR SignatureVerificationError,ERR SignatureVerificationError,ERR SignatureVerificationError,ERR SignatureVerificationError,ERR SignatureVerificationError
sha sign n=5 header=hdr: 84c3df0f0dfe88ad4d6cf1c397a9a501569d7afa331c36f03c17896c7dd9e44a636d0257c216fed2fa9609e9aa8e9fce6455721a230079f20b56e509158da4c1182a541975ceac16faa710ecd438fc65
sha verify n=5 header=hdr: ERR SignatureVerificationError,ERR SignatureVerificationError,ERR SignatureVerificationError,ERR SignatureVerificationError,ERR SignatureVerificationError,ERR SignatureVerificationError,ERR SignatureVerificationError,ERR SignatureVerificationError,ERR SignatureVerificationError
sha sign n=10 header=none: a90fec2022a663a5f51b5f905fdaafdd2cd367a468073abb6fcd77d6671fead49c418fc262458a682c94786087eac0224c02147e2622f9453df72849b58d9f009297cc07bdffd30fca71391358ce8013
sha verify n=10 header=none: ERR SignatureVerificationError,ERR SignatureVerificationError,ERR SignatureVerificationError,ERR SignatureVerificationError,ERR SignatureVerificationError,ERR SignatureVerificationError,ERR SignatureVerificationError,ERR SignatureVerificationError,ERR SignatureVerificationError
sha sign n=10 header=empty: a90fec2022a663a5f51b5f905fdaafdd2cd367a468073abb6fcd77d6671fead49c418fc262458a682c94786087eac0224c02147e2622f9453df72849b58d9f009297cc07bdffd30fca71391358ce8013
sha verify n=10 header=empty: ERR SignatureVerificationError,ERR SignatureVerificationError,ERR SignatureVerificationError,ERR SignatureVerificationError,ERR SignatureVerificationError,ERR SignatureVerificationError,ERR SignatureVerificationError,ERR SignatureVerificationError,ERR SignatureVerificationError
sha sign n=10 header=hdr: b733881e34ca95871a0021fd9fe1a313a9317517a4e1d440d7f532a91199515589edca9c3697ec8016bc1566d7dbe853236da99f7051c1a1dbd5f4e40a0ab104e9e4c0fe358dfe29adfdaf74b971e6b4
sha verify n=10 header=hdr: ERR SignatureVerificationError,ERR SignatureVerificationError,ERR SignatureVerificationError,ERR SignatureVerificationError,ERR SignatureVerificationError,ERR SignatureVerificationError,ERR SignatureVerificationError,ERR SignatureVerificationError,ERR SignatureVerificationError
sha sign mixed keys: 961e256c5889f208849a3a0634704718bb6d393ac71afd6220a25f4d494bb67757154523cce0a420484b1b554cda98743817e5c6758cda187c43a06569525dcb6caec6d96be84257d2a6b876619ad511 ERR SignatureVerificationError ERR SignatureVerificationError
sha sign big: 9592cb5784be912f5ad261fe0963770201ede1b0e06f075038556cf6760e68749138c604f63cbbb3f25427067b7c31124903a444208b06ae045aa3e60f94aab6969533506ef2d69401f89c81dd00f424 ok
sha verify forged A=identity: ERR SignatureVerificationError,ERR SignatureVerificationError,ERR SignatureVerificationError,857a7abe6e70c62c487801d9714fd891c490d0a48df7c4c0e81f6e76323db77e2fd53ce0cbde833eaee62a10c1e7dcad1802ac8bf29adc1f22e7f01bf6ab1188b851a07bd5612a5dd7f9cf10c9b65664
sha verify forged e=0: ERR SignatureVerificationError,ERR SignatureVerificationError,ERR SignatureVerificationError,b5ee0187047c665aee5770127e3fa905116b24af40a0bd6ddd98a21fd023acc966438df04058857042f6f919eec94ab00000000000000000000000000000000000000000000000000000000000000000
sha verify forged both: ERR SignatureVerificationError,ERR SignatureVerificationError,ERR SignatureVerificationError,8866f0181c5756fdc5407f43821c654d20a95f8edb2ea76a628cbf78c267557e93c892090537b3dcacae094e6195a1bc0000000000000000000000000000000000000000000000000000000000000000
sha verify forged A=-A: ERR SignatureVerificationError,ERR SignatureVerificationError,ERR SignatureVerificationError,8e15fe3d29c3bc051ce0842e333299816fe4399e9e2d2d82c640e6cc3f2912ec5b62c68e43b43172dc0b54d08d01abcf1802ac8bf29adc1f22e7f01bf6ab1188b851a07bd5612a5dd7f9cf10c9b65664
sha verify forged e=e+1: ERR SignatureVerificationError,ERR SignatureVerificationError,ERR SignatureVerificationError,b4d32b94aecf3a50afe0c0bfe8ca87126ec3d097b7a09d9acfd839320b08d2b2997b4811b2f8df25c13919e3d70ec3e91802ac8bf29adc1f22e7f01bf6ab1188b851a07bd5612a5dd7f9cf10c9b65665
sha verify forged A=generator: ERR SignatureVerificationError,ERR SignatureVerificationError,ERR SignatureVerificationError,a1d9728984d3eb435edc3bf12067f19ec4d0a185be88ba38aa4a2383001b1145c570bb68b19922c5cd236bea838772ec0000000000000000000000000000000000000000000000000000000000000001
sha verify forged unreachable: ERR UnespectedError,ERR UnespectedError,ERR UnespectedError,ERR UnespectedError
sha sig.from_bytes good: a622ea28eda57238228a94debf8a8136f3c362d480b26efb378d9b6e6517d60e6ecc7a8eea62ef1a81a55f7c9ec46e911802ac8bf29adc1f22e7f01bf6ab1188b851a07bd5612a5dd7f9cf10c9b65664 ok
sha sig.from_bytes A=identity: ERR InvalidSignature
sha sig.from_bytes e=0: ERR InvalidSignature
sha sig.from_bytes e=r: ERR InvalidSignature
sha sig.from_bytes e=r-1: a622ea28eda57238228a94debf8a8136f3c362d480b26efb378d9b6e6517d60e6ecc7a8eea62ef1a81a55f7c9ec46e9173eda753299d7d483339d80809a1d80553bda402fffe5bfeffffffff00000000 ERR SignatureVerificationError
sha sig.from_bytes A uncompressed flag: ERR InvalidSignature
sha sig.from_bytes A last byte flipped: ERR InvalidSignature
sha sig.from_bytes A sort flipped: 8622ea28eda57238228a94debf8a8136f3c362d480b26efb378d9b6e6517d60e6ecc7a8eea62ef1a81a55f7c9ec46e911802ac8bf29adc1f22e7f01bf6ab1188b851a07bd5612a5dd7f9cf10c9b65664 ERR SignatureVerificationError
sha sig.from_bytes zeros: ERR InvalidSignature
sha sig.from_bytes ff: ERR InvalidSignature
sha update n=1 idx=0: 9143998c935baf427d308125fcfbd05aaca12d926195fcea557c6af2d1176991543151375854a7e0882484f4744632b815652c6c1edbdf8ec56afcd2f2ab1a327d159f54250b3e4626370402e58a8a4a ok
sha update n=1 idx=0: 9143998c935baf427d308125fcfbd05aaca12d926195fcea557c6af2d1176991543151375854a7e0882484f4744632b815652c6c1edbdf8ec56afcd2f2ab1a327d159f54250b3e4626370402e58a8a4a ok
sha update n=1 idx=0: 9143998c935baf427d308125fcfbd05aaca12d926195fcea557c6af2d1176991543151375854a7e0882484f4744632b815652c6c1edbdf8ec56afcd2f2ab1a327d159f54250b3e4626370402e58a8a4a ok
sha update n=1 idx=1: ERR UpdateSignatureError
sha update n=1 idx=2: ERR UpdateSignatureError
sha update n=1 idx=18446744073709551615: ERR UpdateSignatureError
sha update n=1 beyond: 98b1581ef1a9e484f95df36909b75d8db1d542da3547d5a139c2b9dd28303ff32778640d505674bcbaa05e457bfa15ba15652c6c1edbdf8ec56afcd2f2ab1a327d159f54250b3e4626370402e58a8a4a
sha update n=1 wrong old: 835571376b5fcd11abbc59676f4eaf52c27e4438ebdde304a58ea07f436cbb783dcbe931c7148b7051e35ee7d6bb7e9f15652c6c1edbdf8ec56afcd2f2ab1a327d159f54250b3e4626370402e58a8a4a
sha update n=1 wrong key: 8a236ae3a57e3ce8d1b5b70caa4144cc95df2839494c877c9f1cf3ca588470c007c3fc888110a25d22a7e61db261a1cc15652c6c1edbdf8ec56afcd2f2ab1a327d159f54250b3e4626370402e58a8a4a
sha update n=1 idx=0 total=0: ERR UpdateSignatureError
sha update n=1 idx=0 total=18446744073709551615: ERR UpdateSignatureError
sha update n=1 idx=18446744073709551615 total=18446744073709551615: ERR UpdateSignatureError
sha update n=1 idx=18446744073709551614 total=18446744073709551615: ERR UpdateSignatureError
sha update n=1 idx=5 total=5: ERR UpdateSignatureError
sha update n=1 idx=5 total=4: ERR UpdateSignatureError
sha update n=1 sk=-e: ERR UpdateSignatureError
sha update n=3 idx=0: 94fa08b33217c18e3328b20f2db352e4a9d22e172f372288c61e6071f37989c0ba5dd3123ef4d43ba1a80d13ada8e2281802ac8bf29adc1f22e7f01bf6ab1188b851a07bd5612a5dd7f9cf10c9b65664 ok
sha update n=3 idx=1: 97b041f24f8b52ebe3ea0e66e4fa3909500ebe3e53d45761f48bd92cb94640b3bb6053f2d6c10b3bd85527b2b74b2b6f1802ac8bf29adc1f22e7f01bf6ab1188b851a07bd5612a5dd7f9cf10c9b65664 ok
sha update n=3 idx=2: 9405f2f401e173f8e82b2fb5e10c96b7ba1cf6a66215438cf75caeaea8e50a8a260eca041ba5e266a3412af3d66b27591802ac8bf29adc1f22e7f01bf6ab1188b851a07bd5612a5dd7f9cf10c9b65664 ok
sha update n=3 idx=3: ERR UpdateSignatureError
sha update n=3 idx=4: ERR UpdateSignatureError
sha update n=3 idx=18446744073709551615: ERR UpdateSignatureError
sha update n=3 beyond: b129c14cbb96192e6bf9352f1337affa4c4a2193aea1d76dbdfe69946ca800d925b36f3af2d40e153a893c26f69620cf1802ac8bf29adc1f22e7f01bf6ab1188b851a07bd5612a5dd7f9cf10c9b65664
sha update n=3 wrong old: 91edbb6b7ca88e3a69d090e748d336531584976d03e778ee889fa13680ec37f1e4b9b57a65dbe0973ae272da6f70ebe81802ac8bf29adc1f22e7f01bf6ab1188b851a07bd5612a5dd7f9cf10c9b65664
sha update n=3 wrong key: 85e7785a72e16703637deb166a889a364ce89cf92a252f34e7ebf7e7711eaa8ee23175bb66a62f85039b9ae0d97e15a61802ac8bf29adc1f22e7f01bf6ab1188b851a07bd5612a5dd7f9cf10c9b65664
sha update n=3 idx=0 total=0: ERR UpdateSignatureError
sha update n=3 idx=0 total=18446744073709551615: ERR UpdateSignatureError
sha update n=3 idx=18446744073709551615 total=18446744073709551615: ERR UpdateSignatureError
sha update n=3 idx=18446744073709551614 total=18446744073709551615: ERR UpdateSignatureError
sha update n=3 idx=5 total=5: ERR UpdateSignatureError
sha update n=3 idx=5 total=4: ERR UpdateSignatureError
sha update n=3 sk=-e: ERR UpdateSignatureError
sha update n=6 idx=0: a45ca0b9fa407be0daf841d7bdb96fcfc3c0b90ca07aab0b0dc0bc9e1f17ab27737b089701bbe2cbccbad3fb57d916d66e965515b4710c3cbb84717c495bfd0631295e5f4cf9e0bb166271bf376abb2b ok
sha update n=6 idx=3: 8527165e5e652128e2a69e091f70837504c45ddf4dc3306bdc8960176f97deecf6ea6bc0fde34be02d02869b09ab19746e965515b4710c3cbb84717c495bfd0631295e5f4cf9e0bb166271bf376abb2b ok
sha update n=6 idx=5: b7d6ec4dd47f01d928877614a0df2f0d35dcbe48aee5b4a8cbd7888c65d9f3f1066c4b28b6bb2adef6b17e58e59caa856e965515b4710c3cbb84717c495bfd0631295e5f4cf9e0bb166271bf376abb2b ok
sha update n=6 idx=6: ERR UpdateSignatureError
sha update n=6 idx=7: ERR UpdateSignatureError
sha update n=6 idx=18446744073709551615: ERR UpdateSignatureError
sha update n=6 beyond: 8568eab4b9e021cd8b21ce77fed2ff7285353e09fa12f1f14dcb512ead11b5485a32084d595a4f2d328b7fe3d444ed276e965515b4710c3cbb84717c495bfd0631295e5f4cf9e0bb166271bf376abb2b
sha update n=6 wrong old: 87f592fa13b1f2a3777e5e467e1beefce4fd93bc31b6306525d2d257ab7ac05f93662b772eed8a481593ccd8d1399d9d6e965515b4710c3cbb84717c495bfd0631295e5f4cf9e0bb166271bf376abb2b
sha update n=6 wrong key: a0723eca6f37d4fd730495a74687b1b693dd4f36cfc3e71f8d50145875110004ca643af91bf9971747d83606ac40e0246e965515b4710c3cbb84717c495bfd0631295e5f4cf9e0bb166271bf376abb2b
sha update n=6 idx=0 total=0: ERR UpdateSignatureError
sha update n=6 idx=0 total=18446744073709551615: ERR UpdateSignatureError
sha update n=6 idx=18446744073709551615 total=18446744073709551615: ERR UpdateSignatureError
sha update n=6 idx=18446744073709551614 total=18446744073709551615: ERR UpdateSignatureError
sha update n=6 idx=5 total=5: ERR UpdateSignatureError
sha update n=6 idx=5 total=4: ERR UpdateSignatureError
sha update n=6 sk=-e: ERR UpdateSignatureError
sha blind n=0: b482d0a83c984e42cb95890b3e45955454703aa9eff8f2e6ea69d864106797f40d57066a5d18c16705de49b6fcf91dce2d19082c6f3cd3c9f7cf9e6d96e64f27bf84c2bba61e09fd4e257a3fe59bd949 ok,ERR SignatureVerificationError,ERR SignatureVerificationError
sha proof n=0: ok,ERR PoKSVerificationError
sha blind n=2: 8b89977574ec53e22d3d62c2bb3820bf661e2ec62d64e911d8ed4adcb575130b0a932c68b2477a6bd440b4b97d51d90a55f6ebaef403b4340cd64cc1c356556b587e269459584d886cb2dc1d41cc334f ok,ERR SignatureVerificationError,ERR SignatureVerificationError
sha proof n=2: ok,ERR PoKSVerificationError
sha blind n=4: b86b58be96dd123089ce1799485a8db2e14cb5af9a627cf524d8b9506abf8cc09b90de0819c4c05599e6e64bf3f72df424125f2cfaeedd23d2a94a164c558a23c9d42bb708fe0d1606a0b3fb62f07d99 ok,ERR SignatureVerificationError,ERR SignatureVerificationError
sha proof n=4: ok,ERR PoKSVerificationError
shake sign n=0 header=none: a5dbcc859364534a5651d25b77265e910e133f566ebc74cdc573dce5cbb9081bf27101c5c0666cdfe02b45e19122abd51a43ec2a7de605bc102807858c7468e020978b1dbbee552c6d73a1d8e1388687
shake verify n=0 header=none: ERR SignatureVerificationError,ERR SignatureVerificationError,ok,ok,ok,ERR SignatureVerificationError,ERR SignatureVerificationError,ERR SignatureVerificationError,ERR SignatureVerificationError
shake sign n=0 header=empty: a5dbcc859364534a5651d25b77265e910e133f566ebc74cdc573dce5cbb9081bf27101c5c0666cdfe02b45e19122abd51a43ec2a7de605bc102807858c7468e020978b1dbbee552c6d73a1d8e1388687
shake verify n=0 header=empty: ERR SignatureVerificationError,ERR SignatureVerificationError,ok,ok,ok,ERR SignatureVerificationError,ERR SignatureVerificationError,ERR SignatureVerificationError,ERR SignatureVerificationError
shake sign n=0 header=hdr: 85834146605c5998a7f14df2ede858499cf249d4bf145c9abbb4df7fb45cd54856dabcc81b325e745e87f4cf0b79e71109a3fed5576ce516b75233d89d8ebfda6776d86de72ad9969ede9c2d82ebfd88
shake verify n=0 header=hdr: ERR SignatureVerificationError,ERR SignatureVerificationError,ok,ok,ok,ERR SignatureVerificationError,ERR SignatureVerificationError,ERR SignatureVerificationError,ERR SignatureVerificationError
shake sign n=1 header=none: a2dbc5b7e149fc5bc273d9a158e1f63cc7cf693717babcb7e73dace54ee23ac8598503b2be3f338a008bb1ac694f1a1c365f643df1685ff4cf940c3d2a72e926da589feb133dbbb669caa77b30506a49
shake verify n=1 header=none: ERR SignatureVerificationError,ERR SignatureVerificationError,ERR SignatureVerificationError,ok,ERR SignatureVerificationError,ERR SignatureVerificationError,ERR SignatureVerificationError,ERR SignatureVerificationError,ERR SignatureVerificationError
shake sign n=1 header=empty: a2dbc5b7e149fc5bc273d9a158e1f63cc7cf693717babcb7e73dace54ee23ac8598503b2be3f338a008bb1ac694f1a1c365f643df1685ff4cf940c3d2a72e926da589feb133dbbb669caa77b30506a49
shake verify n=1 header=empty: ERR SignatureVerificationError,ERR SignatureVerificationError,ERR SignatureVerificationError,ok,ERR SignatureVerificationError,ERR SignatureVerificationError,ERR SignatureVerificationError,ERR SignatureVerificationError,ERR SignatureVerificationError
shake sign n=1 header=hdr: aac0e805dc332466dd68b87e6fcebff911ce95c59f0cc549a848ec9405b943aa328142dcb903a24b369eb6b2e57845c2409b26ddb1d4243b7cb70d1c04da23c44ca8e7de462184927344d861f9d6cc2e
shake verify n=1 header=hdr: ERR SignatureVerificationError,ERR SignatureVerificationError,ERR SignatureVerificationError,ok,ERR SignatureVerificationError,ERR SignatureVerificationError,ERR SignatureVerificationError,ERR SignatureVerificationError,ERR SignatureVerificationError
shake sign n=2 header=none: b86acb2447a1bf71b285d5c93c6f93af010a9bfce8d133e4e94ad3b0726af678f7221eeaa660a29ae3c2d747cef9bf6655883281ed8141fc325610b9daa611def7d7decd37b60d9ee05e73e737e6430e
shake verify n=2 header=none: ERR SignatureVerificationError,ERR SignatureVerificationError,ERR SignatureVerificationError,ERR SignatureVerificationError,ERR SignatureVerificationError,ERR SignatureVerificationError,ERR SignatureVerificationError,ERR SignatureVerificationError,ERR SignatureVerificationError
shake sign n=2 header=empty: b86acb2447a1bf71b285d5c93c6f93af010a9bfce8d133e4e94ad3b0726af678f7221eeaa660a29ae3c2d747cef9bf6655883281ed8141fc325610b9daa611def7d7decd37b60d9ee05e73e737e6430e
shake verify n=2 header=empty: ERR SignatureVerificationError,ERR SignatureVerificationError,ERR SignatureVerificationError,ERR SignatureVerificationError,ERR SignatureVerificationError,ERR SignatureVerificationError,ERR SignatureVerificationError,ERR SignatureVerificationError,ERR SignatureVerificationError
shake sign n=2 header=hdr: 8b9805ba826f31de02a3923a5da513f879e28de5390ed2fa273be6ebbf1ad5321cb4b69cea3ed8e61dec79769e5b72185a9c72ab948740500f0973c661c244e56a2c3c127245651930df866a161b2eac
shake verify n=2 header=hdr: ERR SignatureVerificationError,ERR SignatureVerificationError,ERR SignatureVerificationError,ERR SignatureVerificationError,ERR SignatureVerificationError,ERR SignatureVerificationError,ERR SignatureVerificationError,ERR SignatureVerificationError,ERR SignatureVerificationError
shake sign n=3 header=none: 86328d8f96ae56fafcb37560cd959958af1007c5dd3ad1ac4503557952ed5504fbe8e70ff8e7c380150d050e772b3bfd67f6a25885f38da6754bbe51a065a94b5490fea892f172d8090b3df17d711ed0
shake verify n=3 header=none: ERR SignatureVerificationError,ERR SignatureVerificationError,ERR SignatureVerificationError,ERR SignatureVerificationError,ERR SignatureVerificationError,ERR SignatureVerificationError,ERR SignatureVerificationError,ERR SignatureVerificationError,ERR SignatureVerificationError
shake sign n=3 header=empty: 86328d8f96ae56fafcb37560cd959958af1007c5dd3ad1ac4503557952ed5504fbe8e70ff8e7c380150d050e772b3bfd67f6a25885f38da6754bbe51a065a94b5490fea892f172d8090b3df17d711ed0
shake verify n=3 header=empty: ERR SignatureVerificationError,ERR SignatureVerificationError,ERR SignatureVerificationError,ERR SignatureVerificationError,ERR SignatureVerificationError,ERR SignatureVerificationError,ERR SignatureVerificationError,ERR SignatureVerificationError,ERR SignatureVerificationError
shake sign n=3 header=hdr: 9067c52478d8ca1988a20c858a0a2e0b32829825aa526b5788ebf39aa6951bbb747ade307b4bef81c3c768979fa497bf3a1fde76dbfe198cca5a45a2372173d87d03a040d282a82713ff267fa2db46b2
shake verify n=3 header=hdr: ERR SignatureVerificationError,ERR SignatureVerificationError,ERR SignatureVerificationError,ERR SignatureVerificationError,ERR SignatureVerificationError,ERR SignatureVerificationError,ERR SignatureVerificationError,ERR SignatureVerificationError,ERR SignatureVerificationError
shake sign n=5 header=none: b3821c4a00cff3b1cfa302f4008b5927e13e18eae197c1e5e65daffd8a3e133d99c91deb9dd453f4e5691744979a396e50d88f5c2ab155ad1bdb0423052bbdf0207463eac6c8206b9722eba435de1e0b
shake verify n=5 header=none: ERR SignatureVerificationError,ERR SignatureVerificationError,ERR SignatureVerificationError,ERR SignatureVerificationError,ERR SignatureVerificationError,ERR SignatureVerificationError,ERR SignatureVerificationError,ERR SignatureVerificationError,ERR SignatureVerificationError
shake sign n=5 header=empty: b3821c4a00cff3b1cfa302f4008b5927e13e18eae197c1e5e65daffd8a3e133d99c91deb9dd453f4e5691744979a396e50d88f5c2ab155ad1bdb0423052bbdf0207463eac6c8206b9722eba435de1e0b
shake verify n=5 header=empty: ERR SignatureVerificationError,ERR SignatureVerificationError,ERR SignatureVerificationError,ERR SignatureVerificationError,ERR SignatureVerificationError,ERR SignatureVerificationError,ERR SignatureVerificationError,ERR SignatureVerificationError,ERR SignatureVerificationError
shake sign n=5 header=hdr: abe3ab8d8bbb32a620b3b7affdf453fdcc38e06a9d0724049b2d3ca4413af85b7bda3c9be49f93a48514d75a6c87b5b34aa03760bc1a1ac9431b8ce6d9b558624eb5841f558b0f668790de7959e1f423
shake verify n=5 header=hdr: ERR SignatureVerificationError,ERR SignatureVerificationError,ERR SignatureVerificationError,ERR SignatureVerificationError,ERR SignatureVerificationError,ERR SignatureVerificationError,ERR SignatureVerificationError,ERR SignatureVerificationError,ERR SignatureVerificationError
shake sign n=10 header=none: a5360297c2f3703894e66bfdb29b97f1396243f82d9424f7ce43cbb506ccaa97726512fa5ebbf70c284795400ada54ca0e1e2860bcac9dbbc745b4dc220941e0dea67c5469a5687ac4a8324390a350c1
shake verify n=10 header=none: ERR SignatureVerificationError,ERR SignatureVerificationError,ERR SignatureVerificationError,ERR SignatureVerificationError,ERR SignatureVerificationError,ERR SignatureVerificationError,ERR SignatureVerificationError,ERR SignatureVerificationError,ERR SignatureVerificationError
shake sign n=10 header=empty: a5360297c2f3703894e66bfdb29b97f1396243f82d9424f7ce43cbb506ccaa97726512fa5ebbf70c284795400ada54ca0e1e2860bcac9dbbc745b4dc220941e0dea67c5469a5687ac4a8324390a350c1
shake verify n=10 header=empty: ERR SignatureVerificationError,ERR SignatureVerificationError,ERR SignatureVerificationError,ERR SignatureVerificationError,ERR SignatureVerificationError,ERR SignatureVerificationError,ERR SignatureVerificationError,ERR SignatureVerificationError,ERR SignatureVerificationError
shake sign n=10 header=hdr: adfa2042c75229f1ca6f97a0f650beb7312cb246977c0786696a9c7c360e89367a692db69be44f59de6ae7fe67b16cdd6a8f92388b8e66f830511dbd45600effb71c392b05a6cf21377c8f4e572ba7da
shake verify n=10 header=hdr: ERR SignatureVerificationError,ERR SignatureVerificationError,ERR SignatureVerificationError,ERR SignatureVerificationError,ERR SignatureVerificationError,ERR SignatureVerificationError,ERR SignatureVerificationError,ERR SignatureVerificationError,ERR SignatureVerificationError
shake sign mixed keys: 8f7b27bb23831a6390986c4b99f3ba851860f7f7465b6fb8adc3757722499126da71df434fd9dc49de0baecfd1a68b4d32d5f9e45094db6d6539f84bbc2128017202a1d5fd872a05912dc0c56331c09f ERR SignatureVerificationError ERR SignatureVerificationError
shake sign big: 80cb5ba9dd15e1e23f3884619dd9662d4bfcd1d87f13599e3cb97e270bfc46fa5dd4cb36971acb7c8d320446810afa515b44795c58462152e685ede468289c21e513cd401e544ad66aaaa91f187d8e6c ok
shake verify forged A=identity: ERR SignatureVerificationError,ERR SignatureVerificationError,ERR SignatureVerificationError,908c9e852e303fc0c2bf2e4eb44f8ddc060b5b6b1939645f9afeb95abd06c1fac38a0fa9a187eb3427bf6370026cbf4c3a1fde76dbfe198cca5a45a2372173d87d03a040d282a82713ff267fa2db46b2
shake verify forged e=0: ERR SignatureVerificationError,ERR SignatureVerificationError,ERR SignatureVerificationError,aad0b0469f7583ed19b9cc17fe8f8eb41c19633f3203317859b2947c4c89778725c099aee8628b4b8bb920806561ebcf0000000000000000000000000000000000000000000000000000000000000000
shake verify forged both: ERR SignatureVerificationError,ERR SignatureVerificationError,ERR SignatureVerificationError,b4a90154da3ff6ba8218400cea39e34481ba72854528c6dbb98315369ea02e6652e4233726729243a04334892aa3932c0000000000000000000000000000000000000000000000000000000000000000
shake verify forged A=-A: ERR SignatureVerificationError,ERR SignatureVerificationError,ERR SignatureVerificationError,a582cfdb1e53bb5ba70ec98a8186e8a8c20b573f64f22925dec91ef1d6c154e81e3750915563ad4840df4a46767d32493a1fde76dbfe198cca5a45a2372173d87d03a040d282a82713ff267fa2db46b2
shake verify forged e=e+1: ERR SignatureVerificationError,ERR SignatureVerificationError,ERR SignatureVerificationError,8852384e20d3a43f7ced630b23ab9189a674e03bda513c706910546a6897805bb9f0c68974cd5685384c809fde95caaf3a1fde76dbfe198cca5a45a2372173d87d03a040d282a82713ff267fa2db46b3
shake verify forged A=generator: ERR SignatureVerificationError,ERR SignatureVerificationError,ERR SignatureVerificationError,b521c478177ec6a22f2201d413231e42e0bf593091b51ac5d0fc6779c11ac025f11fa41dfa602c91e18e80c2d3c02b650000000000000000000000000000000000000000000000000000000000000001
shake verify forged unreachable: ERR UnespectedError,ERR UnespectedError,ERR UnespectedError,ERR UnespectedError
shake sig.from_bytes good: 9067c52478d8ca1988a20c858a0a2e0b32829825aa526b5788ebf39aa6951bbb747ade307b4bef81c3c768979fa497bf3a1fde76dbfe198cca5a45a2372173d87d03a040d282a82713ff267fa2db46b2 ok
shake sig.from_bytes A=identity: ERR InvalidSignature
shake sig.from_bytes e=0: ERR InvalidSignature
shake sig.from_bytes e=r: ERR InvalidSignature
shake sig.from_bytes e=r-1: 9067c52478d8ca1988a20c858a0a2e0b32829825aa526b5788ebf39aa6951bbb747ade307b4bef81c3c768979fa497bf73eda753299d7d483339d80809a1d80553bda402fffe5bfeffffffff00000000 ERR SignatureVerificationError
shake sig.from_bytes A uncompressed flag: ERR InvalidSignature
shake sig.from_bytes A last byte flipped: ERR InvalidSignature
shake sig.from_bytes A sort flipped: b067c52478d8ca1988a20c858a0a2e0b32829825aa526b5788ebf39aa6951bbb747ade307b4bef81c3c768979fa497bf3a1fde76dbfe198cca5a45a2372173d87d03a040d282a82713ff267fa2db46b2 ERR SignatureVerificationError
shake sig.from_bytes zeros: ERR InvalidSignature
shake sig.from_bytes ff: ERR InvalidSignature
shake update n=1 idx=0: 8f9f6a459fa4b5b372e4acf9269138aac22c3ccd64d2ae4bfe6f744abeda893a0d4ebe4de13eaaa37dac0bd110ee527b409b26ddb1d4243b7cb70d1c04da23c44ca8e7de462184927344d861f9d6cc2e ok
shake update n=1 idx=0: 8f9f6a459fa4b5b372e4acf9269138aac22c3ccd64d2ae4bfe6f744abeda893a0d4ebe4de13eaaa37dac0bd110ee527b409b26ddb1d4243b7cb70d1c04da23c44ca8e7de462184927344d861f9d6cc2e ok
shake update n=1 idx=0: 8f9f6a459fa4b5b372e4acf9269138aac22c3ccd64d2ae4bfe6f744abeda893a0d4ebe4de13eaaa37dac0bd110ee527b409b26ddb1d4243b7cb70d1c04da23c44ca8e7de462184927344d861f9d6cc2e ok
shake update n=1 idx=1: ERR UpdateSignatureError
shake update n=1 idx=2: ERR UpdateSignatureError
shake update n=1 idx=18446744073709551615: ERR UpdateSignatureError
shake update n=1 beyond: b0254ff233d42edd58d748888df5fd582b7f1a5d3f9b55da838376cc740d833e8903f8e6a61d622962a5980d7a35a7b9409b26ddb1d4243b7cb70d1c04da23c44ca8e7de462184927344d861f9d6cc2e
shake update n=1 wrong old: a5e1cffcd2a987b6ec4e20bd48e264963fb01596b92e007c520fda71e55687d9360400ad7d80f06973400b2a060432f6409b26ddb1d4243b7cb70d1c04da23c44ca8e7de462184927344d861f9d6cc2e
shake update n=1 wrong key: 819f91d47161c63f851f43172ab1ade9733c838f9489b26e937bd19e36a118cd5a780a2a24f130be42824f083e86d1d2409b26ddb1d4243b7cb70d1c04da23c44ca8e7de462184927344d861f9d6cc2e
shake update n=1 idx=0 total=0: ERR UpdateSignatureError
shake update n=1 idx=0 total=18446744073709551615: ERR UpdateSignatureError
shake update n=1 idx=18446744073709551615 total=18446744073709551615: ERR UpdateSignatureError
shake update n=1 idx=18446744073709551614 total=18446744073709551615: ERR UpdateSignatureError
shake update n=1 idx=5 total=5: ERR UpdateSignatureError
shake update n=1 idx=5 total=4: ERR UpdateSignatureError
shake update n=1 sk=-e: ERR UpdateSignatureError
shake update n=3 idx=0: 9466099874e167d95378e1b3bf19d591465eca35f219edad89c78e54b486f059761ef462759c8e666b0adea1477e49c73a1fde76dbfe198cca5a45a2372173d87d03a040d282a82713ff267fa2db46b2 ok
shake update n=3 idx=1: a63bcee0025a652f5bfbdb005fcb11638d10dd22eba68cb8647536f7919056f931a0c98fceace91551bd853c07b542db3a1fde76dbfe198cca5a45a2372173d87d03a040d282a82713ff267fa2db46b2 ok
shake update n=3 idx=2: a140e5506ed14039c102934b1762c2377b67d3c8c2c9ba8f143ef5e41b8909b35f9afb558d4cdd97e78efde0f25662903a1fde76dbfe198cca5a45a2372173d87d03a040d282a82713ff267fa2db46b2 ok
shake update n=3 idx=3: ERR UpdateSignatureError
shake update n=3 idx=4: ERR UpdateSignatureError
shake update n=3 idx=18446744073709551615: ERR UpdateSignatureError
shake update n=3 beyond: ac570550a0bded9363b4458a8cda3f250c5a276f4d3722dcb6bffd4e1d61bf1aaf8063d63ea7fd78f46f531e1ac96c533a1fde76dbfe198cca5a45a2372173d87d03a040d282a82713ff267fa2db46b2
shake update n=3 wrong old: a9289c1cd1f2d8937795b4eaab4d32ec3db31d22926c43bfe8aac3167f4e9c13a6e6eb711291c99d5e6adfcf686eeb453a1fde76dbfe198cca5a45a2372173d87d03a040d282a82713ff267fa2db46b2
shake update n=3 wrong key: a3e2cec41ce47ff73a76cd34f774ff663f1a1098825df96c784bf5d41de875c5a00138aa61c0ae654ac31c283b7671463a1fde76dbfe198cca5a45a2372173d87d03a040d282a82713ff267fa2db46b2
shake update n=3 idx=0 total=0: ERR UpdateSignatureError
shake update n=3 idx=0 total=18446744073709551615: ERR UpdateSignatureError
shake update n=3 idx=18446744073709551615 total=18446744073709551615: ERR UpdateSignatureError
shake update n=3 idx=18446744073709551614 total=18446744073709551615: ERR UpdateSignatureError
shake update n=3 idx=5 total=5: ERR UpdateSignatureError
shake update n=3 idx=5 total=4: ERR UpdateSignatureError
shake update n=3 sk=-e: ERR UpdateSignatureError
shake update n=6 idx=0: a61bc07c160f163096a6051869f07f0e32503325c3da01f9b80a85e0ea02f059df08d4840ce7f8a57669418b0d97bae52c8765244d939a15bac4e5daba4b3a93256593c729d49653cdd94996143b47a1 ok
shake update n=6 idx=3: a7cfcb58e5e57b8c72b25499d767b414b45b357958b85cb59eaf75a94334b91aa0c7e0831e8402d0e84479271f9dd8142c8765244d939a15bac4e5daba4b3a93256593c729d49653cdd94996143b47a1 ok
shake update n=6 idx=5: abce9fdf2a20f7ee6035d7260c5a581e6bf380973c7571aeea2d07b6a16e3e2f9e96262fde5e40a955ebe7d1e7c008082c8765244d939a15bac4e5daba4b3a93256593c729d49653cdd94996143b47a1 ok
shake update n=6 idx=6: ERR UpdateSignatureError
shake update n=6 idx=7: ERR UpdateSignatureError
shake update n=6 idx=18446744073709551615: ERR UpdateSignatureError
shake update n=6 beyond: 8ccee06316984b41a2d5d9786d0787042ff9ba23d82b2d2ad859a8809afeb5e428f2a3f48a5234166f79c90e1c206a582c8765244d939a15bac4e5daba4b3a93256593c729d49653cdd94996143b47a1
shake update n=6 wrong old: a9f55a37f089c2eabcae3d86b51ba59d2db189fec488089566f7aedf9c017d6a18205512b6b211fe403e4c270dfedd4a2c8765244d939a15bac4e5daba4b3a93256593c729d49653cdd94996143b47a1
shake update n=6 wrong key: b3b277c6bde91c0fdfcd70e5bd8d2d990656d79c401d7da9025d808608df77d17f0c7b0aca73a1da05651c29c54e7d4a2c8765244d939a15bac4e5daba4b3a93256593c729d49653cdd94996143b47a1
shake update n=6 idx=0 total=0: ERR UpdateSignatureError
shake update n=6 idx=0 total=18446744073709551615: ERR UpdateSignatureError
shake update n=6 idx=18446744073709551615 total=18446744073709551615: ERR UpdateSignatureError
shake update n=6 idx=18446744073709551614 total=18446744073709551615: ERR UpdateSignatureError
shake update n=6 idx=5 total=5: ERR UpdateSignatureError
shake update n=6 idx=5 total=4: ERR UpdateSignatureError
shake update n=6 sk=-e: ERR UpdateSignatureError
shake blind n=0: a84a2038ffd6d168835b3bc4ebf28940473d6e10bf9a00f0321d155613be3b1cff08fc04735214bf3e5b2323352ebed750a2605c6c766aa7f1bfacd7208d66f3bd067a51cb63f879a02c81f07a0c77a4 ok,ERR SignatureVerificationError,ERR SignatureVerificationError
shake proof n=0: ok,ERR PoKSVerificationError
shake blind n=2: 8301aeefb98d9c5f8b164a8a05198c304e971bc00c5ff58a6fe37f871d6f085a4fa6df3987096f44252e2cd31a77297f1be03e813ea6ff7891cd07a117cb7d102664de231452d9d65149ba2cef168af1 ok,ERR SignatureVerificationError,ERR SignatureVerificationError
shake proof n=2: ok,ERR PoKSVerificationError
shake blind n=4: 9077eec9f1f7f51874809421d7ab5e5b5d5f5b7349f7766ec17edef20c572da7e847b038a60cd20cf6b7245457a9dfb239083f7075c84cd1881be7efbb6c1f2655e2daa3dbb297384edf7de93d0e4da8 ok,ERR SignatureVerificationError,ERR SignatureVerificationError
shake proof n=4: ok,ERR PoKSVerificationError
"#;
