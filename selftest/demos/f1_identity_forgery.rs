// appended to src/bbsplus/proof.rs in a scratch copy: fails on the tree without the F1 fix, passes with it
#[cfg(test)]
mod forge_tests {
    use super::*;
    use crate::schemes::algorithms::BbsBls12381Sha256;
    use crate::bbsplus::ciphersuites::Bls12381Sha256;
    use crate::keys::pair::KeyPair;

    #[test]
    fn f1_identity_forgery() {
        type CS = Bls12381Sha256;
        let kp = KeyPair::<BbsBls12381Sha256>::generate(&[7u8; 32], None, None).unwrap();
        let pk = kp.public_key();
        // adversary claims these two messages are signed and disclosed; one more hidden
        let msgs = vec![b"forged-1".to_vec(), b"forged-2".to_vec()];
        let idx = vec![0usize, 1usize];
        let header = b"hdr".to_vec();
        let ph = b"ph".to_vec();
        let api_id = CS::API_ID;
        let scalars = BBSplusMessage::messages_to_scalar::<CS>(&msgs, api_id).unwrap();
        let U = 1usize;
        let gens = Generators::create::<CS>(U + 2 + 1, Some(api_id));
        let Q1 = gens.values[0];
        let H = &gens.values[1..];
        let domain = calculate_domain::<CS>(pk, Q1, H, Some(&header), Some(api_id)).unwrap();
        let mut Bv = gens.g1_base_point + Q1 * domain;
        for i in 0..2 { Bv += H[idx[i]] * scalars[i].value; }
        let r1_cap = Scalar::from(5u64);
        let D = Bv;
        let T1 = D * r1_cap;
        let T2 = G1Projective::IDENTITY;
        let init = ProofInitResult { Abar: G1Projective::IDENTITY, Bbar: G1Projective::IDENTITY, D, T1, T2, domain };
        let c = proof_challenge_calculate::<CS>(&init, &idx, &scalars, Some(&ph), Some(api_id)).unwrap();
        let proof = BBSplusPoKSignature { Abar: G1Projective::IDENTITY, Bbar: G1Projective::IDENTITY, D,
            e_cap: Scalar::from(1u64), r1_cap, r3_cap: -c, m_cap: vec![Scalar::ZERO], challenge: c };
        let bytes = proof.to_bytes();
        let decoded = PoKSignature::<BbsBls12381Sha256>::from_bytes(&bytes);
        let accepted = match decoded { Ok(p) => p.proof_verify(pk, Some(&msgs), Some(&idx), Some(&header), Some(&ph)).is_ok(), Err(_) => false };
        assert!(!accepted, "universal forgery accepted");
    }
}
