#![cfg(feature = "cl03")]
#![allow(non_snake_case)]
use rug::Integer;
use zkryptium::cl03::bases::Bases;
use zkryptium::cl03::ciphersuites::CL1024Sha256;
use zkryptium::cl03::keys::CL03CommitmentPublicKey;
use zkryptium::keys::pair::KeyPair;
use zkryptium::schemes::algorithms::CL03;
use zkryptium::schemes::generics::{Commitment, PoKSignature, Signature, ZKPoK};
use zkryptium::utils::message::cl03_message::CL03Message;
type CS = CL1024Sha256;

fn walk(v: &serde_json::Value, path: String, out: &mut Vec<String>) {
    match v {
        serde_json::Value::Object(m) => { for (k, x) in m.iter() { walk(x, format!("{path}/{k}"), out); } }
        serde_json::Value::Array(a) => { for (i, x) in a.iter().enumerate() { walk(x, format!("{path}/{i}"), out); } }
        _ => out.push(path),
    }
}

fn edits(js: &serde_json::Value, n: &Integer, check: &dyn Fn(serde_json::Value) -> bool) -> Vec<String> {
    let mut paths = Vec::new();
    walk(js, String::new(), &mut paths);
    let mut accepted = Vec::new();
    for pth in &paths {
        if !pth.ends_with("/value") { continue; }
        let mut j2 = js.clone();
        let radix = js.pointer(&format!("{}/radix", &pth[..pth.len() - 6])).and_then(|r| r.as_i64()).unwrap_or(10) as i32;
        let leaf = j2.pointer_mut(pth).unwrap();
        let s = match leaf.as_str() { Some(s) => s.to_owned(), None => continue };
        let v = match Integer::from_str_radix(&s, radix) { Ok(v) => v, Err(_) => continue };
        let v2 = v + n;
        *leaf = serde_json::Value::String(v2.to_string_radix(radix));
        let ok = std::panic::catch_unwind(std::panic::AssertUnwindSafe(|| check(j2))).unwrap_or(false);
        if ok { accepted.push(pth.clone()); }
    }
    accepted
}

fn m(v: u64) -> CL03Message { CL03Message::new(Integer::from(v)) }

#[test]
fn plus_n_edits_cl03() {
    let keypair = KeyPair::<CL03<CS>>::generate();
    let pk = keypair.public_key();
    let sk = keypair.private_key();
    let a_bases = Bases::generate(pk, 3);
    let messages = vec![m(1234567), m(55), m(7654321)];
    // C13
    let signature = Signature::<CL03<CS>>::sign_multiattr(pk, sk, &a_bases, &messages);
    assert!(signature.verify_multiattr(pk, &a_bases, &messages));
    let js = serde_json::to_value(&signature).unwrap();
    let acc = edits(&js, &pk.N, &|j| { let s: Signature<CL03<CS>> = match serde_json::from_value(j) { Ok(s) => s, Err(_) => return false }; s.verify_multiattr(pk, &a_bases, &messages) });
    println!("C13 signature ACCEPTED +N: {:#?}", acc);
    // C15
    let commitment_pk = CL03CommitmentPublicKey::generate::<CS>(Some(pk.N.clone()), Some(3));
    let unrevealed = [0usize, 2usize];
    let proof = PoKSignature::<CL03<CS>>::proof_gen(signature.cl03Signature(), &commitment_pk, pk, &a_bases, &messages, &unrevealed);
    let revealed = vec![messages[1].clone()];
    assert!(proof.proof_verify(&commitment_pk, pk, &a_bases, &revealed, &unrevealed, 3));
    let js = serde_json::to_value(&proof).unwrap();
    let acc = edits(&js, &pk.N, &|j| { let p: PoKSignature<CL03<CS>> = match serde_json::from_value(j) { Ok(s) => s, Err(_) => return false }; p.proof_verify(&commitment_pk, pk, &a_bases, &revealed, &unrevealed, 3) });
    println!("C15 spok ACCEPTED +N: {:#?}", acc);
    // C14
    let tp_pk = CL03CommitmentPublicKey::generate::<CS>(None, Some(3));
    let hidden = vec![0usize, 2usize];
    let C_trusted = Commitment::<CL03<CS>>::commit_with_commitment_pk(&messages, &tp_pk, Some(&hidden));
    let C = Commitment::<CL03<CS>>::commit_with_pk(&messages, pk, &a_bases, Some(&hidden));
    let zk = ZKPoK::<CL03<CS>>::generate_proof(&messages, C.cl03Commitment(), Some(C_trusted.cl03Commitment()), pk, &a_bases, Some(&tp_pk), &hidden);
    assert!(zk.verify_proof(C.cl03Commitment(), Some(C_trusted.cl03Commitment()), pk, &a_bases, Some(&tp_pk), &hidden));
    let js = serde_json::to_value(&zk).unwrap();
    let acc = edits(&js, &pk.N, &|j| { let p: ZKPoK<CL03<CS>> = match serde_json::from_value(j) { Ok(s) => s, Err(_) => return false }; p.verify_proof(C.cl03Commitment(), Some(C_trusted.cl03Commitment()), pk, &a_bases, Some(&tp_pk), &hidden) });
    println!("C14 zkpok ACCEPTED +N(signer): {:#?}", acc);
    let acc = edits(&js, &tp_pk.N, &|j| { let p: ZKPoK<CL03<CS>> = match serde_json::from_value(j) { Ok(s) => s, Err(_) => return false }; p.verify_proof(C.cl03Commitment(), Some(C_trusted.cl03Commitment()), pk, &a_bases, Some(&tp_pk), &hidden) });
    println!("C14 zkpok ACCEPTED +N(trusted): {:#?}", acc);
}
