#![cfg(feature = "cl03")]
#![allow(non_snake_case)]
use rug::{ops::Pow, Integer};
use sha2::Sha256;
use zkryptium::cl03::{ciphersuites::CL1024Sha256, commitment::CL03Commitment, keys::CL03CommitmentPublicKey, range_proof::Boudot2000RangeProof};

fn walk(v: &mut serde_json::Value, path: String, out: &mut Vec<String>) {
    match v {
        serde_json::Value::Object(m) => { for (k, x) in m.iter_mut() { walk(x, format!("{path}/{k}"), out); } }
        serde_json::Value::Array(a) => { for (i, x) in a.iter_mut().enumerate() { walk(x, format!("{path}/{i}"), out); } }
        _ => out.push(path),
    }
}

#[test]
fn plus_n_edits() {
    let p = (Integer::from(2).pow(511) + Integer::from(0x1234_5678u32)).next_prime();
    let q = (Integer::from(2).pow(512) - Integer::from(0x0765_4321u32)).next_prime();
    let pk = CL03CommitmentPublicKey::generate::<CL1024Sha256>(Some(p * q), Some(1));
    let (g, h, n) = (pk.g_bases[0].clone(), pk.h.clone(), pk.N.clone());
    let x = Integer::from(20);
    let r = Integer::from(0x5eed_1234_abcdu64) * Integer::from(2).pow(700) + 12345;
    let value = (Integer::from(g.pow_mod_ref(&x, &n).unwrap()) * Integer::from(h.pow_mod_ref(&r, &n).unwrap())) % &n;
    let c = CL03Commitment { value, randomness: r.clone() };
    let (a, b) = (Integer::from(18), Integer::from(25));
    let proof = Boudot2000RangeProof::prove::<Sha256>(&x, &c, &g, &h, &n, &a, &b);
    assert!(proof.verify::<Sha256>(&g, &h, &n, &a, &b));
    let js = serde_json::to_value(&proof).unwrap();
    let mut paths = Vec::new();
    let mut tmp = js.clone();
    walk(&mut tmp, String::new(), &mut paths);
    let mut accepted = Vec::new();
    for pth in &paths {
        let mut j2 = js.clone();
        let leaf = j2.pointer_mut(pth).unwrap();
        // rug Integer serde form: {"radix":..,"value":"..."} leaves: find the "value" string leaves only
        if !pth.ends_with("/value") { continue; }
        let s = leaf.as_str().unwrap().to_owned();
        let radix = js.pointer(&format!("{}/radix", &pth[..pth.len() - 6])).and_then(|r| r.as_i64()).unwrap_or(10) as i32;
        let v = Integer::from_str_radix(&s, radix).unwrap();
        let v2 = v + &n;
        *leaf = serde_json::Value::String(v2.to_string_radix(radix));
        let p2: Result<Boudot2000RangeProof, _> = serde_json::from_value(j2);
        if let Ok(p2) = p2 {
            let ok = std::panic::catch_unwind(std::panic::AssertUnwindSafe(|| p2.verify::<Sha256>(&g, &h, &n, &a, &b))).unwrap_or(false);
            if ok { accepted.push(pth.clone()); }
        }
    }
    println!("ACCEPTED +n edits: {:#?}", accepted);
    assert!(accepted.is_empty());
}

#[test]
fn joint_plus_n_edit_of_the_square_commitment() {
    let p = (Integer::from(2).pow(511) + Integer::from(0x1234_5678u32)).next_prime();
    let q = (Integer::from(2).pow(512) - Integer::from(0x0765_4321u32)).next_prime();
    let pk = CL03CommitmentPublicKey::generate::<CL1024Sha256>(Some(p * q), Some(1));
    let (g, h, n) = (pk.g_bases[0].clone(), pk.h.clone(), pk.N.clone());
    let x = Integer::from(20);
    let r = Integer::from(0x5eed_1234_abcdu64) * Integer::from(2).pow(700) + 12345;
    let value = (Integer::from(g.pow_mod_ref(&x, &n).unwrap()) * Integer::from(h.pow_mod_ref(&r, &n).unwrap())) % &n;
    let c = CL03Commitment { value, randomness: r.clone() };
    let (a, b) = (Integer::from(18), Integer::from(25));
    let proof = Boudot2000RangeProof::prove::<Sha256>(&x, &c, &g, &h, &n, &a, &b);
    assert!(proof.verify::<Sha256>(&g, &h, &n, &a, &b));
    let js = serde_json::to_value(&proof).unwrap();
    let mut accepted = Vec::new();
    for (f1, f2) in [("/proof_of_tolerance/E_a_1", "/proof_of_tolerance/proof_of_square_a/E"), ("/proof_of_tolerance/E_b_1", "/proof_of_tolerance/proof_of_square_b/E")] {
        let mut j2 = js.clone();
        for f in [f1, f2] {
            let radix = js.pointer(&format!("{f}/radix")).and_then(|r| r.as_i64()).unwrap_or(10) as i32;
            let leaf = j2.pointer_mut(&format!("{f}/value")).unwrap();
            let v = Integer::from_str_radix(leaf.as_str().unwrap(), radix).unwrap() + &n;
            *leaf = serde_json::Value::String(v.to_string_radix(radix));
        }
        let p2: Boudot2000RangeProof = serde_json::from_value(j2).unwrap();
        assert!(p2 != proof);
        if std::panic::catch_unwind(std::panic::AssertUnwindSafe(|| p2.verify::<Sha256>(&g, &h, &n, &a, &b))).unwrap_or(false) { accepted.push(f1); }
    }
    println!("ACCEPTED joint +n edits: {:#?}", accepted);
    assert!(accepted.is_empty());
}
