// demonstrations for the CL03 defects F6 (hidden position != 0), F7 (attribute shift by e), F8 (range-proof transplant),
// F11 (per-attribute range proof not tied to the commitment of the PoK).  Needs --features cl03.
#![cfg(feature = "cl03")]
use rug::Integer;
use zkryptium::cl03::bases::Bases;
use zkryptium::cl03::ciphersuites::CL1024Sha256;
use zkryptium::cl03::commitment::CL03Commitment;
use zkryptium::cl03::keys::CL03CommitmentPublicKey;
use zkryptium::cl03::range_proof::Boudot2000RangeProof;
use zkryptium::keys::pair::KeyPair;
use zkryptium::schemes::algorithms::{CL03, CL03_CL1024_SHA256};
use zkryptium::schemes::generics::{Commitment, Signature, ZKPoK};
use zkryptium::utils::message::cl03_message::CL03Message;
use sha2::Sha256;

type CS = CL1024Sha256;
type S = CL03_CL1024_SHA256;

fn msgs(n: usize) -> Vec<CL03Message> {
    (0..n).map(|i| CL03Message::map_message_to_integer_as_hash::<CS>(&[i as u8, 7, 7])).collect()
}

#[test]
fn f6_hidden_position_other_than_zero() {
    let kp = KeyPair::<CL03<CS>>::generate();
    let m = msgs(3);
    let a_bases = Bases::generate(kp.public_key(), 3);
    for hidden in [[0usize], [1usize], [2usize]] {
        let c = Commitment::<CL03<CS>>::commit_with_pk(&m, kp.public_key(), &a_bases, Some(&hidden));
        let zk = ZKPoK::<CL03<CS>>::generate_proof(&m, c.cl03Commitment(), None, kp.public_key(), &a_bases, None, &hidden);
        assert!(zk.verify_proof(c.cl03Commitment(), None, kp.public_key(), &a_bases, None, &hidden), "honest issuance proof rejected for hidden position {:?}", hidden);
    }
}

#[test]
fn f7_attribute_shifted_by_e_is_rejected() {
    let kp = KeyPair::<CL03<CS>>::generate();
    let m = msgs(2);
    let a_bases = Bases::generate(kp.public_key(), 2);
    let sig = Signature::<S>::sign_multiattr(kp.public_key(), kp.private_key(), &a_bases, &m);
    assert!(sig.verify_multiattr(kp.public_key(), &a_bases, &m));
    // forge without the secret key: (v * a_0, m_0 + e) satisfies the same equation
    let j = serde_json::to_value(&sig).unwrap();
    let inner = &j["CL03"];
    let e: Integer = serde_json::from_value(inner["e"].clone()).unwrap();
    let v: Integer = serde_json::from_value(inner["v"].clone()).unwrap();
    let pkj = serde_json::to_value(kp.public_key()).unwrap();
    let n: Integer = serde_json::from_value(pkj["N"].clone()).unwrap();
    let bj = serde_json::to_value(&a_bases).unwrap();
    let a0: Integer = serde_json::from_value(bj[0].clone()).unwrap();
    let v2 = (v * &a0) % &n;
    let mut j2 = j.clone();
    j2["CL03"]["v"] = serde_json::to_value(&v2).unwrap();
    let forged: Signature<S> = serde_json::from_value(j2).unwrap();
    let mut m2 = m.clone();
    m2[0] = CL03Message::new(m[0].value.clone() + &e);
    assert!(!forged.verify_multiattr(kp.public_key(), &a_bases, &m2), "signature on a shifted, oversized attribute vector accepted (multiattr)");
    // single attribute interface
    let sig1 = Signature::<S>::sign(kp.public_key(), kp.private_key(), &a_bases, &m[0]);
    let j = serde_json::to_value(&sig1).unwrap();
    let v: Integer = serde_json::from_value(j["CL03"]["v"].clone()).unwrap();
    let e: Integer = serde_json::from_value(j["CL03"]["e"].clone()).unwrap();
    let mut j2 = j.clone();
    j2["CL03"]["v"] = serde_json::to_value(&((v * &a0) % &n)).unwrap();
    let forged: Signature<S> = serde_json::from_value(j2).unwrap();
    assert!(!forged.verify(kp.public_key(), &a_bases, &CL03Message::new(m[0].value.clone() + &e)), "signature on a shifted attribute accepted (single)");
}

#[test]
fn f8_range_proof_transplant_is_rejected() {
    let cpk = CL03CommitmentPublicKey::generate::<CS>(None, Some(1));
    let (g, h, n) = (&cpk.g_bases[0], &cpk.h, &cpk.N);
    let (lo, hi) = (Integer::from(10), Integer::from(1000));
    let commit = |x: &Integer, r: &Integer| -> CL03Commitment {
        let value = (Integer::from(g.pow_mod_ref(x, n).unwrap()) * Integer::from(h.pow_mod_ref(r, n).unwrap())) % n;
        CL03Commitment { value, randomness: r.clone() }
    };
    let x = Integer::from(500);
    let c = commit(&x, &Integer::from(123456789u64));
    let honest = Boudot2000RangeProof::prove::<Sha256>(&x, &c, g, h, n, &lo, &hi);
    assert!(honest.verify::<Sha256>(g, h, n, &lo, &hi));
    // target: a commitment to an out-of-range value; recompute only the publicly computable parts of the proof
    let y = Integer::from(5000);
    let target = commit(&y, &Integer::from(987654321u64));
    let mut j = serde_json::to_value(&honest).unwrap();
    let t_bits: u32 = 2 * (128 + 40 + 1) + Integer::from(&hi - &lo).significant_bits();
    let two_t = Integer::from(1) << t_bits;
    let e_prime = Integer::from(target.value.pow_mod_ref(&two_t, n).unwrap());
    j["E"] = serde_json::to_value(&target.value).unwrap();
    j["E_prime"] = serde_json::to_value(&e_prime).unwrap();
    // keep the honest sub-proofs but re-derive E_a_1/E_b_1 so that E_a_2 = E_a / E_a_1 still matches the honest large-interval proofs:
    // E_a_1' = E_a' / E_a_2 and E_b_1' = E_b' / E_b_2  (the proofs of square carry their own E and are never compared with E_a_1/E_b_1)
    let b_minus_a = Integer::from(&hi - &lo);
    let sq = Integer::from(b_minus_a.sqrt_ref());
    let shift = Integer::from(1) << (40 + 128 + t_bits / 2 + 1);
    let aa = Integer::from(&two_t * &lo) - Integer::from(&shift * &sq);
    let bb = Integer::from(&two_t * &hi) + Integer::from(&shift * &sq);
    let inv = |z: &Integer| -> Integer { Integer::from(z.invert_ref(n).unwrap()) };
    let gpow = |ex: &Integer| -> Integer { Integer::from(g.pow_mod_ref(ex, n).unwrap()) };
    let e_a = (Integer::from(&e_prime * &inv(&gpow(&aa)))) % n;
    let e_b = (Integer::from(&gpow(&bb) * &inv(&e_prime))) % n;
    let e_a_2: Integer = serde_json::from_value(j["proof_of_tolerance"]["E_a_2"].clone()).unwrap();
    let e_b_2: Integer = serde_json::from_value(j["proof_of_tolerance"]["E_b_2"].clone()).unwrap();
    let e_a_1 = Integer::from(&e_a * &inv(&e_a_2)) % n;
    let e_b_1 = Integer::from(&e_b * &inv(&e_b_2)) % n;
    j["proof_of_tolerance"]["E_a_1"] = serde_json::to_value(&e_a_1).unwrap();
    j["proof_of_tolerance"]["E_b_1"] = serde_json::to_value(&e_b_1).unwrap();
    let forged: Boudot2000RangeProof = serde_json::from_value(j).unwrap();
    assert!(!forged.verify::<Sha256>(g, h, n, &lo, &hi), "sub-proofs of an honest range proof accepted for a commitment to an out-of-range value");
}

#[test]
fn f11_issuance_range_proof_is_tied_to_the_attribute_commitment() {
    let kp = KeyPair::<CL03<CS>>::generate();
    let m = msgs(2);
    let a_bases = Bases::generate(kp.public_key(), 2);
    let hidden = [0usize];
    let c = Commitment::<CL03<CS>>::commit_with_pk(&m, kp.public_key(), &a_bases, Some(&hidden));
    let zk1 = ZKPoK::<CL03<CS>>::generate_proof(&m, c.cl03Commitment(), None, kp.public_key(), &a_bases, None, &hidden);
    // a second, independent honest run: its per-attribute range proof is about ANOTHER commitment
    let zk2 = ZKPoK::<CL03<CS>>::generate_proof(&m, c.cl03Commitment(), None, kp.public_key(), &a_bases, None, &hidden);
    let mut j1 = serde_json::to_value(&zk1).unwrap();
    let j2 = serde_json::to_value(&zk2).unwrap();
    j1["CL03"]["range_proofs_mi"] = j2["CL03"]["range_proofs_mi"].clone();
    let mixed: ZKPoK<CL03<CS>> = serde_json::from_value(j1).unwrap();
    assert!(!mixed.verify_proof(c.cl03Commitment(), None, kp.public_key(), &a_bases, None, &hidden),
            "issuance proof accepted although its range proof is about a different commitment than its proof of knowledge");
}
