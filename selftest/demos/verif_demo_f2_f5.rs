// demonstrations for F2 (decoder panics), F3 (blind_proof_verify arithmetic), F3' (update_signature), F4 (trailing bytes), F5 (_Unreachable)
use std::panic::catch_unwind;
use zkryptium::bbsplus::keys::BBSplusPublicKey;
use zkryptium::bbsplus::commitment::BBSplusCommitment;
use zkryptium::bbsplus::proof::{BBSplusPoKSignature, BBSplusZKPoK};
use zkryptium::keys::pair::KeyPair;
use zkryptium::schemes::algorithms::BbsBls12381Sha256;
use zkryptium::schemes::generics::{PoKSignature, Signature, Commitment, BlindSignature};

type S = BbsBls12381Sha256;

#[test]
fn f2_short_inputs_do_not_panic() {
    for n in [0usize, 1, 10, 47, 48, 79, 95, 200, 239] {
        let b = vec![0u8; n];
        assert!(catch_unwind(|| BBSplusPublicKey::from_bytes(&b).is_ok()).is_ok(), "pk len {}", n);
        assert!(catch_unwind(|| BBSplusPoKSignature::from_bytes(&b).is_ok()).is_ok(), "proof len {}", n);
        assert!(catch_unwind(|| BBSplusZKPoK::from_bytes(&b).is_ok()).is_ok(), "zkpok len {}", n);
        assert!(catch_unwind(|| BBSplusCommitment::from_bytes(&b).is_ok()).is_ok(), "commitment len {}", n);
    }
}

#[test]
fn f4_trailing_bytes_rejected() {
    let kp = KeyPair::<S>::generate(&[7u8; 32], None, None).unwrap();
    let pk = kp.public_key();
    let mut pkb = pk.to_bytes().to_vec();
    pkb.push(0);
    assert!(BBSplusPublicKey::from_bytes(&pkb).is_err(), "97-byte public key accepted");
    let msgs = vec![b"a".to_vec(), b"b".to_vec()];
    let sig = Signature::<S>::sign(Some(&msgs), kp.private_key(), pk, None).unwrap();
    let proof = PoKSignature::<S>::proof_gen(pk, &sig.to_bytes(), None, None, Some(&msgs), Some(&[0usize])).unwrap();
    let mut pb = proof.to_bytes();
    pb.extend_from_slice(&[0u8; 5]);
    assert!(PoKSignature::<S>::from_bytes(&pb).is_err(), "proof with 5 trailing bytes accepted");
    let (c, _bf) = Commitment::<S>::commit(Some(&msgs)).unwrap();
    let mut cb = c.to_bytes();
    cb.push(1);
    assert!(Commitment::<S>::from_bytes(&cb).is_err(), "commitment with a trailing byte accepted");
}

#[test]
fn f3_blind_proof_verify_counts_do_not_panic() {
    let kp = KeyPair::<S>::generate(&[7u8; 32], None, None).unwrap();
    let pk = kp.public_key();
    let msgs = vec![b"a".to_vec(), b"b".to_vec()];
    let sig = Signature::<S>::sign(Some(&msgs), kp.private_key(), pk, None).unwrap();
    let proof = PoKSignature::<S>::proof_gen(pk, &sig.to_bytes(), None, None, Some(&msgs), Some(&[0usize])).unwrap();
    for l in [5usize, 1000, usize::MAX] {
        let p = proof.clone();
        let pk2 = pk.clone();
        let r = catch_unwind(move || p.blind_proof_verify(&pk2, None, None, Some(l), None, None, None, None).is_ok());
        assert!(matches!(r, Ok(false)), "blind_proof_verify(L = {}) panicked or accepted", l);
    }
    let p = proof.clone();
    let pk2 = pk.clone();
    let r = catch_unwind(move || p.blind_proof_verify(&pk2, None, None, Some(0), None, None, None, Some(&[usize::MAX])).is_ok());
    assert!(matches!(r, Ok(false)), "blind_proof_verify(index = usize::MAX) panicked or accepted");
}

#[test]
fn f3p_update_signature_bounds_do_not_panic() {
    let kp = KeyPair::<S>::generate(&[7u8; 32], None, None).unwrap();
    let pk = kp.public_key();
    let msgs = vec![b"a".to_vec(), b"b".to_vec()];
    let sig = Signature::<S>::sign(Some(&msgs), kp.private_key(), pk, None).unwrap();
    let sk = kp.private_key().clone();
    let s2 = sig.clone();
    let r = catch_unwind(move || s2.update_signature(&sk, b"a", b"c", usize::MAX, 2).is_err());
    assert!(matches!(r, Ok(true)), "update_signature(update_index = usize::MAX) panicked");
    let sk = kp.private_key().clone();
    let r = catch_unwind(move || sig.update_signature(&sk, b"a", b"c", 2, 2).is_err());
    assert!(matches!(r, Ok(true)), "update_signature(update_index = n) not refused");
}

#[test]
fn f5_unreachable_variant_does_not_panic() {
    let kp = KeyPair::<S>::generate(&[7u8; 32], None, None).unwrap();
    let pk = kp.public_key().clone();
    let s: Signature<S> = serde_json::from_str("{\"_Unreachable\":null}").unwrap();
    let pk1 = pk.clone();
    assert!(matches!(catch_unwind(move || s.verify(&pk1, None, None).is_err()), Ok(true)), "Signature::verify panicked");
    let p: PoKSignature<S> = serde_json::from_str("{\"_Unreachable\":null}").unwrap();
    let pk1 = pk.clone();
    let p1 = p.clone();
    assert!(matches!(catch_unwind(move || p1.proof_verify(&pk1, None, None, None, None).is_err()), Ok(true)), "proof_verify panicked");
    let pk1 = pk.clone();
    assert!(matches!(catch_unwind(move || p.blind_proof_verify(&pk1, None, None, None, None, None, None, None).is_err()), Ok(true)), "blind_proof_verify panicked");
    let b: BlindSignature<S> = serde_json::from_str("{\"_Unreachable\":null}").unwrap();
    let pk1 = pk.clone();
    assert!(matches!(catch_unwind(move || b.verify_blind_sign(&pk1, None, None, None, None).is_err()), Ok(true)), "verify_blind_sign panicked");
    let s: Signature<S> = serde_json::from_str("{\"_Unreachable\":null}").unwrap();
    let sk = kp.private_key().clone();
    assert!(matches!(catch_unwind(move || s.update_signature(&sk, b"a", b"b", 0, 1).is_err()), Ok(true)), "update_signature panicked");
}
