#![allow(non_snake_case)]
use zkryptium::{
    keys::pair::KeyPair,
    schemes::{
        algorithms::{BBSplus, BbsBls12381Sha256},
        generics::{PoKSignature, Signature},
    },
};
type S = BbsBls12381Sha256;

#[test]
fn permuted_claim() {
    let keypair = KeyPair::<S>::generate(&[0x42u8; 32], None, None).unwrap();
    let (sk, pk) = (keypair.private_key(), keypair.public_key());
    let header = b"header".to_vec();
    let ph = b"ph".to_vec();
    let messages: Vec<Vec<u8>> = vec![b"m0".to_vec(), b"m1".to_vec(), b"m2".to_vec()];
    let signature = Signature::<S>::sign(Some(&messages), sk, pk, Some(&header)).unwrap();
    let proof = PoKSignature::<S>::proof_gen(pk, &signature.to_bytes(), Some(&header), Some(&ph), Some(&messages), Some(&[0, 2])).unwrap();
    proof.proof_verify(pk, Some(&[messages[0].clone(), messages[2].clone()]), Some(&[0, 2]), Some(&header), Some(&ph)).expect("honest");
    // the same statement with the pairs listed in another order: position 2 holds m2, position 0 holds m0
    let same = proof.proof_verify(pk, Some(&[messages[2].clone(), messages[0].clone()]), Some(&[2, 0]), Some(&header), Some(&ph));
    // a false statement: position 2 holds m0, position 0 holds m2
    let falses = proof.proof_verify(pk, Some(&[messages[0].clone(), messages[2].clone()]), Some(&[2, 0]), Some(&header), Some(&ph));
    // a repeated pair
    let dup = proof.proof_verify(pk, Some(&[messages[0].clone(), messages[2].clone()]), Some(&[0, 0, 2]), Some(&header), Some(&ph));
    println!("same statement, other order: {:?}\nfalse statement (positions swapped): {:?}\nduplicated index: {:?}", same.is_ok(), falses.is_ok(), dup.is_ok());
    assert!(falses.is_err());
}
