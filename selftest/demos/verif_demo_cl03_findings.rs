// demonstrations of the recorded (not repaired) CL03 findings F9 (openings in serialised proofs, randomness never verified) and
// F10 (response / challenge reveals the hidden attribute; s_2 / s_1 reveals e).  Needs --features cl03.  These tests FAIL on the current tree.
#![cfg(feature = "cl03")]
use rug::Integer;
use sha2::{Digest, Sha256};
use zkryptium::cl03::bases::Bases;
use zkryptium::cl03::ciphersuites::CL1024Sha256;
use zkryptium::cl03::keys::CL03CommitmentPublicKey;
use zkryptium::keys::pair::KeyPair;
use zkryptium::schemes::algorithms::{CL03, CL03_CL1024_SHA256};
use zkryptium::schemes::generics::{Commitment, PoKSignature, Signature, ZKPoK};
use zkryptium::utils::message::cl03_message::CL03Message;
type CS = CL1024Sha256;
type S = CL03_CL1024_SHA256;
fn msgs(n: usize) -> Vec<CL03Message> { (0..n).map(|i| CL03Message::map_message_to_integer_as_hash::<CS>(&[i as u8, 9, 9])).collect() }
fn int(v: &serde_json::Value) -> Integer { serde_json::from_value(v.clone()).unwrap() }

#[test]
fn f9_proof_of_signature_does_not_carry_openings() {
    let kp = KeyPair::<CL03<CS>>::generate();
    let m = msgs(2);
    let a_bases = Bases::generate(kp.public_key(), 2);
    let sig = Signature::<S>::sign_multiattr(kp.public_key(), kp.private_key(), &a_bases, &m);
    let pkj = serde_json::to_value(kp.public_key()).unwrap();
    let cpk = CL03CommitmentPublicKey::generate::<CS>(Some(int(&pkj["N"])), Some(2));
    let hidden = [0usize];
    let proof = PoKSignature::<S>::proof_gen(sig.cl03Signature(), &cpk, kp.public_key(), &a_bases, &m, &hidden);
    let j = serde_json::to_value(&proof).unwrap();
    // the verifier recovers the signature component v from Cv = v * g_0^w because w is serialised next to Cv
    let cv = &j["CL03"]["spok"]["Cv"];
    assert!(cv.get("randomness").is_none(), "the serialised proof contains the randomness of Cv (allows recovering v = Cv * g_0^-w)");
}

#[test]
fn f9_randomness_fields_are_verified() {
    let kp = KeyPair::<CL03<CS>>::generate();
    let m = msgs(2);
    let a_bases = Bases::generate(kp.public_key(), 2);
    let sig = Signature::<S>::sign_multiattr(kp.public_key(), kp.private_key(), &a_bases, &m);
    let pkj = serde_json::to_value(kp.public_key()).unwrap();
    let cpk = CL03CommitmentPublicKey::generate::<CS>(Some(int(&pkj["N"])), Some(2));
    let hidden = [0usize];
    let proof = PoKSignature::<S>::proof_gen(sig.cl03Signature(), &cpk, kp.public_key(), &a_bases, &m, &hidden);
    let mut j = serde_json::to_value(&proof).unwrap();
    let r = int(&j["CL03"]["spok"]["Cx"]["randomness"]) + 1;
    j["CL03"]["spok"]["Cx"]["randomness"] = serde_json::to_value(&r).unwrap();
    let tampered: PoKSignature<S> = serde_json::from_value(j).unwrap();
    let revealed = vec![m[1].clone()];
    assert!(!tampered.proof_verify(&cpk, kp.public_key(), &a_bases, &revealed, &hidden, 2), "proof with an altered field (Cx.randomness + 1) still verifies");
}

#[test]
fn f10_response_over_challenge_does_not_reveal_the_hidden_attribute() {
    let kp = KeyPair::<CL03<CS>>::generate();
    let m = msgs(2);
    let a_bases = Bases::generate(kp.public_key(), 2);
    let hidden = [0usize];
    let c = Commitment::<CL03<CS>>::commit_with_pk(&m, kp.public_key(), &a_bases, Some(&hidden));
    let zk = ZKPoK::<CL03<CS>>::generate_proof(&m, c.cl03Commitment(), None, kp.public_key(), &a_bases, None, &hidden);
    let j = serde_json::to_value(&zk).unwrap();
    let p = &j["CL03"]["proof_commited_msgs"];
    let (t, s1) = (int(&p["t"]), int(&p["s1"][0]));
    // recompute the Fiat-Shamir challenge from public data only
    let bj = serde_json::to_value(&a_bases).unwrap();
    let pkj = serde_json::to_value(kp.public_key()).unwrap();
    let input = int(&bj[0]).to_string() + &int(&pkj["b"]).to_string() + &c.cl03Commitment().value.to_string() + &t.to_string();
    let chal = Integer::from_digits(Sha256::digest(input).as_slice(), rug::integer::Order::MsfBe);
    let guess = Integer::from(&s1 / &chal);
    let diff = Integer::from(&guess - &m[0].value).abs();
    assert!(diff >= Integer::from(1u64 << 62), "floor(s1 / c) is within {} of the hidden attribute", diff);
}
