//! Red-team candidates for PROPERTY C08:
//! "Untrusted input never crashes a BBS verifier, signer or holder".
//!
//! Reading used: every entry point named in the QUANTIFIER has to RETURN (Ok or Err) for every
//! input; a panic / arithmetic overflow inside the library is a violation.  Every test below asserts
//! exactly that (through `Rec::run`, which records a failure whenever the closure unwinds), plus a
//! generous wall-clock bound where the "size-proportional budget" clause is concerned.
//!
//! The last group (`title_reading_*`) uses the wider reading of the TITLE of the property (a holder /
//! signer that received an artefact through serde must not be crashed by it) on the public accessors
//! `to_bytes()`, `a()`, `e()` ... that an application has to call between two of the listed entry
//! points.  These are kept apart because the accessors are not in the QUANTIFIER list.

#![allow(non_snake_case)]

use std::panic::{catch_unwind, AssertUnwindSafe};
use std::time::{Duration, Instant};

use bls12_381_plus::{G1Projective, Scalar};
use elliptic_curve::hash2curve::ExpandMsg;
use zkryptium::{
    bbsplus::{
        ciphersuites::BbsCiphersuite,
        commitment::{BBSplusCommitment, BlindFactor},
        generators::Generators,
        keys::{BBSplusPublicKey, BBSplusSecretKey},
        proof::{BBSplusPoKSignature, BBSplusZKPoK},
        signature::BBSplusSignature,
    },
    keys::pair::KeyPair,
    schemes::{
        algorithms::{BBSplus, BbsBls12381Sha256, BbsBls12381Shake256, Scheme},
        generics::{BlindSignature, Commitment, PoKSignature, Signature, ZKPoK},
    },
    utils::message::bbsplus_message::BBSplusMessage,
};

type Sha = <BbsBls12381Sha256 as Scheme>::Ciphersuite;
type Shake = <BbsBls12381Shake256 as Scheme>::Ciphersuite;

// ---------------------------------------------------------------------------------------------
// helpers
// ---------------------------------------------------------------------------------------------

struct Rec {
    fails: Vec<String>,
    calls: usize,
}

impl Rec {
    fn new() -> Self {
        Self { fails: Vec::new(), calls: 0 }
    }
    /// runs `f`; a panic is recorded as a violation, the value is returned otherwise
    fn run<R>(&mut self, what: impl FnOnce() -> String, f: impl FnOnce() -> R) -> Option<R> {
        self.calls += 1;
        match catch_unwind(AssertUnwindSafe(f)) {
            Ok(r) => Some(r),
            Err(_) => {
                if self.fails.len() < 40 {
                    self.fails.push(what());
                }
                None
            }
        }
    }
    fn finish(self, name: &str) {
        eprintln!("{name}: {} calls, {} panics", self.calls, self.fails.len());
        assert!(
            self.fails.is_empty(),
            "{name}: the library panicked for {} input(s), e.g.:\n{:#?}",
            self.fails.len(),
            self.fails
        );
    }
}

struct Rng(u64);
impl Rng {
    fn next(&mut self) -> u64 {
        let mut x = self.0;
        x ^= x << 13;
        x ^= x >> 7;
        x ^= x << 17;
        self.0 = x;
        x
    }
    fn bytes(&mut self, n: usize) -> Vec<u8> {
        (0..n).map(|_| (self.next() >> 24) as u8).collect()
    }
}

/// r, the order of the BLS12-381 groups, big endian
const R_BE: [u8; 32] = [
    0x73, 0xed, 0xa7, 0x53, 0x29, 0x9d, 0x7d, 0x48, 0x33, 0x39, 0xd8, 0x08, 0x09, 0xa1, 0xd8, 0x05,
    0x53, 0xbd, 0xa4, 0x02, 0xff, 0xfe, 0x5b, 0xfe, 0xff, 0xff, 0xff, 0xff, 0x00, 0x00, 0x00, 0x01,
];

fn r_plus(delta: i8) -> [u8; 32] {
    let mut v = R_BE;
    if delta >= 0 {
        v[31] = v[31].wrapping_add(delta as u8);
    } else {
        // r ends in ...00000001, r - 1 ends in ...00000000
        assert_eq!(delta, -1);
        v[31] = 0;
    }
    v
}

struct Ctx<CS: BbsCiphersuite> {
    kp: KeyPair<BBSplus<CS>>,
    header: Vec<u8>,
    ph: Vec<u8>,
    msgs: Vec<Vec<u8>>,
    cmsgs: Vec<Vec<u8>>,
    sig: Signature<BBSplus<CS>>,
    proof: PoKSignature<BBSplus<CS>>,       // discloses index 1 of 3
    proof_all: PoKSignature<BBSplus<CS>>,   // discloses every message (U = 0)
    commit: Commitment<BBSplus<CS>>,
    blind: BlindFactor,
    bsig: BlindSignature<BBSplus<CS>>,
    bproof: PoKSignature<BBSplus<CS>>,      // discloses [0, 2] and committed [1]
}

fn ctx<CS: BbsCiphersuite>() -> Ctx<CS>
where
    CS::Expander: for<'a> ExpandMsg<'a>,
{
    let kp = KeyPair::<BBSplus<CS>>::generate(&[7u8; 32], Some(b"info"), None).unwrap();
    let header = b"header".to_vec();
    let ph = b"presentation".to_vec();
    let msgs = vec![b"m0".to_vec(), b"m1".to_vec(), b"m2".to_vec()];
    let cmsgs = vec![b"c0".to_vec(), b"c1".to_vec()];
    let sig =
        Signature::<BBSplus<CS>>::sign(Some(&msgs), kp.private_key(), kp.public_key(), Some(&header))
            .unwrap();
    let proof = PoKSignature::<BBSplus<CS>>::proof_gen(
        kp.public_key(),
        &sig.to_bytes(),
        Some(&header),
        Some(&ph),
        Some(&msgs),
        Some(&[1]),
    )
    .unwrap();
    let proof_all = PoKSignature::<BBSplus<CS>>::proof_gen(
        kp.public_key(),
        &sig.to_bytes(),
        Some(&header),
        Some(&ph),
        Some(&msgs),
        Some(&[0, 1, 2]),
    )
    .unwrap();
    let (commit, blind) = Commitment::<BBSplus<CS>>::commit(Some(&cmsgs)).unwrap();
    let bsig = BlindSignature::<BBSplus<CS>>::blind_sign(
        kp.private_key(),
        kp.public_key(),
        Some(&commit.to_bytes()),
        Some(&header),
        Some(&msgs),
    )
    .unwrap();
    bsig.verify_blind_sign(kp.public_key(), Some(&header), Some(&msgs), Some(&cmsgs), Some(&blind))
        .unwrap();
    let bproof = PoKSignature::<BBSplus<CS>>::blind_proof_gen(
        kp.public_key(),
        &bsig.to_bytes(),
        Some(&header),
        Some(&ph),
        Some(&msgs),
        Some(&cmsgs),
        Some(&[0, 2]),
        Some(&[1]),
        Some(&blind),
    )
    .unwrap();
    bproof
        .blind_proof_verify(
            kp.public_key(),
            Some(&header),
            Some(&ph),
            Some(3),
            Some(&[msgs[0].clone(), msgs[2].clone()]),
            Some(&[cmsgs[1].clone()]),
            Some(&[0, 2]),
            Some(&[1]),
        )
        .unwrap();
    Ctx { kp, header, ph, msgs, cmsgs, sig, proof, proof_all, commit, blind, bsig, bproof }
}

/// structured + random contents of exactly `n` bytes; `valid` is a well-formed artefact of the kind
/// being decoded and `unit` the size of its repeated trailing element (0: none)
fn classes(n: usize, valid: &[u8], unit: usize, rng: &mut Rng) -> Vec<(&'static str, Vec<u8>)> {
    let mut out: Vec<(&'static str, Vec<u8>)> = Vec::new();
    out.push(("zeros", vec![0u8; n]));
    out.push(("ff", vec![0xffu8; n]));
    let mut inf = vec![0u8; n];
    if n > 0 {
        inf[0] = 0xc0;
    }
    out.push(("infinity-flag", inf));
    // valid artefact truncated / zero extended
    let mut v = valid.to_vec();
    v.resize(n, 0);
    out.push(("valid-prefix+zeros", v));
    // valid artefact extended by repeating its last `unit` bytes (keeps every scalar canonical)
    if unit > 0 && valid.len() >= unit {
        let mut v = valid.to_vec();
        let tail = valid[valid.len() - unit..].to_vec();
        while v.len() < n {
            v.extend_from_slice(&tail);
        }
        v.truncate(n);
        out.push(("valid+repeated-tail", v));
        // valid artefact, zero extended, the last scalar equal to r (first non canonical value)
        let mut v = valid.to_vec();
        v.resize(n, 0);
        if n >= 32 {
            v[n - 32..].copy_from_slice(&R_BE);
        }
        out.push(("valid-prefix+last-scalar=r", v));
    }
    out.push(("random", rng.bytes(n)));
    let mut v = rng.bytes(n);
    if n > 0 {
        v[0] = (v[0] & 0x1f) | 0x80; // compressed, not infinity: plausible x coordinate
    }
    out.push(("random-compressed-flag", v));
    out
}

// ---------------------------------------------------------------------------------------------
// 1. byte decoders, every length 0..=1024
// ---------------------------------------------------------------------------------------------

#[test]
fn f01_from_bytes_every_length_public_key_secret_key() {
    let c = ctx::<Sha>();
    let mut rec = Rec::new();
    let mut rng = Rng(0x1234_5678_9abc_def1);
    let pk = c.kp.public_key().to_bytes();
    let sk = c.kp.private_key().to_bytes();
    for n in 0..=1024usize {
        for (cl, b) in classes(n, &pk, 0, &mut rng) {
            let r = rec.run(|| format!("BBSplusPublicKey::from_bytes len {n} class {cl}"), || {
                BBSplusPublicKey::from_bytes(&b)
            });
            if let Some(Ok(_)) = r {
                assert_eq!(n, 96, "a public key of {n} bytes was accepted");
            }
        }
        for (cl, b) in classes(n, &sk, 0, &mut rng) {
            let r = rec.run(|| format!("BBSplusSecretKey::from_bytes len {n} class {cl}"), || {
                BBSplusSecretKey::from_bytes(&b)
            });
            if let Some(Ok(_)) = r {
                assert_eq!(n, 32, "a secret key of {n} bytes was accepted");
            }
        }
    }
    // the 192-byte (uncompressed) encoding through from_coordinates
    for cl in 0..4 {
        let (mut x, mut y) = c.kp.public_key().to_coordinates();
        match cl {
            0 => {}
            1 => { x = [0u8; 96]; y = [0u8; 96]; }
            2 => { x = [0xffu8; 96]; y = [0xffu8; 96]; }
            _ => { x[0] = 0x40; y[95] ^= 1; }
        }
        rec.run(|| format!("from_coordinates class {cl}"), || BBSplusPublicKey::from_coordinates(&x, &y));
    }
    rec.finish("f01");
}

fn f02_body<CS: BbsCiphersuite>(name: &str)
where
    CS::Expander: for<'a> ExpandMsg<'a>,
{
    let c = ctx::<CS>();
    let mut rec = Rec::new();
    let mut rng = Rng(0x0dd_ba11);
    let valid = c.proof.to_bytes();
    assert_eq!(valid.len(), 240 + 32 * 3);
    for n in 0..=1024usize {
        for (cl, b) in classes(n, &valid, 32, &mut rng) {
            let r = rec.run(|| format!("PoKSignature::from_bytes len {n} class {cl}"), || {
                PoKSignature::<BBSplus<CS>>::from_bytes(&b)
            });
            if let Some(Ok(p)) = r {
                assert!(n >= 272 && (n - 240) % 32 == 0, "a proof of {n} bytes was accepted");
                // what was accepted can be verified without a crash (result is irrelevant here)
                if n % 160 == 16 || n < 400 {
                    rec.run(|| format!("proof_verify of decoded len {n} class {cl}"), || {
                        p.proof_verify(c.kp.public_key(), Some(&[c.msgs[1].clone()]), Some(&[1]), Some(&c.header), Some(&c.ph))
                    });
                }
            }
            if n <= 400 {
                rec.run(|| format!("BBSplusPoKSignature::from_bytes len {n} class {cl}"), || {
                    BBSplusPoKSignature::from_bytes(&b)
                });
            }
        }
    }
    rec.finish(name);
}

#[test]
fn f02_from_bytes_every_length_proof_sha256() {
    f02_body::<Sha>("f02 sha");
}

#[test]
fn f02_from_bytes_every_length_proof_shake256() {
    f02_body::<Shake>("f02 shake");
}

#[test]
fn f03_from_bytes_every_length_zkpok_and_commitment() {
    let c = ctx::<Sha>();
    let mut rec = Rec::new();
    let mut rng = Rng(0xfeed_f00d);
    let valid = c.commit.to_bytes();
    assert_eq!(valid.len(), 48 + 32 * (2 + 2));
    let valid_zk = valid[48..].to_vec();
    for n in 0..=1024usize {
        for (cl, b) in classes(n, &valid_zk, 32, &mut rng) {
            let r = rec.run(|| format!("BBSplusZKPoK::from_bytes len {n} class {cl}"), || BBSplusZKPoK::from_bytes(&b));
            if let Some(Ok(_)) = r {
                assert!(n >= 64 && n % 32 == 0, "a ZKPoK of {n} bytes was accepted");
            }
        }
        for (cl, b) in classes(n, &valid, 32, &mut rng) {
            let r = rec.run(|| format!("Commitment::from_bytes len {n} class {cl}"), || {
                Commitment::<BBSplus<Sha>>::from_bytes(&b)
            });
            if let Some(Ok(_)) = r {
                assert!(n >= 112 && (n - 48) % 32 == 0, "a commitment of {n} bytes was accepted");
            }
            if n <= 200 {
                rec.run(|| format!("BBSplusCommitment::from_bytes len {n} class {cl}"), || BBSplusCommitment::from_bytes(&b));
            }
        }
    }
    rec.finish("f03");
}

#[test]
fn f04_fixed_size_decoders_structured_contents() {
    let c = ctx::<Sha>();
    let mut rec = Rec::new();
    let mut rng = Rng(77);
    let scalars: Vec<[u8; 32]> = vec![
        [0u8; 32],
        [0xffu8; 32],
        R_BE,
        r_plus(1),
        r_plus(-1),
        { let mut v = [0u8; 32]; v[31] = 1; v },
        { let mut v = [0u8; 32]; v[0] = 0x80; v },
    ];
    for s in &scalars {
        let r = rec.run(|| format!("BlindFactor::from_bytes {}", hex::encode(s)), || BlindFactor::from_bytes(s));
        if let Some(Ok(bf)) = r {
            assert_eq!(&bf.to_bytes(), s, "non canonical blind factor accepted");
        }
        rec.run(|| format!("SecretKey::from_bytes {}", hex::encode(s)), || BBSplusSecretKey::from_bytes(s));
        rec.run(|| format!("BBSplusMessage::from_bytes_be {}", hex::encode(s)), || BBSplusMessage::from_bytes_be(s));
    }
    let valid = c.sig.to_bytes();
    let mut points: Vec<[u8; 48]> = Vec::new();
    points.push([0u8; 48]);
    points.push([0xffu8; 48]);
    let mut inf = [0u8; 48];
    inf[0] = 0xc0;
    points.push(inf);
    let mut inf_bad = inf;
    inf_bad[47] = 1; // infinity flag with a non zero coordinate
    points.push(inf_bad);
    let mut uncompressed = [0u8; 48];
    uncompressed.copy_from_slice(&valid[..48]);
    uncompressed[0] &= 0x7f; // compression flag cleared
    points.push(uncompressed);
    let mut sign_flip = [0u8; 48];
    sign_flip.copy_from_slice(&valid[..48]);
    sign_flip[0] ^= 0x20;
    points.push(sign_flip);
    for _ in 0..40 {
        let mut p = [0u8; 48];
        p.copy_from_slice(&rng.bytes(48));
        p[0] = (p[0] & 0x1f) | 0x80;
        points.push(p);
    }
    for p in &points {
        for s in &scalars {
            let mut b = [0u8; 80];
            b[..48].copy_from_slice(p);
            b[48..].copy_from_slice(s);
            let r = rec.run(|| format!("Signature::from_bytes {}", hex::encode(b)), || Signature::<BBSplus<Sha>>::from_bytes(&b));
            if let Some(Ok(sig)) = r {
                rec.run(|| format!("verify decoded {}", hex::encode(b)), || sig.verify(c.kp.public_key(), Some(&c.msgs), Some(&c.header)));
            }
            let r = rec.run(|| format!("BlindSignature::from_bytes {}", hex::encode(b)), || BlindSignature::<BBSplus<Sha>>::from_bytes(&b));
            if let Some(Ok(sig)) = r {
                rec.run(|| format!("verify_blind_sign decoded {}", hex::encode(b)), || {
                    sig.verify_blind_sign(c.kp.public_key(), Some(&c.header), Some(&c.msgs), Some(&c.cmsgs), Some(&c.blind))
                });
            }
            rec.run(|| format!("BBSplusSignature::from_bytes {}", hex::encode(b)), || BBSplusSignature::from_bytes(&b));
        }
    }
    rec.finish("f04");
}

// ---------------------------------------------------------------------------------------------
// 2. serde_json decoders
// ---------------------------------------------------------------------------------------------

fn leaf_paths(v: &serde_json::Value, cur: &mut Vec<String>, out: &mut Vec<Vec<String>>) {
    match v {
        serde_json::Value::Object(m) => {
            for (k, x) in m {
                cur.push(k.clone());
                leaf_paths(x, cur, out);
                cur.pop();
            }
        }
        serde_json::Value::Array(a) => {
            // the array itself, and its first element
            out.push(cur.clone());
            if let Some(x) = a.first() {
                cur.push("0".to_owned());
                leaf_paths(x, cur, out);
                cur.pop();
            }
        }
        _ => out.push(cur.clone()),
    }
}

fn set_path(v: &mut serde_json::Value, path: &[String], new: serde_json::Value) {
    if path.is_empty() {
        *v = new;
        return;
    }
    match v {
        serde_json::Value::Object(m) => set_path(m.get_mut(&path[0]).unwrap(), &path[1..], new),
        serde_json::Value::Array(a) => {
            let i: usize = path[0].parse().unwrap();
            set_path(&mut a[i], &path[1..], new)
        }
        _ => unreachable!(),
    }
}

fn get_path<'a>(v: &'a serde_json::Value, path: &[String]) -> &'a serde_json::Value {
    if path.is_empty() {
        return v;
    }
    match v {
        serde_json::Value::Object(m) => get_path(&m[&path[0]], &path[1..]),
        serde_json::Value::Array(a) => get_path(&a[path[0].parse::<usize>().unwrap()], &path[1..]),
        _ => unreachable!(),
    }
}

fn leaf_variants(orig: &serde_json::Value, full: bool, later_leaf: bool) -> Vec<serde_json::Value> {
    use serde_json::{json, Value};
    let mut out: Vec<Value> = Vec::new();
    // every length up to 200 characters; up to 1024 either every length (`full`) or a sample of them
    for n in 0..=1024usize {
        let dense = if later_leaf { 130 } else { 200 };
        if n <= dense || full || n % 64 <= 1 || n % 64 == 63 {
            out.push(Value::String("0".repeat(n)));
            out.push(Value::String("f".repeat(n)));
        }
    }
    for n in [0usize, 1, 2, 31, 32, 33, 47, 48, 49, 63, 64, 65, 95, 96, 97, 100, 192, 193] {
        out.push(Value::String("z".repeat(n)));
        out.push(Value::String("\u{e9}".repeat(n))); // two bytes per char: byte length 2n
        out.push(Value::String(format!("0{}", "\u{e9}".repeat(n)))); // odd byte offsets
        out.push(Value::String("\u{1F600}".repeat(n)));
        out.push(Value::String(" ".repeat(n)));
        out.push(Value::String("c0".to_owned() + &"00".repeat(n)));
    }
    if let Value::String(s) = orig {
        out.push(Value::String(s.to_uppercase()));
        out.push(Value::String(format!("0x{s}")));
        out.push(Value::String(format!(" {s}")));
        out.push(Value::String(format!("{s} ")));
        out.push(Value::String(format!("{s}00")));
        out.push(Value::String(format!("00{s}")));
        out.push(Value::String(s[..s.len() - 1].to_owned()));
        out.push(Value::String(s[..s.len() - 2].to_owned()));
        out.push(Value::String(format!("{}\u{e9}", &s[..s.len() - 2])));
        out.push(Value::String(format!("\u{e9}{}", &s[2..])));
        if s.len() == 64 {
            out.push(Value::String(hex::encode(R_BE)));
            out.push(Value::String(hex::encode(r_plus(1))));
            out.push(Value::String(hex::encode(r_plus(-1))));
            out.push(Value::String("ff".repeat(32)));
        }
        // the same bytes as a sequence of numbers
        if let Ok(b) = hex::decode(s) {
            out.push(json!(b));
            let mut longer = b.clone();
            longer.push(0);
            out.push(json!(longer));
            out.push(json!(b[..b.len() - 1].to_vec()));
        }
    }
    for n in [0usize, 1, 2, 31, 32, 33, 47, 48, 49, 95, 96, 97] {
        out.push(json!(vec![0u8; n]));
        out.push(json!(vec![255u16; n]));
        out.push(json!(vec![256u16; n]));
        out.push(json!(vec![-1i32; n]));
    }
    for n in [0usize, 1, 2, 3, 17, 40] {
        out.push(json!(vec!["00"; n]));
        out.push(json!(vec![hex::encode(R_BE); n]));
        out.push(json!(vec![hex::encode(r_plus(-1)); n]));
    }
    out.push(Value::Null);
    out.push(json!(true));
    out.push(json!(0));
    out.push(json!(-1));
    out.push(json!(1.5));
    out.push(json!(u64::MAX));
    out.push(json!({}));
    out.push(json!({"a": 1}));
    out.push(json!([[]]));
    out.push(json!([null]));
    out
}

/// every prefix of the valid text, every leaf replaced by every variant; `check` is run on whatever decodes
fn json_family<T: serde::de::DeserializeOwned + serde::Serialize>(
    rec: &mut Rec,
    name: &str,
    valid: &T,
    full: bool,
    mut check: impl FnMut(&mut Rec, &str, T),
) {
    let text = serde_json::to_string(valid).unwrap();
    // round trip of the honest value
    let back: T = serde_json::from_str(&text).unwrap();
    check(rec, &text, back);
    for cut in 0..text.len() {
        if !text.is_char_boundary(cut) {
            continue;
        }
        let t = &text[..cut];
        rec.run(|| format!("{name}: serde_json prefix {cut}"), || serde_json::from_str::<T>(t).is_ok());
    }
    let value: serde_json::Value = serde_json::from_str(&text).unwrap();
    let mut paths = Vec::new();
    leaf_paths(&value, &mut Vec::new(), &mut paths);
    paths.push(Vec::new()); // the whole document
    let mut accepted = 0usize;
    for (pi, p) in paths.iter().enumerate() {
        let tp = Instant::now();
        let mut checked_here = 0usize;
        let orig = get_path(&value, p).clone();
        let first = pi < 2 || p.is_empty();
        for variant in leaf_variants(&orig, full && first, !first) {
            let mut v = value.clone();
            set_path(&mut v, p, variant);
            let t = v.to_string();
            let r = rec.run(|| format!("{name}: serde_json {p:?} <- {}", &t[..t.len().min(300)]), || {
                serde_json::from_str::<T>(&t)
            });
            if let Some(Ok(x)) = r {
                accepted += 1;
                checked_here += 1;
                if checked_here <= 3 {
                    check(rec, &t, x);
                }
            }
        }
        if std::env::var("FALSIFY_TIMING").is_ok() {
            eprintln!("  {name} {p:?}: {:?}", tp.elapsed());
        }
    }
    // shapes of the enum itself
    for t in [
        "{\"_Unreachable\":null}",
        "\"_Unreachable\"",
        "{\"_Unreachable\":[]}",
        "{\"CL03\":null}",
        "{\"BBSplus\":null}",
        "{\"BBSplus\":{}}",
        "{\"BBSplus\":[]}",
        "\"BBSplus\"",
        "{}",
        "[]",
        "null",
        "0",
        "\"\"",
        "1e999",
        "-0",
    ] {
        let r = rec.run(|| format!("{name}: serde_json {t}"), || serde_json::from_str::<T>(t));
        if let Some(Ok(x)) = r {
            check(rec, t, x);
        }
    }
    // nesting and duplicated keys
    let deep = "[".repeat(5000);
    rec.run(|| format!("{name}: deep nesting"), || serde_json::from_str::<T>(&deep).is_ok());
    let deep = "{\"BBSplus\":".repeat(5000);
    rec.run(|| format!("{name}: deep nesting of variants"), || serde_json::from_str::<T>(&deep).is_ok());
    let dup = format!("{{\"BBSplus\":{0},\"BBSplus\":{0}}}", value.get("BBSplus").cloned().unwrap_or(serde_json::Value::Null));
    rec.run(|| format!("{name}: duplicated variant"), || serde_json::from_str::<T>(&dup).is_ok());
    eprintln!("{name}: {accepted} mutated documents were accepted by the decoder");
}

#[test]
fn f05_serde_json_keys() {
    let c = ctx::<Sha>();
    let mut rec = Rec::new();
    let sig = c.sig.clone();
    let msgs = c.msgs.clone();
    let header = c.header.clone();
    json_family::<BBSplusPublicKey>(&mut rec, "BBSplusPublicKey", c.kp.public_key(), true, |rec, t, pk| {
        rec.run(|| format!("verify with decoded pk {t}"), || sig.verify(&pk, Some(&msgs), Some(&header)));
        rec.run(|| format!("to_bytes of decoded pk {t}"), || pk.to_bytes());
    });
    let pk = c.kp.public_key().clone();
    json_family::<BBSplusSecretKey>(&mut rec, "BBSplusSecretKey", c.kp.private_key(), true, |rec, t, sk| {
        rec.run(|| format!("update_signature with decoded sk {t}"), || sig.update_signature(&sk, b"m0", b"new", 0, 3));
        rec.run(|| format!("blind_sign with decoded sk {t}"), || {
            BlindSignature::<BBSplus<Sha>>::blind_sign(&sk, &pk, None, None, None)
        });
        rec.run(|| format!("public_key of decoded sk {t}"), || sk.public_key());
    });
    // the 192-byte uncompressed encoding as hex, and bytes that are not UTF-8
    let (x, y) = c.kp.public_key().to_coordinates();
    let unc = format!("\"{}{}\"", hex::encode(x), hex::encode(y));
    rec.run(|| "pk uncompressed hex".to_owned(), || serde_json::from_str::<BBSplusPublicKey>(&unc).is_ok());
    for raw in [&b"\"\xff\xfe\""[..], &b"\xff"[..], &b"\"\\ud800\""[..], &b"\"\\u0000\""[..], &b"\"a065\\u00e9\""[..]] {
        rec.run(|| format!("pk from_slice {raw:?}"), || serde_json::from_slice::<BBSplusPublicKey>(raw).is_ok());
        rec.run(|| format!("sk from_slice {raw:?}"), || serde_json::from_slice::<BBSplusSecretKey>(raw).is_ok());
        rec.run(|| format!("sig from_slice {raw:?}"), || serde_json::from_slice::<Signature<BBSplus<Sha>>>(raw).is_ok());
    }
    rec.finish("f05");
}

#[test]
fn f06_serde_json_signature_and_blind_signature() {
    let c = ctx::<Sha>();
    let mut rec = Rec::new();
    json_family::<Signature<BBSplus<Sha>>>(&mut rec, "Signature", &c.sig, true, |rec, t, s| {
        rec.run(|| format!("verify decoded signature {t}"), || s.verify(c.kp.public_key(), Some(&c.msgs), Some(&c.header)));
        rec.run(|| format!("update_signature on decoded signature {t}"), || {
            s.update_signature(c.kp.private_key(), b"m0", b"new", 0, 3)
        });
    });
    json_family::<BlindSignature<BBSplus<Sha>>>(&mut rec, "BlindSignature", &c.bsig, false, |rec, t, s| {
        rec.run(|| format!("verify_blind_sign decoded {t}"), || {
            s.verify_blind_sign(c.kp.public_key(), Some(&c.header), Some(&c.msgs), Some(&c.cmsgs), Some(&c.blind))
        });
    });
    json_family::<BBSplusSignature>(&mut rec, "BBSplusSignature", c.sig.bbsPlusSignature(), false, |rec, t, s| {
        rec.run(|| format!("BBSplusSignature::to_bytes {t}"), || s.to_bytes());
    });
    rec.finish("f06");
}

#[test]
fn f07_serde_json_proof() {
    let c = ctx::<Sha>();
    let mut rec = Rec::new();
    json_family::<PoKSignature<BBSplus<Sha>>>(&mut rec, "PoKSignature", &c.proof, true, |rec, t, p| {
        rec.run(|| format!("proof_verify decoded {t}"), || {
            p.proof_verify(c.kp.public_key(), Some(&[c.msgs[1].clone()]), Some(&[1]), Some(&c.header), Some(&c.ph))
        });
        rec.run(|| format!("blind_proof_verify decoded {t}"), || {
            p.blind_proof_verify(c.kp.public_key(), Some(&c.header), Some(&c.ph), Some(1), Some(&[c.msgs[1].clone()]), None, Some(&[1]), None)
        });
    });
    rec.finish("f07");
}

#[test]
fn f07b_serde_built_proofs_without_undisclosed_messages_identity_points_many_messages() {
    let c = ctx::<Sha>();
    let mut rec = Rec::new();
    // a proof without undisclosed messages, built through serde only
    let mut v: serde_json::Value = serde_json::from_str(&serde_json::to_string(&c.proof).unwrap()).unwrap();
    v["BBSplus"]["m_cap"] = serde_json::json!([]);
    let p: PoKSignature<BBSplus<Sha>> = serde_json::from_value(v.clone()).unwrap();
    for idx in [None, Some(&[][..]), Some(&[0usize][..]), Some(&[usize::MAX][..])] {
        rec.run(|| format!("proof_verify U=0 idx {idx:?}"), || p.proof_verify(c.kp.public_key(), None, idx, None, None));
        rec.run(|| format!("blind_proof_verify U=0 idx {idx:?}"), || {
            p.blind_proof_verify(c.kp.public_key(), None, None, None, None, None, idx, idx)
        });
        for l in [0usize, 1, 2, usize::MAX] {
            rec.run(|| format!("blind_proof_verify U=0 L={l} idx {idx:?}"), || {
                p.blind_proof_verify(c.kp.public_key(), None, None, Some(l), None, None, idx, None)
            });
        }
    }
    // the identity in each point position (the byte decoder refuses it, serde may not)
    let inf = format!("c0{}", "00".repeat(47));
    for f in ["Abar", "Bbar", "D"] {
        let mut w: serde_json::Value = serde_json::from_str(&serde_json::to_string(&c.proof).unwrap()).unwrap();
        w["BBSplus"][f] = serde_json::json!(inf);
        let t = w.to_string();
        if let Some(Ok(p)) = rec.run(|| format!("decode identity {f}"), || serde_json::from_str::<PoKSignature<BBSplus<Sha>>>(&t)) {
            let r = rec.run(|| format!("proof_verify identity {f}"), || {
                p.proof_verify(c.kp.public_key(), Some(&[c.msgs[1].clone()]), Some(&[1]), Some(&c.header), Some(&c.ph))
            });
            assert!(matches!(r, Some(Err(_))), "a proof with the identity as {f} was accepted");
        }
    }
    // many undisclosed messages: decoding and verifying stays proportional
    let many: Vec<String> = (0..200).map(|_| hex::encode(r_plus(-1))).collect();
    v["BBSplus"]["m_cap"] = serde_json::json!(many);
    let t = v.to_string();
    let t0 = Instant::now();
    let p = rec.run(|| "decode m_cap of 200".to_owned(), || serde_json::from_str::<PoKSignature<BBSplus<Sha>>>(&t));
    if let Some(Ok(p)) = p {
        rec.run(|| "proof_verify m_cap of 200".to_owned(), || p.proof_verify(c.kp.public_key(), None, None, None, None));
    }
    assert!(t0.elapsed() < Duration::from_secs(20), "200 undisclosed messages took {:?}", t0.elapsed());
    rec.finish("f07b");
}

#[test]
fn f08_serde_json_commitment_and_zkpok() {
    let c = ctx::<Sha>();
    let mut rec = Rec::new();
    let gens = Generators::create::<Sha>(3, Some(&[b"BLIND_", <Sha as BbsCiphersuite>::API_ID_BLIND].concat()));
    json_family::<Commitment<BBSplus<Sha>>>(&mut rec, "Commitment", &c.commit, true, |rec, t, cm| {
        // the signer has to turn the value into bytes for blind_sign: only do that for the BBSplus variant here
        if let Commitment::BBSplus(inner) = &cm {
            let bytes = inner.to_bytes();
            rec.run(|| format!("blind_sign of decoded commitment {t}"), || {
                BlindSignature::<BBSplus<Sha>>::blind_sign(c.kp.private_key(), c.kp.public_key(), Some(&bytes), Some(&c.header), Some(&c.msgs))
            });
            rec.run(|| format!("deserialize_and_validate_commit of decoded commitment {t}"), || {
                Commitment::<BBSplus<Sha>>::deserialize_and_validate_commit(Some(&bytes), &gens, Some(<Sha as BbsCiphersuite>::API_ID_BLIND))
            });
        }
    });
    let zk = match &c.commit {
        Commitment::BBSplus(inner) => inner.proof.clone(),
        _ => unreachable!(),
    };
    json_family::<ZKPoK<BBSplus<Sha>>>(&mut rec, "ZKPoK", &ZKPoK::BBSplus(zk.clone()), true, |_, _, _| {});
    json_family::<BBSplusZKPoK>(&mut rec, "BBSplusZKPoK", &zk, false, |rec, t, z| {
        rec.run(|| format!("BBSplusZKPoK::to_bytes {t}"), || z.to_bytes());
    });
    rec.finish("f08");
}

// ---------------------------------------------------------------------------------------------
// 3. index lists and counts
// ---------------------------------------------------------------------------------------------

fn index_lists() -> Vec<Vec<usize>> {
    let m = usize::MAX;
    let mut v: Vec<Vec<usize>> = vec![
        vec![],
        vec![0],
        vec![1],
        vec![2],
        vec![3],
        vec![4],
        vec![m],
        vec![m - 1],
        vec![0, 0],
        vec![1, 1],
        vec![1, 0],
        vec![0, 1],
        vec![0, 1, 2],
        vec![0, 1, 2, 3],
        vec![2, 1, 0],
        vec![0, 2, 1],
        vec![0, m],
        vec![m, 0],
        vec![m, m],
        vec![m - 1, m],
        vec![1, m],
        vec![1 << 32, 1 << 33],
        vec![255, 256],
        vec![65535, 65536],
        (0..10).collect(),
        vec![0, 2],
        (0..40).collect(),
        (0..40).rev().collect(),
        vec![1; 40],
    ];
    v.push((0..64).map(|i| m - 63 + i).collect());
    v
}

fn msg_lists(c: &Ctx<Sha>) -> Vec<Option<Vec<Vec<u8>>>> {
    vec![
        None,
        Some(vec![]),
        Some(vec![c.msgs[1].clone()]),
        Some(vec![vec![]]),
        Some(vec![c.msgs[0].clone(), c.msgs[1].clone()]),
        Some(c.msgs.clone()),
        Some(vec![vec![0u8; 5]; 40]),
    ]
}

#[test]
fn f09_proof_verify_index_lists() {
    let c = ctx::<Sha>();
    let mut rec = Rec::new();
    let mut ok = 0;
    for (pname, p) in [("U=2", &c.proof), ("U=0", &c.proof_all)] {
        for idx in index_lists().into_iter().map(Some).chain([None]) {
            for m in msg_lists(&c) {
                let r = rec.run(|| format!("proof_verify {pname} idx {:?} msgs {:?}", idx.as_ref().map(|v| &v[..v.len().min(6)]), m.as_ref().map(Vec::len)), || {
                    p.proof_verify(c.kp.public_key(), m.as_deref(), idx.as_deref(), Some(&c.header), Some(&c.ph))
                });
                if let Some(Ok(())) = r {
                    ok += 1;
                    let honest = (pname == "U=2" && idx.as_deref() == Some(&[1][..]) && m.as_ref().map(|m| m.len()) == Some(1))
                        || (pname == "U=0" && idx.as_deref() == Some(&[0, 1, 2][..]) && m.as_ref().map(|m| m.len()) == Some(3));
                    assert!(honest, "proof {pname} accepted with idx {idx:?}");
                }
            }
        }
    }
    assert_eq!(ok, 2, "exactly the two honest presentations verify");
    rec.finish("f09");
}

#[test]
fn f10_blind_proof_verify_counts_and_index_lists() {
    let c = ctx::<Sha>();
    let mut rec = Rec::new();
    let m = usize::MAX;
    let ls: Vec<Option<usize>> = vec![None, Some(0), Some(3), Some(5), Some(6), Some(7), Some(m - 6), Some(m)];
    let lists: Vec<Vec<usize>> = vec![
        vec![], vec![0], vec![1], vec![m], vec![0, 0], vec![1, 0], vec![0, 2], vec![0, 1, 2, 3], vec![0, m], vec![m - 1, m], vec![255, 256],
    ];
    let long: Vec<Vec<usize>> = index_lists().into_iter().filter(|l| l.len() > 4).collect();
    let mut ok = 0usize;
    let t0 = Instant::now();
    let mut call = |rec: &mut Rec, pname: &str, p: &PoKSignature<BBSplus<Sha>>, l: Option<usize>, i1: &[usize], i2: &[usize]| {
        // the message that belongs to an index is the one the holder would send for it
        let dm: Vec<Vec<u8>> = i1.iter().map(|&k| c.msgs[k % 3].clone()).collect();
        let dcm: Vec<Vec<u8>> = i2.iter().map(|&k| c.cmsgs[k % 2].clone()).collect();
        let r = rec.run(|| format!("blind_proof_verify {pname} L {l:?} idx {:?} cidx {:?}", &i1[..i1.len().min(5)], &i2[..i2.len().min(5)]), || {
            p.blind_proof_verify(c.kp.public_key(), Some(&c.header), Some(&c.ph), l, Some(&dm), Some(&dcm), Some(i1), Some(i2))
        });
        if let Some(Ok(())) = r {
            ok += 1;
            assert!(pname == "blind" && l == Some(3) && i1 == [0, 2] && i2 == [1], "accepted: {pname} L {l:?} {i1:?} {i2:?}");
        }
    };
    for l in &ls {
        // the blind proof against every pair of short lists
        for i1 in &lists {
            for i2 in &lists {
                call(&mut rec, "blind", &c.bproof, *l, i1, i2);
            }
        }
    }
    for l in [None, Some(3), Some(m)] {
        for (k, i1) in long.iter().enumerate() {
            match k % 3 {
                0 => call(&mut rec, "blind", &c.bproof, l, i1, &[]),
                1 => call(&mut rec, "blind", &c.bproof, l, &[], i1),
                _ => call(&mut rec, "blind", &c.bproof, l, i1, i1),
            }
        }
        // proofs of the plain interface
        for (pname, p) in [("plain U=2", &c.proof), ("plain U=0", &c.proof_all)] {
            for i1 in &lists {
                call(&mut rec, pname, p, l, i1, &[]);
                call(&mut rec, pname, p, l, &[], i1);
                call(&mut rec, pname, p, l, i1, i1);
            }
        }
    }
    drop(call);
    // None versus empty
    for l in &ls {
        for p in [&c.bproof, &c.proof_all] {
            for (dm, dcm, i1, i2) in [
                (None, None, None, None),
                (Some(vec![]), None, Some(vec![]), None),
                (None, Some(vec![]), None, Some(vec![])),
                (Some(vec![c.msgs[0].clone()]), None, None, None),
                (None, None, Some(vec![0usize]), None),
                (None, Some(vec![c.cmsgs[0].clone()]), None, Some(vec![m])),
            ] {
                rec.run(|| format!("blind_proof_verify L {l:?} options"), || {
                    p.blind_proof_verify(c.kp.public_key(), None, None, *l, dm.as_deref(), dcm.as_deref(), i1.as_deref(), i2.as_deref())
                });
            }
        }
    }
    eprintln!("f10: {ok} combinations verified, {:?}", t0.elapsed());
    assert_eq!(ok, ls.iter().filter(|l| **l == Some(3)).count(), "the honest presentation is part of the sweep and is the only one accepted");
    rec.finish("f10");
}

#[test]
fn f11_blind_proof_verify_colliding_index_lists() {
    // an index of the signer list that points into the committed range, equal to a shifted committed index
    let c = ctx::<Sha>();
    let mut rec = Rec::new();
    for (i1, i2) in [
        (vec![5usize], vec![1usize]),
        (vec![0, 5], vec![1]),
        (vec![4, 5, 6], vec![0, 1, 2]),
        (vec![6], vec![2]),
        (vec![0, 2, 5], vec![]),
        (vec![], vec![0, 1, 2]),
        (vec![0, 1, 2, 3, 4, 5, 6], vec![]),
        (vec![0, 1, 2, 3, 4, 5, 6], vec![0, 1, 2]),
    ] {
        let dm: Vec<Vec<u8>> = (0..i1.len()).map(|k| c.msgs[k % 3].clone()).collect();
        let dcm: Vec<Vec<u8>> = (0..i2.len()).map(|k| c.cmsgs[k % 2].clone()).collect();
        for l in 0..=9usize {
            rec.run(|| format!("blind_proof_verify L {l} idx {i1:?} cidx {i2:?}"), || {
                c.bproof.blind_proof_verify(c.kp.public_key(), Some(&c.header), Some(&c.ph), Some(l), Some(&dm), Some(&dcm), Some(&i1), Some(&i2))
            });
        }
    }
    rec.finish("f11");
}

#[test]
fn f12_proof_gen_inputs() {
    let c = ctx::<Sha>();
    let mut rec = Rec::new();
    let mut rng = Rng(5);
    let sig = c.sig.to_bytes();
    // signature octet strings of every length
    for n in 0..=160usize {
        for (cl, b) in classes(n, &sig, 0, &mut rng) {
            let r = rec.run(|| format!("proof_gen signature len {n} class {cl}"), || {
                PoKSignature::<BBSplus<Sha>>::proof_gen(c.kp.public_key(), &b, Some(&c.header), Some(&c.ph), Some(&c.msgs), Some(&[1]))
            });
            if let Some(Ok(_)) = r {
                assert_eq!(n, 80);
            }
            rec.run(|| format!("blind_proof_gen signature len {n} class {cl}"), || {
                PoKSignature::<BBSplus<Sha>>::blind_proof_gen(c.kp.public_key(), &b, None, None, Some(&c.msgs), Some(&c.cmsgs), Some(&[1]), Some(&[0]), Some(&c.blind))
            });
        }
    }
    let msg_sets: Vec<Option<Vec<Vec<u8>>>> = vec![None, Some(vec![]), Some(vec![vec![]]), Some(c.msgs.clone()), Some(vec![vec![1u8]; 12])];
    for idx in index_lists().into_iter().map(Some).chain([None]) {
        for m in &msg_sets {
            let r = rec.run(|| format!("proof_gen idx {:?} msgs {:?}", idx.as_ref().map(|v| &v[..v.len().min(6)]), m.as_ref().map(Vec::len)), || {
                PoKSignature::<BBSplus<Sha>>::proof_gen(c.kp.public_key(), &sig, Some(&c.header), Some(&c.ph), m.as_deref(), idx.as_deref())
            });
            // whatever is produced for the honestly signed messages has to verify against the de-duplicated sorted list
            if let (Some(Ok(p)), Some(ms)) = (r, m) {
                if ms == &c.msgs {
                    let mut i = idx.clone().unwrap_or_default();
                    i.sort();
                    i.dedup();
                    let dm: Vec<Vec<u8>> = i.iter().map(|&k| ms[k].clone()).collect();
                    let v = rec.run(|| "verify generated".to_owned(), || p.proof_verify(c.kp.public_key(), Some(&dm), Some(&i), Some(&c.header), Some(&c.ph)));
                    assert!(matches!(v, Some(Ok(()))), "honest proof for idx {idx:?} does not verify");
                }
            }
            // the blind interface: the full product only for the short index lists and two message sets
            let short = idx.as_ref().map_or(true, |v| v.len() <= 2 && v.iter().all(|&i| i < 3 || i == usize::MAX));
            if !short || !(m.is_none() || m.as_ref() == Some(&c.msgs)) {
                continue;
            }
            for cidx in [None, Some(vec![]), Some(vec![1usize, 0]), Some(vec![usize::MAX]), Some(vec![usize::MAX - 3]), Some(vec![0, 0, 0])] {
                for cm in [None, Some(vec![]), Some(c.cmsgs.clone())] {
                    for bf in [None, Some(&c.blind)] {
                        if bf.is_none() && cm.as_ref().map_or(false, |v| v.is_empty()) {
                            continue;
                        }
                        rec.run(|| format!("blind_proof_gen idx {:?} cidx {cidx:?} msgs {:?} cmsgs {:?}", idx.as_ref().map(|v| &v[..v.len().min(6)]), m.as_ref().map(Vec::len), cm.as_ref().map(Vec::len)), || {
                            PoKSignature::<BBSplus<Sha>>::blind_proof_gen(c.kp.public_key(), &c.bsig.to_bytes(), Some(&c.header), Some(&c.ph), m.as_deref(), cm.as_deref(), idx.as_deref(), cidx.as_deref(), bf)
                        });
                    }
                }
            }
        }
    }
    rec.finish("f12");
}

// ---------------------------------------------------------------------------------------------
// 4. signer side: blind_sign / deserialize_and_validate_commit
// ---------------------------------------------------------------------------------------------

#[test]
fn f13_blind_sign_commitment_of_every_length() {
    let c = ctx::<Sha>();
    let mut rec = Rec::new();
    let mut rng = Rng(99);
    let valid = c.commit.to_bytes();
    let t0 = Instant::now();
    let mut slowest = Duration::ZERO;
    for n in 0..=1024usize {
        let mut cl = classes(n, &valid, 32, &mut rng);
        if n > 48 && n <= 130 && n % 16 != 0 && !(79..=81).contains(&n) && !(111..=113).contains(&n) {
            cl.retain(|(name, _)| *name == "valid-prefix+zeros" || *name == "random");
        }
        // every class up to 130 bytes (the structured ones only off the 16-byte grid); beyond that the lengths around the 32-byte grid with the two classes that get furthest
        if n > 130 {
            if !(n % 32 == 16 || n % 32 == 15 || n % 32 == 17 || n % 32 == 0) {
                cl.truncate(0);
            } else {
                cl.retain(|(name, _)| *name == "valid+repeated-tail" || *name == "random");
            }
        }
        for (name, b) in cl {
            let t = Instant::now();
            let r = rec.run(|| format!("blind_sign commitment len {n} class {name}"), || {
                let msgs = if n % 16 == 0 { Some(&c.msgs[..]) } else { None };
                BlindSignature::<BBSplus<Sha>>::blind_sign(c.kp.private_key(), c.kp.public_key(), Some(&b), Some(&c.header), msgs)
            });
            slowest = slowest.max(t.elapsed());
            if let Some(Ok(_)) = r {
                assert!(n == 0 || n == valid.len(), "a commitment of {n} bytes ({name}) was signed");
            }
        }
    }
    eprintln!("f13: total {:?}, slowest call {:?}", t0.elapsed(), slowest);
    // 1024 bytes of commitment are at most 30 blind generators: generous bound per call
    assert!(slowest < Duration::from_secs(5), "a single blind_sign call took {slowest:?}");
    // None, empty, and all the message shapes
    for m in [None, Some(vec![]), Some(vec![vec![]]), Some(vec![vec![0u8; 100_000]])] {
        for cm in [None, Some(vec![]), Some(valid.clone())] {
            rec.run(|| "blind_sign options".to_owned(), || {
                BlindSignature::<BBSplus<Sha>>::blind_sign(c.kp.private_key(), c.kp.public_key(), cm.as_deref(), None, m.as_deref())
            });
        }
    }
    rec.finish("f13");
}

#[test]
fn f14_deserialize_and_validate_commit_lengths_generators_api_ids() {
    let c = ctx::<Sha>();
    let mut rec = Rec::new();
    let mut rng = Rng(3);
    let valid = c.commit.to_bytes();
    let blind_id = [b"BLIND_", <Sha as BbsCiphersuite>::API_ID_BLIND].concat();
    let full = Generators::create::<Sha>(40, Some(&blind_id));
    let gens: Vec<(String, Generators)> = vec![
        ("empty".to_owned(), Generators { g1_base_point: full.g1_base_point, values: vec![] }),
        ("1".to_owned(), Generators { g1_base_point: full.g1_base_point, values: full.values[..1].to_vec() }),
        ("2".to_owned(), Generators { g1_base_point: full.g1_base_point, values: full.values[..2].to_vec() }),
        ("3 (exact)".to_owned(), Generators { g1_base_point: full.g1_base_point, values: full.values[..3].to_vec() }),
        ("40".to_owned(), full.clone()),
        ("identities".to_owned(), Generators { g1_base_point: G1Projective::IDENTITY, values: vec![G1Projective::IDENTITY; 40] }),
    ];
    let long_id = vec![b'x'; 300];
    let id_252 = vec![b'x'; 251]; // 251 + len("H2S_") = 255
    let id_253 = vec![b'x'; 252]; // 256
    let api_ids: Vec<Option<&[u8]>> = vec![Some(<Sha as BbsCiphersuite>::API_ID_BLIND), None, Some(b""), Some(&long_id), Some(&id_252), Some(&id_253)];
    let mut accepted = 0;
    for n in 0..=1024usize {
        for (cl, b) in classes(n, &valid, 32, &mut rng) {
            for (gname, g) in &gens {
                // all api ids only for the interesting lengths
                let ids: &[Option<&[u8]>] = if n == valid.len() || n <= 1 || n == 112 { &api_ids } else { &api_ids[..1] };
                // every generator list near the honest length and on the 32-byte grid, two of them elsewhere
                let near = n <= 64 || n == 112 || n == valid.len() || (n >= 48 && (n - 48) % 32 == 0 && (gname == "3 (exact)" || n < 400));
                if !near && !(gname == "empty" || gname == "40") {
                    continue;
                }
                if (!near || (n > 200 && n != valid.len())) && cl != "valid+repeated-tail" && cl != "random" && cl != "valid-prefix+last-scalar=r" {
                    continue;
                }
                for id in ids {
                    let r = rec.run(|| format!("deserialize_and_validate_commit len {n} class {cl} gens {gname} api_id {:?}", id.map(|i| i.len())), || {
                        Commitment::<BBSplus<Sha>>::deserialize_and_validate_commit(Some(&b), g, *id)
                    });
                    if let Some(Ok(p)) = r {
                        if n != 0 {
                            accepted += 1;
                            assert_eq!(n, valid.len());
                            assert_ne!(p, G1Projective::IDENTITY);
                        }
                    }
                }
            }
        }
    }
    for g in &gens {
        rec.run(|| "None commitment".to_owned(), || Commitment::<BBSplus<Sha>>::deserialize_and_validate_commit(None, &g.1, None));
    }
    eprintln!("f14: {accepted} non-empty commitments validated");
    rec.finish("f14");
}

// ---------------------------------------------------------------------------------------------
// 5. verify / verify_blind_sign / update_signature
// ---------------------------------------------------------------------------------------------

#[test]
fn f15_verify_and_update_signature_shapes() {
    let c = ctx::<Sha>();
    let mut rec = Rec::new();
    let big = vec![0xabu8; 65537];
    let msg_sets: Vec<Option<Vec<Vec<u8>>>> = vec![
        None,
        Some(vec![]),
        Some(vec![vec![]]),
        Some(c.msgs.clone()),
        Some(vec![big.clone()]),
        Some(vec![vec![]; 33]),
    ];
    for m in &msg_sets {
        for h in [None, Some(&b""[..]), Some(&big[..])] {
            rec.run(|| format!("verify msgs {:?} header {:?}", m.as_ref().map(Vec::len), h.map(|h| h.len())), || {
                c.sig.verify(c.kp.public_key(), m.as_deref(), h)
            });
            rec.run(|| format!("verify_blind_sign msgs {:?} header {:?}", m.as_ref().map(Vec::len), h.map(|h| h.len())), || {
                c.bsig.verify_blind_sign(c.kp.public_key(), h, m.as_deref(), m.as_deref(), None)
            });
            rec.run(|| format!("proof_verify big ph {:?}", h.map(|h| h.len())), || {
                c.proof.proof_verify(c.kp.public_key(), Some(&[c.msgs[1].clone()]), Some(&[1]), h, h)
            });
        }
    }
    let m = usize::MAX;
    // n is kept small or overflowing: a large valid n is the known "n + 1 generators" issue
    for (i, n) in [(0usize, 0usize), (0, 1), (1, 1), (2, 3), (3, 3), (m, m), (m - 1, m), (m, 0), (m, 3), (4, 3), (0, 3), (5, 6), (0, m)] {
        for (old, new) in [(&b"m0"[..], &b"new"[..]), (&b""[..], &b""[..]), (&big[..], &big[..])] {
            let r = rec.run(|| format!("update_signature index {i} n {n}"), || {
                c.sig.update_signature(c.kp.private_key(), old, new, i, n)
            });
            if i >= n || n == m {
                assert!(matches!(r, Some(Err(_))), "update_signature index {i} n {n} has to be refused");
            }
        }
    }
    // the zero secret key (accepted by the decoder) on the signer operations
    if let Some(Ok(zero)) = rec.run(|| "sk zero".to_owned(), || BBSplusSecretKey::from_bytes(&[0u8; 32])) {
        rec.run(|| "update_signature sk=0".to_owned(), || c.sig.update_signature(&zero, b"m0", b"x", 0, 3));
        rec.run(|| "blind_sign sk=0".to_owned(), || {
            BlindSignature::<BBSplus<Sha>>::blind_sign(&zero, c.kp.public_key(), Some(&c.commit.to_bytes()), None, Some(&c.msgs))
        });
        rec.run(|| "public_key sk=0".to_owned(), || zero.public_key().to_bytes());
    }
    // sk = -e : sk + e = 0, the inverse does not exist
    let e = c.sig.e();
    let minus_e = BBSplusSecretKey(-e);
    let r = rec.run(|| "update_signature sk=-e".to_owned(), || c.sig.update_signature(&minus_e, b"m0", b"x", 0, 3));
    assert!(matches!(r, Some(Err(_))));
    rec.finish("f15");
}

#[test]
fn f18_honest_round_with_257_messages() {
    let c = ctx::<Sha>();
    let mut rec = Rec::new();
    // an honest round with 257 messages (counts around 255 / 256) and a 65536-byte presentation header
    let many: Vec<Vec<u8>> = (0..257u32).map(|i| i.to_be_bytes().to_vec()).collect();
    let ph = vec![7u8; 65536];
    let s = Signature::<BBSplus<Sha>>::sign(Some(&many), c.kp.private_key(), c.kp.public_key(), Some(&c.header)).unwrap();
    let r = rec.run(|| "verify 257".to_owned(), || s.verify(c.kp.public_key(), Some(&many), Some(&c.header)));
    assert!(matches!(r, Some(Ok(()))));
    let idx = [0usize, 255, 256];
    let p = rec.run(|| "proof_gen 257".to_owned(), || {
        PoKSignature::<BBSplus<Sha>>::proof_gen(c.kp.public_key(), &s.to_bytes(), Some(&c.header), Some(&ph), Some(&many), Some(&idx))
    });
    let p = p.unwrap().unwrap();
    let p = PoKSignature::<BBSplus<Sha>>::from_bytes(&p.to_bytes()).unwrap();
    let dm = vec![many[0].clone(), many[255].clone(), many[256].clone()];
    let r = rec.run(|| "proof_verify 257".to_owned(), || p.proof_verify(c.kp.public_key(), Some(&dm), Some(&idx), Some(&c.header), Some(&ph)));
    assert!(matches!(r, Some(Ok(()))), "honest proof over 257 messages refused: {r:?}");
    let r = rec.run(|| "update_signature 257".to_owned(), || s.update_signature(c.kp.private_key(), &many[256], b"new", 256, 257));
    let mut many2 = many.clone();
    many2[256] = b"new".to_vec();
    let r2 = rec.run(|| "verify updated".to_owned(), || r.unwrap().unwrap().verify(c.kp.public_key(), Some(&many2), Some(&c.header)));
    assert!(matches!(r2, Some(Ok(()))), "updated signature (last index) refused");

    rec.finish("f18");
}

#[test]
fn f19_honest_blind_flows_with_empty_and_absent_lists() {
    // "None vs empty", no signer messages, no committed messages, no commitment at all: the honest holder and
    // verifier must get Ok from every step (a refusal or a panic here would make the API unusable for that shape)
    let c = ctx::<Sha>();
    let mut rec = Rec::new();
    let pk = c.kp.public_key();
    let sk = c.kp.private_key();
    type Shape = (Option<Vec<Vec<u8>>>, Option<Vec<Vec<u8>>>, bool);
    let shapes: Vec<Shape> = vec![
        (None, Some(c.cmsgs.clone()), true),
        (Some(vec![]), Some(c.cmsgs.clone()), true),
        (Some(c.msgs.clone()), None, true),
        (Some(c.msgs.clone()), Some(vec![]), true),
        (None, None, true),
        (Some(c.msgs.clone()), None, false),
        (None, None, false),
        (Some(vec![vec![]]), Some(vec![vec![]]), true),
    ];
    for (msgs, cmsgs, with_commitment) in shapes {
        let what = format!("msgs {:?} cmsgs {:?} commitment {with_commitment}", msgs.as_ref().map(Vec::len), cmsgs.as_ref().map(Vec::len));
        let (cm, bf) = if with_commitment {
            let (cm, bf) = rec.run(|| format!("commit {what}"), || Commitment::<BBSplus<Sha>>::commit(cmsgs.as_deref())).unwrap().unwrap();
            (Some(cm.to_bytes()), Some(bf))
        } else {
            (None, None)
        };
        let bs = rec
            .run(|| format!("blind_sign {what}"), || BlindSignature::<BBSplus<Sha>>::blind_sign(sk, pk, cm.as_deref(), Some(&c.header), msgs.as_deref()))
            .unwrap();
        let bs = bs.unwrap_or_else(|e| panic!("honest blind_sign refused ({what}): {e:?}"));
        let cmsgs_used = if with_commitment { cmsgs.clone() } else { None };
        let r = rec.run(|| format!("verify_blind_sign {what}"), || bs.verify_blind_sign(pk, Some(&c.header), msgs.as_deref(), cmsgs_used.as_deref(), bf.as_ref()));
        assert!(matches!(r, Some(Ok(()))), "honest blind signature refused ({what}): {r:?}");
        let l = msgs.as_ref().map_or(0, Vec::len);
        let mc = cmsgs_used.as_ref().map_or(0, Vec::len);
        // disclose nothing, everything, the last of each
        let all_i: Vec<usize> = (0..l).collect();
        let all_c: Vec<usize> = (0..mc).collect();
        let last_i: Vec<usize> = all_i.last().copied().into_iter().collect();
        let last_c: Vec<usize> = all_c.last().copied().into_iter().collect();
        for (i1, i2) in [(None, None), (Some(vec![]), Some(vec![])), (Some(all_i.clone()), Some(all_c.clone())), (Some(last_i), Some(last_c))] {
            let p = rec.run(|| format!("blind_proof_gen {what} {i1:?} {i2:?}"), || {
                PoKSignature::<BBSplus<Sha>>::blind_proof_gen(pk, &bs.to_bytes(), Some(&c.header), Some(&c.ph), msgs.as_deref(), cmsgs_used.as_deref(), i1.as_deref(), i2.as_deref(), bf.as_ref())
            });
            let p = p.unwrap().unwrap_or_else(|e| panic!("honest blind_proof_gen refused ({what} {i1:?} {i2:?}): {e:?}"));
            let p = PoKSignature::<BBSplus<Sha>>::from_bytes(&p.to_bytes()).unwrap();
            let dm: Option<Vec<Vec<u8>>> = i1.as_ref().map(|v| v.iter().map(|&k| msgs.as_ref().unwrap()[k].clone()).collect());
            let dcm: Option<Vec<Vec<u8>>> = i2.as_ref().map(|v| v.iter().map(|&k| cmsgs_used.as_ref().unwrap()[k].clone()).collect());
            for lopt in [Some(l), if l == 0 { None } else { Some(l) }] {
                let r = rec.run(|| format!("blind_proof_verify {what} {i1:?} {i2:?}"), || {
                    p.blind_proof_verify(pk, Some(&c.header), Some(&c.ph), lopt, dm.as_deref(), dcm.as_deref(), i1.as_deref(), i2.as_deref())
                });
                assert!(matches!(r, Some(Ok(()))), "honest blind proof refused ({what} {i1:?} {i2:?} L {lopt:?}): {r:?}");
            }
        }
    }
    rec.finish("f19");
}

#[test]
fn f20_adjacent_key_generation_inputs() {
    // not in the quantifier list, same crash-freedom expectation: key material / key_info / key_dst of boundary lengths
    fn body<CS: BbsCiphersuite>(rec: &mut Rec)
    where
        CS::Expander: for<'a> ExpandMsg<'a>,
    {
        for n in (0..=70usize).chain([255, 256, 65535, 65536]) {
            let ikm = vec![1u8; n];
            let r = rec.run(|| format!("generate ikm {n}"), || KeyPair::<BBSplus<CS>>::generate(&ikm, None, None));
            if n < 32 {
                assert!(matches!(r, Some(Err(_))));
            }
        }
        for n in [0usize, 1, 255, 256, 65535, 65536, 70000] {
            let info = vec![2u8; n];
            rec.run(|| format!("generate key_info {n}"), || KeyPair::<BBSplus<CS>>::generate(&[1u8; 32], Some(&info), None));
        }
        for n in [0usize, 1, 254, 255, 256, 257, 1000] {
            let dst = vec![b'd'; n];
            rec.run(|| format!("generate key_dst {n}"), || KeyPair::<BBSplus<CS>>::generate(&[1u8; 32], None, Some(&dst)));
        }
    }
    let mut rec = Rec::new();
    body::<Sha>(&mut rec);
    body::<Shake>(&mut rec);
    rec.finish("f20");
}

// ---------------------------------------------------------------------------------------------
// 6. the two ciphersuites and the two interfaces mixed
// ---------------------------------------------------------------------------------------------

#[test]
fn f16_cross_suite_and_cross_interface() {
    let a = ctx::<Sha>();
    let b = ctx::<Shake>();
    let mut rec = Rec::new();
    // artefacts of one suite decoded and checked under the other
    let p = PoKSignature::<BBSplus<Shake>>::from_bytes(&a.proof.to_bytes()).unwrap();
    let r = rec.run(|| "sha proof under shake".to_owned(), || {
        p.proof_verify(a.kp.public_key(), Some(&[a.msgs[1].clone()]), Some(&[1]), Some(&a.header), Some(&a.ph))
    });
    assert!(matches!(r, Some(Err(_))));
    let s = Signature::<BBSplus<Shake>>::from_bytes(&a.sig.to_bytes()).unwrap();
    let r = rec.run(|| "sha signature under shake".to_owned(), || s.verify(a.kp.public_key(), Some(&a.msgs), Some(&a.header)));
    assert!(matches!(r, Some(Err(_))));
    let r = rec.run(|| "sha commitment signed under shake".to_owned(), || {
        BlindSignature::<BBSplus<Shake>>::blind_sign(b.kp.private_key(), b.kp.public_key(), Some(&a.commit.to_bytes()), None, Some(&b.msgs))
    });
    assert!(matches!(r, Some(Err(_))));
    // plain artefacts through the blind interface and back
    let r = rec.run(|| "plain signature, blind proof gen".to_owned(), || {
        PoKSignature::<BBSplus<Sha>>::blind_proof_gen(a.kp.public_key(), &a.sig.to_bytes(), Some(&a.header), Some(&a.ph), Some(&a.msgs), None, Some(&[1]), None, None)
    });
    if let Some(Ok(p)) = r {
        let v = rec.run(|| "verify it".to_owned(), || {
            p.blind_proof_verify(a.kp.public_key(), Some(&a.header), Some(&a.ph), Some(3), Some(&[a.msgs[1].clone()]), None, Some(&[1]), None)
        });
        assert!(matches!(v, Some(Err(_))), "a plain signature gave a valid blind proof");
    }
    let r = rec.run(|| "blind signature, plain proof gen".to_owned(), || {
        PoKSignature::<BBSplus<Sha>>::proof_gen(a.kp.public_key(), &a.bsig.to_bytes(), Some(&a.header), Some(&a.ph), Some(&a.msgs), Some(&[1]))
    });
    if let Some(Ok(p)) = r {
        let v = rec.run(|| "verify it".to_owned(), || {
            p.proof_verify(a.kp.public_key(), Some(&[a.msgs[1].clone()]), Some(&[1]), Some(&a.header), Some(&a.ph))
        });
        assert!(matches!(v, Some(Err(_))));
    }
    rec.run(|| "blind proof under plain verify".to_owned(), || {
        a.bproof.proof_verify(a.kp.public_key(), Some(&[a.msgs[0].clone()]), Some(&[0]), Some(&a.header), Some(&a.ph))
    });
    rec.run(|| "plain proof under blind verify".to_owned(), || {
        a.proof.blind_proof_verify(a.kp.public_key(), Some(&a.header), Some(&a.ph), Some(3), Some(&[a.msgs[1].clone()]), None, Some(&[1]), None)
    });
    // a commitment proof used as a proof of knowledge of a signature and the reverse
    rec.run(|| "commitment bytes as proof".to_owned(), || PoKSignature::<BBSplus<Sha>>::from_bytes(&a.commit.to_bytes()).is_ok());
    rec.run(|| "proof bytes as commitment".to_owned(), || {
        BlindSignature::<BBSplus<Sha>>::blind_sign(a.kp.private_key(), a.kp.public_key(), Some(&a.proof.to_bytes()), None, None)
    });
    rec.finish("f16");
}

// ---------------------------------------------------------------------------------------------
// 7. size-proportional budget
// ---------------------------------------------------------------------------------------------

#[test]
fn f17_budget_is_proportional_for_the_largest_in_range_inputs() {
    let c = ctx::<Sha>();
    let mut rec = Rec::new();
    // the largest proof of the quantified range: 1008 bytes = 240 + 24 * 32 -> U = 23
    let mut b = c.proof.to_bytes();
    let tail = b[b.len() - 32..].to_vec();
    while b.len() + 32 <= 1024 {
        b.extend_from_slice(&tail);
    }
    assert_eq!(b.len(), 1008);
    let p = PoKSignature::<BBSplus<Sha>>::from_bytes(&b).unwrap();
    let t = Instant::now();
    rec.run(|| "proof_verify 1008 bytes".to_owned(), || p.proof_verify(c.kp.public_key(), None, None, None, None));
    let small = t.elapsed();
    // the same proof with an index list of 1000 entries: the work may grow with the list, not faster
    let idx: Vec<usize> = (0..1000).collect();
    let t = Instant::now();
    rec.run(|| "proof_verify 1000 indexes".to_owned(), || p.proof_verify(c.kp.public_key(), None, Some(&idx), None, None));
    let large = t.elapsed();
    eprintln!("f17: U=23 R=0 {small:?}; U=23 R=1000 {large:?}");
    // 1024 generators against 24: two orders of magnitude of input, allow three of time
    assert!(large < small * 1000 + Duration::from_secs(1));
    // L far beyond the proof: refused at once
    for l in [24usize, 25, 1 << 20, 1 << 40, usize::MAX] {
        let t = Instant::now();
        let r = rec.run(|| format!("blind_proof_verify L {l}"), || p.blind_proof_verify(c.kp.public_key(), None, None, Some(l), None, None, None, None));
        assert!(matches!(r, Some(Err(_))));
        assert!(t.elapsed() < Duration::from_secs(2), "L = {l} took {:?}", t.elapsed());
    }
    // committed index close to usize::MAX with every L that is in range
    for l in 0..=23usize {
        let t = Instant::now();
        let r = rec.run(|| format!("blind_proof_verify L {l} cidx MAX"), || {
            p.blind_proof_verify(c.kp.public_key(), None, None, Some(l), None, Some(&[vec![1u8]]), None, Some(&[usize::MAX - l]))
        });
        assert!(matches!(r, Some(Err(_))));
        assert!(t.elapsed() < Duration::from_secs(5));
    }
    rec.finish("f17");
}

// ---------------------------------------------------------------------------------------------
// 8. wider reading of the title: what a signer / holder / verifier has to call on a decoded value
// ---------------------------------------------------------------------------------------------

#[test]
fn title_reading_accessors_on_serde_decoded_values_do_not_panic() {
    // `{"_Unreachable":null}` is accepted by the serde decoders of all five generic artefact types.
    // The signer needs `Commitment::to_bytes()` to call `blind_sign` (which only takes bytes), the holder
    // needs `Signature::to_bytes()` / `BlindSignature::to_bytes()` to call `proof_gen` / `blind_proof_gen`
    // (which only take bytes), a relying party needs `PoKSignature::to_bytes()` to forward a proof.
    let mut rec = Rec::new();
    let t = "{\"_Unreachable\":null}";
    // the signer of examples/bbsplus_blind.rs, with the commitment received as JSON
    let c = ctx::<Sha>();
    rec.run(|| "signer flow: blind_sign(.., Some(&commitment.to_bytes()), ..) with a commitment decoded from JSON".to_owned(), || {
        let cm: Commitment<BBSplus<Sha>> = match serde_json::from_str(t) {
            Ok(cm) => cm,
            Err(_) => return false,
        };
        BlindSignature::<BBSplus<Sha>>::blind_sign(c.kp.private_key(), c.kp.public_key(), Some(&cm.to_bytes()), None, Some(&c.msgs)).is_ok()
    });
    // the holder of examples/bbsplus.rs, with the signature received as JSON
    rec.run(|| "holder flow: proof_gen(pk, &signature.to_bytes(), ..) with a signature decoded from JSON".to_owned(), || {
        let s: Signature<BBSplus<Sha>> = match serde_json::from_str(t) {
            Ok(s) => s,
            Err(_) => return false,
        };
        PoKSignature::<BBSplus<Sha>>::proof_gen(c.kp.public_key(), &s.to_bytes(), None, None, Some(&c.msgs), None).is_ok()
    });
    if let Ok(cm) = serde_json::from_str::<Commitment<BBSplus<Sha>>>(t) {
        rec.run(|| "Commitment::to_bytes on a decoded value".to_owned(), || cm.to_bytes());
    }
    if let Ok(s) = serde_json::from_str::<Signature<BBSplus<Sha>>>(t) {
        rec.run(|| "Signature::to_bytes on a decoded value".to_owned(), || s.to_bytes());
        rec.run(|| "Signature::a on a decoded value".to_owned(), || s.a());
        rec.run(|| "Signature::e on a decoded value".to_owned(), || s.e());
        rec.run(|| "Signature::bbsPlusSignature on a decoded value".to_owned(), || s.bbsPlusSignature().clone());
    }
    if let Ok(s) = serde_json::from_str::<BlindSignature<BBSplus<Sha>>>(t) {
        rec.run(|| "BlindSignature::to_bytes on a decoded value".to_owned(), || s.to_bytes());
        rec.run(|| "BlindSignature::A on a decoded value".to_owned(), || s.A());
        rec.run(|| "BlindSignature::e on a decoded value".to_owned(), || s.e());
    }
    if let Ok(p) = serde_json::from_str::<PoKSignature<BBSplus<Sha>>>(t) {
        rec.run(|| "PoKSignature::to_bytes on a decoded value".to_owned(), || p.to_bytes());
        rec.run(|| "PoKSignature::to_bbsplus_proof on a decoded value".to_owned(), || p.to_bbsplus_proof().clone());
    }
    rec.finish("title_reading_accessors");
}

#[test]
fn title_reading_listed_entry_points_on_unreachable_variant_return_errors() {
    // the listed entry points themselves (this is what the statement covers): Err, no panic
    let c = ctx::<Sha>();
    let mut rec = Rec::new();
    let t = "{\"_Unreachable\":null}";
    let s: Signature<BBSplus<Sha>> = serde_json::from_str(t).unwrap();
    let r = rec.run(|| "verify".to_owned(), || s.verify(c.kp.public_key(), Some(&c.msgs), None));
    assert!(matches!(r, Some(Err(_))));
    let r = rec.run(|| "update_signature".to_owned(), || s.update_signature(c.kp.private_key(), b"a", b"b", 0, 1));
    assert!(matches!(r, Some(Err(_))));
    let s: BlindSignature<BBSplus<Sha>> = serde_json::from_str(t).unwrap();
    let r = rec.run(|| "verify_blind_sign".to_owned(), || s.verify_blind_sign(c.kp.public_key(), None, Some(&c.msgs), Some(&c.cmsgs), Some(&c.blind)));
    assert!(matches!(r, Some(Err(_))));
    let p: PoKSignature<BBSplus<Sha>> = serde_json::from_str(t).unwrap();
    let r = rec.run(|| "proof_verify".to_owned(), || p.proof_verify(c.kp.public_key(), None, None, None, None));
    assert!(matches!(r, Some(Err(_))));
    let r = rec.run(|| "blind_proof_verify".to_owned(), || p.blind_proof_verify(c.kp.public_key(), None, None, None, None, None, None, None));
    assert!(matches!(r, Some(Err(_))));
    let _ = Scalar::ZERO;
    rec.finish("title_reading_entry_points");
}
