// Red-team candidates for PROPERTY C07 (fresh blinding: proofs and commitments never reuse or expose randomness).
//
// Every test asserts what the property REQUIRES: a failing test is a demonstrated violation on the unmodified tree,
// a passing test documents a family for which the property held.
//
// Integration tests link the library WITHOUT cfg(test): the production randomness path (thread_rng) is what runs here.
//
// The CL03 half (module `cl03`) needs `--features cl03`. In the sealed sandbox gmp-mpfr-sys cannot build GMP from source (no m4),
// so `cargo test --offline --features cl03` fails in the build script; the CL03 half was run through the harness crate in
// `_harness/` (depends on this worktree by path with feature cl03, links the system GMP via gmp-mpfr-sys/use-system-libs;
// its tests/falsify.rs is a symlink to this file):
//     cd _harness && . ./env.sh && cargo test --offline --test falsify
// `cargo test --offline --test falsify` in the worktree itself runs the BBS half (module `bbs`) only.

#![allow(non_snake_case)]

mod bbs {
    use bls12_381_plus::Scalar;
    use elliptic_curve::hash2curve::ExpandMsg;
    use std::collections::HashSet;
    use zkryptium::{
        bbsplus::{
            ciphersuites::BbsCiphersuite,
            commitment::BlindFactor,
            generators::Generators,
            keys::{BBSplusPublicKey, BBSplusSecretKey},
        },
        keys::pair::KeyPair,
        schemes::{
            algorithms::{BBSplus, BbsBls12381Sha256, BbsBls12381Shake256, Scheme},
            generics::{BlindSignature, Commitment, PoKSignature, Signature},
        },
        utils::{
            message::bbsplus_message::BBSplusMessage,
            util::bbsplus_utils::{calculate_random_scalars, generate_random_secret},
        },
    };

    type Sha = <BbsBls12381Sha256 as Scheme>::Ciphersuite;
    type Shake = <BbsBls12381Shake256 as Scheme>::Ciphersuite;

    const HEADER: &[u8] = b"c07-header";
    const PH: &[u8] = b"c07-presentation-header";

    fn keys<CS: BbsCiphersuite>() -> (BBSplusSecretKey, BBSplusPublicKey)
    where
        CS::Expander: for<'a> ExpandMsg<'a>,
    {
        KeyPair::<BBSplus<CS>>::generate(&[0x5au8; 32], Some(b"c07"), None)
            .unwrap()
            .into_parts()
    }

    fn msgs(n: usize) -> Vec<Vec<u8>> {
        (0..n).map(|i| format!("message number {i}").into_bytes()).collect()
    }

    fn sc(b: &[u8]) -> Scalar {
        let a: [u8; 32] = b.try_into().unwrap();
        Option::<Scalar>::from(Scalar::from_be_bytes(&a)).expect("canonical scalar")
    }

    struct Parsed {
        points: Vec<Vec<u8>>, // Abar, Bbar, D
        e_cap: Scalar,
        r1_cap: Scalar,
        r3_cap: Scalar,
        m_cap: Vec<Scalar>,
        c: Scalar,
    }

    fn parse_proof(bytes: &[u8]) -> Parsed {
        assert!(bytes.len() >= 272 && (bytes.len() - 240) % 32 == 0);
        let points = vec![bytes[0..48].to_vec(), bytes[48..96].to_vec(), bytes[96..144].to_vec()];
        let mut rest: Vec<Scalar> = bytes[144..].chunks_exact(32).map(sc).collect();
        let c = rest.pop().unwrap();
        Parsed {
            points,
            e_cap: rest[0],
            r1_cap: rest[1],
            r3_cap: rest[2],
            m_cap: rest[3..].to_vec(),
            c,
        }
    }

    fn all_distinct<T: std::hash::Hash + Eq + Clone + std::fmt::Debug>(what: &str, items: &[T]) {
        let set: HashSet<T> = items.iter().cloned().collect();
        assert_eq!(set.len(), items.len(), "{what}: a value repeats among {items:?}");
    }

    fn sb(s: &Scalar) -> [u8; 32] {
        s.to_be_bytes()
    }

    /// no window of `hay` equals `needle` (in the byte order given or reversed)
    fn no_window(what: &str, hay: &[u8], needle: &[u8]) {
        let rev: Vec<u8> = needle.iter().rev().cloned().collect();
        assert!(
            !hay.windows(needle.len()).any(|w| w == needle || w == &rev[..]),
            "{what} appears inside the encoding"
        );
    }

    /// All the bytes a serde_json encoding carries: the text itself, every hex string decoded, and every array of small numbers.
    fn json_payloads<T: serde::Serialize>(v: &T) -> Vec<Vec<u8>> {
        fn walk(v: &serde_json::Value, out: &mut Vec<Vec<u8>>) {
            match v {
                serde_json::Value::String(s) => {
                    if let Ok(b) = hex::decode(s) {
                        out.push(b);
                    }
                }
                serde_json::Value::Array(a) => {
                    if !a.is_empty() && a.iter().all(|x| x.as_u64().map_or(false, |n| n < 256)) {
                        out.push(a.iter().map(|x| x.as_u64().unwrap() as u8).collect());
                    }
                    a.iter().for_each(|x| walk(x, out));
                }
                serde_json::Value::Object(o) => o.values().for_each(|x| walk(x, out)),
                _ => {}
            }
        }
        let value = serde_json::to_value(v).unwrap();
        let mut out = Vec::new();
        walk(&value, &mut out);
        out
    }

    // ---------------------------------------------------------------------------------------------------------------
    // Family 1: proof_gen, n generations from identical inputs, both ciphersuites
    // ---------------------------------------------------------------------------------------------------------------
    fn proofgen_fresh<CS: BbsCiphersuite>()
    where
        CS::Expander: for<'a> ExpandMsg<'a>,
    {
        let (sk, pk) = keys::<CS>();
        let messages = msgs(5);
        let disclosed = [1usize, 3];
        let hidden = [0usize, 2, 4];
        let sig = Signature::<BBSplus<CS>>::sign(Some(&messages), &sk, &pk, Some(HEADER)).unwrap();
        let e = sig.e();
        let m: Vec<Scalar> = BBSplusMessage::messages_to_scalar::<CS>(&messages, CS::API_ID)
            .unwrap()
            .iter()
            .map(|x| x.value)
            .collect();
        let disclosed_msgs: Vec<Vec<u8>> = disclosed.iter().map(|&i| messages[i].clone()).collect();

        let mut points = Vec::new();
        let mut responses = Vec::new();
        let mut tildes = Vec::new();
        let mut parsed = Vec::new();
        for _ in 0..6 {
            let proof = PoKSignature::<BBSplus<CS>>::proof_gen(
                &pk,
                &sig.to_bytes(),
                Some(HEADER),
                Some(PH),
                Some(&messages),
                Some(&disclosed),
            )
            .unwrap();
            proof
                .proof_verify(&pk, Some(&disclosed_msgs), Some(&disclosed), Some(HEADER), Some(PH))
                .expect("an honest proof verifies");
            let bytes = proof.to_bytes();
            let p = parse_proof(&bytes);
            assert_eq!(p.m_cap.len(), hidden.len());

            // the blinding scalars a witness holder recomputes
            let e_t = p.e_cap - e * p.c;
            assert_ne!(e_t, Scalar::ZERO);
            tildes.push(sb(&e_t));
            for (j, &i) in hidden.iter().enumerate() {
                let m_t = p.m_cap[j] - m[i] * p.c;
                assert_ne!(m_t, Scalar::ZERO);
                tildes.push(sb(&m_t));
            }

            points.extend(p.points.iter().cloned());
            responses.push(sb(&p.e_cap));
            responses.push(sb(&p.r1_cap));
            responses.push(sb(&p.r3_cap));
            responses.extend(p.m_cap.iter().map(sb));
            responses.push(sb(&p.c));

            // encodings: octets and serde JSON
            let a_bytes = sig.to_bytes()[0..48].to_vec();
            let mut encodings = vec![bytes.clone()];
            encodings.extend(json_payloads(&proof));
            for enc in &encodings {
                no_window("the signature point A", enc, &a_bytes);
                no_window("the signature exponent e", enc, &sb(&e));
                no_window("the secret key", enc, &sk.to_bytes());
                for &i in &hidden {
                    no_window("an undisclosed message scalar", enc, &sb(&m[i]));
                }
            }
            parsed.push(p);
        }
        points.push(sig.to_bytes()[0..48].to_vec());
        all_distinct("Abar/Bbar/D (and A)", &points);
        all_distinct("response scalars and challenges", &responses);
        all_distinct("recomputed blinding scalars e~, m~_j", &tildes);

        // the standard two-transcript extraction yields neither a hidden message nor e
        for a in 0..parsed.len() {
            for b in 0..a {
                let dc = parsed[a].c - parsed[b].c;
                let inv = Option::<Scalar>::from(dc.invert()).expect("distinct challenges");
                assert_ne!((parsed[a].e_cap - parsed[b].e_cap) * inv, e);
                for (j, &i) in hidden.iter().enumerate() {
                    assert_ne!((parsed[a].m_cap[j] - parsed[b].m_cap[j]) * inv, m[i]);
                }
            }
        }
    }

    #[test]
    fn f01_proof_gen_is_fresh_sha256() {
        proofgen_fresh::<Sha>();
    }

    #[test]
    fn f01_proof_gen_is_fresh_shake256() {
        proofgen_fresh::<Shake>();
    }

    // ---------------------------------------------------------------------------------------------------------------
    // Family 2: equal messages at several hidden positions: one blinding scalar per position, not per value
    // ---------------------------------------------------------------------------------------------------------------
    #[test]
    fn f02_equal_hidden_messages_get_distinct_blinding() {
        let (sk, pk) = keys::<Sha>();
        let messages: Vec<Vec<u8>> = vec![b"same".to_vec(); 6];
        let sig = Signature::<BBSplus<Sha>>::sign(Some(&messages), &sk, &pk, None).unwrap();
        let m = BBSplusMessage::map_message_to_scalar_as_hash::<Sha>(b"same", Sha::API_ID).unwrap().value;
        let mut tildes = Vec::new();
        let mut caps = Vec::new();
        for _ in 0..3 {
            let proof =
                PoKSignature::<BBSplus<Sha>>::proof_gen(&pk, &sig.to_bytes(), None, None, Some(&messages), None).unwrap();
            proof.proof_verify(&pk, None, None, None, None).unwrap();
            let p = parse_proof(&proof.to_bytes());
            assert_eq!(p.m_cap.len(), 6);
            for mc in &p.m_cap {
                let t = *mc - m * p.c;
                assert_ne!(t, Scalar::ZERO);
                tildes.push(sb(&t));
                caps.push(sb(mc));
            }
        }
        all_distinct("m~_j for equal messages", &tildes);
        all_distinct("m^_j for equal messages", &caps);
    }

    // ---------------------------------------------------------------------------------------------------------------
    // Family 3: edge shapes: no message at all, one message, everything disclosed, None vs Some(&[])
    // ---------------------------------------------------------------------------------------------------------------
    #[test]
    fn f03_edge_shapes_stay_fresh() {
        let (sk, pk) = keys::<Shake>();
        let mut points = Vec::new();
        let mut scalars = Vec::new();

        // L = 0, messages None / Some(&[])
        let sig0 = Signature::<BBSplus<Shake>>::sign(None, &sk, &pk, Some(HEADER)).unwrap();
        for k in 0..4 {
            let empty: Vec<Vec<u8>> = vec![];
            let (mm, dd): (Option<&[Vec<u8>]>, Option<&[usize]>) =
                if k % 2 == 0 { (None, None) } else { (Some(&empty), Some(&[])) };
            let proof =
                PoKSignature::<BBSplus<Shake>>::proof_gen(&pk, &sig0.to_bytes(), Some(HEADER), None, mm, dd).unwrap();
            proof.proof_verify(&pk, None, None, Some(HEADER), None).unwrap();
            let bytes = proof.to_bytes();
            assert_eq!(bytes.len(), 272);
            let p = parse_proof(&bytes);
            let e_t = p.e_cap - sig0.e() * p.c;
            assert_ne!(e_t, Scalar::ZERO);
            scalars.push(sb(&e_t));
            scalars.extend([sb(&p.e_cap), sb(&p.r1_cap), sb(&p.r3_cap), sb(&p.c)]);
            points.extend(p.points);
            no_window("A", &bytes, &sig0.to_bytes()[0..48]);
            no_window("e", &bytes, &sb(&sig0.e()));
        }

        // L = 3, everything disclosed (U = 0)
        let messages = msgs(3);
        let sig3 = Signature::<BBSplus<Shake>>::sign(Some(&messages), &sk, &pk, None).unwrap();
        for _ in 0..3 {
            let proof = PoKSignature::<BBSplus<Shake>>::proof_gen(
                &pk,
                &sig3.to_bytes(),
                None,
                Some(PH),
                Some(&messages),
                Some(&[0, 1, 2]),
            )
            .unwrap();
            proof.proof_verify(&pk, Some(&messages), Some(&[0, 1, 2]), None, Some(PH)).unwrap();
            let bytes = proof.to_bytes();
            let p = parse_proof(&bytes);
            assert!(p.m_cap.is_empty());
            let e_t = p.e_cap - sig3.e() * p.c;
            assert_ne!(e_t, Scalar::ZERO);
            scalars.push(sb(&e_t));
            scalars.extend([sb(&p.e_cap), sb(&p.r1_cap), sb(&p.r3_cap), sb(&p.c)]);
            points.extend(p.points);
            no_window("A", &bytes, &sig3.to_bytes()[0..48]);
            no_window("e", &bytes, &sb(&sig3.e()));
        }

        // L = 1, hidden
        let one = msgs(1);
        let sig1 = Signature::<BBSplus<Shake>>::sign(Some(&one), &sk, &pk, None).unwrap();
        let m0 = BBSplusMessage::map_message_to_scalar_as_hash::<Shake>(&one[0], Shake::API_ID).unwrap().value;
        for _ in 0..3 {
            let proof =
                PoKSignature::<BBSplus<Shake>>::proof_gen(&pk, &sig1.to_bytes(), None, None, Some(&one), Some(&[])).unwrap();
            proof.proof_verify(&pk, None, None, None, None).unwrap();
            let bytes = proof.to_bytes();
            let p = parse_proof(&bytes);
            let m_t = p.m_cap[0] - m0 * p.c;
            assert_ne!(m_t, Scalar::ZERO);
            scalars.push(sb(&m_t));
            scalars.push(sb(&(p.e_cap - sig1.e() * p.c)));
            scalars.extend([sb(&p.e_cap), sb(&p.r1_cap), sb(&p.r3_cap), sb(&p.m_cap[0]), sb(&p.c)]);
            points.extend(p.points);
            no_window("m_0", &bytes, &sb(&m0));
        }
        all_distinct("points over the edge shapes", &points);
        all_distinct("scalars over the edge shapes", &scalars);
    }

    // ---------------------------------------------------------------------------------------------------------------
    // Family 4: disclosed index lists given unsorted / with repeats to the prover (it sorts and dedups them)
    // ---------------------------------------------------------------------------------------------------------------
    #[test]
    fn f04_unsorted_and_repeated_disclosed_indexes() {
        let (sk, pk) = keys::<Sha>();
        let messages = msgs(4);
        let sig = Signature::<BBSplus<Sha>>::sign(Some(&messages), &sk, &pk, None).unwrap();
        let m: Vec<Scalar> = BBSplusMessage::messages_to_scalar::<Sha>(&messages, Sha::API_ID)
            .unwrap()
            .iter()
            .map(|x| x.value)
            .collect();
        let mut tildes = Vec::new();
        let mut points = Vec::new();
        for given in [&[3usize, 1, 3][..], &[1, 3], &[3, 1], &[1, 1, 3, 3]] {
            let proof =
                PoKSignature::<BBSplus<Sha>>::proof_gen(&pk, &sig.to_bytes(), None, None, Some(&messages), Some(given))
                    .unwrap();
            let dm = vec![messages[1].clone(), messages[3].clone()];
            proof.proof_verify(&pk, Some(&dm), Some(&[1, 3]), None, None).unwrap();
            let bytes = proof.to_bytes();
            let p = parse_proof(&bytes);
            assert_eq!(p.m_cap.len(), 2, "exactly the two hidden messages get a response");
            for (j, &i) in [0usize, 2].iter().enumerate() {
                let t = p.m_cap[j] - m[i] * p.c;
                assert_ne!(t, Scalar::ZERO);
                tildes.push(sb(&t));
                no_window("hidden message", &bytes, &sb(&m[i]));
            }
            points.extend(p.points);
        }
        all_distinct("m~", &tildes);
        all_distinct("points", &points);
    }

    // ---------------------------------------------------------------------------------------------------------------
    // Family 5: commit(): commitment, secret_prover_blind, s~ and m~ fresh; encodings do not carry blind or messages
    // ---------------------------------------------------------------------------------------------------------------
    fn commit_fresh<CS: BbsCiphersuite>(committed: Option<&[Vec<u8>]>)
    where
        CS::Expander: for<'a> ExpandMsg<'a>,
    {
        let list: &[Vec<u8>] = committed.unwrap_or(&[]);
        let m: Vec<Scalar> = BBSplusMessage::messages_to_scalar::<CS>(list, CS::API_ID_BLIND)
            .unwrap()
            .iter()
            .map(|x| x.value)
            .collect();
        let blind_generators =
            Generators::create::<CS>(list.len() + 1, Some(&[b"BLIND_", CS::API_ID_BLIND].concat()));
        let mut commitments = Vec::new();
        let mut blinds = Vec::new();
        let mut responses = Vec::new();
        let mut tildes = Vec::new();
        let mut runs = Vec::new();
        for _ in 0..6 {
            let (c, blind) = Commitment::<BBSplus<CS>>::commit(committed).unwrap();
            let bytes = c.to_bytes();
            assert_eq!(bytes.len(), 48 + 32 * (list.len() + 2));
            Commitment::<BBSplus<CS>>::deserialize_and_validate_commit(
                Some(&bytes),
                &blind_generators,
                Some(CS::API_ID_BLIND),
            )
            .expect("an honest commitment validates");
            let blind_s = sc(&blind.to_bytes());
            assert_ne!(blind_s, Scalar::ZERO);
            let scalars: Vec<Scalar> = bytes[48..].chunks_exact(32).map(sc).collect();
            let s_cap = scalars[0];
            let m_cap = scalars[1..scalars.len() - 1].to_vec();
            let ch = *scalars.last().unwrap();
            let s_t = s_cap - blind_s * ch;
            assert_ne!(s_t, Scalar::ZERO);
            tildes.push(sb(&s_t));
            for j in 0..m.len() {
                let t = m_cap[j] - m[j] * ch;
                assert_ne!(t, Scalar::ZERO);
                tildes.push(sb(&t));
            }
            commitments.push(bytes[0..48].to_vec());
            blinds.push(blind.to_bytes());
            responses.extend(scalars.iter().map(sb));

            let mut encodings = vec![bytes.clone()];
            encodings.extend(json_payloads(&c));
            for enc in &encodings {
                no_window("secret_prover_blind", enc, &blind.to_bytes());
                for x in &m {
                    no_window("a committed message scalar", enc, &sb(x));
                }
            }
            runs.push((s_cap, m_cap, ch, blind_s));
        }
        all_distinct("commitment", &commitments);
        all_distinct("secret_prover_blind", &blinds);
        all_distinct("s^, m^, challenge", &responses);
        all_distinct("s~, m~", &tildes);
        // blinding scalars are not the blind factors either
        let t: HashSet<[u8; 32]> = tildes.iter().cloned().collect();
        assert!(blinds.iter().all(|b| !t.contains(b)));

        for a in 0..runs.len() {
            for b in 0..a {
                let inv = Option::<Scalar>::from((runs[a].2 - runs[b].2).invert()).unwrap();
                // the blind factor differs per run, so extraction across runs must give neither of them
                let x = (runs[a].0 - runs[b].0) * inv;
                assert!(x != runs[a].3 && x != runs[b].3);
                for j in 0..m.len() {
                    assert_ne!((runs[a].1[j] - runs[b].1[j]) * inv, m[j]);
                }
            }
        }
    }

    #[test]
    fn f05_commit_is_fresh_sha256() {
        commit_fresh::<Sha>(Some(&msgs(3)));
    }

    #[test]
    fn f05_commit_is_fresh_shake256() {
        commit_fresh::<Shake>(Some(&msgs(2)));
    }

    #[test]
    fn f05_commit_is_fresh_without_messages() {
        commit_fresh::<Sha>(None);
        commit_fresh::<Shake>(Some(&[]));
    }

    #[test]
    fn f05_commit_equal_messages() {
        commit_fresh::<Sha>(Some(&vec![b"same".to_vec(); 4]));
    }

    // ---------------------------------------------------------------------------------------------------------------
    // Family 6: blind interface: blind_proof_gen with a commitment (blind factor hidden in the proof) and without
    // ---------------------------------------------------------------------------------------------------------------
    fn blind_proof_fresh<CS: BbsCiphersuite>(with_commitment: bool, pass_blind: bool)
    where
        CS::Expander: for<'a> ExpandMsg<'a>,
    {
        let (sk, pk) = keys::<CS>();
        let messages = msgs(3);
        let committed: Vec<Vec<u8>> =
            if with_commitment { (0..3).map(|i| format!("committed {i}").into_bytes()).collect() } else { vec![] };
        let (commitment, blind) = if with_commitment {
            let (c, b) = Commitment::<BBSplus<CS>>::commit(Some(&committed)).unwrap();
            (Some(c.to_bytes()), b)
        } else {
            (None, BlindFactor::from_bytes(&[0u8; 32]).unwrap())
        };
        let sig = BlindSignature::<BBSplus<CS>>::blind_sign(
            &sk,
            &pk,
            commitment.as_deref(),
            Some(HEADER),
            Some(&messages),
        )
        .unwrap();
        let blind_arg = if pass_blind { Some(&blind) } else { None };
        sig.verify_blind_sign(&pk, Some(HEADER), Some(&messages), Some(&committed), blind_arg)
            .expect("honest blind signature verifies");

        let L = messages.len();
        let disclosed = [0usize];
        let disclosed_c: Vec<usize> = if with_commitment { vec![1] } else { vec![] };

        // the signed vector: signer messages, the blind factor, the committed messages
        let mut vector: Vec<Scalar> = BBSplusMessage::messages_to_scalar::<CS>(&messages, CS::API_ID_BLIND)
            .unwrap()
            .iter()
            .map(|x| x.value)
            .collect();
        vector.push(sc(&blind.to_bytes()));
        vector.extend(
            BBSplusMessage::messages_to_scalar::<CS>(&committed, CS::API_ID_BLIND).unwrap().iter().map(|x| x.value),
        );
        let shown: Vec<usize> = disclosed.iter().cloned().chain(disclosed_c.iter().map(|j| j + L + 1)).collect();
        let hidden: Vec<usize> = (0..vector.len()).filter(|i| !shown.contains(i)).collect();

        let mut points = Vec::new();
        let mut responses = Vec::new();
        let mut tildes = Vec::new();
        let mut parsed = Vec::new();
        for _ in 0..5 {
            let proof = PoKSignature::<BBSplus<CS>>::blind_proof_gen(
                &pk,
                &sig.to_bytes(),
                Some(HEADER),
                Some(PH),
                Some(&messages),
                Some(&committed),
                Some(&disclosed),
                Some(&disclosed_c),
                blind_arg,
            )
            .unwrap();
            let dm: Vec<Vec<u8>> = disclosed.iter().map(|&i| messages[i].clone()).collect();
            let dcm: Vec<Vec<u8>> = disclosed_c.iter().map(|&i| committed[i].clone()).collect();
            proof
                .blind_proof_verify(
                    &pk,
                    Some(HEADER),
                    Some(PH),
                    Some(L),
                    Some(&dm),
                    Some(&dcm),
                    Some(&disclosed),
                    Some(&disclosed_c),
                )
                .expect("honest blind proof verifies");
            let bytes = proof.to_bytes();
            let p = parse_proof(&bytes);
            assert_eq!(p.m_cap.len(), hidden.len());
            let e_t = p.e_cap - sig.e() * p.c;
            assert_ne!(e_t, Scalar::ZERO);
            tildes.push(sb(&e_t));
            for (j, &i) in hidden.iter().enumerate() {
                let t = p.m_cap[j] - vector[i] * p.c;
                assert_ne!(t, Scalar::ZERO, "blinding scalar of position {i}");
                tildes.push(sb(&t));
            }
            let mut encodings = vec![bytes.clone()];
            encodings.extend(json_payloads(&proof));
            for enc in &encodings {
                no_window("A", enc, &sig.to_bytes()[0..48]);
                no_window("e", enc, &sb(&sig.e()));
                for &i in &hidden {
                    if vector[i] != Scalar::ZERO {
                        no_window("a hidden scalar (message or blind factor)", enc, &sb(&vector[i]));
                    }
                }
                if let Some(c) = &commitment {
                    no_window("the commitment point", enc, &c[0..48]);
                }
            }
            points.extend(p.points.iter().cloned());
            responses.extend([sb(&p.e_cap), sb(&p.r1_cap), sb(&p.r3_cap), sb(&p.c)]);
            responses.extend(p.m_cap.iter().map(sb));
            parsed.push(p);
        }
        all_distinct("Abar/Bbar/D", &points);
        all_distinct("responses", &responses);
        all_distinct("blinding scalars", &tildes);
        for a in 0..parsed.len() {
            for b in 0..a {
                let inv = Option::<Scalar>::from((parsed[a].c - parsed[b].c).invert()).unwrap();
                assert_ne!((parsed[a].e_cap - parsed[b].e_cap) * inv, sig.e());
                for (j, &i) in hidden.iter().enumerate() {
                    // (position L holds the blind factor)
                    let x = (parsed[a].m_cap[j] - parsed[b].m_cap[j]) * inv;
                    if vector[i] != Scalar::ZERO {
                        assert_ne!(x, vector[i], "two-transcript extraction of position {i}");
                    }
                }
            }
        }
    }

    #[test]
    fn f06_blind_proof_gen_with_commitment_sha256() {
        blind_proof_fresh::<Sha>(true, true);
    }

    #[test]
    fn f06_blind_proof_gen_with_commitment_shake256() {
        blind_proof_fresh::<Shake>(true, true);
    }

    #[test]
    fn f06_blind_proof_gen_without_commitment_blind_none() {
        blind_proof_fresh::<Sha>(false, false);
    }

    #[test]
    fn f06_blind_proof_gen_without_commitment_blind_zero() {
        blind_proof_fresh::<Shake>(false, true);
    }

    // ---------------------------------------------------------------------------------------------------------------
    // Family 7: a commitment's own blinding must not come back in the blind proof made later with the same blind factor
    // (re-using parts of one artefact in another): s~ of commit vs m~ of the blind-factor slot, secret_prover_blind vs responses
    // ---------------------------------------------------------------------------------------------------------------
    #[test]
    fn f07_commit_blinding_is_not_reused_by_blind_proof() {
        let (sk, pk) = keys::<Sha>();
        let committed = msgs(2);
        let (c, blind) = Commitment::<BBSplus<Sha>>::commit(Some(&committed)).unwrap();
        let cb = c.to_bytes();
        let cs: Vec<Scalar> = cb[48..].chunks_exact(32).map(sc).collect();
        let blind_s = sc(&blind.to_bytes());
        let s_t = cs[0] - blind_s * *cs.last().unwrap();
        let sig = BlindSignature::<BBSplus<Sha>>::blind_sign(&sk, &pk, Some(&cb), None, None).unwrap();
        let mut seen: Vec<[u8; 32]> = cs.iter().map(sb).collect();
        seen.push(sb(&s_t));
        seen.push(sb(&blind_s));
        for _ in 0..3 {
            let proof = PoKSignature::<BBSplus<Sha>>::blind_proof_gen(
                &pk,
                &sig.to_bytes(),
                None,
                None,
                None,
                Some(&committed),
                None,
                None,
                Some(&blind),
            )
            .unwrap();
            proof.blind_proof_verify(&pk, None, None, Some(0), None, None, None, None).unwrap();
            let p = parse_proof(&proof.to_bytes());
            assert_eq!(p.m_cap.len(), 3);
            // slot 0 is the blind factor
            seen.push(sb(&(p.m_cap[0] - blind_s * p.c)));
            seen.extend(p.m_cap.iter().map(sb));
            seen.extend([sb(&p.e_cap), sb(&p.r1_cap), sb(&p.r3_cap), sb(&p.c)]);
        }
        all_distinct("scalars of the commitment and of the later proofs", &seen);
    }

    // ---------------------------------------------------------------------------------------------------------------
    // Family 8: random key pairs, blind factors, random secrets, random scalars
    // ---------------------------------------------------------------------------------------------------------------
    #[test]
    fn f08_random_keys_blind_factors_and_scalars() {
        let mut sks = Vec::new();
        let mut pks = Vec::new();
        for _ in 0..6 {
            let (sk, pk) = KeyPair::<BBSplus<Sha>>::random().unwrap().into_parts();
            assert_ne!(sk.0, Scalar::ZERO);
            assert_eq!(sk.public_key(), pk);
            sks.push(sk.to_bytes().to_vec());
            pks.push(pk.to_bytes().to_vec());
            let (sk, pk) = KeyPair::<BBSplus<Shake>>::random().unwrap().into_parts();
            sks.push(sk.to_bytes().to_vec());
            pks.push(pk.to_bytes().to_vec());
        }
        all_distinct("sk", &sks);
        all_distinct("pk", &pks);

        let mut scalars: Vec<[u8; 32]> = (0..32).map(|_| BlindFactor::random().to_bytes()).collect();
        assert!(scalars.iter().all(|b| b != &[0u8; 32]));
        for count in [0usize, 1, 5, 64] {
            let v = calculate_random_scalars(count);
            assert_eq!(v.len(), count);
            assert!(v.iter().all(|s| *s != Scalar::ZERO));
            scalars.extend(v.iter().map(sb));
        }
        scalars.extend(sks.iter().map(|s| <[u8; 32]>::try_from(&s[..]).unwrap()));
        all_distinct("blind factors, random scalars and secret keys", &scalars);

        let secrets: Vec<Vec<u8>> = (0..16).map(|_| generate_random_secret(32)).collect();
        all_distinct("random secrets", &secrets);
        assert_eq!(generate_random_secret(64).len(), 64);
    }

    // ---------------------------------------------------------------------------------------------------------------
    // Family 9: generations across threads (each thread has its own thread_rng)
    // ---------------------------------------------------------------------------------------------------------------
    #[test]
    fn f09_generations_across_threads() {
        let (sk, pk) = keys::<Sha>();
        let messages = msgs(3);
        let sig = Signature::<BBSplus<Sha>>::sign(Some(&messages), &sk, &pk, None).unwrap().to_bytes();
        let handles: Vec<_> = (0..8)
            .map(|_| {
                let pk = pk.clone();
                let messages = messages.clone();
                std::thread::spawn(move || {
                    let mut points = Vec::new();
                    let mut scalars = Vec::new();
                    for _ in 0..2 {
                        let proof =
                            PoKSignature::<BBSplus<Sha>>::proof_gen(&pk, &sig, None, None, Some(&messages), Some(&[1]))
                                .unwrap();
                        let p = parse_proof(&proof.to_bytes());
                        points.extend(p.points);
                        scalars.extend([sb(&p.e_cap), sb(&p.r1_cap), sb(&p.r3_cap), sb(&p.c)]);
                        scalars.extend(p.m_cap.iter().map(sb));
                        let (c, blind) = Commitment::<BBSplus<Sha>>::commit(Some(&messages)).unwrap();
                        let cb = c.to_bytes();
                        points.push(cb[0..48].to_vec());
                        scalars.extend(cb[48..].chunks_exact(32).map(|x| <[u8; 32]>::try_from(x).unwrap()));
                        scalars.push(blind.to_bytes());
                    }
                    scalars.push(KeyPair::<BBSplus<Sha>>::random().unwrap().private_key().to_bytes());
                    scalars.push(BlindFactor::random().to_bytes());
                    (points, scalars)
                })
            })
            .collect();
        let mut points = Vec::new();
        let mut scalars = Vec::new();
        for h in handles {
            let (p, s) = h.join().unwrap();
            points.extend(p);
            scalars.extend(s);
        }
        all_distinct("group elements across threads", &points);
        all_distinct("scalars across threads", &scalars);
    }

    // ---------------------------------------------------------------------------------------------------------------
    // Family 10: interleaving different inputs and both ciphersuites in one process; proofs of an updated signature (same e)
    // ---------------------------------------------------------------------------------------------------------------
    #[test]
    fn f10_interleaved_inputs_and_updated_signature() {
        let (sk, pk) = keys::<Sha>();
        let (sk2, pk2) = keys::<Shake>();
        let messages = msgs(3);
        let sig = Signature::<BBSplus<Sha>>::sign(Some(&messages), &sk, &pk, None).unwrap();
        let mut updated_msgs = messages.clone();
        updated_msgs[1] = b"updated".to_vec();
        let sig_u = sig.update_signature(&sk, &messages[1], &updated_msgs[1], 1, 3).unwrap();
        sig_u.verify(&pk, Some(&updated_msgs), None).unwrap();
        let sig2 = Signature::<BBSplus<Shake>>::sign(Some(&messages), &sk2, &pk2, None).unwrap();

        let mut points = Vec::new();
        let mut scalars = Vec::new();
        let mut e_tildes = Vec::new();
        for _ in 0..3 {
            let a = PoKSignature::<BBSplus<Sha>>::proof_gen(&pk, &sig.to_bytes(), None, None, Some(&messages), None)
                .unwrap();
            let b =
                PoKSignature::<BBSplus<Sha>>::proof_gen(&pk, &sig_u.to_bytes(), None, None, Some(&updated_msgs), None)
                    .unwrap();
            let c = PoKSignature::<BBSplus<Shake>>::proof_gen(&pk2, &sig2.to_bytes(), None, None, Some(&messages), None)
                .unwrap();
            for (proof_bytes, e) in [(a.to_bytes(), sig.e()), (b.to_bytes(), sig_u.e()), (c.to_bytes(), sig2.e())] {
                let p = parse_proof(&proof_bytes);
                e_tildes.push(sb(&(p.e_cap - e * p.c)));
                points.extend(p.points);
                scalars.extend([sb(&p.e_cap), sb(&p.r1_cap), sb(&p.r3_cap), sb(&p.c)]);
                scalars.extend(p.m_cap.iter().map(sb));
            }
        }
        all_distinct("points", &points);
        all_distinct("scalars", &scalars);
        all_distinct("e~", &e_tildes);
    }

    // ---------------------------------------------------------------------------------------------------------------
    // Family 11: the serde form of a proof / commitment has exactly the fields of the octet form (nothing of the witness rides along)
    // ---------------------------------------------------------------------------------------------------------------
    #[test]
    fn f11_serde_forms_carry_no_extra_fields() {
        let (sk, pk) = keys::<Sha>();
        let messages = msgs(3);
        let sig = Signature::<BBSplus<Sha>>::sign(Some(&messages), &sk, &pk, None).unwrap();
        let proof =
            PoKSignature::<BBSplus<Sha>>::proof_gen(&pk, &sig.to_bytes(), None, None, Some(&messages), Some(&[0])).unwrap();
        let v = serde_json::to_value(&proof).unwrap();
        let inner = v.get("BBSplus").expect("externally tagged").as_object().unwrap();
        let mut keys: Vec<&str> = inner.keys().map(|k| k.as_str()).collect();
        keys.sort();
        assert_eq!(keys, ["Abar", "Bbar", "D", "challenge", "e_cap", "m_cap", "r1_cap", "r3_cap"]);
        assert_eq!(inner["m_cap"].as_array().unwrap().len(), 2);
        let back: PoKSignature<BBSplus<Sha>> = serde_json::from_value(v).unwrap();
        assert_eq!(back.to_bytes(), proof.to_bytes());

        let (c, _blind) = Commitment::<BBSplus<Sha>>::commit(Some(&messages)).unwrap();
        let v = serde_json::to_value(&c).unwrap();
        let inner = v.get("BBSplus").unwrap().as_object().unwrap();
        let mut keys: Vec<&str> = inner.keys().map(|k| k.as_str()).collect();
        keys.sort();
        assert_eq!(keys, ["commitment", "proof"]);
        let mut keys: Vec<&str> = inner["proof"].as_object().unwrap().keys().map(|k| k.as_str()).collect();
        keys.sort();
        assert_eq!(keys, ["challenge", "m_cap", "s_cap"]);
    }
}

// =====================================================================================================================
// CL03: the sibling scheme. Its only encoding is the serde one.
// =====================================================================================================================
#[cfg(feature = "cl03")]
mod cl03 {
    use digest::Digest;
    use rug::{ops::Pow, Complete, Integer};
    use serde_json::Value;
    use sha2::Sha256;
    use std::collections::{HashMap, HashSet};
    use zkryptium::{
        cl03::{
            bases::Bases,
            ciphersuites::{CL1024Sha256, CLCiphersuite},
            keys::{CL03CommitmentPublicKey, CL03PublicKey, CL03SecretKey},
        },
        schemes::{
            algorithms::CL03,
            generics::{BlindSignature, Commitment, PoKSignature, Signature, ZKPoK},
        },
        utils::message::cl03_message::CL03Message,
    };

    type CS = CL1024Sha256;

    // fixed key material (one output of KeyPair::<CL03<CL1024Sha256>>::generate())
    const P: &str = "16a35dcfe21ed24072c599cf0b3e3508149db67b177029a5289c8e5b422f821bd8b6d22c4ffc15b94f222deaacb7c9da776320da9386216b53d33aae4b1a02edb";
    const Q: &str = "1cb740f7abc3a7e12740c3d2377e3d97cfb0b52abcb4a0bd7a3819379b6065b3e8fb3318df20466f78e190ebaccfa4959aa157c05bce1cb3426e05db6c382d1cf";
    const B: &str = "2d730b8797531fe6366395fa330f2f612d2a8735936bcef186619749151f31543f4f4d25275440b9ac37d4f5a49298cfa28f5459b99ee3982909b461e9a2e7084b2251c12314316252588c3d0a4b3842aa0a3b1950cab1e4d959e282ca0dd5e3149d1b8543302c852380668a2c95536c5978dc28fe981ee5e1618bc64b028b1d";
    const C: &str = "283d84d81cbd045bf2c9fc7700571f64d26fdeea49366538984fa9720fd26ddfa06c42dc637bbb80a67a58ef67fccf48840a858caafb7772c1918e65b6ddefaff3c06846a1560da502b0a07edbb34992b39126fb00f514b55d8289f9baedb871771103ceeb948de00e64c6640d54329020d1d30c4e540698ba7f5f08a3203504c";

    fn hexint(s: &str) -> Integer {
        Integer::from_str_radix(s, 16).unwrap()
    }

    fn keys() -> (CL03SecretKey, CL03PublicKey) {
        let (p, q) = (hexint(P), hexint(Q));
        let n = (&p * &q).complete();
        (CL03SecretKey::new(p, q), CL03PublicKey::new(n, hexint(B), hexint(C)))
    }

    fn messages() -> Vec<CL03Message> {
        ["attribute zero", "attribute one", "attribute two"]
            .iter()
            .map(|m| CL03Message::map_message_to_integer_as_hash::<CS>(m.as_bytes()))
            .collect()
    }

    fn int(v: &Value) -> Integer {
        serde_json::from_value(v.clone()).expect("a rug Integer in its serde form")
    }

    fn challenge_of(parts: &[&Integer]) -> Integer {
        let s: String = parts.iter().map(|p| p.to_string()).collect();
        Integer::from_digits(Sha256::digest(s).as_slice(), rug::integer::Order::MsfBe)
    }

    fn inv(x: &Integer, n: &Integer) -> Integer {
        x.clone().invert(n).unwrap()
    }

    fn powm(b: &Integer, e: &Integer, n: &Integer) -> Integer {
        b.clone().pow_mod(e, n).unwrap()
    }

    /// removes every "randomness" member: what is left is what a careful prover would send
    fn strip_randomness(v: &mut Value) {
        match v {
            Value::Object(o) => {
                o.remove("randomness");
                o.values_mut().for_each(strip_randomness);
            }
            Value::Array(a) => a.iter_mut().for_each(strip_randomness),
            _ => {}
        }
    }

    /// every Integer of a serde encoding, as a decimal string
    fn all_integers(v: &Value, out: &mut Vec<String>) {
        match v {
            Value::Object(o) => {
                if o.len() == 2 && o.contains_key("radix") && o.contains_key("value") {
                    out.push(int(v).to_string());
                } else {
                    o.values().for_each(|x| all_integers(x, out));
                }
            }
            Value::Array(a) => a.iter().for_each(|x| all_integers(x, out)),
            _ => {}
        }
    }

    /// The candidates k with response - c * k in [2^(bits-1), 2^bits): the values a response `blind + c * secret` leaves possible
    /// for the secret when the blinding value has `bits` bits (random_bits sets the top bit).
    fn window(response: &Integer, c: &Integer, bits: u32) -> (Integer, Integer) {
        let hi_blind = Integer::from(2).pow(bits) - 1;
        let lo_blind = Integer::from(2).pow(bits - 1);
        // k >= (response - hi_blind) / c  and  k <= (response - lo_blind) / c
        let lo = Integer::from(response - hi_blind).div_rem_ceil(c.clone()).0;
        let hi = Integer::from(response - lo_blind).div_rem_floor(c.clone()).0;
        (lo, hi)
    }

    struct Setup {
        sk: CL03SecretKey,
        pk: CL03PublicKey,
        a_bases: Bases,
        cpk: CL03CommitmentPublicKey,
        msgs: Vec<CL03Message>,
        sig: Signature<CL03<CS>>,
    }

    fn setup() -> Setup {
        let (sk, pk) = keys();
        let msgs = messages();
        let a_bases = Bases::generate(&pk, msgs.len());
        let cpk = CL03CommitmentPublicKey::generate::<CS>(Some(pk.N.clone()), Some(msgs.len()));
        let sig = Signature::<CL03<CS>>::sign_multiattr(&pk, &sk, &a_bases, &msgs);
        assert!(sig.verify_multiattr(&pk, &a_bases, &msgs));
        Setup { sk, pk, a_bases, cpk, msgs, sig }
    }

    fn sig_parts(sig: &Signature<CL03<CS>>) -> (Integer, Integer, Integer) {
        let v = serde_json::to_value(sig).unwrap();
        (int(&v["CL03"]["e"]), int(&v["CL03"]["s"]), int(&v["CL03"]["v"]))
    }

    fn spok(s: &Setup, hidden: &[usize]) -> (PoKSignature<CL03<CS>>, Value) {
        let proof =
            PoKSignature::<CL03<CS>>::proof_gen(s.sig.cl03Signature(), &s.cpk, &s.pk, &s.a_bases, &s.msgs, hidden);
        let revealed: Vec<CL03Message> =
            s.msgs.iter().enumerate().filter(|(i, _)| !hidden.contains(i)).map(|(_, m)| m.clone()).collect();
        assert!(
            proof.proof_verify(&s.cpk, &s.pk, &s.a_bases, &revealed, hidden, s.msgs.len()),
            "an honest CL03 proof verifies"
        );
        let json = serde_json::to_value(&proof).unwrap();
        (proof, json)
    }

    // ---------------------------------------------------------------------------------------------------------------
    // Family 12 (VIOLATION): the encoding of a CL03 signature proof carries the blinding value w of Cv = v * g_0^w:
    // the signature point v comes out with one exponentiation, and is the same in every proof of the credential.
    // ---------------------------------------------------------------------------------------------------------------
    #[test]
    fn f12_cl03_proof_encoding_does_not_give_the_signature_point() {
        let s = setup();
        let (_, _, v) = sig_parts(&s.sig);
        let n = &s.pk.N;
        let mut recovered = Vec::new();
        for _ in 0..2 {
            let (_proof, json) = spok(&s, &[0]);
            let cv = &json["CL03"]["spok"]["Cv"];
            let w = cv.get("randomness").map(int);
            assert!(w.is_some(), "(the encoding has a member spok.Cv.randomness)");
            let g0_w = powm(&s.cpk.g_bases[0], &w.unwrap(), n);
            recovered.push((int(&cv["value"]) * inv(&g0_w, n)) % n);
        }
        // what the property requires: the signature point cannot be read off the encoding (and proofs are unlinkable)
        assert_ne!(recovered[0], v, "v = Cv.value / g_0^Cv.randomness: the signature point is read off the proof encoding");
        assert_ne!(recovered[0], recovered[1]);
    }

    // ---------------------------------------------------------------------------------------------------------------
    // Family 13 (VIOLATION): s_8 = r_8 + w * e * c with r_8 and w both of ln bits: e = floor(s_8 / (w * c)), w being in the encoding
    // ---------------------------------------------------------------------------------------------------------------
    #[test]
    fn f13_cl03_proof_encoding_does_not_give_the_signature_exponent() {
        let s = setup();
        let (e, _, _) = sig_parts(&s.sig);
        let (_proof, json) = spok(&s, &[0]);
        let sp = &json["CL03"]["spok"];
        let w = int(&sp["Cv"]["randomness"]);
        let c = int(&sp["challenge"]);
        let s_8 = int(&sp["s_8"]);
        let guess = s_8.div_rem_floor((&w * &c).complete()).0;
        assert_ne!(guess, e, "e = floor(s_8 / (Cv.randomness * challenge)): the signature exponent is read off one proof");
    }

    // the same from the responses alone (no "randomness" member used): w ~ s_7 / c, then e ~ s_8 / (c * w) up to a few units
    #[test]
    fn f13b_cl03_responses_alone_do_not_pin_the_signature_exponent() {
        let s = setup();
        let (e, _, _) = sig_parts(&s.sig);
        let (_proof, mut json) = spok(&s, &[0]);
        strip_randomness(&mut json);
        let sp = &json["CL03"]["spok"];
        let c = int(&sp["challenge"]);
        if c < Integer::from(2).pow(240) {
            return; // (probability 2^-16) the estimate below is only sharp for a challenge of the usual size
        }
        let (s_7, s_8) = (int(&sp["s_7"]), int(&sp["s_8"]));
        // r_7 lies in [2^(ln-1), 2^ln): take the middle
        let mid = Integer::from(3) * Integer::from(2).pow(CS::ln - 2);
        let w_est = (s_7 - mid).div_rem_floor(c.clone()).0;
        let e_est = s_8.div_rem_floor((&w_est * &c).complete()).0;
        let distance = Integer::from(e_est - &e).abs();
        // e is a random le-bit prime: a statistically hiding proof leaves it anywhere among ~2^(le-1) values
        assert!(
            distance > Integer::from(1u32 << 20),
            "the responses s_7 and s_8 of one proof place e within {distance} of a public estimate (e has {} bits)",
            CS::le
        );
    }

    // ---------------------------------------------------------------------------------------------------------------
    // Family 14 (VIOLATION): a hidden attribute of a signature proof. s1 = r1 + c * m with r1 of lm bits only, and m of lm bits:
    // m is one of floor(2^(lm-1) / c) + 1 values; the commitment randomness in the encoding tells which.
    // ---------------------------------------------------------------------------------------------------------------
    #[test]
    fn f14_cl03_signature_proof_hides_the_undisclosed_attribute() {
        let s = setup();
        let n = &s.pk.N;
        let hidden_index = 1usize;
        let m = &s.msgs[hidden_index].value;
        for _attempt in 0..4 {
            let (_proof, json) = spok(&s, &[hidden_index]);
            let pov = &json["CL03"]["proofs_commited_mi"][0];
            let (t, s1) = (int(&pov["value"]["t"]), int(&pov["value"]["s1"]));
            let (cm, r) = (int(&pov["commitment"]["value"]), int(&pov["commitment"]["randomness"]));
            let g = &s.cpk.g_bases[hidden_index];
            let h = &s.cpk.h;
            let c = challenge_of(&[g, h, &cm, &t]);
            let (lo, hi) = window(&s1, &c, CS::lm);
            let count = (&hi - &lo).complete() + 1;
            if count > Integer::from(1u32 << 16) {
                continue; // an unusually small challenge: take another proof
            }
            // g^m = cm / h^r
            let target = (cm * inv(&powm(h, &r, n), n)) % n;
            let mut k = lo.clone();
            let mut acc = powm(g, &k, n);
            let mut found = None;
            while k <= hi {
                if acc == target {
                    found = Some(k.clone());
                    break;
                }
                acc = (acc * g) % n;
                k += 1;
            }
            assert!(
                found.as_ref() != Some(m),
                "the undisclosed attribute is recovered from one proof: it is one of {count} candidates left by s1, confirmed with commitment.randomness"
            );
            return;
        }
        panic!("no proof with a challenge of the usual size in 4 attempts");
    }

    // ---------------------------------------------------------------------------------------------------------------
    // Family 15 (VIOLATION): issuance. What the signer gets is C.value and the ZKPoK; every "randomness" member is removed first.
    // proof_r.s1 = r1 + c * r with r1 of lm = 256 bits and r = C.randomness of ln = 1024 bits: r is one of a handful of values;
    // proof_commited_msgs.s1[0] = r1 + c * m likewise; C = a_0^m * b^r tells which pair.
    // ---------------------------------------------------------------------------------------------------------------
    #[test]
    fn f15_cl03_issuance_proof_hides_attribute_and_blinding_factor_from_the_signer() {
        let (sk, pk) = keys();
        let msgs = messages();
        let a_bases = Bases::generate(&pk, msgs.len());
        let n = &pk.N;
        let hidden = [0usize];
        for _attempt in 0..4 {
            let commitment = Commitment::<CL03<CS>>::commit_with_pk(&msgs, &pk, &a_bases, Some(&hidden));
            let zkpok = ZKPoK::<CL03<CS>>::generate_proof(
                &msgs,
                commitment.cl03Commitment(),
                None,
                &pk,
                &a_bases,
                None,
                &hidden,
            );
            assert!(zkpok.verify_proof(commitment.cl03Commitment(), None, &pk, &a_bases, None, &hidden));
            // the honest flow goes on to a valid signature
            let blind_sig = BlindSignature::<CL03<CS>>::blind_sign(
                &pk,
                &sk,
                &a_bases,
                &zkpok,
                Some(&msgs[1..]),
                commitment.cl03Commitment(),
                None,
                None,
                &hidden,
                Some(&[1, 2]),
            );
            assert!(blind_sig.unblind_sign(&commitment).verify_multiattr(&pk, &a_bases, &msgs));

            // --- the signer's view ---
            let c_value = commitment.value().clone();
            let mut json = serde_json::to_value(&zkpok).unwrap();
            strip_randomness(&mut json);
            let z = &json["CL03"];

            // candidates for the hidden attribute
            let pm = &z["proof_commited_msgs"];
            let (t, s1) = (int(&pm["t"]), int(&pm["s1"][0]));
            let c_m = challenge_of(&[&a_bases.0[0], &pk.b, &c_value, &t]);
            let (m_lo, m_hi) = window(&s1, &c_m, CS::lm);

            // candidates for the blinding factor of C
            let pr = &z["proof_r"];
            let (t_r, s1_r, cr) = (int(&pr["value"]["t"]), int(&pr["value"]["s1"]), int(&pr["commitment"]["value"]));
            let c_r = challenge_of(&[&a_bases.0[0], &pk.b, &cr, &t_r]);
            let (r_lo, r_hi) = window(&s1_r, &c_r, CS::lm);

            let limit = Integer::from(1u32 << 14);
            if (&m_hi - &m_lo).complete() >= limit || (&r_hi - &r_lo).complete() >= limit {
                continue; // an unusually small challenge: take another proof
            }

            // b^r for every candidate r
            let mut table: HashMap<String, Integer> = HashMap::new();
            let mut r = r_lo.clone();
            let mut acc = powm(&pk.b, &r, n);
            while r <= r_hi {
                table.insert(acc.to_string(), r.clone());
                acc = (acc * &pk.b) % n;
                r += 1;
            }
            // C / a_0^m for every candidate m
            let a0_inv = inv(&a_bases.0[0], n);
            let mut m = m_lo.clone();
            let mut acc = (&c_value * powm(&a0_inv, &m, n)) % n;
            let mut found = None;
            while m <= m_hi {
                if let Some(r) = table.get(&acc.to_string()) {
                    found = Some((m.clone(), r.clone()));
                    break;
                }
                acc = (acc * &a0_inv) % n;
                m += 1;
            }
            let secret = (msgs[0].value.clone(), commitment.randomness().clone());
            assert!(
                found.as_ref() != Some(&secret),
                "the signer recovers the committed attribute and the blinding factor of C from one issuance proof"
            );
            return;
        }
        panic!("no proof with challenges of the usual size in 4 attempts");
    }

    // ---------------------------------------------------------------------------------------------------------------
    // Family 16: freshness of CL03 artefacts (two generations from identical inputs share no Integer), two-transcript extraction
    // ---------------------------------------------------------------------------------------------------------------
    #[test]
    fn f16_cl03_signature_proofs_share_no_value() {
        let s = setup();
        let (e, _sv, _v) = sig_parts(&s.sig);
        let mut seen: HashSet<String> = HashSet::new();
        let mut runs = Vec::new();
        for _ in 0..3 {
            let (_p, json) = spok(&s, &[0, 2]);
            let mut ints = Vec::new();
            all_integers(&json, &mut ints);
            // inside one proof, commitments legitimately appear twice (Ce and range_proof_e.E, cmi and its range proof's E, E_a_1 ...):
            // compare ACROSS proofs only
            let own: HashSet<String> = ints.into_iter().collect();
            for x in &own {
                assert!(!seen.contains(x), "a value of an earlier proof comes back: {x}");
            }
            seen.extend(own);
            let sp = &json["CL03"]["spok"];
            runs.push((int(&sp["challenge"]), int(&sp["s_4"]), int(&sp["s_5"][0]), int(&sp["s_5"][1])));
        }
        // standard extraction over the integers
        for a in 0..runs.len() {
            for b in 0..a {
                let dc = (&runs[a].0 - &runs[b].0).complete();
                assert_ne!(dc, 0);
                for (x, y, secret) in [
                    (&runs[a].1, &runs[b].1, &e),
                    (&runs[a].2, &runs[b].2, &s.msgs[0].value),
                    (&runs[a].3, &runs[b].3, &s.msgs[2].value),
                ] {
                    let d = (x - y).complete();
                    assert!(!(d.is_divisible(&dc) && &(d / &dc) == secret));
                }
            }
        }
    }

    #[test]
    fn f16_cl03_commitments_signatures_and_keys_are_fresh() {
        let (sk, pk) = keys();
        let msgs = messages();
        let a_bases = Bases::generate(&pk, msgs.len());
        let cpk = CL03CommitmentPublicKey::generate::<CS>(Some(pk.N.clone()), Some(msgs.len()));
        let cpk2 = CL03CommitmentPublicKey::generate::<CS>(Some(pk.N.clone()), Some(msgs.len()));
        let mut values = vec![cpk.h.to_string(), cpk2.h.to_string()];
        values.extend(cpk.g_bases.iter().chain(cpk2.g_bases.iter()).map(|g| g.to_string()));
        values.extend(a_bases.0.iter().map(|a| a.to_string()));
        values.extend(Bases::generate(&pk, 3).0.iter().map(|a| a.to_string()));
        for _ in 0..4 {
            let c = Commitment::<CL03<CS>>::commit_with_pk(&msgs, &pk, &a_bases, None);
            values.push(c.value().to_string());
            values.push(c.randomness().to_string());
            assert!(c.randomness().significant_bits() == CS::ln);
            let c = Commitment::<CL03<CS>>::commit_with_commitment_pk(&msgs, &cpk, Some(&[1]));
            values.push(c.value().to_string());
            values.push(c.randomness().to_string());
            let sig = Signature::<CL03<CS>>::sign_multiattr(&pk, &sk, &a_bases, &msgs);
            let (e, s, v) = sig_parts(&sig);
            values.extend([e.to_string(), s.to_string(), v.to_string()]);
            let sig = Signature::<CL03<CS>>::sign(&pk, &sk, &a_bases, &msgs[0]);
            let (e, s, v) = sig_parts(&sig);
            values.extend([e.to_string(), s.to_string(), v.to_string()]);
        }
        let set: HashSet<&String> = values.iter().collect();
        assert_eq!(set.len(), values.len(), "a CL03 random value repeats");
    }

    #[test]
    fn f16_cl03_blind_issuance_and_update_are_fresh() {
        let (sk, pk) = keys();
        let msgs = messages();
        let a_bases = Bases::generate(&pk, msgs.len());
        let hidden = [0usize];
        let commitment = Commitment::<CL03<CS>>::commit_with_pk(&msgs, &pk, &a_bases, Some(&hidden));
        let mut values = Vec::new();
        let mut seen: HashSet<String> = HashSet::new();
        for _ in 0..2 {
            let zkpok =
                ZKPoK::<CL03<CS>>::generate_proof(&msgs, commitment.cl03Commitment(), None, &pk, &a_bases, None, &hidden);
            let mut ints = Vec::new();
            all_integers(&serde_json::to_value(&zkpok).unwrap(), &mut ints);
            let own: HashSet<String> = ints.into_iter().collect();
            for x in &own {
                assert!(!seen.contains(x), "a value of an earlier issuance proof comes back: {x}");
            }
            seen.extend(own);
            let bs = BlindSignature::<CL03<CS>>::blind_sign(
                &pk,
                &sk,
                &a_bases,
                &zkpok,
                Some(&msgs[1..]),
                commitment.cl03Commitment(),
                None,
                None,
                &hidden,
                Some(&[1, 2]),
            );
            values.extend([bs.e().to_string(), bs.rprime().to_string(), bs.v().to_string()]);
            let up = bs.update_signature(Some(&msgs[1..]), commitment.cl03Commitment(), &sk, &pk, &a_bases, Some(&[1, 2]));
            values.extend([up.e().to_string(), up.rprime().to_string(), up.v().to_string()]);
            assert!(up.unblind_sign(&commitment).verify_multiattr(&pk, &a_bases, &msgs));
        }
        let set: HashSet<&String> = values.iter().collect();
        assert_eq!(set.len(), values.len(), "a value of a blind signature repeats");
    }

    // ---------------------------------------------------------------------------------------------------------------
    // Family 17 (VIOLATION): the Boudot range proof that accompanies every hidden attribute. Its proof of square answers
    // d = omega + c * x_a_1 with omega < 2^(l+t) * b (424 bits for an attribute) while c is a whole 256-bit hash and
    // x_a_1 = isqrt(2^T * (m + 1)) has 425 bits: x_a_1 ~ d / c, hence m ~ (d / c)^2 / 2^T - 1. No "randomness" member is used.
    // ---------------------------------------------------------------------------------------------------------------
    #[test]
    fn f17_cl03_range_proof_responses_alone_do_not_pin_the_hidden_attribute() {
        let s = setup();
        let hidden_index = 2usize;
        let (_proof, mut json) = spok(&s, &[hidden_index]);
        strip_randomness(&mut json);
        let ss = &json["CL03"]["range_proofs_commited_mi"][0]["proof_of_tolerance"]["proof_of_square_a"]["proof_ss"];
        let (c, d) = (int(&ss["challenge"]), int(&ss["d"]));
        if c < Integer::from(2).pow(240) {
            return; // (probability 2^-16) the estimate below is only sharp for a challenge of the usual size
        }
        // T as in Boudot2000RangeProof::prove for the range [0, 2^lm - 1]; aa = -2^T there, so x_a = 2^T * (m + 1)
        let T = 2 * (CS::t + CS::l + 1) + CS::lm;
        let root = d.div_rem_floor(c).0;
        let estimate = Integer::from(root.square() >> T) - 1;
        let distance = Integer::from(&estimate - &s.msgs[hidden_index].value).abs();
        assert!(
            distance > Integer::from(1u32 << 20),
            "one range-proof response places the undisclosed {}-bit attribute within {distance} of a public estimate",
            CS::lm
        );
    }

    #[test]
    fn f16_cl03_key_pairs_are_fresh() {
        use zkryptium::keys::pair::KeyPair;
        let a = KeyPair::<CL03<CS>>::generate();
        let b = KeyPair::<CL03<CS>>::generate();
        let all = [
            a.private_key().p.to_string(),
            a.private_key().q.to_string(),
            b.private_key().p.to_string(),
            b.private_key().q.to_string(),
            a.public_key().b.to_string(),
            a.public_key().c.to_string(),
            b.public_key().b.to_string(),
            b.public_key().c.to_string(),
        ];
        let set: HashSet<&String> = all.iter().collect();
        assert_eq!(set.len(), all.len());
        assert_ne!(a.public_key().N, b.public_key().N);
    }
}
