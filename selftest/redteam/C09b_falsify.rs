// Red-team candidates for property C09 "Encodings are canonical and strict" (second pass).
// Every test ASSERTS WHAT THE PROPERTY REQUIRES: a failing test is a demonstrated violation.
//
// Reading used for panics: the statement asks decoders to *reject* (return Err); a panic inside a decoder on an
// attacker-supplied string is counted as a violation of "decode(b) = Err", a panic elsewhere is not.

#![allow(non_snake_case)]

use bls12_381_plus::{G1Affine, G1Projective, G2Affine, G2Projective, Scalar};
use elliptic_curve::hash2curve::ExpandMsg;
use zkryptium::{
    bbsplus::{
        ciphersuites::{BbsCiphersuite, Bls12381Sha256, Bls12381Shake256},
        commitment::{BBSplusCommitment, BlindFactor},
        generators::Generators,
        keys::{BBSplusPublicKey, BBSplusSecretKey},
        proof::{BBSplusPoKSignature, BBSplusZKPoK},
        signature::BBSplusSignature,
    },
    keys::pair::KeyPair,
    schemes::{
        algorithms::BBSplus,
        generics::{BlindSignature, Commitment, PoKSignature, Signature},
    },
    utils::{message::bbsplus_message::BBSplusMessage, util::bbsplus_utils::ScalarExt},
};

type Sha = BBSplus<Bls12381Sha256>;
type Shake = BBSplus<Bls12381Shake256>;

// ---------------------------------------------------------------------------------------------
// helpers
// ---------------------------------------------------------------------------------------------

const R_BE: &str = "73eda753299d7d483339d80809a1d80553bda402fffe5bfeffffffff00000001";
const P_BE: &str = "1a0111ea397fe69a4b1ba7b6434bacd764774b84f38512bf6730d2a0f6b0f6241eabfffeb153ffffb9feffffffffaaab";

fn r_be() -> [u8; 32] {
    hex::decode(R_BE).unwrap().try_into().unwrap()
}
fn p_be() -> [u8; 48] {
    hex::decode(P_BE).unwrap().try_into().unwrap()
}

/// big-endian a + b, returns (sum, carry_out)
fn add_be(a: &[u8], b: &[u8]) -> (Vec<u8>, bool) {
    assert_eq!(a.len(), b.len());
    let mut out = vec![0u8; a.len()];
    let mut carry = 0u16;
    for i in (0..a.len()).rev() {
        let s = a[i] as u16 + b[i] as u16 + carry;
        out[i] = s as u8;
        carry = s >> 8;
    }
    (out, carry != 0)
}

/// big-endian a - 1
fn dec_be(a: &[u8]) -> Vec<u8> {
    let mut out = a.to_vec();
    for i in (0..out.len()).rev() {
        if out[i] == 0 {
            out[i] = 0xff;
        } else {
            out[i] -= 1;
            break;
        }
    }
    out
}

/// s + r as a 32-byte string (always fits: 2r < 2^256)
fn scalar_plus_r(s: &[u8]) -> [u8; 32] {
    let (v, c) = add_be(s, &r_be());
    assert!(!c);
    v.try_into().unwrap()
}

/// field element + p as a 48-byte string, for a coordinate WITHOUT flag bits (always fits: 2p < 2^384)
fn fp_plus_p(x: &[u8]) -> [u8; 48] {
    let (v, c) = add_be(x, &p_be());
    assert!(!c);
    v.try_into().unwrap()
}

/// For a 48-byte compressed first coordinate WITH flag bits: x + p with the same flags, if it fits in 381 bits
fn flagged_plus_p(x: &[u8]) -> Option<[u8; 48]> {
    let flags = x[0] & 0xe0;
    let mut raw = x.to_vec();
    raw[0] &= 0x1f;
    let (mut v, c) = add_be(&raw, &p_be());
    if c || v[0] & 0xe0 != 0 {
        return None;
    }
    v[0] |= flags;
    Some(v.try_into().unwrap())
}

fn keypair<CS: BbsCiphersuite + std::fmt::Debug>(seed: u8) -> KeyPair<BBSplus<CS>>
where
    CS::Expander: for<'a> ExpandMsg<'a>,
{
    KeyPair::<BBSplus<CS>>::generate(&[seed; 48], Some(b"falsify-C09"), None).unwrap()
}

fn msgs(n: usize) -> Vec<Vec<u8>> {
    (0..n).map(|i| format!("message-{i}").into_bytes()).collect()
}

/// A point of E(Fp) that is NOT in the prime-order subgroup G1 (compressed form)
fn g1_off_subgroup() -> [u8; 48] {
    for i in 1u8..=255 {
        let mut b = [0u8; 48];
        b[0] = 0x80;
        b[47] = i;
        let p = G1Affine::from_compressed_unchecked(&b);
        if bool::from(p.is_some()) {
            let p = p.unwrap();
            if !bool::from(p.is_torsion_free()) && bool::from(p.is_on_curve()) {
                // the library itself must refuse it as a G1 element
                assert!(bool::from(G1Affine::from_compressed(&b).is_none()));
                return b;
            }
        }
    }
    panic!("no off-subgroup G1 point found");
}

/// A point of E'(Fp2) that is NOT in the prime-order subgroup G2
fn g2_off_subgroup() -> G2Affine {
    for i in 1u8..=255 {
        let mut b = [0u8; 96];
        b[0] = 0x80;
        b[95] = i;
        let p = G2Affine::from_compressed_unchecked(&b);
        if bool::from(p.is_some()) {
            let p = p.unwrap();
            if !bool::from(p.is_torsion_free()) && bool::from(p.is_on_curve()) {
                return p;
            }
        }
    }
    panic!("no off-subgroup G2 point found");
}

const G1_IDENTITY: [u8; 48] = {
    let mut b = [0u8; 48];
    b[0] = 0xc0;
    b
};

struct Fixture<CS: BbsCiphersuite + std::fmt::Debug> {
    kp: KeyPair<BBSplus<CS>>,
    messages: Vec<Vec<u8>>,
    sig: Signature<BBSplus<CS>>,
    proof_some: PoKSignature<BBSplus<CS>>, // U = 3
    proof_all: PoKSignature<BBSplus<CS>>,  // U = 0
}

fn fixture<CS: BbsCiphersuite + std::fmt::Debug>(seed: u8) -> Fixture<CS>
where
    CS::Expander: for<'a> ExpandMsg<'a>,
{
    let kp = keypair::<CS>(seed);
    let messages = msgs(5);
    let sig = Signature::<BBSplus<CS>>::sign(
        Some(&messages),
        kp.private_key(),
        kp.public_key(),
        Some(b"hdr"),
    )
    .unwrap();
    let proof_some = PoKSignature::<BBSplus<CS>>::proof_gen(
        kp.public_key(),
        &sig.to_bytes(),
        Some(b"hdr"),
        Some(b"ph"),
        Some(&messages),
        Some(&[1, 3]),
    )
    .unwrap();
    let proof_all = PoKSignature::<BBSplus<CS>>::proof_gen(
        kp.public_key(),
        &sig.to_bytes(),
        Some(b"hdr"),
        Some(b"ph"),
        Some(&messages),
        Some(&[0, 1, 2, 3, 4]),
    )
    .unwrap();
    Fixture {
        kp,
        messages,
        sig,
        proof_some,
        proof_all,
    }
}

// ---------------------------------------------------------------------------------------------
// 1. round trips of honest objects through every codec
// ---------------------------------------------------------------------------------------------

fn roundtrip_keys<CS: BbsCiphersuite + std::fmt::Debug>()
where
    CS::Expander: for<'a> ExpandMsg<'a>,
{
    for seed in 0u8..6 {
        let kp = keypair::<CS>(seed);
        let (sk, pk) = (kp.private_key(), kp.public_key());
        // octets
        assert_eq!(&BBSplusSecretKey::from_bytes(&sk.to_bytes()).unwrap(), sk);
        assert_eq!(&BBSplusPublicKey::from_bytes(&pk.to_bytes()).unwrap(), pk);
        assert_eq!(hex::decode(pk.encode()).unwrap(), pk.to_bytes());
        assert_eq!(hex::decode(sk.encode()).unwrap(), sk.to_bytes());
        // coordinates
        let (x, y) = pk.to_coordinates();
        let pk2 = BBSplusPublicKey::from_coordinates(&x, &y).unwrap();
        assert_eq!(&pk2, pk);
        assert_eq!(pk2.to_coordinates(), (x, y));
        assert_eq!(pk2.to_bytes(), pk.to_bytes());
        // JSON
        let j = serde_json::to_string(pk).unwrap();
        assert_eq!(&serde_json::from_str::<BBSplusPublicKey>(&j).unwrap(), pk);
        let j = serde_json::to_string(sk).unwrap();
        assert_eq!(&serde_json::from_str::<BBSplusSecretKey>(&j).unwrap(), sk);
        let j = serde_json::to_string(&kp).unwrap();
        let kp2: KeyPair<BBSplus<CS>> = serde_json::from_str(&j).unwrap();
        assert_eq!(kp2, kp);
        assert_eq!(serde_json::to_string(&kp2).unwrap(), j);
        // the derived public key is the same object
        assert_eq!(&sk.public_key(), pk);
    }
}

#[test]
fn c09_roundtrip_keys_all_codecs() {
    roundtrip_keys::<Bls12381Sha256>();
    roundtrip_keys::<Bls12381Shake256>();
}

fn roundtrip_sig_and_proof<CS: BbsCiphersuite + std::fmt::Debug>()
where
    CS::Expander: for<'a> ExpandMsg<'a>,
{
    let f = fixture::<CS>(11);
    // signature
    let b = f.sig.to_bytes();
    let s2 = Signature::<BBSplus<CS>>::from_bytes(&b).unwrap();
    assert_eq!(s2, f.sig);
    assert_eq!(s2.to_bytes(), b);
    let j = serde_json::to_string(&f.sig).unwrap();
    let s3: Signature<BBSplus<CS>> = serde_json::from_str(&j).unwrap();
    assert_eq!(s3, f.sig);
    assert_eq!(serde_json::to_string(&s3).unwrap(), j);
    let inner = f.sig.bbsPlusSignature();
    assert_eq!(&BBSplusSignature::from_bytes(&inner.to_bytes()).unwrap(), inner);
    let j = serde_json::to_string(inner).unwrap();
    assert_eq!(&serde_json::from_str::<BBSplusSignature>(&j).unwrap(), inner);

    // updated signature
    let upd = f
        .sig
        .update_signature(f.kp.private_key(), &f.messages[4], b"new", 4, 5)
        .unwrap();
    assert_eq!(Signature::<BBSplus<CS>>::from_bytes(&upd.to_bytes()).unwrap(), upd);

    // signature over no messages, no header
    let s0 = Signature::<BBSplus<CS>>::sign(None, f.kp.private_key(), f.kp.public_key(), None).unwrap();
    assert_eq!(Signature::<BBSplus<CS>>::from_bytes(&s0.to_bytes()).unwrap(), s0);

    // proofs: U = 3, U = 0, and a proof for zero messages
    let p0 = PoKSignature::<BBSplus<CS>>::proof_gen(f.kp.public_key(), &s0.to_bytes(), None, None, None, None).unwrap();
    for p in [&f.proof_some, &f.proof_all, &p0] {
        let b = p.to_bytes();
        let p2 = PoKSignature::<BBSplus<CS>>::from_bytes(&b).unwrap();
        assert_eq!(&p2, p);
        assert_eq!(p2.to_bytes(), b);
        let j = serde_json::to_string(p).unwrap();
        let p3: PoKSignature<BBSplus<CS>> = serde_json::from_str(&j).unwrap();
        assert_eq!(&p3, p);
        assert_eq!(serde_json::to_string(&p3).unwrap(), j);
        assert_eq!(p3.to_bytes(), b);
        let inner = p.to_bbsplus_proof();
        let j = serde_json::to_string(inner).unwrap();
        assert_eq!(&serde_json::from_str::<BBSplusPoKSignature>(&j).unwrap(), inner);
    }
    assert_eq!(f.proof_all.to_bytes().len(), 272);
    assert_eq!(f.proof_some.to_bytes().len(), 272 + 3 * 32);
    // and the decoded proofs still verify
    let p2 = PoKSignature::<BBSplus<CS>>::from_bytes(&f.proof_some.to_bytes()).unwrap();
    let disclosed = vec![f.messages[1].clone(), f.messages[3].clone()];
    p2.proof_verify(f.kp.public_key(), Some(&disclosed), Some(&[1, 3]), Some(b"hdr"), Some(b"ph"))
        .unwrap();
}

#[test]
fn c09_roundtrip_signatures_and_proofs_all_codecs() {
    roundtrip_sig_and_proof::<Bls12381Sha256>();
    roundtrip_sig_and_proof::<Bls12381Shake256>();
}

fn roundtrip_blind<CS: BbsCiphersuite + std::fmt::Debug>()
where
    CS::Expander: for<'a> ExpandMsg<'a>,
{
    let kp = keypair::<CS>(21);
    let messages = msgs(3);
    for committed in [Vec::<Vec<u8>>::new(), msgs(1), msgs(4)] {
        let (c, blind) = Commitment::<BBSplus<CS>>::commit(Some(&committed)).unwrap();
        // commitment octets
        let b = c.to_bytes();
        assert_eq!(b.len(), 48 + 32 * (2 + committed.len()));
        let c2 = Commitment::<BBSplus<CS>>::from_bytes(&b).unwrap();
        assert_eq!(c2, c);
        assert_eq!(c2.to_bytes(), b);
        // commitment JSON
        let j = serde_json::to_string(&c).unwrap();
        let c3: Commitment<BBSplus<CS>> = serde_json::from_str(&j).unwrap();
        assert_eq!(c3, c);
        assert_eq!(serde_json::to_string(&c3).unwrap(), j);
        // inner types
        if let Commitment::BBSplus(inner) = &c {
            assert_eq!(&BBSplusCommitment::from_bytes(&inner.to_bytes()).unwrap(), inner);
            assert_eq!(&BBSplusZKPoK::from_bytes(&inner.proof.to_bytes()).unwrap(), &inner.proof);
            let j = serde_json::to_string(&inner.proof).unwrap();
            assert_eq!(&serde_json::from_str::<BBSplusZKPoK>(&j).unwrap(), &inner.proof);
        } else {
            panic!()
        }
        // blind factor octets
        let bf = blind.to_bytes();
        let blind2 = BlindFactor::from_bytes(&bf).unwrap();
        assert_eq!(blind2.to_bytes(), bf);

        // blind signature with the decoded commitment / decoded blind factor
        let bs = BlindSignature::<BBSplus<CS>>::blind_sign(
            kp.private_key(),
            kp.public_key(),
            Some(&c2.to_bytes()),
            Some(b"hdr"),
            Some(&messages),
        )
        .unwrap();
        let bsb = bs.to_bytes();
        let bs2 = BlindSignature::<BBSplus<CS>>::from_bytes(&bsb).unwrap();
        assert_eq!(bs2, bs);
        assert_eq!(bs2.to_bytes(), bsb);
        let j = serde_json::to_string(&bs).unwrap();
        let bs3: BlindSignature<BBSplus<CS>> = serde_json::from_str(&j).unwrap();
        assert_eq!(bs3, bs);
        bs3.verify_blind_sign(kp.public_key(), Some(b"hdr"), Some(&messages), Some(&committed), Some(&blind2))
            .unwrap();

        // blind proof
        let dci: Vec<usize> = if committed.is_empty() { vec![] } else { vec![0] };
        let proof = PoKSignature::<BBSplus<CS>>::blind_proof_gen(
            kp.public_key(),
            &bsb,
            Some(b"hdr"),
            Some(b"ph"),
            Some(&messages),
            Some(&committed),
            Some(&[0, 2]),
            Some(&dci),
            Some(&blind2),
        )
        .unwrap();
        let pb = proof.to_bytes();
        let proof2 = PoKSignature::<BBSplus<CS>>::from_bytes(&pb).unwrap();
        assert_eq!(proof2, proof);
        assert_eq!(proof2.to_bytes(), pb);
        let j = serde_json::to_string(&proof).unwrap();
        let proof3: PoKSignature<BBSplus<CS>> = serde_json::from_str(&j).unwrap();
        assert_eq!(proof3, proof);
        let dm = vec![messages[0].clone(), messages[2].clone()];
        let dcm: Vec<Vec<u8>> = dci.iter().map(|&i| committed[i].clone()).collect();
        proof3
            .blind_proof_verify(
                kp.public_key(),
                Some(b"hdr"),
                Some(b"ph"),
                Some(messages.len()),
                Some(&dm),
                Some(&dcm),
                Some(&[0, 2]),
                Some(&dci),
            )
            .unwrap();
    }
    // no commitment at all
    let bs = BlindSignature::<BBSplus<CS>>::blind_sign(kp.private_key(), kp.public_key(), None, None, Some(&messages)).unwrap();
    assert_eq!(BlindSignature::<BBSplus<CS>>::from_bytes(&bs.to_bytes()).unwrap(), bs);
}

#[test]
fn c09_roundtrip_blind_artefacts_all_codecs() {
    roundtrip_blind::<Bls12381Sha256>();
    roundtrip_blind::<Bls12381Shake256>();
}

#[test]
fn c09_blind_factor_edges() {
    // 0, 1, r-1 are scalars below the order: accepted and reproduced
    let zero = [0u8; 32];
    let mut one = [0u8; 32];
    one[31] = 1;
    let rm1: [u8; 32] = dec_be(&r_be()).try_into().unwrap();
    for b in [zero, one, rm1] {
        assert_eq!(BlindFactor::from_bytes(&b).unwrap().to_bytes(), b);
    }
    // r, r+1, 2^256-1, s+r are refused
    let r = r_be();
    let rp1 = scalar_plus_r(&one);
    for b in [r, rp1, [0xff; 32], scalar_plus_r(&rm1)] {
        assert!(BlindFactor::from_bytes(&b).is_err(), "{}", hex::encode(b));
    }
    let bf = BlindFactor::random().to_bytes();
    assert!(BlindFactor::from_bytes(&scalar_plus_r(&bf)).is_err());
}

// ---------------------------------------------------------------------------------------------
// 2. secret key decoder
// ---------------------------------------------------------------------------------------------

#[test]
fn c09_secret_key_strict() {
    let kp = keypair::<Bls12381Sha256>(1);
    let sk = kp.private_key().to_bytes();
    // lengths
    for len in 0..=96usize {
        if len == 32 {
            continue;
        }
        let mut v = sk.to_vec();
        v.resize(len, 0);
        assert!(BBSplusSecretKey::from_bytes(&v).is_err(), "len {len}");
        // also with a leading-zero extension
        let mut w = vec![0u8; len.saturating_sub(32)];
        w.extend_from_slice(&sk[..len.min(32)]);
        if w.len() != 32 {
            assert!(BBSplusSecretKey::from_bytes(&w).is_err(), "len {len}");
        }
    }
    // values
    let mut one = [0u8; 32];
    one[31] = 1;
    let rm1: [u8; 32] = dec_be(&r_be()).try_into().unwrap();
    assert_eq!(BBSplusSecretKey::from_bytes(&one).unwrap().to_bytes(), one);
    assert_eq!(BBSplusSecretKey::from_bytes(&rm1).unwrap().to_bytes(), rm1);
    assert!(BBSplusSecretKey::from_bytes(&[0u8; 32]).is_err());
    assert!(BBSplusSecretKey::from_bytes(&r_be()).is_err());
    assert!(BBSplusSecretKey::from_bytes(&scalar_plus_r(&one)).is_err());
    assert!(BBSplusSecretKey::from_bytes(&scalar_plus_r(&sk)).is_err());
    assert!(BBSplusSecretKey::from_bytes(&[0xff; 32]).is_err());
    // every single-bit flip: if accepted, reproduced exactly
    for bit in 0..256 {
        let mut b = sk;
        b[bit / 8] ^= 1 << (bit % 8);
        if let Ok(k) = BBSplusSecretKey::from_bytes(&b) {
            assert_eq!(k.to_bytes(), b);
            assert_ne!(&k, kp.private_key());
        }
    }
    // JSON: the same classes
    for bad in [[0u8; 32], r_be(), scalar_plus_r(&sk), [0xff; 32]] {
        let j = format!("\"{}\"", hex::encode(bad));
        assert!(serde_json::from_str::<BBSplusSecretKey>(&j).is_err(), "{j}");
        let j = format!("{{\"public\":\"{}\",\"private\":\"{}\"}}", kp.public_key().encode(), hex::encode(bad));
        assert!(serde_json::from_str::<KeyPair<Sha>>(&j).is_err(), "{j}");
    }
    // JSON: wrong lengths
    for j in [
        format!("\"{}\"", hex::encode(&sk[..31])),
        format!("\"{}00\"", hex::encode(sk)),
        format!("\"00{}\"", hex::encode(sk)),
        format!("\"{}\"", &hex::encode(sk)[..63]),
        "\"\"".to_string(),
    ] {
        assert!(serde_json::from_str::<BBSplusSecretKey>(&j).is_err(), "{j}");
    }
}

// ---------------------------------------------------------------------------------------------
// 3. public key decoders (compressed octets, coordinates, JSON)
// ---------------------------------------------------------------------------------------------

#[test]
fn c09_public_key_lengths() {
    let kp = keypair::<Bls12381Sha256>(2);
    let pk = kp.public_key().to_bytes();
    for len in 0..=192usize {
        if len == 96 {
            continue;
        }
        // truncation / extension by zeros
        let mut v = pk.to_vec();
        v.resize(len, 0);
        assert!(BBSplusPublicKey::from_bytes(&v).is_err(), "len {len}");
        // extension by a copy of itself
        let w: Vec<u8> = pk.iter().cycle().take(len).cloned().collect();
        assert!(BBSplusPublicKey::from_bytes(&w).is_err(), "len {len}");
    }
    // the uncompressed form is not an accepted octet string for from_bytes
    let unc = G2Affine::from(kp.public_key().0).to_uncompressed();
    assert!(BBSplusPublicKey::from_bytes(&unc).is_err());
    for ext in 1..=64usize {
        let mut v = pk.to_vec();
        v.extend(std::iter::repeat(0xab).take(ext));
        assert!(BBSplusPublicKey::from_bytes(&v).is_err());
    }
}

#[test]
fn c09_public_key_bitflips_are_canonical_or_refused() {
    let kp = keypair::<Bls12381Shake256>(3);
    let pk = kp.public_key().to_bytes();
    let mut accepted = 0;
    for bit in 0..768 {
        // all bits of the first 3 and last 2 bytes, every 5th bit elsewhere
        if !(bit < 24 || bit >= 752 || bit % 5 == 0) {
            continue;
        }
        let mut b = pk;
        b[bit / 8] ^= 0x80 >> (bit % 8);
        if let Ok(k) = BBSplusPublicKey::from_bytes(&b) {
            accepted += 1;
            assert_eq!(k.to_bytes(), b, "bit {bit}");
            assert_ne!(&k, kp.public_key());
        }
    }
    // only the sign flip is expected to be accepted (a random x is in G2 with negligible probability)
    assert!(accepted <= 1, "accepted {accepted}");
}

#[test]
fn c09_public_key_noncanonical_and_forbidden_patterns() {
    let kp = keypair::<Bls12381Sha256>(4);
    let pk = kp.public_key().to_bytes();

    // identity, and malformed identities
    let mut id = [0u8; 96];
    id[0] = 0xc0;
    assert!(BBSplusPublicKey::from_bytes(&id).is_err());
    let mut b = id;
    b[0] = 0xe0; // infinity + sort flag
    assert!(BBSplusPublicKey::from_bytes(&b).is_err());
    let mut b = id;
    b[95] = 1; // infinity with a non-zero x
    assert!(BBSplusPublicKey::from_bytes(&b).is_err());
    let mut b = id;
    b[0] = 0x40; // infinity without the compression flag
    assert!(BBSplusPublicKey::from_bytes(&b).is_err());
    assert!(BBSplusPublicKey::from_bytes(&[0u8; 96]).is_err());
    assert!(BBSplusPublicKey::from_bytes(&[0xff; 96]).is_err());

    // compression flag cleared on a honest key
    let mut b = pk;
    b[0] &= 0x7f;
    assert!(BBSplusPublicKey::from_bytes(&b).is_err());
    // infinity flag set on a honest key
    let mut b = pk;
    b[0] |= 0x40;
    assert!(BBSplusPublicKey::from_bytes(&b).is_err());

    // x.c0 + p : same field element, different string
    let mut b = pk;
    b[48..].copy_from_slice(&fp_plus_p(&pk[48..]));
    assert!(BBSplusPublicKey::from_bytes(&b).is_err(), "x.c0 + p accepted");
    // x.c1 + p when it fits below the flag bits
    let mut tried = 0;
    for seed in 0u8..40 {
        let k = keypair::<Bls12381Sha256>(seed).public_key().to_bytes();
        if let Some(x1) = flagged_plus_p(&k[..48]) {
            let mut b = k;
            b[..48].copy_from_slice(&x1);
            assert!(BBSplusPublicKey::from_bytes(&b).is_err(), "x.c1 + p accepted");
            tried += 1;
        }
    }
    assert!(tried > 0);

    // a curve point outside the prime-order subgroup: compressed, coordinates, JSON
    let off = g2_off_subgroup();
    let c = off.to_compressed();
    assert!(BBSplusPublicKey::from_bytes(&c).is_err(), "off-subgroup pk accepted (octets)");
    let u = off.to_uncompressed();
    let (x, y): ([u8; 96], [u8; 96]) = (u[..96].try_into().unwrap(), u[96..].try_into().unwrap());
    assert!(BBSplusPublicKey::from_coordinates(&x, &y).is_err(), "off-subgroup pk accepted (coordinates)");
    let j = format!("\"{}\"", hex::encode(c));
    assert!(serde_json::from_str::<BBSplusPublicKey>(&j).is_err(), "off-subgroup pk accepted (JSON)");

    // JSON: the same non-canonical classes
    let mut xc0 = pk;
    xc0[48..].copy_from_slice(&fp_plus_p(&pk[48..]));
    let mut noflag = pk;
    noflag[0] &= 0x7f;
    for bad in [xc0.to_vec(), noflag.to_vec(), id.to_vec(), pk[..95].to_vec(), [pk.to_vec(), vec![0]].concat(), u.to_vec()] {
        let j = format!("\"{}\"", hex::encode(&bad));
        assert!(serde_json::from_str::<BBSplusPublicKey>(&j).is_err(), "{j}");
    }
}

#[test]
fn c09_public_key_coordinates_strict() {
    let kp = keypair::<Bls12381Shake256>(5);
    let pk = kp.public_key();
    let (x, y) = pk.to_coordinates();
    assert_eq!(x[0] & 0xe0, 0);
    assert_eq!(y[0] & 0xe0, 0);

    // flag bits in x
    for flag in [0x80u8, 0x40, 0x20, 0xa0, 0xc0, 0xe0] {
        let mut x2 = x;
        x2[0] |= flag;
        assert!(BBSplusPublicKey::from_coordinates(&x2, &y).is_err(), "flag {flag:#x} accepted");
    }
    // high bits in y.c1 / y.c0 / x.c0 (not flags: must make the element >= p)
    for pos in [0usize, 48] {
        for flag in [0x80u8, 0x40, 0x20] {
            let mut y2 = y;
            y2[pos] |= flag;
            assert!(BBSplusPublicKey::from_coordinates(&x, &y2).is_err());
        }
    }
    let mut x2 = x;
    x2[48] |= 0x80;
    assert!(BBSplusPublicKey::from_coordinates(&x2, &y).is_err());

    // coordinate + p
    let mut y2 = y;
    y2[..48].copy_from_slice(&fp_plus_p(&y[..48]));
    assert!(BBSplusPublicKey::from_coordinates(&x, &y2).is_err(), "y.c1 + p accepted");
    let mut y2 = y;
    y2[48..].copy_from_slice(&fp_plus_p(&y[48..]));
    assert!(BBSplusPublicKey::from_coordinates(&x, &y2).is_err(), "y.c0 + p accepted");
    let mut x2 = x;
    x2[48..].copy_from_slice(&fp_plus_p(&x[48..]));
    assert!(BBSplusPublicKey::from_coordinates(&x2, &y).is_err(), "x.c0 + p accepted");
    if let Some(x1) = flagged_plus_p(&x[..48]) {
        let mut x2 = x;
        x2[..48].copy_from_slice(&x1);
        assert!(BBSplusPublicKey::from_coordinates(&x2, &y).is_err(), "x.c1 + p accepted");
    }

    // identity in coordinate form (infinity flag, zero coordinates), and all-zero coordinates
    let mut xi = [0u8; 96];
    xi[0] = 0x40;
    assert!(BBSplusPublicKey::from_coordinates(&xi, &[0u8; 96]).is_err());
    assert!(BBSplusPublicKey::from_coordinates(&[0u8; 96], &[0u8; 96]).is_err());
    // infinity flag on a honest point
    let mut x2 = x;
    x2[0] |= 0x40;
    assert!(BBSplusPublicKey::from_coordinates(&x2, &y).is_err());

    // wrong y (off the curve): swapped halves, y of another key, single-bit flips
    let mut ys = [0u8; 96];
    ys[..48].copy_from_slice(&y[48..]);
    ys[48..].copy_from_slice(&y[..48]);
    assert!(BBSplusPublicKey::from_coordinates(&x, &ys).is_err());
    let (_, y_other) = keypair::<Bls12381Shake256>(6).public_key().to_coordinates();
    assert!(BBSplusPublicKey::from_coordinates(&x, &y_other).is_err());
    assert!(BBSplusPublicKey::from_coordinates(&y, &x).is_err());
    for bit in (0..768).step_by(13) {
        let mut y2 = y;
        y2[bit / 8] ^= 0x80 >> (bit % 8);
        if let Ok(k) = BBSplusPublicKey::from_coordinates(&x, &y2) {
            assert_eq!(k.to_coordinates(), (x, y2));
        }
        let mut x2 = x;
        x2[bit / 8] ^= 0x80 >> (bit % 8);
        if let Ok(k) = BBSplusPublicKey::from_coordinates(&x2, &y) {
            assert_eq!(k.to_coordinates(), (x2, y));
        }
    }

    // the negated point is a different, valid key and is reproduced exactly
    let neg = G2Affine::from(-pk.0).to_uncompressed();
    let (xn, yn): ([u8; 96], [u8; 96]) = (neg[..96].try_into().unwrap(), neg[96..].try_into().unwrap());
    assert_eq!(xn, x);
    let k = BBSplusPublicKey::from_coordinates(&xn, &yn).unwrap();
    assert_ne!(&k, pk);
    assert_eq!(k.to_coordinates(), (xn, yn));
}

// ---------------------------------------------------------------------------------------------
// 4. signature decoder (plain, blind, through proof_gen)
// ---------------------------------------------------------------------------------------------

#[test]
fn c09_signature_bitflips_are_canonical_or_refused() {
    let f = fixture::<Bls12381Sha256>(7);
    let sig = f.sig.to_bytes();
    for bit in 0..640 {
        let mut b = sig;
        b[bit / 8] ^= 0x80 >> (bit % 8);
        if let Ok(s) = Signature::<Sha>::from_bytes(&b) {
            assert_eq!(s.to_bytes(), b, "bit {bit}");
            assert_ne!(s, f.sig);
            // and it is not a valid signature any more (sampled: a verification costs two pairings)
            if bit < 8 || bit % 16 == 0 {
                assert!(s.verify(f.kp.public_key(), Some(&f.messages), Some(b"hdr")).is_err(), "bit {bit}");
            }
        }
        if bit % 4 == 0 {
            let r2 = BlindSignature::<Sha>::from_bytes(&b).map(|s| s.to_bytes());
            let r1 = Signature::<Sha>::from_bytes(&b).map(|s| s.to_bytes());
            assert_eq!(r1.is_ok(), r2.is_ok());
        }
    }
}

#[test]
fn c09_signature_forbidden_values() {
    let f = fixture::<Bls12381Shake256>(8);
    let sig = f.sig.to_bytes();
    let e: [u8; 32] = sig[48..].try_into().unwrap();
    let check_refused = |b: &[u8; 80], what: &str| {
        assert!(Signature::<Shake>::from_bytes(b).is_err(), "Signature::from_bytes accepted {what}");
        assert!(BlindSignature::<Shake>::from_bytes(b).is_err(), "BlindSignature::from_bytes accepted {what}");
        assert!(BBSplusSignature::from_bytes(b).is_err(), "BBSplusSignature::from_bytes accepted {what}");
        // the prover entry points take the octets
        assert!(
            PoKSignature::<Shake>::proof_gen(f.kp.public_key(), b, Some(b"hdr"), None, Some(&f.messages), None).is_err(),
            "proof_gen accepted {what}"
        );
        assert!(
            PoKSignature::<Shake>::blind_proof_gen(f.kp.public_key(), b, Some(b"hdr"), None, Some(&f.messages), None, None, None, None).is_err(),
            "blind_proof_gen accepted {what}"
        );
        // JSON form of the same values
        let j = format!("{{\"BBSplus\":{{\"A\":\"{}\",\"e\":\"{}\"}}}}", hex::encode(&b[..48]), hex::encode(&b[48..]));
        assert!(serde_json::from_str::<Signature<Shake>>(&j).is_err(), "JSON Signature accepted {what}");
        assert!(serde_json::from_str::<BlindSignature<Shake>>(&j).is_err(), "JSON BlindSignature accepted {what}");
        let j = format!("{{\"A\":\"{}\",\"e\":\"{}\"}}", hex::encode(&b[..48]), hex::encode(&b[48..]));
        assert!(serde_json::from_str::<BBSplusSignature>(&j).is_err(), "JSON BBSplusSignature accepted {what}");
    };

    // e = 0, e = r, e + r, e = 2^256-1
    let mut b = sig;
    b[48..].fill(0);
    check_refused(&b, "e = 0");
    let mut b = sig;
    b[48..].copy_from_slice(&r_be());
    check_refused(&b, "e = r");
    let mut b = sig;
    b[48..].copy_from_slice(&scalar_plus_r(&e));
    check_refused(&b, "e + r");
    let mut b = sig;
    b[48..].fill(0xff);
    check_refused(&b, "e = 2^256-1");

    // A = identity and malformed identities
    let mut b = sig;
    b[..48].copy_from_slice(&G1_IDENTITY);
    check_refused(&b, "A = identity");
    let mut b = sig;
    b[..48].copy_from_slice(&G1_IDENTITY);
    b[0] = 0xe0;
    check_refused(&b, "A = identity with sort flag");
    let mut b = sig;
    b[..48].copy_from_slice(&G1_IDENTITY);
    b[47] = 1;
    check_refused(&b, "A = infinity flag with non-zero x");
    let mut b = sig;
    b[..48].fill(0);
    check_refused(&b, "A = zeros");
    // compression flag cleared, infinity flag set on a honest point
    let mut b = sig;
    b[0] &= 0x7f;
    check_refused(&b, "A without compression flag");
    let mut b = sig;
    b[0] |= 0x40;
    check_refused(&b, "A with infinity flag");
    // A outside the subgroup
    let mut b = sig;
    b[..48].copy_from_slice(&g1_off_subgroup());
    check_refused(&b, "A off subgroup");

    // x + p, for signatures whose x is small enough
    let mut tried = 0;
    for i in 0..40u8 {
        let m = vec![vec![i]];
        let s = Signature::<Shake>::sign(Some(&m), f.kp.private_key(), f.kp.public_key(), None).unwrap().to_bytes();
        if let Some(x) = flagged_plus_p(&s[..48]) {
            let mut b = s;
            b[..48].copy_from_slice(&x);
            check_refused(&b, "A.x + p");
            tried += 1;
        }
    }
    assert!(tried > 0);

    // edges that ARE allowed: e = 1, e = r-1 decode and are reproduced
    let mut b = sig;
    b[48..].fill(0);
    b[79] = 1;
    assert_eq!(Signature::<Shake>::from_bytes(&b).unwrap().to_bytes(), b);
    let mut b = sig;
    b[48..].copy_from_slice(&dec_be(&r_be()));
    assert_eq!(Signature::<Shake>::from_bytes(&b).unwrap().to_bytes(), b);
}

#[test]
fn c09_proof_gen_signature_lengths() {
    let f = fixture::<Bls12381Sha256>(9);
    let sig = f.sig.to_bytes();
    for len in (0..=160usize).filter(|&l| l != 80) {
        let v: Vec<u8> = sig.iter().cycle().take(len).cloned().collect();
        assert!(PoKSignature::<Sha>::proof_gen(f.kp.public_key(), &v, Some(b"hdr"), None, Some(&f.messages), None).is_err());
        assert!(PoKSignature::<Sha>::blind_proof_gen(f.kp.public_key(), &v, Some(b"hdr"), None, Some(&f.messages), None, None, None, None).is_err());
        let mut w = sig.to_vec();
        w.resize(len, 0);
        assert!(PoKSignature::<Sha>::proof_gen(f.kp.public_key(), &w, Some(b"hdr"), None, Some(&f.messages), None).is_err());
    }
}

// ---------------------------------------------------------------------------------------------
// 5. proof decoder
// ---------------------------------------------------------------------------------------------

#[test]
fn c09_proof_lengths() {
    let f = fixture::<Bls12381Sha256>(10);
    for p in [&f.proof_some, &f.proof_all] {
        let b = p.to_bytes();
        // every truncation: either refused, or (whole scalars removed) a different object that re-encodes exactly
        for len in 0..b.len() {
            match PoKSignature::<Sha>::from_bytes(&b[..len]) {
                Ok(q) => {
                    assert!(len >= 272 && (len - 272) % 32 == 0, "len {len}");
                    assert_eq!(q.to_bytes(), &b[..len]);
                    assert_ne!(&q, p);
                }
                Err(_) => {}
            }
            if len < 272 || (len - 272) % 32 != 0 {
                assert!(PoKSignature::<Sha>::from_bytes(&b[..len]).is_err(), "len {len}");
                assert!(BBSplusPoKSignature::from_bytes(&b[..len]).is_err(), "len {len}");
            }
        }
        // every extension by 1..=64 bytes: refused, or a different object with an exact re-encoding
        for ext in 1..=64usize {
            for fill in [0x00u8, 0x01, 0xff] {
                let mut v = b.clone();
                v.extend(std::iter::repeat(fill).take(ext));
                match PoKSignature::<Sha>::from_bytes(&v) {
                    Ok(q) => {
                        assert!(ext % 32 == 0, "ext {ext}");
                        assert_eq!(q.to_bytes(), v);
                        assert_ne!(&q, p);
                    }
                    Err(_) => {}
                }
                if ext % 32 != 0 {
                    assert!(PoKSignature::<Sha>::from_bytes(&v).is_err(), "ext {ext}");
                }
            }
        }
    }
}

#[test]
fn c09_proof_forbidden_values() {
    let f = fixture::<Bls12381Shake256>(12);
    for p in [&f.proof_some, &f.proof_all] {
        let b = p.to_bytes();
        let n_scalars = (b.len() - 144) / 32;
        // identity / off-subgroup / malformed point at each of the 3 point positions
        let off = g1_off_subgroup();
        for pos in 0..3 {
            let rng = pos * 48..(pos + 1) * 48;
            let mut v = b.clone();
            v[rng.clone()].copy_from_slice(&G1_IDENTITY);
            assert!(PoKSignature::<Shake>::from_bytes(&v).is_err(), "identity at {pos}");
            let mut v = b.clone();
            v[rng.clone()].copy_from_slice(&off);
            assert!(PoKSignature::<Shake>::from_bytes(&v).is_err(), "off-subgroup at {pos}");
            let mut v = b.clone();
            v[pos * 48] &= 0x7f;
            assert!(PoKSignature::<Shake>::from_bytes(&v).is_err(), "no compression flag at {pos}");
            let mut v = b.clone();
            v[pos * 48] |= 0x40;
            assert!(PoKSignature::<Shake>::from_bytes(&v).is_err(), "infinity flag at {pos}");
            let mut v = b.clone();
            v[rng.clone()].copy_from_slice(&G1_IDENTITY);
            v[pos * 48] = 0xe0;
            assert!(PoKSignature::<Shake>::from_bytes(&v).is_err(), "identity+sort at {pos}");
            if let Some(x) = flagged_plus_p(&b[rng.clone()]) {
                let mut v = b.clone();
                v[rng.clone()].copy_from_slice(&x);
                assert!(PoKSignature::<Shake>::from_bytes(&v).is_err(), "x+p at {pos}");
            }
        }
        // a scalar not below r at each scalar position (including the last one, the challenge)
        for k in 0..n_scalars {
            let rng = 144 + 32 * k..144 + 32 * (k + 1);
            let s: [u8; 32] = b[rng.clone()].try_into().unwrap();
            for bad in [r_be(), scalar_plus_r(&s), [0xff; 32]] {
                let mut v = b.clone();
                v[rng.clone()].copy_from_slice(&bad);
                assert!(PoKSignature::<Shake>::from_bytes(&v).is_err(), "scalar {k}");
                assert!(BBSplusPoKSignature::from_bytes(&v).is_err(), "scalar {k}");
            }
        }
    }
}

#[test]
fn c09_proof_bitflips_are_canonical_or_refused() {
    let f = fixture::<Bls12381Sha256>(13);
    let b = f.proof_some.to_bytes();
    for bit in 0..b.len() * 8 {
        // all bits of the points' first bytes, every 3rd bit elsewhere
        if !(bit % 3 == 0 || (bit % 384) < 16) {
            continue;
        }
        let mut v = b.clone();
        v[bit / 8] ^= 0x80 >> (bit % 8);
        if let Ok(q) = PoKSignature::<Sha>::from_bytes(&v) {
            assert_eq!(q.to_bytes(), v, "bit {bit}");
            assert_ne!(q, f.proof_some);
        }
    }
}

#[test]
fn c09_proof_json_forbidden_values() {
    let f = fixture::<Bls12381Sha256>(14);
    let j = serde_json::to_value(&f.proof_some).unwrap();
    let off = hex::encode(g1_off_subgroup());
    let id = hex::encode(G1_IDENTITY);
    for field in ["Abar", "Bbar", "D"] {
        let honest = hex::decode(j["BBSplus"][field].as_str().unwrap()).unwrap();
        let mut noflag = honest.clone();
        noflag[0] &= 0x7f;
        let mut bads = vec![off.clone(), id.clone(), hex::encode(&noflag), hex::encode(&honest[..47]), format!("{}00", hex::encode(&honest))];
        if let Some(x) = flagged_plus_p(&honest) {
            bads.push(hex::encode(x));
        }
        for bad in bads {
            let mut k = j.clone();
            k["BBSplus"][field] = serde_json::Value::String(bad.clone());
            assert!(serde_json::from_value::<PoKSignature<Sha>>(k).is_err(), "{field} = {bad}");
        }
    }
    for field in ["e_cap", "r1_cap", "r3_cap", "challenge"] {
        let s: [u8; 32] = hex::decode(j["BBSplus"][field].as_str().unwrap()).unwrap().try_into().unwrap();
        for bad in [hex::encode(r_be()), hex::encode(scalar_plus_r(&s)), "ff".repeat(32), hex::encode(&s[..31]), format!("{}00", hex::encode(s))] {
            let mut k = j.clone();
            k["BBSplus"][field] = serde_json::Value::String(bad.clone());
            assert!(serde_json::from_value::<PoKSignature<Sha>>(k).is_err(), "{field} = {bad}");
        }
    }
    let s: [u8; 32] = hex::decode(j["BBSplus"]["m_cap"][1].as_str().unwrap()).unwrap().try_into().unwrap();
    for bad in [hex::encode(r_be()), hex::encode(scalar_plus_r(&s)), "ff".repeat(32)] {
        let mut k = j.clone();
        k["BBSplus"]["m_cap"][1] = serde_json::Value::String(bad.clone());
        assert!(serde_json::from_value::<PoKSignature<Sha>>(k).is_err(), "m_cap[1] = {bad}");
    }
}

// ---------------------------------------------------------------------------------------------
// 6. commitment decoder (and the entry points that take commitment octets)
// ---------------------------------------------------------------------------------------------

fn commit_refused<CS: BbsCiphersuite + std::fmt::Debug>(kp: &KeyPair<BBSplus<CS>>, v: &[u8], m_gens: usize) -> bool
where
    CS::Expander: for<'a> ExpandMsg<'a>,
{
    let a = Commitment::<BBSplus<CS>>::from_bytes(v).is_err();
    let b = BBSplusCommitment::from_bytes(v).is_err();
    assert_eq!(a, b);
    // the consumers hash generators: exercised near the length boundaries and on a sample elsewhere
    let l = v.len();
    let deep = l % 16 <= 1 || l % 16 == 15;
    if !deep {
        return a;
    }
    let gens = Generators::create::<CS>(m_gens + 1, Some(&[b"BLIND_", CS::API_ID_BLIND].concat()));
    let c = Commitment::<BBSplus<CS>>::deserialize_and_validate_commit(Some(v), &gens, Some(CS::API_ID_BLIND)).is_err();
    let d = BlindSignature::<BBSplus<CS>>::blind_sign(kp.private_key(), kp.public_key(), Some(v), None, None).is_err();
    // whatever the pure decoder refuses, the consumers refuse as well
    if a {
        assert!(c && d);
    }
    a && c && d
}

#[test]
fn c09_commitment_lengths() {
    let kp = keypair::<Bls12381Sha256>(15);
    for m in [0usize, 2] {
        let (c, _) = Commitment::<Sha>::commit(Some(&msgs(m))).unwrap();
        let b = c.to_bytes();
        for len in 1..b.len() {
            match Commitment::<Sha>::from_bytes(&b[..len]) {
                Ok(q) => {
                    assert!(len >= 112 && (len - 112) % 32 == 0);
                    assert_eq!(q.to_bytes(), &b[..len]);
                    assert_ne!(q, c);
                    // a truncated commitment is not a valid commitment: the signer refuses it
                    assert!(BlindSignature::<Sha>::blind_sign(kp.private_key(), kp.public_key(), Some(&b[..len]), None, None).is_err());
                }
                Err(_) => {}
            }
            if len < 112 || (len - 112) % 32 != 0 {
                assert!(commit_refused::<Bls12381Sha256>(&kp, &b[..len], m), "len {len}");
            }
        }
        for ext in 1..=64usize {
            for fill in [0u8, 0xff] {
                let mut v = b.clone();
                v.extend(std::iter::repeat(fill).take(ext));
                match Commitment::<Sha>::from_bytes(&v) {
                    Ok(q) => {
                        assert!(ext % 32 == 0);
                        assert_eq!(q.to_bytes(), v);
                        assert_ne!(q, c);
                        // extended commitment: the proof no longer verifies
                        assert!(BlindSignature::<Sha>::blind_sign(kp.private_key(), kp.public_key(), Some(&v), None, None).is_err());
                    }
                    Err(_) => {}
                }
                if ext % 32 != 0 {
                    assert!(commit_refused::<Bls12381Sha256>(&kp, &v, m + 2), "ext {ext}");
                }
            }
        }
        // the honest one is accepted by the consumers
        assert!(!commit_refused::<Bls12381Sha256>(&kp, &b, m));
    }
}

#[test]
fn c09_commitment_forbidden_values() {
    let kp = keypair::<Bls12381Shake256>(16);
    let (c, _) = Commitment::<Shake>::commit(Some(&msgs(2))).unwrap();
    let b = c.to_bytes();
    // point classes
    let mut v = b.clone();
    v[..48].copy_from_slice(&g1_off_subgroup());
    assert!(commit_refused::<Bls12381Shake256>(&kp, &v, 2), "off-subgroup commitment");
    let mut v = b.clone();
    v[0] &= 0x7f;
    assert!(commit_refused::<Bls12381Shake256>(&kp, &v, 2));
    let mut v = b.clone();
    v[0] |= 0x40;
    assert!(commit_refused::<Bls12381Shake256>(&kp, &v, 2));
    let mut v = b.clone();
    v[..48].copy_from_slice(&G1_IDENTITY);
    v[0] = 0xe0;
    assert!(commit_refused::<Bls12381Shake256>(&kp, &v, 2));
    let mut v = b.clone();
    v[..48].copy_from_slice(&G1_IDENTITY);
    v[47] = 1;
    assert!(commit_refused::<Bls12381Shake256>(&kp, &v, 2));
    let mut tried = 0;
    for i in 0..40 {
        let (c, _) = Commitment::<Shake>::commit(Some(&msgs(i % 3))).unwrap();
        let b = c.to_bytes();
        if let Some(x) = flagged_plus_p(&b[..48]) {
            let mut v = b.clone();
            v[..48].copy_from_slice(&x);
            assert!(commit_refused::<Bls12381Shake256>(&kp, &v, i % 3), "x + p");
            tried += 1;
        }
    }
    assert!(tried > 0);
    // scalar classes
    let n = (b.len() - 48) / 32;
    for k in 0..n {
        let rng = 48 + 32 * k..48 + 32 * (k + 1);
        let s: [u8; 32] = b[rng.clone()].try_into().unwrap();
        for bad in [r_be(), scalar_plus_r(&s), [0xff; 32]] {
            let mut v = b.clone();
            v[rng.clone()].copy_from_slice(&bad);
            assert!(commit_refused::<Bls12381Shake256>(&kp, &v, 2), "scalar {k}");
            assert!(BBSplusZKPoK::from_bytes(&v[48..]).is_err());
        }
    }
    // bit flips: canonical or refused; never accepted by the signer
    for bit in (0..b.len() * 8).filter(|b| b % 3 == 0 || *b < 16) {
        let mut v = b.clone();
        v[bit / 8] ^= 0x80 >> (bit % 8);
        if let Ok(q) = Commitment::<Shake>::from_bytes(&v) {
            assert_eq!(q.to_bytes(), v);
            assert_ne!(q, c);
        }
    }
    // JSON classes
    let j = serde_json::to_value(&c).unwrap();
    for bad in [hex::encode(g1_off_subgroup()), hex::encode(&b[..47]), format!("{}00", hex::encode(&b[..48]))] {
        let mut k = j.clone();
        k["BBSplus"]["commitment"] = serde_json::Value::String(bad.clone());
        assert!(serde_json::from_value::<Commitment<Shake>>(k).is_err(), "commitment = {bad}");
    }
    for field in ["s_cap", "challenge"] {
        let s: [u8; 32] = hex::decode(j["BBSplus"]["proof"][field].as_str().unwrap()).unwrap().try_into().unwrap();
        for bad in [hex::encode(r_be()), hex::encode(scalar_plus_r(&s)), "ff".repeat(32)] {
            let mut k = j.clone();
            k["BBSplus"]["proof"][field] = serde_json::Value::String(bad.clone());
            assert!(serde_json::from_value::<Commitment<Shake>>(k).is_err(), "{field} = {bad}");
        }
    }
}

#[test]
fn c09_zkpok_lengths() {
    let (c, _) = Commitment::<Sha>::commit(Some(&msgs(1))).unwrap();
    let b = c.to_bytes()[48..].to_vec();
    assert_eq!(b.len(), 96);
    for len in 0..=200usize {
        let v: Vec<u8> = b.iter().cycle().take(len).cloned().collect();
        match BBSplusZKPoK::from_bytes(&v) {
            Ok(q) => {
                assert!(len >= 64 && len % 32 == 0, "len {len}");
                assert_eq!(q.to_bytes(), v);
            }
            Err(_) => assert!(len < 64 || len % 32 != 0, "len {len} refused"),
        }
    }
}

/// READING NOTE. The statement lists "public key, signature point, proof points" as the places where the identity is
/// forbidden. The Blind BBS draft additionally refuses an Identity_G1 commitment point when the commitment octets are
/// parsed. This candidate asserts the stricter reading; see the report for how it is classified.
#[test]
fn c09_commitment_identity_point_refused_by_decoder() {
    // a commitment to no messages with blind factor 0 is the identity; a valid proof for it can be computed by anyone:
    // here only the decoder is exercised
    let (c, _) = Commitment::<Sha>::commit(None).unwrap();
    let mut v = c.to_bytes();
    v[..48].copy_from_slice(&G1_IDENTITY);
    assert!(
        Commitment::<Sha>::from_bytes(&v).is_err(),
        "the commitment decoder accepts the identity as commitment point"
    );
}

// ---------------------------------------------------------------------------------------------
// 7. scalar helpers that are public entry points
// ---------------------------------------------------------------------------------------------

#[test]
fn c09_message_scalar_and_scalar_ext_strict() {
    let m = BBSplusMessage::map_message_to_scalar_as_hash::<Bls12381Sha256>(b"x", Bls12381Sha256::API_ID).unwrap();
    let b = m.to_bytes_be();
    assert_eq!(BBSplusMessage::from_bytes_be(&b).unwrap(), m);
    assert!(BBSplusMessage::from_bytes_be(&r_be()).is_err());
    assert!(BBSplusMessage::from_bytes_be(&scalar_plus_r(&b)).is_err());
    assert!(BBSplusMessage::from_bytes_be(&[0xff; 32]).is_err());
    let j = serde_json::to_string(&m).unwrap();
    assert_eq!(serde_json::from_str::<BBSplusMessage>(&j).unwrap(), m);
    let j = format!("{{\"value\":\"{}\"}}", hex::encode(scalar_plus_r(&b)));
    assert!(serde_json::from_str::<BBSplusMessage>(&j).is_err());

    for len in (0..=96usize).filter(|&l| l != 32) {
        let v: Vec<u8> = b.iter().cycle().take(len).cloned().collect();
        assert!(<Scalar as ScalarExt>::from_bytes_be(&v).is_err(), "len {len}");
    }
    assert!(<Scalar as ScalarExt>::from_bytes_be(&r_be()).is_err());
    assert_eq!(<Scalar as ScalarExt>::from_bytes_be(&b).unwrap().to_bytes_be(), b);
    assert_eq!(hex::decode(ScalarExt::encode(&m.value)).unwrap(), b);
}

// ---------------------------------------------------------------------------------------------
// 8. two distinct octet strings never decode to the same object: cross-check over a pool
// ---------------------------------------------------------------------------------------------

#[test]
fn c09_no_two_strings_one_object_pool() {
    // pool of accepted strings for the signature decoder built from flips of flag bits, sign bits and e bytes
    let f = fixture::<Bls12381Sha256>(17);
    let sig = f.sig.to_bytes();
    let mut accepted: Vec<([u8; 80], BBSplusSignature)> = Vec::new();
    let mut cands = vec![sig];
    for m in [0x80u8, 0x40, 0x20, 0x10] {
        let mut b = sig;
        b[0] ^= m;
        cands.push(b);
    }
    for i in 48..80 {
        let mut b = sig;
        b[i] ^= 1;
        cands.push(b);
        let mut b = sig;
        b[i] = b[i].wrapping_add(0x80);
        cands.push(b);
    }
    for c in cands {
        if let Ok(s) = BBSplusSignature::from_bytes(&c) {
            accepted.push((c, s));
        }
    }
    for i in 0..accepted.len() {
        for j in 0..i {
            if accepted[i].1 == accepted[j].1 {
                assert_eq!(accepted[i].0, accepted[j].0);
            }
        }
    }
    assert!(accepted.len() > 10);
}

// ---------------------------------------------------------------------------------------------
// 9. objects whose projective representation is not normalised survive the codecs
// ---------------------------------------------------------------------------------------------

#[test]
fn c09_unnormalised_projective_objects_roundtrip() {
    // pk = sk * BP2 computed in projective form (z != 1) and the doubled/added forms
    let kp = keypair::<Bls12381Sha256>(18);
    let pk = kp.public_key();
    let same = BBSplusPublicKey(pk.0 + G2Projective::GENERATOR - G2Projective::GENERATOR);
    assert_eq!(&same, pk);
    assert_eq!(same.to_bytes(), pk.to_bytes());
    assert_eq!(same.to_coordinates(), pk.to_coordinates());
    assert_eq!(serde_json::to_string(&same).unwrap(), serde_json::to_string(pk).unwrap());
    let f = fixture::<Bls12381Sha256>(18);
    let s = f.sig.bbsPlusSignature();
    let s2 = BBSplusSignature { A: s.A + G1Projective::GENERATOR - G1Projective::GENERATOR, e: s.e };
    assert_eq!(&s2, s);
    assert_eq!(s2.to_bytes(), s.to_bytes());
    assert_eq!(serde_json::to_string(&s2).unwrap(), serde_json::to_string(s).unwrap());
}

// ---------------------------------------------------------------------------------------------
// 10. the serde checks cannot be bypassed through the other shapes serde accepts for the same types
//     (sequence form of a struct, unknown extra fields, the generic enums)
// ---------------------------------------------------------------------------------------------

#[test]
fn c09_json_alternative_shapes_keep_the_checks() {
    let f = fixture::<Bls12381Sha256>(19);
    let sig = f.sig.to_bytes();
    let (a, e) = (hex::encode(&sig[..48]), hex::encode(&sig[48..]));
    let id = hex::encode(G1_IDENTITY);
    let zero = "00".repeat(32);
    let off = hex::encode(g1_off_subgroup());
    let r = hex::encode(r_be());

    // honest sequence form decodes to the same object (serde's derive accepts it)
    let s: BBSplusSignature = serde_json::from_str(&format!("[\"{a}\",\"{e}\"]")).unwrap();
    assert_eq!(&s, f.sig.bbsPlusSignature());
    for (pa, pe) in [(&id, &e), (&a, &zero), (&off, &e), (&a, &r)] {
        // sequence form
        let j = format!("[\"{pa}\",\"{pe}\"]");
        assert!(serde_json::from_str::<BBSplusSignature>(&j).is_err(), "{j}");
        let j = format!("{{\"BBSplus\":[\"{pa}\",\"{pe}\"]}}");
        assert!(serde_json::from_str::<Signature<Sha>>(&j).is_err(), "{j}");
        assert!(serde_json::from_str::<BlindSignature<Sha>>(&j).is_err(), "{j}");
        // extra field
        let j = format!("{{\"A\":\"{pa}\",\"e\":\"{pe}\",\"zz\":0}}");
        assert!(serde_json::from_str::<BBSplusSignature>(&j).is_err(), "{j}");
        // reversed field order
        let j = format!("{{\"e\":\"{pe}\",\"A\":\"{pa}\"}}");
        assert!(serde_json::from_str::<BBSplusSignature>(&j).is_err(), "{j}");
    }

    // proof in sequence form
    let v = serde_json::to_value(&f.proof_some).unwrap();
    let p = &v["BBSplus"];
    let fields = ["Abar", "Bbar", "D", "e_cap", "r1_cap", "r3_cap", "m_cap", "challenge"];
    let honest: Vec<serde_json::Value> = fields.iter().map(|k| p[*k].clone()).collect();
    let q: BBSplusPoKSignature = serde_json::from_value(serde_json::Value::Array(honest.clone())).unwrap();
    assert_eq!(&q, f.proof_some.to_bbsplus_proof());
    for pos in 0..3 {
        for bad in [&id, &off] {
            let mut s = honest.clone();
            s[pos] = serde_json::Value::String(bad.clone());
            assert!(serde_json::from_value::<BBSplusPoKSignature>(serde_json::Value::Array(s.clone())).is_err());
            let w = serde_json::json!({ "BBSplus": s });
            assert!(serde_json::from_value::<PoKSignature<Sha>>(w).is_err());
        }
    }
    for pos in [3usize, 4, 5, 7] {
        let mut s = honest.clone();
        s[pos] = serde_json::Value::String(r.clone());
        assert!(serde_json::from_value::<BBSplusPoKSignature>(serde_json::Value::Array(s)).is_err());
    }

    // key pair in sequence form, identity public key / zero secret key
    let pk = f.kp.public_key().encode();
    let sk = f.kp.private_key().encode();
    let mut idg2 = [0u8; 96];
    idg2[0] = 0xc0;
    let kp: KeyPair<Sha> = serde_json::from_str(&format!("[\"{pk}\",\"{sk}\"]")).unwrap();
    assert_eq!(kp, f.kp);
    for (ppk, psk) in [(hex::encode(idg2), sk.clone()), (pk.clone(), zero.clone()), (pk.clone(), r.clone()), (hex::encode(g2_off_subgroup().to_compressed()), sk.clone())] {
        let j = format!("[\"{ppk}\",\"{psk}\"]");
        assert!(serde_json::from_str::<KeyPair<Sha>>(&j).is_err(), "{j}");
    }
}

// ---------------------------------------------------------------------------------------------
// 11. sizes around 255 / 256 / 257 elements
// ---------------------------------------------------------------------------------------------

#[test]
fn c09_large_objects_roundtrip() {
    let kp = keypair::<Bls12381Sha256>(20);
    let messages = msgs(257);
    let sig = Signature::<Sha>::sign(Some(&messages), kp.private_key(), kp.public_key(), None).unwrap();
    let proof = PoKSignature::<Sha>::proof_gen(kp.public_key(), &sig.to_bytes(), None, None, Some(&messages), Some(&[256])).unwrap();
    let b = proof.to_bytes();
    assert_eq!(b.len(), 272 + 256 * 32);
    let p2 = PoKSignature::<Sha>::from_bytes(&b).unwrap();
    assert_eq!(p2, proof);
    assert_eq!(p2.to_bytes(), b);
    let j = serde_json::to_string(&proof).unwrap();
    assert_eq!(serde_json::from_str::<PoKSignature<Sha>>(&j).unwrap(), proof);
    p2.proof_verify(kp.public_key(), Some(&[messages[256].clone()]), Some(&[256]), None, None).unwrap();
    for cut in [1usize, 31, 33] {
        assert!(PoKSignature::<Sha>::from_bytes(&b[..b.len() - cut]).is_err());
    }

    let (c, _) = Commitment::<Sha>::commit(Some(&msgs(256))).unwrap();
    let cb = c.to_bytes();
    assert_eq!(cb.len(), 48 + 32 * 258);
    let c2 = Commitment::<Sha>::from_bytes(&cb).unwrap();
    assert_eq!(c2, c);
    assert_eq!(c2.to_bytes(), cb);
}

// ---------------------------------------------------------------------------------------------
// 12. zero scalars inside proofs (not a class the statement forbids): accepted strings are canonical
// ---------------------------------------------------------------------------------------------

#[test]
fn c09_proof_zero_scalars_are_canonical() {
    let f = fixture::<Bls12381Sha256>(22);
    let b = f.proof_some.to_bytes();
    let n = (b.len() - 144) / 32;
    for k in 0..n {
        let mut v = b.clone();
        v[144 + 32 * k..144 + 32 * (k + 1)].fill(0);
        if let Ok(q) = PoKSignature::<Sha>::from_bytes(&v) {
            assert_eq!(q.to_bytes(), v);
            assert_ne!(q, f.proof_some);
            let disclosed = vec![f.messages[1].clone(), f.messages[3].clone()];
            assert!(q.proof_verify(f.kp.public_key(), Some(&disclosed), Some(&[1, 3]), Some(b"hdr"), Some(b"ph")).is_err());
        }
    }
}

// ---------------------------------------------------------------------------------------------
// 13. identity commitment, end to end (same READING NOTE as c09_commitment_identity_point_refused_by_decoder)
// ---------------------------------------------------------------------------------------------

#[test]
fn c09_commitment_identity_point_refused_by_signer() {
    use zkryptium::utils::util::bbsplus_utils::calculate_blind_challenge;
    type CS = Bls12381Sha256;
    let kp = keypair::<CS>(23);
    let messages = msgs(2);
    // a well-formed proof of knowledge for the commitment C = Identity_G1 (blind factor 0, no committed messages)
    let gens = Generators::create::<CS>(1, Some(&[b"BLIND_", CS::API_ID_BLIND].concat())).values;
    let s_tilde = Scalar::from(5u64);
    let cbar = gens[0] * s_tilde;
    let c = calculate_blind_challenge::<CS>(G1Projective::IDENTITY, cbar, &gens, Some(CS::API_ID_BLIND)).unwrap();
    let mut octets = G1_IDENTITY.to_vec();
    octets.extend_from_slice(&s_tilde.to_be_bytes());
    octets.extend_from_slice(&c.to_be_bytes());
    assert_eq!(octets.len(), 112);

    let with_identity = BlindSignature::<Sha>::blind_sign(kp.private_key(), kp.public_key(), Some(&octets), Some(b"hdr"), Some(&messages));
    assert!(
        with_identity.is_err(),
        "blind_sign accepts commitment octets whose point is the identity (and signs as if no commitment was given: {})",
        with_identity.as_ref().ok().map(|s| s.to_bytes())
            == BlindSignature::<Sha>::blind_sign(kp.private_key(), kp.public_key(), None, Some(b"hdr"), Some(&messages)).ok().map(|s| s.to_bytes())
    );
}
