#![cfg(feature = "cl03")]
#![allow(non_snake_case)]
// Red-team candidates for PROPERTY C14 (CL03 blind issuance). Every test ASSERTS WHAT THE PROPERTY REQUIRES.
// Fixed key material (CL1024) is embedded so that the statement side of every test is deterministic
// (the library draws its own randomness for commitments / proofs / signatures).

use rug::Integer;
use serde_json::Value;
use std::panic::{catch_unwind, AssertUnwindSafe};
use zkryptium::cl03::bases::Bases;
use zkryptium::cl03::ciphersuites::{CL1024Sha256, CL2048Sha256};
use zkryptium::cl03::commitment::CL03Commitment;
use zkryptium::cl03::keys::{CL03CommitmentPublicKey, CL03PublicKey, CL03SecretKey};
use zkryptium::schemes::algorithms::CL03;
use zkryptium::schemes::generics::{BlindSignature, Commitment, Signature, ZKPoK};
use zkryptium::utils::message::cl03_message::CL03Message;

type CS = CL1024Sha256;
type S = CL03<CS>;

const PK: &str = r#"{"N":{"radix":16,"value":"27e5c5c6e59bbffb144c8aeb92b659f4d239895f0307902b71c6984d8fb4846001fecd49756cdf9ffaea93999b28eb9af649ffdfa71a8a53b8f725596aa42f050227a8202e55ef46ee2592f97a51a11c49d14fb9584eca3efdbb9b17d6604eb67b8699277f8dfde98b65330ca21dfb6daac8542d92a621d7e2ef84de02d568c05"},"b":{"radix":16,"value":"1293e14486bee3f1b0a025b9c8cb02291eb00fc1e4e913d5c69e928c2769dcddc4d0db2c9f99e26fc33388710e76c4584bb338bc366c42688e6714ce01c2698e62ce65667bf031d56dc15d84ce80d0f3aec755fa1390ecc61216e67a02151ab194fed5eea32f62e67c5ec2cb4065e560c79e76759782f3a6a197132e9e5f287b3"},"c":{"radix":16,"value":"48ae445210966a0d89fea35058f725b699a32860964e8776d4f3995a9b1dc657dbdf282d787e1c92327828cede6adea5dc7919431b2b08ada8a01e0ca030d4c94ab8960f7f65c73943d4291f5da4b9874c8ade17fa26044773e43e79064a3131bddee7a4e440209fc58ca154991eed20eef387d2e5bc70c8f74a8d255484a3ae"}}"#;
const SK: &str = r#"{"p":{"radix":16,"value":"14e7f848c599106016bdb57dee5f1dd22a8884ae6c66edc7a3ebfc1892c53d4aee9feec9452971084c60b1882cc950ca3b5f178c251472dd3c8e78a0b161f365b"},"q":{"radix":16,"value":"1e88dccbeb5b60678bc4390fec44f29ed7589d762956a40fc5c71db2b05608251efcc6738dd5654a0c214d776d31b786bf04f0fa0332ca85188e1b9ae4a84951f"}}"#;
const BASES: &str = r#"[{"radix":16,"value":"117203bd5b3a1824db9e1618848152746d13ec1c881cb108995c8a61651437211f45f77c611ddcc573bf17614b4fe0d5c89df9dc172c77b7eacbf1f4d81ca19baa9d16ce7d54fb067eae5ccff86be3be000b08e4074bfbea84e0e1358707cd0b8eaf1415981bfd7903dedc817b6359384d626780213a3e3ab99f144059be31c8c"},{"radix":16,"value":"107bae8fdd7723d43424d19c48441f32b8c6a1a525428fd9246cfe5ea5f230ad66de32803071ea491d7e93e45935b4b512e6bbcf0e2d8b0125f2a3f920e323b06eabaf318d44fe2ee0a891d39e8c6785cecd75f3908537f2d91979485b6c1d64dcec31afe0552ffb4fb8eb27dc46bf4cda041bb3e2ee5af2e1d52a4ded4782a7e"},{"radix":16,"value":"99864353ed0ba7a3be60f2e4c22a019752f8d69eaf81ce0c126b7766426119acdea8bcf5eb10906be3ab40244b7bcd35fca7d4f224e674312547f0658863aa127a3db8b1b75d0108ecc3453f9f35b3e9c108dee99de3417b7f3a7ff551b7b16058af7e4a4a91d5e8c6fa96f4f5aceb208aca4fa8cd2d3f36007a9378cc7ac1c"},{"radix":16,"value":"275dd404caf0d4ee1e4e8eadd9c483ddcdd8bab0a4d5a6d09b33bbfc5e725b5d6e420b300afa73632b88242f7ece15a77a7fe504fa1049a36178a8f2d6ace10b7eb32dbdba768c70397a82d0d58cea7098c13c25720477285a4495b16d6bd7727da93ed61eaba1fea905e04d1b5d98efab7e01f59715f2aaab9e5bf79ce1333ae"},{"radix":16,"value":"a9bbd079aab09c2d55ac3babd5a2ca5fc76e97353be64e42b6727ea575df200191c84a4d4dc0e1d7b3694d791915397ff90d454bfa5db6dc0c380b386c87cc6d83dddcab6e0c8f25e0d52622e59a964e2905f4c2e313834253f37b7808b629cc8bd9cabd9bdf2b0d1776042fcaa286a0000b2b06a07e470b7990f2352efd57b6"}]"#;
const CPK: &str = r#"{"N":{"radix":16,"value":"17a6505ee4ae560a1e701c72e382c6dcb0cf9284c2d6f697ebbd8ad5f676e6301acaa617288548efdbc649dce0dbba51343ffde01ca5102ebada5c773cdce3262e01968f86bf644d0c27600aaa26c0ff6dcf9ea039ba2865c646c1688abf308423fe0c079ac0baa5426a083b53c926ad1ac0bc919281a71830bd18a5a9802505d"},"h":{"radix":16,"value":"35bb2c8c1d4e38d753fc54ae05bf5ec29a01870127f024700075f6205d0e4399ef314990fd236ccedd1f7a694defa016e07f07f14e2ba66628f0424c43143433522ee64ea60a9577e52c4ff13f43b56d73e6b8b38c6d04393199b3eddaa4a0d54ebca1a4530a8cabb2e10311c7b419480dec2a70d9a74d5209b3c47b1b620ad3"},"g_bases":[{"radix":16,"value":"940613f2e054cc20dcc289aa63c0797f5211f5dc6e8ec771f59ea6cc80a991ee383246bf4212ed43b8f157bdf50b67d02afa88628c1d0d12a7687acfa0ec22f588c5bbb1263dfd5b0e6cc0bd30f1d1c2a51439f6390f6f539b8b644f1dde1cf59dfb37925a06d58df6c27a81db97bb1061d1cb120a11a50ab5e9ef8c357d85ed"},{"radix":16,"value":"ff3f40858313400d0b27bc323ce8268a91f942236e7b6069a3c6554cf73996f13bf097c89fe65a94476e4727e4964f38ff8e81b5d1f9701fd3e85416d41f0993a7d4365cb3bf7abb5cce607e07af13863ef08480ab34be3addb31ea2853ebd681c28ac808ce6873419687a591d2d364716bc5be42adf04b9b4394855faeb543f"},{"radix":16,"value":"10f061fbd9f3253e05e9725e21418e9da3218f566e40ef37dcd4c1e5f898dba72c6a009e5efeaa7bdb1c86681e39a1cd8e40232084c6d0290d9cccc88564e162abed805d90b8cf00600fb1cd7c0149cec4ed08c6fe6d7bdbe8a495900294f800e9bb43dc661f712fa8ee0e5c6c29b37b9fd60af624b468e4cb57d66452254784f"},{"radix":16,"value":"d4e6d0b1328ea13a9a6076968c88e6e2ff8a9ac774fbda478c9815b5e1b9cd5d7abef8fb073433fe0c8ad16cd89e96b7c78326709a2d4c09259402a16a3f5e46c5a55c1801a539c4b8428a1ef7b7b23be45d6d4fb0f2e6e5f3b0a0c8fc3217176acae45a1692f3d1682528c950428bbe3a57b7ae42f94cf718f69f8170b7c038"},{"radix":16,"value":"4137520377d39c61620360b12a18618e2f0d4fdce692acbff97e1c4a18af0dc7687786318c457e6926a53e8f9b93fbdf9037c1fa47348c07e3ce003ccbd5b251aa58d2ed1cd22b761f2c33826a84c949171d9b3f484526e8271c85b7644e91295640029ecf59b8261be42d6df63488df6cfe93fb852765cb6cc64143757ca36c"}]}"#;

fn pk() -> CL03PublicKey { serde_json::from_str(PK).unwrap() }
fn sk() -> CL03SecretKey { serde_json::from_str(SK).unwrap() }
fn bases(n: usize) -> Bases { let b: Bases = serde_json::from_str(BASES).unwrap(); Bases(b.0[..n].to_vec()) }
fn cpk(n: usize) -> CL03CommitmentPublicKey {
    let mut c: CL03CommitmentPublicKey = serde_json::from_str(CPK).unwrap();
    c.g_bases.truncate(n);
    c
}
fn msgs(n: usize) -> Vec<CL03Message> {
    (0..n).map(|i| CL03Message::map_message_to_integer_as_hash::<CS>(format!("attribute-{}", i).as_bytes())).collect()
}
fn complement(n: usize, u: &[usize]) -> Vec<usize> { (0..n).filter(|i| !u.contains(i)).collect() }
fn pick(m: &[CL03Message], idx: &[usize]) -> Vec<CL03Message> { idx.iter().map(|&i| m[i].clone()).collect() }
fn subsets(n: usize) -> Vec<Vec<usize>> {
    (1u32..(1u32 << n)).map(|mask| (0..n).filter(|i| mask & (1 << i) != 0).collect()).collect()
}
fn quiet<T>(f: impl FnOnce() -> T) -> std::thread::Result<T> { catch_unwind(AssertUnwindSafe(f)) }

struct Session {
    n: usize,
    u: Vec<usize>,
    rev: Vec<usize>,
    m: Vec<CL03Message>,
    a: Bases,
    c: Commitment<S>,
    ct: Option<Commitment<S>>,
    cpk: Option<CL03CommitmentPublicKey>,
    zk: ZKPoK<S>,
}

fn session_with(m: Vec<CL03Message>, u: &[usize], trusted: bool) -> Session {
    let n = m.len();
    let a = bases(n);
    let c = Commitment::<S>::commit_with_pk(&m, &pk(), &a, Some(u));
    let (ct, k) = if trusted {
        let k = cpk(n);
        (Some(Commitment::<S>::commit_with_commitment_pk(&m, &k, Some(u))), Some(k))
    } else {
        (None, None)
    };
    let zk = ZKPoK::<S>::generate_proof(&m, c.cl03Commitment(), ct.as_ref().map(|x| x.cl03Commitment()), &pk(), &a, k.as_ref(), u);
    Session { n, u: u.to_vec(), rev: complement(n, u), m, a, c, ct, cpk: k, zk }
}
fn session(n: usize, u: &[usize], trusted: bool) -> Session { session_with(msgs(n), u, trusted) }

impl Session {
    fn verify(&self) -> bool {
        self.zk.verify_proof(self.c.cl03Commitment(), self.ct.as_ref().map(|x| x.cl03Commitment()), &pk(), &self.a, self.cpk.as_ref(), &self.u)
    }
    fn sign(&self) -> BlindSignature<S> {
        let r = pick(&self.m, &self.rev);
        BlindSignature::<S>::blind_sign(&pk(), &sk(), &self.a, &self.zk, Some(&r), self.c.cl03Commitment(),
            self.ct.as_ref().map(|x| x.cl03Commitment()), self.cpk.as_ref(), &self.u, Some(&self.rev))
    }
    fn issue(&self) -> Signature<S> { self.sign().unblind_sign(&self.c) }
}

fn full_flow(n: usize, u: &[usize], trusted: bool) {
    let s = session(n, u, trusted);
    assert!(s.verify(), "verify_proof must accept: n={} U={:?} trusted={}", n, u, trusted);
    let sig = s.issue();
    assert!(sig.verify_multiattr(&pk(), &s.a, &s.m), "signature must verify: n={} U={:?} trusted={}", n, u, trusted);
    // and on nothing else: change one hidden and one revealed attribute
    for j in 0..n {
        let mut other = s.m.clone();
        other[j] = CL03Message::new(other[j].value.clone() ^ Integer::from(1));
        assert!(!sig.verify_multiattr(&pk(), &s.a, &other), "signature valid on another vector");
    }
}

// ---------------------------------------------------------------------------------------------------------
// F1: every non-empty subset, n = 1..=5, without a trusted commitment
#[test]
fn f01_all_subsets_no_trusted() {
    for n in 1..=5 { for u in subsets(n) { full_flow(n, &u, false); } }
}

// F2: every non-empty subset, n = 1..=4 (and the extreme ones for n = 5), with a trusted commitment
#[test]
fn f02_all_subsets_trusted() {
    for n in 1..=4 { for u in subsets(n) { full_flow(n, &u, true); } }
    for u in [vec![4], vec![0, 4], vec![1, 2, 3], vec![0, 1, 2, 3, 4]] { full_flow(5, &u, true); }
}

// F3: hidden positions listed in another order than ascending (same SET of positions): honest flow
#[test]
fn f03_unsorted_hidden_positions() {
    for (n, u) in [(3usize, vec![2usize, 0]), (4, vec![3, 1, 2]), (5, vec![4, 0, 2])] {
        full_flow(n, &u, false);
        full_flow(n, &u, true);
    }
}

// F4: attribute values at the ends of the range [0, 2^lm - 1], hidden and revealed, equal attributes
#[test]
fn f04_edge_attribute_values() {
    let max = (Integer::from(1) << 256u32) - 1u32;
    let vals = vec![Integer::from(0), max.clone(), Integer::from(1), max.clone(), Integer::from(0)];
    let m: Vec<CL03Message> = vals.into_iter().map(CL03Message::new).collect();
    for u in [vec![0usize], vec![1], vec![0, 1], vec![2, 3, 4], vec![0, 1, 2, 3, 4]] {
        for trusted in [false, true] {
            let s = session_with(m.clone(), &u, trusted);
            assert!(s.verify());
            assert!(s.issue().verify_multiattr(&pk(), &s.a, &s.m));
        }
    }
    // one attribute only, at both ends
    for v in [Integer::from(0), max] {
        let s = session_with(vec![CL03Message::new(v)], &[0], false);
        assert!(s.verify());
        assert!(s.issue().verify_multiattr(&pk(), &s.a, &s.m));
    }
}

// F5: all attributes hidden: the three ways of saying "nothing revealed"
#[test]
fn f05_nothing_revealed_spellings() {
    let s = session(3, &[0, 1, 2], false);
    let empty_m: Vec<CL03Message> = vec![];
    let empty_i: Vec<usize> = vec![];
    for (rm, ri) in [(None, None), (Some(&empty_m[..]), Some(&empty_i[..])), (None, Some(&empty_i[..])), (Some(&empty_m[..]), None)] {
        let b = BlindSignature::<S>::blind_sign(&pk(), &sk(), &s.a, &s.zk, rm, s.c.cl03Commitment(), None, None, &s.u, ri);
        assert!(b.unblind_sign(&s.c).verify_multiattr(&pk(), &s.a, &s.m));
    }
}

// F6: commit_with_pk(.., None) means "all hidden"; sibling convention of extend_commitment_with_pk: None = positions 0..len.
// blind_sign takes Option for the revealed positions as well: with the hidden positions at the END (U = {n-1}) and the revealed
// attributes given without an index list, the issuance must still give a signature on the full vector (or refuse) -
// the property: "for every subset ... yield a signature that verifies on the full attribute vector".
#[test]
fn f06_revealed_indexes_none_is_not_silently_dropped() {
    let s = session(3, &[2], false);
    let r = pick(&s.m, &[0, 1]);
    let out = quiet(|| BlindSignature::<S>::blind_sign(&pk(), &sk(), &s.a, &s.zk, Some(&r), s.c.cl03Commitment(), None, None, &s.u, None));
    match out {
        Err(_) => {} // a refusal would be acceptable
        Ok(b) => {
            let sig = b.unblind_sign(&s.c);
            assert!(sig.verify_multiattr(&pk(), &s.a, &s.m),
                "blind_sign(revealed_messages = Some, revealed_message_indexes = None) returned a signature that ignores the revealed attributes");
        }
    }
}

// F6b: same for update_signature
#[test]
fn f06b_update_revealed_indexes_none_is_not_silently_dropped() {
    let s = session(3, &[2], false);
    let b = s.sign();
    let mut m2 = s.m.clone();
    m2[1] = CL03Message::new(Integer::from(77));
    let r2 = pick(&m2, &[0, 1]);
    let out = quiet(|| b.update_signature(Some(&r2), s.c.cl03Commitment(), &sk(), &pk(), &s.a, None));
    match out {
        Err(_) => {}
        Ok(b2) => assert!(b2.unblind_sign(&s.c).verify_multiattr(&pk(), &s.a, &m2),
            "update_signature(revealed = Some, indexes = None) returned a signature that ignores the revealed attributes"),
    }
}

// F7: a hidden-position list with a repeated position is not a set of positions. The sibling verifier (PoKSignature::proof_verify)
// refuses such lists; here the whole honest pipeline runs through. The property requires that what the issuer returns verifies on the
// attribute vector (or that the issuer refuses).
#[test]
fn f07_repeated_hidden_position() {
    let m = msgs(3);
    let a = bases(3);
    let u = [0usize, 0usize];
    let c = Commitment::<S>::commit_with_pk(&m, &pk(), &a, Some(&u));
    let zk = ZKPoK::<S>::generate_proof(&m, c.cl03Commitment(), None, &pk(), &a, None, &u);
    let r = pick(&m, &[1, 2]);
    let out = quiet(|| {
        if !zk.verify_proof(c.cl03Commitment(), None, &pk(), &a, None, &u) { panic!("refused"); }
        BlindSignature::<S>::blind_sign(&pk(), &sk(), &a, &zk, Some(&r), c.cl03Commitment(), None, None, &u, Some(&[1, 2]))
    });
    match out {
        Err(_) => {}
        Ok(b) => assert!(b.unblind_sign(&c).verify_multiattr(&pk(), &a, &m),
            "issuer signed for hidden positions [0, 0]; the signature is not on the attribute vector"),
    }
}

// F8: hidden and revealed positions that overlap / do not cover 0..n: the issuer-side argument interaction.
// Required (reading: "the issuer does not sign when the proof does not match the hidden positions"): refusal, or a signature on the vector.
#[test]
fn f08_hidden_and_revealed_overlap() {
    let s = session(3, &[0], false);
    let r = pick(&s.m, &[0, 1, 2]);
    let out = quiet(|| BlindSignature::<S>::blind_sign(&pk(), &sk(), &s.a, &s.zk, Some(&r), s.c.cl03Commitment(), None, None, &s.u, Some(&[0, 1, 2])));
    match out {
        Err(_) => {}
        Ok(b) => assert!(b.unblind_sign(&s.c).verify_multiattr(&pk(), &s.a, &s.m),
            "position 0 both hidden and revealed: signed a_0^(2 m_0)"),
    }
}

// ---------------------------------------------------------------------------------------------------------
// mismatches: verify_proof = false and blind_sign refuses

fn refuses(s: &Session, zk: &ZKPoK<S>, c: &CL03Commitment, ct: Option<&CL03Commitment>, p: &CL03PublicKey, a: &Bases,
           k: Option<&CL03CommitmentPublicKey>, u: &[usize], what: &str) {
    let v = quiet(|| zk.verify_proof(c, ct, p, a, k, u));
    assert!(matches!(v, Ok(false)), "{}: verify_proof must return false, got {:?}", what, v.map_err(|_| "panic"));
    let rev = complement(s.n, u);
    let r = pick(&s.m, &rev);
    let b = quiet(|| BlindSignature::<S>::blind_sign(p, &sk(), a, zk, Some(&r), c, ct, k, u, Some(&rev)));
    assert!(b.is_err(), "{}: blind_sign returned a signature", what);
}

// F9: commitment to other attributes / other randomness / another representative of the same residue
#[test]
fn f09_other_commitment() {
    for trusted in [false, true] {
        let s = session(3, &[1, 2], trusted);
        let ct = s.ct.as_ref().map(|x| x.cl03Commitment());
        let k = s.cpk.as_ref();
        let mut m2 = s.m.clone();
        m2[2] = CL03Message::new(Integer::from(5));
        let c2 = Commitment::<S>::commit_with_pk(&m2, &pk(), &s.a, Some(&s.u));
        refuses(&s, &s.zk, c2.cl03Commitment(), ct, &pk(), &s.a, k, &s.u, "other attribute");
        let c3 = Commitment::<S>::commit_with_pk(&s.m, &pk(), &s.a, Some(&s.u));
        refuses(&s, &s.zk, c3.cl03Commitment(), ct, &pk(), &s.a, k, &s.u, "other randomness");
        let mut c4 = s.c.cl03Commitment().clone();
        c4.value += &pk().N;
        refuses(&s, &s.zk, &c4, ct, &pk(), &s.a, k, &s.u, "C + N");
        let mut c5 = s.c.cl03Commitment().clone();
        c5.value -= &pk().N;
        refuses(&s, &s.zk, &c5, ct, &pk(), &s.a, k, &s.u, "C - N");
        // commitment over other positions of the same attributes
        let c6 = Commitment::<S>::commit_with_pk(&s.m, &pk(), &s.a, Some(&[0, 1]));
        refuses(&s, &s.zk, c6.cl03Commitment(), ct, &pk(), &s.a, k, &s.u, "commitment over other positions");
    }
}

// F10: other hidden positions handed to the verifier (same length, subset, superset, reordered, shifted)
#[test]
fn f10_other_hidden_positions() {
    for trusted in [false, true] {
        let s = session(4, &[1, 3], trusted);
        let ct = s.ct.as_ref().map(|x| x.cl03Commitment());
        let k = s.cpk.as_ref();
        for u in [vec![0usize, 3], vec![1, 2], vec![3, 1], vec![1], vec![3], vec![1, 3, 3], vec![0, 1, 3], vec![0, 1, 2, 3], vec![]] {
            refuses(&s, &s.zk, s.c.cl03Commitment(), ct, &pk(), &s.a, k, &u, &format!("U={:?} trusted={}", u, trusted));
        }
    }
}

// F11: other bases / other public key
#[test]
fn f11_other_bases_or_pk() {
    let s = session(3, &[1], false);
    let c = s.c.cl03Commitment();
    // a base of a hidden position, and a_0 (used by the part of the proof about r)
    for i in [0usize, 1] {
        let mut a = s.a.clone();
        a.0[i] = Integer::from(&a.0[i] * &a.0[i]) % &pk().N;
        refuses(&s, &s.zk, c, None, &pk(), &a, None, &s.u, &format!("a_{} squared", i));
    }
    // bases permuted
    let mut a = s.a.clone();
    a.0.swap(1, 2);
    refuses(&s, &s.zk, c, None, &pk(), &a, None, &s.u, "bases 1 and 2 swapped");
    // b, N of another key
    let mut p = pk();
    p.b = Integer::from(&p.b * &p.b) % &p.N;
    refuses(&s, &s.zk, c, None, &p, &s.a, None, &s.u, "other b");
    let mut p = pk();
    p.N = cpk(1).N;
    let v = quiet(|| s.zk.verify_proof(c, None, &p, &s.a, None, &s.u));
    assert!(matches!(v, Ok(false)), "other N");
}

// F12: the trusted commitment: other attributes, other key, absent / present on one side only, other positions
#[test]
fn f12_trusted_commitment_mismatch() {
    let s = session(3, &[0, 2], true);
    let c = s.c.cl03Commitment();
    let k = s.cpk.clone().unwrap();
    let ct = s.ct.as_ref().unwrap().cl03Commitment();
    let mut m2 = s.m.clone();
    m2[0] = CL03Message::new(Integer::from(9));
    let ct2 = Commitment::<S>::commit_with_commitment_pk(&m2, &k, Some(&s.u));
    refuses(&s, &s.zk, c, Some(ct2.cl03Commitment()), &pk(), &s.a, Some(&k), &s.u, "trusted commitment to other attributes");
    let ct3 = Commitment::<S>::commit_with_commitment_pk(&s.m, &k, Some(&s.u));
    refuses(&s, &s.zk, c, Some(ct3.cl03Commitment()), &pk(), &s.a, Some(&k), &s.u, "trusted commitment with other randomness");
    let ct4 = Commitment::<S>::commit_with_commitment_pk(&s.m, &k, Some(&[0, 1]));
    refuses(&s, &s.zk, c, Some(ct4.cl03Commitment()), &pk(), &s.a, Some(&k), &s.u, "trusted commitment over other positions");
    let mut k2 = k.clone();
    k2.g_bases.swap(0, 2);
    refuses(&s, &s.zk, c, Some(ct), &pk(), &s.a, Some(&k2), &s.u, "commitment key with g_0, g_2 swapped");
    let mut k3 = k.clone();
    k3.h = Integer::from(&k3.h * &k3.h) % &k3.N;
    refuses(&s, &s.zk, c, Some(ct), &pk(), &s.a, Some(&k3), &s.u, "commitment key with other h");
    refuses(&s, &s.zk, c, None, &pk(), &s.a, None, &s.u, "proof has the trusted part, issuer has no trusted commitment");
    refuses(&s, &s.zk, c, Some(ct), &pk(), &s.a, None, &s.u, "trusted commitment without its key");
    refuses(&s, &s.zk, c, None, &pk(), &s.a, Some(&k), &s.u, "key without trusted commitment");
    let plain = session(3, &[0, 2], false);
    refuses(&plain, &plain.zk, plain.c.cl03Commitment(), Some(ct), &pk(), &plain.a, Some(&k), &plain.u, "proof without the trusted part");
    // the trusted part of another session (same attributes, other C)
    let other = session(3, &[0, 2], true);
    let mut j = serde_json::to_value(&s.zk).unwrap();
    let jo = serde_json::to_value(&other.zk).unwrap();
    j["CL03"]["proof_C_Ctrusted"] = jo["CL03"]["proof_C_Ctrusted"].clone();
    let spliced: ZKPoK<S> = serde_json::from_value(j).unwrap();
    refuses(&s, &spliced, c, Some(ct), &pk(), &s.a, Some(&k), &s.u, "trusted part of another session");
}

// ---------------------------------------------------------------------------------------------------------
// F13: field-wise edits of the ZKPoK through its JSON form: every integer leaf, +1 / negated / + N
// (the `randomness` leaves are excluded: known, never read)
fn leaves(v: &Value, path: String, out: &mut Vec<String>) {
    match v {
        Value::Object(m) => {
            if m.contains_key("radix") && m.contains_key("value") { out.push(path); return; }
            for (k, x) in m { leaves(x, format!("{}/{}", path, k), out); }
        }
        Value::Array(a) => for (i, x) in a.iter().enumerate() { leaves(x, format!("{}/{}", path, i), out); },
        _ => {}
    }
}
fn get_int(v: &Value, p: &str) -> Integer { serde_json::from_value(v.pointer(p).unwrap().clone()).unwrap() }
fn set_int(v: &mut Value, p: &str, x: &Integer) { *v.pointer_mut(p).unwrap() = serde_json::to_value(x).unwrap(); }

#[test]
fn f13_fieldwise_edits() {
    for trusted in [false, true] {
        let s = session(3, &[1, 2], trusted);
        let j = serde_json::to_value(&s.zk).unwrap();
        let mut ps = vec![];
        leaves(&j, String::new(), &mut ps);
        assert!(ps.len() > 40);
        let n = pk().N;
        let mut accepted = vec![];
        let mut panicked = vec![];
        for p in ps.iter().filter(|p| !p.ends_with("/randomness")) {
            let x = get_int(&j, p);
            for (name, y) in [("+1", Integer::from(&x + 1u32)), ("neg", Integer::from(-&x)), ("+N", Integer::from(&x + &n))] {
                let mut j2 = j.clone();
                set_int(&mut j2, p, &y);
                let zk: ZKPoK<S> = serde_json::from_value(j2).unwrap();
                match quiet(|| zk.verify_proof(s.c.cl03Commitment(), s.ct.as_ref().map(|x| x.cl03Commitment()), &pk(), &s.a, s.cpk.as_ref(), &s.u)) {
                    Ok(false) => {}
                    Ok(true) => accepted.push(format!("{} {}", p, name)),
                    Err(_) => panicked.push(format!("{} {}", p, name)),
                }
            }
        }
        assert!(accepted.is_empty(), "edited proofs accepted: {:?}", accepted);
        assert!(panicked.is_empty(), "edited proofs made verify_proof panic: {:?}", panicked);
    }
}

// F14: structural edits: list lengths, order of the per-attribute entries
#[test]
fn f14_structural_edits_return_false() {
    let s = session(3, &[0, 2], true);
    let j = serde_json::to_value(&s.zk).unwrap();
    let try_it = |j2: Value| -> Result<bool, ()> {
        let zk: ZKPoK<S> = serde_json::from_value(j2).unwrap();
        quiet(|| zk.verify_proof(s.c.cl03Commitment(), s.ct.as_ref().map(|x| x.cl03Commitment()), &pk(), &s.a, s.cpk.as_ref(), &s.u)).map_err(|_| ())
    };
    let mut bad = vec![];
    for (what, ptr) in [("s1", "/CL03/proof_commited_msgs/s1"), ("d", "/CL03/proof_C_Ctrusted/d"),
                        ("proofs_commited_mi", "/CL03/proofs_commited_mi"), ("range_proofs_mi", "/CL03/range_proofs_mi")] {
        // drop the last entry, duplicate the last entry, empty the list, swap the two entries
        let arr = j.pointer(ptr).unwrap().as_array().unwrap().clone();
        let mut variants: Vec<(&str, Vec<Value>)> = vec![];
        variants.push(("truncated", arr[..arr.len() - 1].to_vec()));
        let mut longer = arr.clone(); longer.push(arr[arr.len() - 1].clone());
        variants.push(("extended", longer));
        variants.push(("emptied", vec![]));
        let mut sw = arr.clone(); sw.swap(0, 1);
        variants.push(("swapped", sw));
        for (vname, v) in variants {
            let mut j2 = j.clone();
            *j2.pointer_mut(ptr).unwrap() = Value::Array(v);
            match try_it(j2) {
                Ok(false) => {}
                Ok(true) => bad.push(format!("{} {}: ACCEPTED", what, vname)),
                Err(()) => bad.push(format!("{} {}: panic", what, vname)),
            }
        }
    }
    assert!(bad.is_empty(), "verify_proof must return false for these edits: {:?}", bad);
}

// F15: hidden positions outside the bases: verify_proof must return false (reading: the statement says `verify_proof = false` for "other U")
#[test]
fn f15_hidden_position_out_of_range() {
    let s = session(3, &[2], false);
    let v = quiet(|| s.zk.verify_proof(s.c.cl03Commitment(), None, &pk(), &s.a, None, &[3]));
    assert!(matches!(v, Ok(false)), "U = [3] with three bases: expected false, got {:?}", v.map_err(|_| "panic"));
}

// F16: parts of one artefact in another: the proof of session A with the commitment of session B and the other way round,
// and the multi-secret part of A spliced in the proof of B
#[test]
fn f16_cross_session() {
    let a = session(3, &[1], false);
    let b = session(3, &[1], false);
    refuses(&a, &a.zk, b.c.cl03Commitment(), None, &pk(), &a.a, None, &a.u, "proof A, commitment B");
    let mut jb = serde_json::to_value(&b.zk).unwrap();
    let ja = serde_json::to_value(&a.zk).unwrap();
    jb["CL03"]["proof_commited_msgs"] = ja["CL03"]["proof_commited_msgs"].clone();
    let spliced: ZKPoK<S> = serde_json::from_value(jb).unwrap();
    refuses(&b, &spliced, b.c.cl03Commitment(), None, &pk(), &b.a, None, &b.u, "multi-secret part of A in proof B, commitment B");
}

// F17: the other ciphersuite type over the same artefacts (same lm, other ln): the proof of a CL1024 session read as a CL2048 proof
#[test]
fn f17_other_ciphersuite_type() {
    let s = session(2, &[1], false);
    let j = serde_json::to_value(&s.zk).unwrap();
    let zk2: ZKPoK<CL03<CL2048Sha256>> = serde_json::from_value(j).unwrap();
    let v = quiet(|| zk2.verify_proof(s.c.cl03Commitment(), None, &pk(), &s.a, None, &s.u));
    assert!(matches!(v, Ok(false)), "CL1024 proof verified under the CL2048 parameters: {:?}", v.map_err(|_| "panic"));
}

// ---------------------------------------------------------------------------------------------------------
// update_signature
// F18: for several hidden sets (not only {0}), with and without trusted commitment: valid on the updated vector, not on the old one,
// the first signature stays valid on the old vector only
#[test]
fn f18_update_signature() {
    for (n, u, j) in [(3usize, vec![0usize], 1usize), (3, vec![2], 0), (4, vec![1, 3], 2), (5, vec![0, 1, 2, 4], 3), (2, vec![1], 0)] {
        for trusted in [false, true] {
            let s = session(n, &u, trusted);
            let b = s.sign();
            let sig = b.unblind_sign(&s.c);
            assert!(sig.verify_multiattr(&pk(), &s.a, &s.m));
            for newv in [Integer::from(0), (Integer::from(1) << 256u32) - 1u32, Integer::from(&s.m[j].value + 1u32)] {
                let mut m2 = s.m.clone();
                m2[j] = CL03Message::new(newv);
                if m2[j].value >= (Integer::from(1) << 256u32) { continue; }
                let r2 = pick(&m2, &s.rev);
                let b2 = b.update_signature(Some(&r2), s.c.cl03Commitment(), &sk(), &pk(), &s.a, Some(&s.rev));
                let sig2 = b2.unblind_sign(&s.c);
                assert!(sig2.verify_multiattr(&pk(), &s.a, &m2), "updated signature invalid on the updated vector");
                assert!(!sig2.verify_multiattr(&pk(), &s.a, &s.m), "updated signature valid on the old vector");
                assert!(!sig.verify_multiattr(&pk(), &s.a, &m2), "old signature valid on the updated vector");
            }
        }
    }
}

// F19: update with revealed positions given in another order (pairs stay aligned)
#[test]
fn f19_update_signature_reordered_revealed() {
    let s = session(4, &[2], false);
    let b = s.sign();
    let mut m2 = s.m.clone();
    m2[3] = CL03Message::new(Integer::from(1234));
    let idx = [3usize, 0, 1];
    let r2 = pick(&m2, &idx);
    let sig2 = b.update_signature(Some(&r2), s.c.cl03Commitment(), &sk(), &pk(), &s.a, Some(&idx)).unblind_sign(&s.c);
    assert!(sig2.verify_multiattr(&pk(), &s.a, &m2));
    assert!(!sig2.verify_multiattr(&pk(), &s.a, &s.m));
}

// F20: blind_sign with revealed positions in another order / revealed lists of unequal lengths / out-of-range revealed position
#[test]
fn f20_revealed_argument_shapes() {
    let s = session(4, &[1], false);
    let idx = [3usize, 0, 2];
    let r = pick(&s.m, &idx);
    let b = BlindSignature::<S>::blind_sign(&pk(), &sk(), &s.a, &s.zk, Some(&r), s.c.cl03Commitment(), None, None, &s.u, Some(&idx));
    assert!(b.unblind_sign(&s.c).verify_multiattr(&pk(), &s.a, &s.m));
    // one revealed attribute too few / too many, or a position beyond the bases: no signature
    let r_short = pick(&s.m, &[3, 0]);
    assert!(quiet(|| BlindSignature::<S>::blind_sign(&pk(), &sk(), &s.a, &s.zk, Some(&r_short), s.c.cl03Commitment(), None, None, &s.u, Some(&idx))).is_err());
    assert!(quiet(|| BlindSignature::<S>::blind_sign(&pk(), &sk(), &s.a, &s.zk, Some(&r), s.c.cl03Commitment(), None, None, &s.u, Some(&[3, 0]))).is_err());
    assert!(quiet(|| BlindSignature::<S>::blind_sign(&pk(), &sk(), &s.a, &s.zk, Some(&r), s.c.cl03Commitment(), None, None, &s.u, Some(&[3, 0, 4]))).is_err());
}

// F21: the artefacts survive their JSON form (issuer and holder are different processes): commitment value, proof, blind signature
#[test]
fn f21_json_roundtrip_between_parties() {
    let s = session(3, &[1, 2], true);
    let zk: ZKPoK<S> = serde_json::from_str(&serde_json::to_string(&s.zk).unwrap()).unwrap();
    // the issuer only ever sees the value of C: the randomness field it receives is a dummy
    let c_pub = CL03Commitment { value: s.c.value().clone(), randomness: Integer::from(0) };
    let ct_pub = CL03Commitment { value: s.ct.as_ref().unwrap().value().clone(), randomness: Integer::from(0) };
    assert!(zk.verify_proof(&c_pub, Some(&ct_pub), &pk(), &s.a, s.cpk.as_ref(), &s.u));
    let r = pick(&s.m, &s.rev);
    let b = BlindSignature::<S>::blind_sign(&pk(), &sk(), &s.a, &zk, Some(&r), &c_pub, Some(&ct_pub), s.cpk.as_ref(), &s.u, Some(&s.rev));
    let b: BlindSignature<S> = serde_json::from_str(&serde_json::to_string(&b).unwrap()).unwrap();
    assert!(b.unblind_sign(&s.c).verify_multiattr(&pk(), &s.a, &s.m));
}

// F22: more bases than attributes on the issuer side (bases for 5, credential of 3), commitment key with more g than needed,
// and a commitment key that shares N with the issuer
#[test]
fn f22_more_bases_than_attributes() {
    let m = msgs(3);
    let a = bases(5);
    let k = CL03CommitmentPublicKey::generate::<CS>(Some(pk().N), Some(5));
    for u in [vec![2usize], vec![0, 1], vec![1, 2]] {
        let c = Commitment::<S>::commit_with_pk(&m, &pk(), &a, Some(&u));
        let ct = Commitment::<S>::commit_with_commitment_pk(&m, &k, Some(&u));
        let zk = ZKPoK::<S>::generate_proof(&m, c.cl03Commitment(), Some(ct.cl03Commitment()), &pk(), &a, Some(&k), &u);
        assert!(zk.verify_proof(c.cl03Commitment(), Some(ct.cl03Commitment()), &pk(), &a, Some(&k), &u));
        let rev = complement(3, &u);
        let r = pick(&m, &rev);
        let b = BlindSignature::<S>::blind_sign(&pk(), &sk(), &a, &zk, Some(&r), c.cl03Commitment(), Some(ct.cl03Commitment()), Some(&k), &u, Some(&rev));
        assert!(b.unblind_sign(&c).verify_multiattr(&pk(), &a, &m));
    }
}

// F12b: another representative of the SAME trusted commitment (C_trusted + N'): the same residue, hence not a mismatch in the sense of the
// statement (the equality proof does not hash its statement - already recorded); what the property requires is only that what gets
// signed is still the holder's vector
#[test]
fn f12b_trusted_commitment_other_representative() {
    let s = session(3, &[0, 2], true);
    let k = s.cpk.clone().unwrap();
    let mut ct5 = s.ct.as_ref().unwrap().cl03Commitment().clone();
    ct5.value += &k.N;
    let r = pick(&s.m, &s.rev);
    let out = quiet(|| BlindSignature::<S>::blind_sign(&pk(), &sk(), &s.a, &s.zk, Some(&r), s.c.cl03Commitment(), Some(&ct5), Some(&k), &s.u, Some(&s.rev)));
    if let Ok(b) = out {
        assert!(b.unblind_sign(&s.c).verify_multiattr(&pk(), &s.a, &s.m));
    }
}

// F13b: field-wise edits, the value 0 in every integer leaf (0 is a canonical residue, and is not invertible):
// verify_proof must return false (strict reading of "verify_proof = false"; inside blind_sign a panic is a refusal all the same)
#[test]
fn f13b_fieldwise_zero_edits() {
    let s = session(2, &[1], true);
    let j = serde_json::to_value(&s.zk).unwrap();
    let mut ps = vec![];
    leaves(&j, String::new(), &mut ps);
    let mut accepted = vec![];
    let mut panicked = vec![];
    for p in ps.iter().filter(|p| !p.ends_with("/randomness")) {
        let mut j2 = j.clone();
        set_int(&mut j2, p, &Integer::from(0));
        let zk: ZKPoK<S> = serde_json::from_value(j2).unwrap();
        match quiet(|| zk.verify_proof(s.c.cl03Commitment(), s.ct.as_ref().map(|x| x.cl03Commitment()), &pk(), &s.a, s.cpk.as_ref(), &s.u)) {
            Ok(false) => {}
            Ok(true) => accepted.push(p.clone()),
            Err(_) => panicked.push(p.clone()),
        }
    }
    assert!(accepted.is_empty(), "edited proofs accepted: {:?}", accepted);
    assert!(panicked.is_empty(), "verify_proof panicked instead of returning false for a 0 in: {:?}", panicked);
}

// F13c: the commitments themselves equal to 0 (not a commitment to anything): verify_proof = false
#[test]
fn f13c_zero_commitments() {
    let s = session(2, &[1], true);
    let zero = CL03Commitment { value: Integer::from(0), randomness: Integer::from(0) };
    let ct = s.ct.as_ref().unwrap().cl03Commitment();
    let v1 = quiet(|| s.zk.verify_proof(&zero, Some(ct), &pk(), &s.a, s.cpk.as_ref(), &s.u)).map_err(|_| "panic");
    let v2 = quiet(|| s.zk.verify_proof(s.c.cl03Commitment(), Some(&zero), &pk(), &s.a, s.cpk.as_ref(), &s.u)).map_err(|_| "panic");
    let p = session(2, &[1], false);
    let v3 = quiet(|| p.zk.verify_proof(&zero, None, &pk(), &p.a, None, &p.u)).map_err(|_| "panic");
    assert!(v1 == Ok(false) && v2 == Ok(false) && v3 == Ok(false), "C = 0: {:?}, C_trusted = 0: {:?}, C = 0 without trusted: {:?}", v1, v2, v3);
}

// F11b: LITERAL reading of "other bases/pk => verify_proof = false": a public key that differs only in c, a base list that differs
// only at a position that is neither hidden nor 0. (The statement proven does not involve them: no impact seen; recorded for the reading.)
#[test]
fn f11b_other_c_or_unrelated_base() {
    let s = session(3, &[1], false);
    let c = s.c.cl03Commitment();
    let mut p = pk();
    p.c = Integer::from(&p.c * &p.c) % &p.N;
    let v_c = s.zk.verify_proof(c, None, &p, &s.a, None, &s.u);
    let mut a = s.a.clone();
    a.0[2] = Integer::from(&a.0[2] * &a.0[2]) % &pk().N;
    let v_a = s.zk.verify_proof(c, None, &pk(), &a, None, &s.u);
    assert!(!v_c && !v_a, "accepted under a key with another c: {}, under bases with another a_2: {}", v_c, v_a);
}

// F23: the other scheme's variant inside the CL03-typed enum (both features are on in a default + cl03 build): verify_proof = false
#[cfg(feature = "bbsplus")]
#[test]
fn f23_bbs_variant_in_cl03_zkpok() {
    use bls12_381_plus::Scalar;
    use zkryptium::bbsplus::proof::BBSplusZKPoK;
    let s = session(2, &[1], false);
    let alien: ZKPoK<S> = ZKPoK::BBSplus(BBSplusZKPoK::new(Scalar::ONE, vec![Scalar::ONE], Scalar::ONE));
    let v = quiet(|| alien.verify_proof(s.c.cl03Commitment(), None, &pk(), &s.a, None, &s.u)).map_err(|_| "panic");
    assert_eq!(v, Ok(false));
}

// F24: mixing the two commitment kinds: a commitment made with the commitment key (which here shares N with the issuer) offered as C
#[test]
fn f24_commitment_kind_mixed() {
    let m = msgs(3);
    let a = bases(3);
    let u = [1usize];
    let k = CL03CommitmentPublicKey::generate::<CS>(Some(pk().N), Some(3));
    let c = Commitment::<S>::commit_with_commitment_pk(&m, &k, Some(&u));
    let zk = ZKPoK::<S>::generate_proof(&m, c.cl03Commitment(), None, &pk(), &a, None, &u);
    assert!(!zk.verify_proof(c.cl03Commitment(), None, &pk(), &a, None, &u));
    let r = pick(&m, &[0, 2]);
    assert!(quiet(|| BlindSignature::<S>::blind_sign(&pk(), &sk(), &a, &zk, Some(&r), c.cl03Commitment(), None, None, &u, Some(&[0, 2]))).is_err());
}

// F25: prover-side argument interactions: trusted commitment given without its key (or the key without the commitment) to generate_proof:
// the proof silently lacks the trusted part; the issuer that expects it must refuse, the issuer that does not must accept
#[test]
fn f25_prover_side_trusted_arguments() {
    let m = msgs(3);
    let a = bases(3);
    let u = [1usize, 2];
    let k = cpk(3);
    let c = Commitment::<S>::commit_with_pk(&m, &pk(), &a, Some(&u));
    let ct = Commitment::<S>::commit_with_commitment_pk(&m, &k, Some(&u));
    let z1 = ZKPoK::<S>::generate_proof(&m, c.cl03Commitment(), Some(ct.cl03Commitment()), &pk(), &a, None, &u);
    let z2 = ZKPoK::<S>::generate_proof(&m, c.cl03Commitment(), None, &pk(), &a, Some(&k), &u);
    for z in [&z1, &z2] {
        assert!(!z.verify_proof(c.cl03Commitment(), Some(ct.cl03Commitment()), &pk(), &a, Some(&k), &u));
        assert!(z.verify_proof(c.cl03Commitment(), None, &pk(), &a, None, &u));
    }
}

// F22b: a trusted party's key with FEWER bases than the issuer has attributes, but enough for the hidden positions
#[test]
fn f22b_commitment_key_shorter_than_vector() {
    let m = msgs(4);
    let a = bases(4);
    let k = cpk(2);
    let u = [0usize, 1];
    let c = Commitment::<S>::commit_with_pk(&m, &pk(), &a, Some(&u));
    let ct = Commitment::<S>::commit_with_commitment_pk(&m, &k, Some(&u));
    let zk = ZKPoK::<S>::generate_proof(&m, c.cl03Commitment(), Some(ct.cl03Commitment()), &pk(), &a, Some(&k), &u);
    assert!(zk.verify_proof(c.cl03Commitment(), Some(ct.cl03Commitment()), &pk(), &a, Some(&k), &u));
    let r = pick(&m, &[2, 3]);
    let b = BlindSignature::<S>::blind_sign(&pk(), &sk(), &a, &zk, Some(&r), c.cl03Commitment(), Some(ct.cl03Commitment()), Some(&k), &u, Some(&[2, 3]));
    assert!(b.unblind_sign(&c).verify_multiattr(&pk(), &a, &m));
}

// F26: the unblinded signature through the byte encoding of the plain interface still verifies on the full vector (and only there)
#[test]
fn f26_unblinded_signature_bytes_roundtrip() {
    let s = session(3, &[1], false);
    let sig = s.issue();
    let sig2 = Signature::<S>::from_bytes(&sig.to_bytes());
    assert!(sig2.verify_multiattr(&pk(), &s.a, &s.m));
    let mut other = s.m.clone();
    other[1] = CL03Message::new(Integer::from(3));
    assert!(!sig2.verify_multiattr(&pk(), &s.a, &other));
}
