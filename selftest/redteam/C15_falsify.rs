#![cfg(feature = "cl03")]
#![allow(non_snake_case, dead_code)]
//! Red-team candidates for PROPERTY C15 (CL03 proof of knowledge of a signature: complete and bound to
//! its statement).  Every test ASSERTS WHAT THE PROPERTY REQUIRES: a failing test is a demonstrated violation.
//!
//! Reading used for panics: as the QUANTIFIER says, "a refusal by panic also counts as not verifying"
//! (for the negative clauses).  For the positive (completeness) clause a panic of proof_gen / proof_verify
//! on an honest input counts as a violation.
//!
//! Key material is fixed (CL1024 issuer key pair, 6 attribute bases, commitment key with 6 bases over the
//! issuer modulus), generated once with the crate's own generators and embedded below as serde JSON.

const KP_JSON: &str = r#"{"public":{"N":{"radix":16,"value":"26fe5f33e43a4d73d5ff9123066dfea073aa0ca9e029d01107ad793380a935fed1c1116d7ab5dcf863f95ec57a22b5b54f25c7547d17789c9265199838ac9a0b2c52c041822b2c837165708554681cae66c4ad5b159a15ca9af9c41b5f5356c923ae61d695b8946099aefae59b6493b3f06d5f5d2910b5d9b059a4ccbec0d615d"},"b":{"radix":16,"value":"1fc5bcaa7da9192e924cbdbf8e7e741d4f945cbef6d0330dd0738a604c60f7a20ad0df37e7f4529aa3dffd05060959ad1c5baea01caa3188043edbf767a74e84a0dc93b131e8840cbab64b240300c56cff3e76be3b1f2f50edbe108d02566fced82e9f9ea8c0972529a8eeabcbfe427331ff2ec29a03a7f6d920f129c3c20b43b"},"c":{"radix":16,"value":"37778de697f5b71e15668afc65382c330e1e55ef2685891782d8025e0141979264b395278e253ed19df57af86a2877c5dcda95836cd33018290ed507031211260662abd1d12b355ad5583566c84ae6d13ca6dbd8a2eeb3eaddc00932093f20c9475b9bca08eefd2bd40202cb29de886fbe7c502d7a736e99ff9dde840e6c55e5"}},"private":{"p":{"radix":16,"value":"14afc5ee1a9a5db49339e260293376f951de40b005240871b742a195dc633ba72542f00a4179fc2c414149d76480ef40f874fe2f28b24f2336bb23e0b0ab9e88f"},"q":{"radix":16,"value":"1e28d5f98bbdb6cf46c577f244790fbd54c48729508b0ae2242952e0f1688b49381c9b917469d89324c4c69ea8b7d94114e07ee04180c7fa944bbe16bdc38d553"}}}"#;
const BASES_JSON: &str = r#"[{"radix":16,"value":"1c6bb02d212013f6cf40a4ed2295c96c6d4eae13d1ac81fb760567151c2d8813855cb1f01accf6fe605ee91897c4a991dc88d372f055d8a3f5250e3d042374fefb8b3c635b60b4fd6965b6355168b566526d0a4080279deb4d2157d7d1866c1abd707e9f955c155d4e1d5cb567dbbb60ed63d893deb49b2e7187393c95e46d5d7"},{"radix":16,"value":"190ad871887b2acf94dcd72356a32abb6b6870d21ffedf48ae6e3901137842b2c855aa42b5e6e7fcb087a0e55486cddd3636bf4dfc30badf7e55b39545f91a6becb65798c3ad8bba312430ba80da00cd74bc7fa1aa46fdc7c69b45054a4dbbfc4c4e318099acba4012456d691221ef47256eeb712a626a586a1081436e962213f"},{"radix":16,"value":"1b40853d38b71e9b48f746c031f8b2c46c954260c2957cb011b86c88011af3e64c4d6f458d25e8cfce5c8181612d897ac9ac63dde49603a30a4ce8b100793a2b09373ab616377c161e1d73727864062994e85c5bf2c9975e4decd1242a36cde0fc548d615660c3f6d8c10ac8aa63dda808e4657a436f53841c823612091fa862f"},{"radix":16,"value":"b4928d2b76c81c9f0c8067fb7b24160f696fc3f48ee844834151a6920cf8f3653c6a430a41d05f71b04f0a90314876986d22d375c871de3e0890db55ecacdc04b446525d2df67bba3d3e0c3b7f62b56c55234be2fbe17392477a69ecf2b5accac1a59688f4b82eb5c8baa78e03e0309a863be2dc8d9d89ce0f4763af8d92089d"},{"radix":16,"value":"1bbde8f36ce601a5c3469c73418e88787168fe5248d121a515ae79143a6c149902a65af698f51e6536d678c0b611217fb1d82557b27a4a731474ebbb643efdaf0002027ce0e2deffabb0db2b74580fb8e66012b463ba7fa6adea8054149d321434011a95cae0d8dd658d06a52f628de671ff5c44f4bcad032f624b38f08b66d43"},{"radix":16,"value":"1b8c0892863bdc439c45b41b190c78b8e6877c0bf8342f488bb6545bca2f72f44d01a167a8acd4f46454d863313ac409ea145e4c27396e6248c5ccc2d26deb19798f8914e11bc19ceb60b1e46fa556e957abe49f9988b1d8f84ae7adae3543045ab74928f778705b38996367b6c15511714afe5700659ff71e690fe4b467c5b84"}]"#;
const CPK_JSON: &str = r#"{"N":{"radix":16,"value":"26fe5f33e43a4d73d5ff9123066dfea073aa0ca9e029d01107ad793380a935fed1c1116d7ab5dcf863f95ec57a22b5b54f25c7547d17789c9265199838ac9a0b2c52c041822b2c837165708554681cae66c4ad5b159a15ca9af9c41b5f5356c923ae61d695b8946099aefae59b6493b3f06d5f5d2910b5d9b059a4ccbec0d615d"},"h":{"radix":16,"value":"15aa82593b7c6a00363f6fe1b2dfa62288bb831a66eef59bd698389f9ab0dc27e781e94c4ba340c6802285693d4cd042c083b3892623c3af7cef938bb655ca2d354edd6e8ad47ea96fca95aec5a61643e7d310109ecb0fdce00a65c8343558c9e381e4a6dfa18c867cdc6c976164bd07c3d7f70adaadbb8863f5097f9d02b52ff"},"g_bases":[{"radix":16,"value":"f20f44729ebae88808d2d6c66c45660550723c62498242fc9f4674f64f658108a7597b0a8c460d0912081849ca652d9cd2c347f746ca32107fa0a0ea302a14cd6e766f3fd32009568962ca487d122cb74a82c8fec348fc384eb527cea8153c49d53e8e50b4bb88b57d59529cc558d40bbc4a26cc7d23478c7b9ba366dde96b1a"},{"radix":16,"value":"dd3cf71f89c8725ca4c3462e8c84357c08fcd1c267efcc2ecbab5f0b24b77fd2ec90e75b5b32d126a3f5be158ea16e24158aeba89858f3e9176426fad6a3ac231934e7c1c34ddaacc4c22f8fd3fed59e147ad7f4fac654a06c45e62fbc1a3e2304bd2768924d94ae988f22633cb985a33856da6964209f80c1c2e51aa3382716"},{"radix":16,"value":"21a52ef5a5e6dfcc5a9c27b6d696b18c8435c7bd7ecac1c0dc98ed5a37835593eade8f85d280ebad5bcff872cad449975fd0b79385d28e7ec2d33bdef6961c92af5c92480ba93bf4ab86609d507e696b2b2f288f631f5110ffbc93c64d42ad4fd9685fc64e530b5ab422103cd2ae6e393b5be765f57d15d2eab94d3d71e40b3b0"},{"radix":16,"value":"10a72ae71b186a20dd17536c71d63ff594e08a2975d8a4d9bb4fae4a87d751228a91c8d00bc9c085ca28fda1b353b780a0ae7d601faa9c8f8d3748922b514c3df034fc688d02280c815ed20c5c6420bd4ee5b889f45f5ae11879a2e96594f55f6d7b09c1447845883a2ef062a0335957ec81ef3324dad7c165ab025856086c58"},{"radix":16,"value":"8117dd269824f9eaa8c34ec900429b1f04447830cdfb0cb26c28b48207b86d98954c37e4ec1430da2ed1f53c1dea10f4dc3b8e44970a675a48a3b2e1aac190fc710771b9ebd649c42fa5a2002fca09cd57699b8d8d9e67f7bddafd1ae60a52a3254b57d24de9c847d737e88925f6bb59270981b8179b0720c21f9bce29e9617f"},{"radix":16,"value":"181a3115d41081f02490b05f2207fe142f2850772d60f3daa995cdad52d61a9c2236db5df39185b9c824e47e400339010023ac5a2ed3b8c775960603e989cb5e0599c34db0d4251af4fadc6cdbab5c868992991e58ebb897409e3fc8d1370e8b1c0ac6c11cfa2d09ec80c12c720aab2abda3e5f62f4372493f476525822ffb0f4"}]}"#;

use rug::{ops::Pow, Integer};
use serde_json::Value;
use std::cell::Cell;
use std::panic::{catch_unwind, AssertUnwindSafe};
use std::sync::Once;
use zkryptium::{
    cl03::{
        bases::Bases,
        ciphersuites::CL1024Sha256,
        keys::{CL03CommitmentPublicKey, CL03PublicKey, CL03SecretKey},
    },
    keys::pair::KeyPair,
    schemes::algorithms::CL03,
    schemes::generics::{PoKSignature, Signature},
    utils::message::cl03_message::CL03Message,
};

type CS = CL1024Sha256;
type Sch = CL03<CS>;
type Proof = PoKSignature<Sch>;
type Sig = Signature<Sch>;

const LM: u32 = 256;
const LE: u32 = 258;

// ---------------------------------------------------------------------------------------------
// fixture
// ---------------------------------------------------------------------------------------------

thread_local! { static QUIET: Cell<bool> = Cell::new(false); }
static HOOK: Once = Once::new();

fn install_hook() {
    HOOK.call_once(|| {
        let default = std::panic::take_hook();
        std::panic::set_hook(Box::new(move |info| {
            if !QUIET.with(|q| q.get()) {
                default(info);
            }
        }));
    });
}

struct Fx {
    pk: CL03PublicKey,
    sk: CL03SecretKey,
    bases6: Bases,
    cpk6: CL03CommitmentPublicKey,
}

fn fx() -> Fx {
    install_hook();
    let kp: KeyPair<Sch> = serde_json::from_str(KP_JSON).unwrap();
    let bases6: Bases = serde_json::from_str(BASES_JSON).unwrap();
    let cpk6: CL03CommitmentPublicKey = serde_json::from_str(CPK_JSON).unwrap();
    assert_eq!(cpk6.N, kp.public_key().N, "commitment key is over the issuer modulus");
    let (sk, pk) = kp.into_parts();
    Fx { pk, sk, bases6, cpk6 }
}

impl Fx {
    fn bases(&self, n: usize) -> Bases {
        Bases(self.bases6.0[..n].to_vec())
    }
    fn cpk(&self, n: usize) -> CL03CommitmentPublicKey {
        CL03CommitmentPublicKey {
            N: self.cpk6.N.clone(),
            h: self.cpk6.h.clone(),
            g_bases: self.cpk6.g_bases[..n].to_vec(),
        }
    }
    /// order of the subgroup of quadratic residues: p' q'
    fn qr_order(&self) -> Integer {
        let pp = Integer::from(&self.sk.p - 1u32) / 2u32;
        let qp = Integer::from(&self.sk.q - 1u32) / 2u32;
        pp * qp
    }
}

fn msgs(n: usize) -> Vec<CL03Message> {
    (0..n)
        .map(|i| CL03Message::map_message_to_integer_as_hash::<CS>(&[b'm', i as u8, 0x5a]))
        .collect()
}

fn revealed(m: &[CL03Message], hidden: &[usize]) -> Vec<CL03Message> {
    m.iter()
        .enumerate()
        .filter(|(i, _)| !hidden.contains(i))
        .map(|(_, x)| x.clone())
        .collect()
}

fn sign(f: &Fx, m: &[CL03Message]) -> Sig {
    let b = f.bases(m.len());
    let s = Sig::sign_multiattr(&f.pk, &f.sk, &b, m);
    assert!(s.verify_multiattr(&f.pk, &b, m), "fixture: the signature is valid");
    s
}

fn gen(f: &Fx, sig: &Sig, m: &[CL03Message], hidden: &[usize]) -> Proof {
    let n = m.len();
    Proof::proof_gen(sig.cl03Signature(), &f.cpk(n), &f.pk, &f.bases(n), m, hidden)
}

/// Some(true) = accepted, Some(false) = rejected, None = refused by panic
fn verify(
    p: &Proof,
    cpk: &CL03CommitmentPublicKey,
    pk: &CL03PublicKey,
    bases: &Bases,
    rev: &[CL03Message],
    hidden: &[usize],
    n: usize,
) -> Option<bool> {
    install_hook();
    QUIET.with(|q| q.set(true));
    let r = catch_unwind(AssertUnwindSafe(|| p.proof_verify(cpk, pk, bases, rev, hidden, n)));
    QUIET.with(|q| q.set(false));
    r.ok()
}

fn accepted(r: Option<bool>) -> bool {
    r == Some(true)
}

fn subsets(n: usize) -> Vec<Vec<usize>> {
    (0..(1usize << n))
        .map(|mask| (0..n).filter(|i| mask & (1 << i) != 0).collect())
        .collect()
}

// ---------------------------------------------------------------------------------------------
// JSON helpers: every rug Integer is serialised as {"radix":16,"value":"<hex>"}
// ---------------------------------------------------------------------------------------------

#[derive(Clone, Debug, PartialEq)]
enum Seg {
    K(String),
    I(usize),
}

fn is_int(v: &Value) -> bool {
    v.as_object()
        .map(|o| o.len() == 2 && o.contains_key("radix") && o.contains_key("value"))
        .unwrap_or(false)
}

fn int_paths(v: &Value, cur: &mut Vec<Seg>, out: &mut Vec<Vec<Seg>>) {
    if is_int(v) {
        out.push(cur.clone());
        return;
    }
    match v {
        Value::Object(o) => {
            for (k, c) in o {
                cur.push(Seg::K(k.clone()));
                int_paths(c, cur, out);
                cur.pop();
            }
        }
        Value::Array(a) => {
            for (i, c) in a.iter().enumerate() {
                cur.push(Seg::I(i));
                int_paths(c, cur, out);
                cur.pop();
            }
        }
        _ => {}
    }
}

fn at<'a>(v: &'a mut Value, path: &[Seg]) -> &'a mut Value {
    let mut c = v;
    for s in path {
        c = match s {
            Seg::K(k) => c.get_mut(k.as_str()).unwrap(),
            Seg::I(i) => c.get_mut(*i).unwrap(),
        };
    }
    c
}

fn path_str(path: &[Seg]) -> String {
    path.iter()
        .map(|s| match s {
            Seg::K(k) => format!(".{}", k),
            Seg::I(i) => format!("[{}]", i),
        })
        .collect()
}

fn get_int(v: &mut Value, path: &[Seg]) -> Integer {
    serde_json::from_value(at(v, path).clone()).unwrap()
}

fn set_int(v: &mut Value, path: &[Seg], x: &Integer) {
    *at(v, path) = serde_json::to_value(x).unwrap();
}

fn p(keys: &[&str]) -> Vec<Seg> {
    keys.iter()
        .map(|k| match k.parse::<usize>() {
            Ok(i) => Seg::I(i),
            Err(_) => Seg::K(k.to_string()),
        })
        .collect()
}

// ---------------------------------------------------------------------------------------------
// 1. completeness: every n in 1..=5, every subset of hidden positions
// ---------------------------------------------------------------------------------------------

fn completeness_for(n: usize) {
    let f = fx();
    let m = msgs(n);
    let sig = sign(&f, &m);
    let mut bad = vec![];
    for u in subsets(n) {
        let pr = gen(&f, &sig, &m, &u);
        let r = verify(&pr, &f.cpk(n), &f.pk, &f.bases(n), &revealed(&m, &u), &u, n);
        if !accepted(r) {
            bad.push((u.clone(), r));
        }
        // the proof also survives a serde JSON round trip
        let back: Proof = serde_json::from_value(serde_json::to_value(&pr).unwrap()).unwrap();
        assert_eq!(back, pr);
    }
    assert!(bad.is_empty(), "n = {}: honest proofs rejected for hidden sets {:?}", n, bad);
}

#[test]
fn c01_complete_all_subsets_n1_n2_n3() {
    completeness_for(1);
    completeness_for(2);
    completeness_for(3);
}

#[test]
fn c02_complete_all_subsets_n4() {
    completeness_for(4);
}

#[test]
fn c03_complete_all_subsets_n5() {
    completeness_for(5);
}

/// attributes at the ends of their range (0, 2^lm - 1), equal attributes, hidden and revealed
#[test]
fn c04_complete_boundary_attribute_values() {
    let f = fx();
    let max = Integer::from(2).pow(LM) - 1u32;
    let m = vec![
        CL03Message::new(Integer::from(0)),
        CL03Message::new(max.clone()),
        CL03Message::new(Integer::from(0)),
        CL03Message::new(max),
    ];
    let sig = sign(&f, &m);
    for u in [vec![], vec![0, 1], vec![2, 3], vec![0, 1, 2, 3], vec![1, 2]] {
        let pr = gen(&f, &sig, &m, &u);
        let r = verify(&pr, &f.cpk(4), &f.pk, &f.bases(4), &revealed(&m, &u), &u, 4);
        assert!(accepted(r), "hidden {:?}: {:?}", u, r);
    }
}

/// The keys may carry more bases than attributes (6 bases, 3 attributes): still complete, for all subsets.
#[test]
fn c05_complete_with_more_bases_than_attributes() {
    let f = fx();
    let m = msgs(3);
    let sig = sign(&f, &m);
    for u in subsets(3) {
        let pr = Proof::proof_gen(sig.cl03Signature(), &f.cpk6, &f.pk, &f.bases6, &m, &u);
        let r = verify(&pr, &f.cpk6, &f.pk, &f.bases6, &revealed(&m, &u), &u, 3);
        assert!(accepted(r), "hidden {:?}: {:?}", u, r);
    }
}

/// A subset is a set: the same hidden positions listed in another order are the same subset.
/// proof_gen pushes s_5 in the order of the list, proof_verify reads it in ascending position order.
#[test]
fn c06_complete_hidden_set_listed_in_descending_order() {
    let f = fx();
    let m = msgs(3);
    let sig = sign(&f, &m);
    let u = vec![2usize, 0usize];
    let pr = gen(&f, &sig, &m, &u);
    let r = verify(&pr, &f.cpk(3), &f.pk, &f.bases(3), &revealed(&m, &u), &u, 3);
    assert!(
        accepted(r),
        "honest proof for the hidden set {{0, 2}} given as [2, 0] (same list on both sides) does not verify: {:?}",
        r
    );
}

/// signatures whose e sits at the two ends of the admitted range (2^(le-1)+1 and 2^le-1): built with the
/// issuer's secret key through the serde representation of the signature.
fn craft_sig(f: &Fx, m: &[CL03Message], e: &Integer) -> Option<Sig> {
    let phi = Integer::from(&f.sk.p - 1u32) * Integer::from(&f.sk.q - 1u32);
    let d = e.clone().invert(&phi).ok()?;
    let b = f.bases(m.len());
    let s = Integer::from(2).pow(1024 + 256 + 256 - 1) + 12345u32;
    let mut v = Integer::from(1);
    for (i, x) in m.iter().enumerate() {
        v *= b.0[i].clone().pow_mod(&x.value, &f.pk.N).unwrap();
    }
    v *= f.pk.b.clone().pow_mod(&s, &f.pk.N).unwrap();
    v *= &f.pk.c;
    v %= &f.pk.N;
    let v = v.pow_mod(&d, &f.pk.N).unwrap();
    let js = serde_json::json!({"CL03": {
        "e": serde_json::to_value(e).unwrap(),
        "s": serde_json::to_value(&s).unwrap(),
        "v": serde_json::to_value(&v).unwrap()}});
    Some(serde_json::from_value(js).unwrap())
}

#[test]
fn c07_complete_e_at_the_ends_of_its_range() {
    let f = fx();
    let m = msgs(2);
    let lo = Integer::from(2).pow(LE - 1) + 1u32;
    let hi = Integer::from(2).pow(LE) - 1u32;
    for e in [lo, hi] {
        let sig = craft_sig(&f, &m, &e).expect("e coprime to phi");
        assert!(sig.verify_multiattr(&f.pk, &f.bases(2), &m), "crafted signature is valid");
        for u in [vec![], vec![1]] {
            QUIET.with(|q| q.set(true));
            let pr = catch_unwind(AssertUnwindSafe(|| gen(&f, &sig, &m, &u)));
            QUIET.with(|q| q.set(false));
            let pr = pr.unwrap_or_else(|_| panic!("proof_gen panics for a valid signature with e = {}", e));
            let r = verify(&pr, &f.cpk(2), &f.pk, &f.bases(2), &revealed(&m, &u), &u, 2);
            assert!(accepted(r), "e = {}, hidden {:?}: {:?}", e, u, r);
        }
    }
}

/// "every valid CL03 signature": verify_multiattr has no upper bound on e (verify has), so (e = 2^le + 1, s, v)
/// is a signature the library calls valid; the statement then requires a verifying proof.
#[test]
fn c08_signature_accepted_by_verify_multiattr_with_e_above_range_has_a_proof() {
    let f = fx();
    let m = msgs(2);
    let mut e = Integer::from(2).pow(LE) + 1u32;
    let sig = loop {
        if let Some(s) = craft_sig(&f, &m, &e) {
            break s;
        }
        e += 2u32;
    };
    if !sig.verify_multiattr(&f.pk, &f.bases(2), &m) {
        return; // the library does not call it valid: nothing to require
    }
    let u = vec![0usize];
    QUIET.with(|q| q.set(true));
    let pr = catch_unwind(AssertUnwindSafe(|| gen(&f, &sig, &m, &u)));
    QUIET.with(|q| q.set(false));
    let pr = match pr {
        Ok(p) => p,
        Err(_) => panic!("verify_multiattr accepts the signature with e = 2^le + 1 but proof_gen panics on it"),
    };
    let r = verify(&pr, &f.cpk(2), &f.pk, &f.bases(2), &revealed(&m, &u), &u, 2);
    assert!(accepted(r), "valid (per verify_multiattr) signature, proof does not verify: {:?}", r);
}

// ---------------------------------------------------------------------------------------------
// 2. binding to the statement: single edits of revealed attributes / pk / bases / commitment key / U / n
// ---------------------------------------------------------------------------------------------

struct Stmt {
    cpk: CL03CommitmentPublicKey,
    pk: CL03PublicKey,
    bases: Bases,
    rev: Vec<CL03Message>,
    u: Vec<usize>,
    n: usize,
}

fn stmt(f: &Fx, m: &[CL03Message], u: &[usize]) -> Stmt {
    Stmt {
        cpk: f.cpk(m.len()),
        pk: f.pk.clone(),
        bases: f.bases(m.len()),
        rev: revealed(m, u),
        u: u.to_vec(),
        n: m.len(),
    }
}

fn vs(pr: &Proof, s: &Stmt) -> Option<bool> {
    verify(pr, &s.cpk, &s.pk, &s.bases, &s.rev, &s.u, s.n)
}

/// edits of a group element (key member / base): the sign change is a family of its own (c16)
fn elem_edits(x: &Integer, N: &Integer) -> Vec<(&'static str, Integer)> {
    int_edits(x, N).into_iter().filter(|(l, _)| *l != "negate").collect()
}

fn int_edits(x: &Integer, N: &Integer) -> Vec<(&'static str, Integer)> {
    vec![
        ("+1", Integer::from(x + 1u32)),
        ("-1", Integer::from(x - 1u32)),
        ("zero", Integer::from(0)),
        ("one", Integer::from(1)),
        ("negate", Integer::from(-x)),
        ("square mod N", Integer::from(x * x) % N),
    ]
    .into_iter()
    .filter(|(_, y)| y != x)
    .collect()
}

#[test]
fn c10_single_edits_of_the_statement_are_rejected() {
    let f = fx();
    let n = 3;
    let m = msgs(n);
    let sig = sign(&f, &m);
    let mut accepted_edits: Vec<String> = vec![];
    for u in [vec![], vec![0], vec![1, 2], vec![0, 1, 2], vec![1]] {
        let pr = gen(&f, &sig, &m, &u);
        let base = stmt(&f, &m, &u);
        assert!(accepted(vs(&pr, &base)));
        let N = f.pk.N.clone();
        let mut try_ = |label: String, s: Stmt| {
            if accepted(vs(&pr, &s)) {
                accepted_edits.push(format!("U={:?}: {}", u, label));
            }
        };

        // revealed attributes
        for k in 0..base.rev.len() {
            for (l, y) in int_edits(&base.rev[k].value, &N) {
                let mut s = stmt(&f, &m, &u);
                s.rev[k] = CL03Message::new(y);
                try_(format!("revealed[{}] {}", k, l), s);
            }
            for k2 in (k + 1)..base.rev.len() {
                let mut s = stmt(&f, &m, &u);
                s.rev.swap(k, k2);
                try_(format!("revealed swap {} {}", k, k2), s);
            }
            // dropping one revealed attribute
            let mut s = stmt(&f, &m, &u);
            s.rev.remove(k);
            try_(format!("revealed remove {}", k), s);
            // the hidden attribute value inserted in front
            if !u.is_empty() {
                let mut s = stmt(&f, &m, &u);
                s.rev.insert(0, m[u[0]].clone());
                try_(format!("revealed insert hidden value at 0"), s);
            }
        }
        // signer key
        for (name, get) in [("N", 0usize), ("b", 1), ("c", 2)] {
            let x = [&f.pk.N, &f.pk.b, &f.pk.c][get].clone();
            for (l, y) in elem_edits(&x, &N) {
                let mut s = stmt(&f, &m, &u);
                match get {
                    0 => s.pk.N = y,
                    1 => s.pk.b = y,
                    _ => s.pk.c = y,
                }
                try_(format!("pk.{} {}", name, l), s);
            }
        }
        {
            let mut s = stmt(&f, &m, &u);
            std::mem::swap(&mut s.pk.b, &mut s.pk.c);
            try_("pk.b <-> pk.c".into(), s);
        }
        // attribute bases
        for i in 0..n {
            for (l, y) in elem_edits(&base.bases.0[i], &N) {
                let mut s = stmt(&f, &m, &u);
                s.bases.0[i] = y;
                try_(format!("a_bases[{}] {}", i, l), s);
            }
            for j in (i + 1)..n {
                let mut s = stmt(&f, &m, &u);
                s.bases.0.swap(i, j);
                try_(format!("a_bases swap {} {}", i, j), s);
            }
            let mut s = stmt(&f, &m, &u);
            s.bases.0.remove(i);
            try_(format!("a_bases remove {}", i), s);
            let mut s = stmt(&f, &m, &u);
            s.bases.0[i] = f.bases6.0[5].clone();
            try_(format!("a_bases[{}] := another base", i), s);
        }
        // commitment key
        for (l, y) in elem_edits(&base.cpk.h, &N) {
            let mut s = stmt(&f, &m, &u);
            s.cpk.h = y;
            try_(format!("cpk.h {}", l), s);
        }
        for (l, y) in elem_edits(&base.cpk.N, &N) {
            let mut s = stmt(&f, &m, &u);
            s.cpk.N = y;
            try_(format!("cpk.N {}", l), s);
        }
        for i in 0..n {
            for (l, y) in elem_edits(&base.cpk.g_bases[i], &N) {
                let mut s = stmt(&f, &m, &u);
                s.cpk.g_bases[i] = y;
                try_(format!("cpk.g[{}] {}", i, l), s);
            }
            for j in (i + 1)..n {
                let mut s = stmt(&f, &m, &u);
                s.cpk.g_bases.swap(i, j);
                try_(format!("cpk.g swap {} {}", i, j), s);
            }
            let mut s = stmt(&f, &m, &u);
            s.cpk.g_bases.remove(i);
            try_(format!("cpk.g remove {}", i), s);
            let mut s = stmt(&f, &m, &u);
            s.cpk.g_bases[i] = f.cpk6.g_bases[5].clone();
            try_(format!("cpk.g[{}] := another base", i), s);
        }
        {
            let mut s = stmt(&f, &m, &u);
            std::mem::swap(&mut s.cpk.h, &mut s.cpk.g_bases[0]);
            try_("cpk.h <-> cpk.g[0]".into(), s);
        }
        // hidden position set (as a set: every other subset of 0..n, plus out-of-range members),
        // revealed list left as it is
        for u2 in subsets(n) {
            if u2 != u {
                let mut s = stmt(&f, &m, &u);
                s.u = u2.clone();
                try_(format!("U := {:?}", u2), s);
            }
        }
        for extra in [n, n + 1, 5, 6, 255, 256, 65535, usize::MAX] {
            let mut s = stmt(&f, &m, &u);
            s.u.push(extra);
            try_(format!("U + [{}]", extra), s);
            let mut s = stmt(&f, &m, &u);
            s.u.insert(0, extra);
            try_(format!("[{}] + U", extra), s);
        }
        // hidden position set AND the matching revealed list of the other subset
        for u2 in subsets(n) {
            if u2 != u {
                let mut s = stmt(&f, &m, &u);
                s.u = u2.clone();
                s.rev = revealed(&m, &u2);
                try_(format!("U := {:?} with its own revealed list", u2), s);
            }
        }
        // attribute count
        for n2 in [0usize, 1, 2, 4, 5, 6, 255, 256, 65535] {
            if n2 != n {
                let mut s = stmt(&f, &m, &u);
                s.n = n2;
                try_(format!("n := {}", n2), s);
                // with 6 bases available on both keys
                let mut s = stmt(&f, &m, &u);
                s.n = n2;
                s.bases = Bases(f.bases6.0.clone());
                s.cpk = f.cpk6.clone();
                try_(format!("n := {} (6 bases on both keys)", n2), s);
            }
        }
    }
    assert!(accepted_edits.is_empty(), "edited statements accepted: {:#?}", accepted_edits);
}

/// "different revealed attributes": one more attribute value at the end of the revealed list.
#[test]
fn c11_revealed_list_with_an_extra_trailing_value_is_rejected() {
    let f = fx();
    let m = msgs(3);
    let sig = sign(&f, &m);
    let mut acc = vec![];
    for u in [vec![], vec![0], vec![0, 1, 2]] {
        let pr = gen(&f, &sig, &m, &u);
        let mut s = stmt(&f, &m, &u);
        assert!(accepted(vs(&pr, &s)));
        s.rev.push(CL03Message::new(Integer::from(0xdead_beefu32)));
        if accepted(vs(&pr, &s)) {
            acc.push(u.clone());
        }
    }
    assert!(
        acc.is_empty(),
        "proof verifies against a revealed-attribute list that has one more (arbitrary) value, hidden sets {:?}",
        acc
    );
}

/// "different bases" / "different commitment key": one more base at the end of the list.
#[test]
fn c12_bases_with_an_extra_trailing_base_are_rejected() {
    let f = fx();
    let m = msgs(3);
    let sig = sign(&f, &m);
    let u = vec![1usize];
    let pr = gen(&f, &sig, &m, &u);
    let mut acc = vec![];
    let mut s = stmt(&f, &m, &u);
    s.bases = f.bases(4);
    if accepted(vs(&pr, &s)) {
        acc.push("a_bases with a 4th base");
    }
    let mut s = stmt(&f, &m, &u);
    s.cpk = f.cpk(4);
    if accepted(vs(&pr, &s)) {
        acc.push("commitment key with a 4th g base");
    }
    assert!(acc.is_empty(), "proof for 3 attributes verifies with: {:?}", acc);
}

/// "different signer key / bases / commitment key": the same residues written as x + N (another integer,
/// another serialisation, another key as far as PartialEq / the byte encoders are concerned).
#[test]
fn c13_key_elements_replaced_by_non_canonical_representatives_are_rejected() {
    let f = fx();
    let m = msgs(3);
    let sig = sign(&f, &m);
    let N = f.pk.N.clone();
    let mut acc: Vec<String> = vec![];
    for u in [vec![], vec![1usize]] {
        let pr = gen(&f, &sig, &m, &u);
        assert!(accepted(vs(&pr, &stmt(&f, &m, &u))));
        for (tag, delta) in [("+N", N.clone()), ("-N", Integer::from(-&N)), ("+2N", Integer::from(&N * 2u32))] {
            let mut s = stmt(&f, &m, &u);
            s.pk.b += &delta;
            if accepted(vs(&pr, &s)) {
                acc.push(format!("U={:?} pk.b{}", u, tag));
            }
            let mut s = stmt(&f, &m, &u);
            s.pk.c += &delta;
            if accepted(vs(&pr, &s)) {
                acc.push(format!("U={:?} pk.c{}", u, tag));
            }
            for i in 0..3 {
                let mut s = stmt(&f, &m, &u);
                s.bases.0[i] += &delta;
                if accepted(vs(&pr, &s)) {
                    acc.push(format!("U={:?} a_bases[{}]{}", u, i, tag));
                }
                let mut s = stmt(&f, &m, &u);
                s.cpk.g_bases[i] += &delta;
                if accepted(vs(&pr, &s)) {
                    acc.push(format!("U={:?} cpk.g[{}]{}", u, i, tag));
                }
            }
            let mut s = stmt(&f, &m, &u);
            s.cpk.h += &delta;
            if accepted(vs(&pr, &s)) {
                acc.push(format!("U={:?} cpk.h{}", u, tag));
            }
        }
    }
    assert!(acc.is_empty(), "statements with x + kN in place of x accepted: {:#?}", acc);
}

/// "different attribute count": the proof for n = 3 presented as a proof for n = 4 whose 4th attribute is
/// revealed and equal to 0 (the verifier's keys have a 4th base).
#[test]
fn c14_attribute_count_plus_one_with_a_zero_attribute_is_rejected() {
    let f = fx();
    let m = msgs(3);
    let sig = sign(&f, &m);
    let u = vec![0usize];
    let pr = gen(&f, &sig, &m, &u);
    let mut s = stmt(&f, &m, &u);
    s.n = 4;
    s.bases = f.bases(4);
    s.cpk = f.cpk(4);
    s.rev.push(CL03Message::new(Integer::from(0)));
    assert!(
        !accepted(vs(&pr, &s)),
        "a proof made for 3 attributes verifies with attribute count 4 (4th revealed attribute = 0)"
    );
}

/// "different revealed attributes": m + ord(QR_N) (only the issuer can compute it; the verifier has no
/// range check on what it is told the revealed attributes are).
#[test]
fn c15_revealed_attribute_plus_group_order_is_rejected() {
    let f = fx();
    let m = msgs(3);
    let sig = sign(&f, &m);
    let u = vec![0usize];
    let pr = gen(&f, &sig, &m, &u);
    let mut s = stmt(&f, &m, &u);
    s.rev[1].value += f.qr_order();
    assert!(s.rev[1].value >= Integer::from(2).pow(LM));
    assert!(
        !accepted(vs(&pr, &s)),
        "proof verifies with a revealed attribute m + p'q' (1000+ bits, outside [0, 2^lm))"
    );
}

// ---------------------------------------------------------------------------------------------
// 3. binding of the proof: single-field perturbations of every integer of the serialised proof
// ---------------------------------------------------------------------------------------------

fn tamper_all(n: usize, u: Vec<usize>) {
    let f = fx();
    let m = msgs(n);
    let sig = sign(&f, &m);
    let pr = gen(&f, &sig, &m, &u);
    let s = stmt(&f, &m, &u);
    assert!(accepted(vs(&pr, &s)));
    let js = serde_json::to_value(&pr).unwrap();
    let mut paths = vec![];
    int_paths(&js, &mut vec![], &mut paths);
    // known and excluded: the `randomness` members of the CL03Commitment values are never read
    let paths: Vec<Vec<Seg>> = paths
        .into_iter()
        .filter(|p| !matches!(p.last(), Some(Seg::K(k)) if k == "randomness"))
        .collect();
    assert!(paths.len() >= 13 + 24);
    let N = f.pk.N.clone();
    let mut acc: Vec<String> = vec![];
    let mut tried = 0usize;
    for (k, path) in paths.iter().enumerate() {
        let mut w = js.clone();
        let x = get_int(&mut w, path);
        let mut cands: Vec<(String, Integer)> = vec![
            ("+1".into(), Integer::from(&x + 1u32)),
            ("-1".into(), Integer::from(&x - 1u32)),
            ("zero".into(), Integer::from(0)),
            ("negate".into(), Integer::from(-&x)),
            ("+N".into(), Integer::from(&x + &N)),
            ("-N".into(), Integer::from(&x - &N)),
            ("mod N".into(), {
                let r = Integer::from(&x % &N);
                if r < 0 { r + &N } else { r }
            }),
        ];
        cands.retain(|(_, y)| *y != x);
        for (l, y) in cands {
            let mut w = js.clone();
            set_int(&mut w, path, &y);
            let p2: Proof = match serde_json::from_value(w) {
                Ok(p) => p,
                Err(_) => continue,
            };
            tried += 1;
            if accepted(vs(&p2, &s)) {
                acc.push(format!("{} {}", path_str(path), l));
            }
        }
        // swap with every later integer of the proof that has a different value
        for path2 in paths.iter().skip(k + 1) {
            let mut w = js.clone();
            let y = get_int(&mut w, path2);
            if y == x {
                continue;
            }
            // keep the run time bounded: swaps inside the same struct, and with the next integer
            let same_parent = path[..path.len() - 1] == path2[..path2.len() - 1];
            let next = std::ptr::eq(path2, &paths[k + 1]);
            if !(same_parent || next) {
                continue;
            }
            set_int(&mut w, path, &y);
            set_int(&mut w, path2, &x);
            let p2: Proof = serde_json::from_value(w).unwrap();
            tried += 1;
            if accepted(vs(&p2, &s)) {
                acc.push(format!("swap {} <-> {}", path_str(path), path_str(path2)));
            }
        }
    }
    println!("n={} U={:?}: {} integers, {} perturbed proofs tried", n, u, paths.len(), tried);
    assert!(acc.is_empty(), "n={} U={:?}: perturbed proofs accepted: {:#?}", n, u, acc);
}

#[test]
fn c20_every_integer_of_the_proof_is_checked_one_hidden() {
    tamper_all(3, vec![0]);
}

#[test]
fn c21_every_integer_of_the_proof_is_checked_none_hidden() {
    tamper_all(2, vec![]);
}

#[test]
fn c22_every_integer_of_the_proof_is_checked_two_hidden_last_positions() {
    tamper_all(3, vec![1, 2]);
}

/// lists inside the proof: an extra element at the end of s_5 / proofs_commited_mi / range_proofs_commited_mi,
/// a removed element, swapped elements
#[test]
fn c23_list_fields_of_the_proof_altered() {
    let f = fx();
    let m = msgs(3);
    let sig = sign(&f, &m);
    let u = vec![0usize, 2usize];
    let pr = gen(&f, &sig, &m, &u);
    let s = stmt(&f, &m, &u);
    assert!(accepted(vs(&pr, &s)));
    let js = serde_json::to_value(&pr).unwrap();
    let mut acc: Vec<String> = vec![];
    for list in [
        vec!["CL03", "spok", "s_5"],
        vec!["CL03", "proofs_commited_mi"],
        vec!["CL03", "range_proofs_commited_mi"],
    ] {
        let path = p(&list);
        // append a copy of the first element
        let mut w = js.clone();
        let arr = at(&mut w, &path).as_array_mut().unwrap();
        assert_eq!(arr.len(), 2);
        let first = arr[0].clone();
        arr.push(first);
        let p2: Proof = serde_json::from_value(w).unwrap();
        assert_ne!(p2, pr);
        if accepted(vs(&p2, &s)) {
            acc.push(format!("{}: extra trailing element", path_str(&path)));
        }
        // remove the last
        let mut w = js.clone();
        at(&mut w, &path).as_array_mut().unwrap().pop();
        let p2: Proof = serde_json::from_value(w).unwrap();
        if accepted(vs(&p2, &s)) {
            acc.push(format!("{}: last element removed", path_str(&path)));
        }
        // swap the two
        let mut w = js.clone();
        at(&mut w, &path).as_array_mut().unwrap().swap(0, 1);
        let p2: Proof = serde_json::from_value(w).unwrap();
        if accepted(vs(&p2, &s)) {
            acc.push(format!("{}: elements swapped", path_str(&path)));
        }
    }
    assert!(acc.is_empty(), "altered proofs accepted: {:#?}", acc);
}

/// Re-using parts of one artefact in another: the per-attribute PoK + range proof of the hidden attribute
/// taken from a proof about ANOTHER signature over ANOTHER hidden value (same keys, same position).
#[test]
fn c24_hidden_attribute_subproofs_spliced_from_another_proof_are_rejected() {
    let f = fx();
    let m = msgs(3);
    let sig = sign(&f, &m);
    let u = vec![0usize];
    let pr = gen(&f, &sig, &m, &u);
    let s = stmt(&f, &m, &u);
    assert!(accepted(vs(&pr, &s)));

    let mut m_other = m.clone();
    m_other[0] = CL03Message::new(Integer::from(42));
    let sig_other = sign(&f, &m_other);
    let pr_other = gen(&f, &sig_other, &m_other, &u);

    let mut js = serde_json::to_value(&pr).unwrap();
    let mut jo = serde_json::to_value(&pr_other).unwrap();
    for list in [vec!["CL03", "proofs_commited_mi"], vec!["CL03", "range_proofs_commited_mi"]] {
        let path = p(&list);
        let v = at(&mut jo, &path).clone();
        *at(&mut js, &path) = v;
    }
    let spliced: Proof = serde_json::from_value(js).unwrap();
    assert_ne!(spliced, pr);
    assert!(
        !accepted(vs(&spliced, &s)),
        "the proof still verifies after its proofs_commited_mi and range_proofs_commited_mi (about 30 integers) \
         were replaced by those of a proof about another signature and another hidden value (42)"
    );
}

/// Same idea for the part that IS linked (Ce / range proof on e): must be rejected.
#[test]
fn c25_range_proof_on_e_spliced_from_another_proof_is_rejected() {
    let f = fx();
    let m = msgs(2);
    let sig = sign(&f, &m);
    let u = vec![1usize];
    let pr = gen(&f, &sig, &m, &u);
    let pr_b = gen(&f, &sig, &m, &u); // same signature, fresh randomness
    let s = stmt(&f, &m, &u);
    let js = serde_json::to_value(&pr).unwrap();
    let mut jb = serde_json::to_value(&pr_b).unwrap();
    let mut acc = vec![];
    // only the range proof
    let mut w = js.clone();
    *at(&mut w, &p(&["CL03", "range_proof_e"])) = at(&mut jb, &p(&["CL03", "range_proof_e"])).clone();
    if accepted(vs(&serde_json::from_value::<Proof>(w).unwrap(), &s)) {
        acc.push("range_proof_e");
    }
    // the range proof and Ce
    let mut w = js.clone();
    *at(&mut w, &p(&["CL03", "range_proof_e"])) = at(&mut jb, &p(&["CL03", "range_proof_e"])).clone();
    *at(&mut w, &p(&["CL03", "spok", "Ce"])) = at(&mut jb, &p(&["CL03", "spok", "Ce"])).clone();
    if accepted(vs(&serde_json::from_value::<Proof>(w).unwrap(), &s)) {
        acc.push("range_proof_e + Ce");
    }
    // the whole spok of the other proof with this one's range proofs
    let mut w = js.clone();
    *at(&mut w, &p(&["CL03", "spok"])) = at(&mut jb, &p(&["CL03", "spok"])).clone();
    if accepted(vs(&serde_json::from_value::<Proof>(w).unwrap(), &s)) {
        acc.push("spok");
    }
    assert!(acc.is_empty(), "{:?}", acc);
}

/// responses shifted by the order of the group of quadratic residues (issuer-only knowledge): the verifier
/// has no length check on any response.
#[test]
fn c26_responses_plus_group_order_are_rejected() {
    let f = fx();
    let m = msgs(2);
    let sig = sign(&f, &m);
    let u = vec![1usize];
    let pr = gen(&f, &sig, &m, &u);
    let s = stmt(&f, &m, &u);
    let js = serde_json::to_value(&pr).unwrap();
    let ord = f.qr_order();
    let mut acc = vec![];
    for field in ["s_1", "s_2", "s_3", "s_4", "s_6", "s_7", "s_8", "s_9"] {
        let path = p(&["CL03", "spok", field]);
        let mut w = js.clone();
        let x = get_int(&mut w, &path);
        set_int(&mut w, &path, &Integer::from(&x + &ord));
        if accepted(vs(&serde_json::from_value::<Proof>(w).unwrap(), &s)) {
            acc.push(field.to_string());
        }
    }
    let path = p(&["CL03", "spok", "s_5", "0"]);
    let mut w = js.clone();
    let x = get_int(&mut w, &path);
    set_int(&mut w, &path, &Integer::from(&x + &ord));
    if accepted(vs(&serde_json::from_value::<Proof>(w).unwrap(), &s)) {
        acc.push("s_5[0]".to_string());
    }
    assert!(acc.is_empty(), "responses x + p'q' accepted: {:?}", acc);
}

/// hidden-set lists with duplicates / other order at verification time
#[test]
fn c27_hidden_list_with_duplicates_or_reordered_at_verification() {
    let f = fx();
    let m = msgs(3);
    let sig = sign(&f, &m);
    let u = vec![0usize, 1usize];
    let pr = gen(&f, &sig, &m, &u);
    let mut acc = vec![];
    for u2 in [vec![0usize, 0], vec![1, 1], vec![0, 1, 1], vec![0, 0, 1], vec![0, 1, 0]] {
        // these lists denote a DIFFERENT statement only when the set differs; {0,1} with duplicates is the same
        // set, so only lists whose set differs are required to fail
        let set: std::collections::BTreeSet<usize> = u2.iter().cloned().collect();
        let same_set = set.len() == 2;
        let mut s = stmt(&f, &m, &u);
        s.u = u2.clone();
        let r = vs(&pr, &s);
        if !same_set && accepted(r) {
            acc.push(format!("{:?}", u2));
        }
    }
    assert!(acc.is_empty(), "{:?}", acc);
    // one hidden, verification list repeats it: same set, no requirement; different single index must fail
    let u = vec![1usize];
    let pr = gen(&f, &sig, &m, &u);
    for u2 in [vec![0usize], vec![2usize], vec![0, 0], vec![2, 2]] {
        let mut s = stmt(&f, &m, &u);
        s.u = u2.clone();
        assert!(!accepted(vs(&pr, &s)), "{:?}", u2);
    }
}

/// A proof made with one commitment key / signer key / bases / message vector is not accepted under another
/// complete, honestly generated set (rather than a one-integer edit).
#[test]
fn c28_other_honest_keys_are_rejected() {
    let f = fx();
    let m = msgs(3);
    let sig = sign(&f, &m);
    let u = vec![2usize];
    let pr = gen(&f, &sig, &m, &u);
    // other commitment key over the same modulus
    let cpk2 = CL03CommitmentPublicKey::generate::<CS>(Some(f.pk.N.clone()), Some(3));
    let mut s = stmt(&f, &m, &u);
    s.cpk = cpk2;
    assert!(!accepted(vs(&pr, &s)), "other commitment key");
    // other bases
    let mut s = stmt(&f, &m, &u);
    s.bases = Bases::generate(&f.pk, 3);
    assert!(!accepted(vs(&pr, &s)), "other bases");
    // other b, c (quadratic residues)
    let mut s = stmt(&f, &m, &u);
    s.pk.c = Integer::from(&f.pk.c * &f.pk.b) % &f.pk.N;
    assert!(!accepted(vs(&pr, &s)), "other c");
    // bases and commitment key bases exchanged
    let mut s = stmt(&f, &m, &u);
    std::mem::swap(&mut s.bases.0, &mut s.cpk.g_bases);
    assert!(!accepted(vs(&pr, &s)), "a_bases <-> g_bases");
    // proof about another signature over other messages, same revealed claim
    let mut m2 = m.clone();
    m2[0].value += 1u32;
    let sig2 = sign(&f, &m2);
    let pr2 = gen(&f, &sig2, &m2, &u);
    assert!(!accepted(vs(&pr2, &stmt(&f, &m, &u))), "proof about other messages");
    assert!(accepted(vs(&pr2, &stmt(&f, &m2, &u))));
}

/// "different signer key / bases": x replaced by N - x, another residue (not a square).  The proof's
/// responses are integers, so whenever the exponent that x is raised to is even the verifier cannot tell.
/// Deterministic: proofs are regenerated until the relevant exponent is even, and the signature is chosen so
/// that it does NOT verify under the edited key (the proof is then accepted for a key the signature is invalid for).
#[test]
fn c16_key_elements_replaced_by_their_negatives_are_rejected() {
    let f = fx();
    let N = f.pk.N.clone();
    // second attribute odd, so that the signature is not valid under a_bases[1] := N - a_bases[1]
    let mut m = msgs(3);
    if m[1].value.is_even() {
        m[1].value += 1u32;
    }
    // a signature whose s is odd, so that it is not valid under b := N - b
    let sig = loop {
        let s = sign(&f, &m);
        let js = serde_json::to_value(&s).unwrap();
        let mut js2 = js.clone();
        if get_int(&mut js2, &p(&["CL03", "s"])).is_odd() {
            break s;
        }
    };
    let u = vec![0usize];
    let mut acc: Vec<String> = vec![];

    // --- c := N - c, accepted when the challenge is even
    let mut s_c = stmt(&f, &m, &u);
    s_c.pk.c = Integer::from(&N - &f.pk.c);
    assert!(!sig.verify_multiattr(&s_c.pk, &s_c.bases, &m), "signature is invalid under (N, b, N-c)");
    // --- b := N - b, accepted when s_6 is even
    let mut s_b = stmt(&f, &m, &u);
    s_b.pk.b = Integer::from(&N - &f.pk.b);
    assert!(!sig.verify_multiattr(&s_b.pk, &s_b.bases, &m), "signature is invalid under (N, N-b, c)");
    // --- a_1 := N - a_1 (revealed position, odd attribute), accepted when m_1 (1 + challenge) is even
    let mut s_a = stmt(&f, &m, &u);
    s_a.bases.0[1] = Integer::from(&N - &f.bases6.0[1]);
    assert!(!sig.verify_multiattr(&s_a.pk, &s_a.bases, &m), "signature is invalid under a_1 := N - a_1");

    let (mut done_c, mut done_b, mut done_a) = (false, false, false);
    for _ in 0..64 {
        if done_c && done_b && done_a {
            break;
        }
        let pr = gen(&f, &sig, &m, &u);
        let mut js = serde_json::to_value(&pr).unwrap();
        let ch = get_int(&mut js, &p(&["CL03", "spok", "challenge"]));
        let s6 = get_int(&mut js, &p(&["CL03", "spok", "s_6"]));
        if !done_c && ch.is_even() {
            done_c = true;
            if accepted(vs(&pr, &s_c)) {
                acc.push("pk.c := N - c (challenge even)".into());
            }
        }
        if !done_b && s6.is_even() {
            done_b = true;
            if accepted(vs(&pr, &s_b)) {
                acc.push("pk.b := N - b (s_6 even)".into());
            }
        }
        if !done_a && ch.is_odd() {
            done_a = true;
            if accepted(vs(&pr, &s_a)) {
                acc.push("a_bases[1] := N - a_bases[1] (challenge odd)".into());
            }
        }
    }
    assert!(done_c && done_b && done_a);
    assert!(
        acc.is_empty(),
        "proof accepted under a key for which the signature itself does not verify: {:#?}",
        acc
    );
}

/// "different hidden-position set": U' = U + [n] (a position beyond the attribute count) together with one
/// more, unrelated, per-attribute sub-proof appended to the proof.
#[test]
fn c29_hidden_set_extended_with_a_position_beyond_n_and_a_spliced_subproof_is_rejected() {
    let f = fx();
    let m = msgs(3);
    let sig = sign(&f, &m);
    let u = vec![0usize];
    let pr = gen(&f, &sig, &m, &u);
    // an unrelated 4-attribute credential whose 4th attribute is hidden: donor of sub-proofs about g_3
    let m4 = msgs(4);
    let sig4 = sign(&f, &m4);
    let donor = gen(&f, &sig4, &m4, &[3usize]);
    let mut js = serde_json::to_value(&pr).unwrap();
    let mut jd = serde_json::to_value(&donor).unwrap();
    for list in [vec!["CL03", "proofs_commited_mi"], vec!["CL03", "range_proofs_commited_mi"]] {
        let path = p(&list);
        let d0 = at(&mut jd, &path).as_array().unwrap()[0].clone();
        at(&mut js, &path).as_array_mut().unwrap().push(d0);
    }
    let p2: Proof = serde_json::from_value(js).unwrap();
    let mut s = stmt(&f, &m, &u);
    s.cpk = f.cpk(4);
    s.u = vec![0, 3];
    assert!(
        !accepted(vs(&p2, &s)),
        "a proof for (n = 3, hidden {{0}}) verifies for (n = 3, hidden [0, 3])"
    );
}

/// non-canonical serde encodings of an integer of the proof (other radix, upper case, leading zeros, sign):
/// they either do not parse or give the very same proof (no alteration), never a different accepted proof.
#[test]
fn c30_non_canonical_serde_encodings_of_proof_integers() {
    let f = fx();
    let m = msgs(2);
    let sig = sign(&f, &m);
    let u = vec![0usize];
    let pr = gen(&f, &sig, &m, &u);
    let s = stmt(&f, &m, &u);
    let js = serde_json::to_value(&pr).unwrap();
    let path = p(&["CL03", "spok", "s_4"]);
    let mut w = js.clone();
    let x = get_int(&mut w, &path);
    let hex = x.to_string_radix(16);
    let encs = vec![
        serde_json::json!({"radix": 10, "value": x.to_string_radix(10)}),
        serde_json::json!({"radix": 16, "value": hex.to_uppercase()}),
        serde_json::json!({"radix": 16, "value": format!("000{}", hex)}),
        serde_json::json!({"radix": 16, "value": format!("+{}", hex)}),
        serde_json::json!({"radix": 16, "value": format!("-{}", hex)}),
        serde_json::json!({"radix": 16, "value": format!(" {}", hex)}),
        serde_json::json!({"radix": 16, "value": format!("{}_", hex)}),
        serde_json::json!({"radix": 36, "value": x.to_string_radix(36)}),
        serde_json::json!({"radix": 2, "value": x.to_string_radix(2)}),
    ];
    for e in encs {
        let mut w = js.clone();
        *at(&mut w, &path) = e.clone();
        match serde_json::from_value::<Proof>(w) {
            Err(_) => {}
            Ok(p2) => {
                if p2 != pr {
                    assert!(!accepted(vs(&p2, &s)), "{}", e);
                }
            }
        }
    }
}

/// A holder-only forgery (no secret key): from a valid signature (e, s, v) over (m_0, m_1, m_2) the holder
/// computes (e, s, v * a_0^k) which satisfies the verification equation for m_0 + k e.  verify_multiattr
/// refuses it (attribute out of [0, 2^lm)), i.e. it is NOT a valid CL03 signature; the proof of knowledge
/// made from it, revealing the never-signed value m_0 + k e, must not verify.
#[test]
fn c31_proof_from_shifted_signature_revealing_a_never_signed_attribute_is_rejected() {
    let f = fx();
    let m = msgs(3);
    let sig = sign(&f, &m);
    let mut js = serde_json::to_value(&sig).unwrap();
    let e = get_int(&mut js, &p(&["CL03", "e"]));
    let v = get_int(&mut js, &p(&["CL03", "v"]));
    let mut acc = vec![];
    for k in [1i32, -1, 3] {
        // v' = v * a_0^k mod N  (public data only)
        let ak = f.bases6.0[0].clone().pow_mod(&Integer::from(k), &f.pk.N).unwrap();
        let v2 = Integer::from(&v * &ak) % &f.pk.N;
        let mut js2 = js.clone();
        set_int(&mut js2, &p(&["CL03", "v"]), &v2);
        let sig2: Sig = serde_json::from_value(js2).unwrap();
        let mut m2 = m.clone();
        m2[0].value += Integer::from(&e * k);
        assert!(
            !sig2.verify_multiattr(&f.pk, &f.bases(3), &m2),
            "the library does not consider the shifted signature valid"
        );
        for u in [vec![], vec![1usize]] {
            QUIET.with(|q| q.set(true));
            let pr = catch_unwind(AssertUnwindSafe(|| gen(&f, &sig2, &m2, &u)));
            QUIET.with(|q| q.set(false));
            let pr = match pr {
                Ok(p) => p,
                Err(_) => continue,
            };
            if accepted(vs(&pr, &stmt(&f, &m2, &u))) {
                acc.push(format!("k = {}, hidden {:?}: revealed attribute m_0 + k e accepted", k, u));
            }
        }
    }
    assert!(
        acc.is_empty(),
        "proof_verify accepts revealed attributes that were never signed (and that verify_multiattr refuses): {:#?}",
        acc
    );
}
