// Red-team candidates for PROPERTY C05 (Blind BBS issuance and presentation completeness).
//
// Every test asserts what the statement REQUIRES of the unmodified tree: a failing test is a
// demonstrated violation, a passing test documents a family for which the property held.
//
// This is an integration test, so the library is compiled WITHOUT cfg(test): commit and
// blind_proof_gen use the production randomness path (calculate_random_scalars), which the
// crate's own unit tests never compile.
//
// Reading used for "disclosure choice": a SUBSET of the signer-message positions and a SUBSET
// of the committed-message positions, handed over as ascending index lists (the form the
// verifier is documented to require).

#![allow(non_snake_case)]

use elliptic_curve::hash2curve::ExpandMsg;
use zkryptium::{
    bbsplus::{
        ciphersuites::{BbsCiphersuite, Bls12381Sha256, Bls12381Shake256},
        commitment::BlindFactor,
        generators::Generators,
        keys::{BBSplusPublicKey, BBSplusSecretKey},
    },
    keys::pair::KeyPair,
    schemes::{
        algorithms::BBSplus,
        generics::{BlindSignature, Commitment, PoKSignature, Signature},
    },
};

const IKM: &[u8] = b"C05-red-team-fixed-key-material-0123456789abcdef";

fn keys<CS: BbsCiphersuite>() -> (BBSplusSecretKey, BBSplusPublicKey)
where
    CS::Expander: for<'a> ExpandMsg<'a>,
{
    KeyPair::<BBSplus<CS>>::generate(IKM, Some(b"info"), None)
        .unwrap()
        .into_parts()
}

fn signer_msgs(L: usize) -> Vec<Vec<u8>> {
    (0..L)
        .map(|i| format!("signer message #{i}").into_bytes())
        .collect()
}

fn committed_msgs(M: usize) -> Vec<Vec<u8>> {
    (0..M)
        .map(|i| format!("committed message #{i}").into_bytes())
        .collect()
}

fn subset(mask: usize, n: usize) -> Vec<usize> {
    (0..n).filter(|i| mask >> i & 1 == 1).collect()
}

fn pick(msgs: &[Vec<u8>], idx: &[usize]) -> Vec<Vec<u8>> {
    idx.iter().map(|&i| msgs[i].clone()).collect()
}

/// Optional-argument flavour: how "no value" is spelled at the API.
#[derive(Clone, Copy, PartialEq)]
enum Empty {
    AsNone,
    AsSomeEmpty,
}

fn opt<'a, T>(v: &'a [T], e: Empty) -> Option<&'a [T]> {
    if v.is_empty() && e == Empty::AsNone {
        None
    } else {
        Some(v)
    }
}

/// Honest issuance for one shape. Returns (signature bytes, blind factor).
fn issue<CS: BbsCiphersuite>(
    sk: &BBSplusSecretKey,
    pk: &BBSplusPublicKey,
    msgs: &[Vec<u8>],
    cmsgs: &[Vec<u8>],
    header: Option<&[u8]>,
    e: Empty,
) -> ([u8; 80], BlindFactor)
where
    CS::Expander: for<'a> ExpandMsg<'a>,
{
    let (commitment, blind) = Commitment::<BBSplus<CS>>::commit(opt(cmsgs, e))
        .unwrap_or_else(|err| panic!("commit failed M={}: {err:?}", cmsgs.len()));
    let cbytes = commitment.to_bytes();
    assert_eq!(cbytes.len(), 48 + 32 * (cmsgs.len() + 2), "commitment_with_proof length");

    let sig = BlindSignature::<BBSplus<CS>>::blind_sign(sk, pk, Some(&cbytes), header, opt(msgs, e))
        .unwrap_or_else(|err| {
            panic!("blind_sign failed L={} M={}: {err:?}", msgs.len(), cmsgs.len())
        });

    sig.verify_blind_sign(pk, header, opt(msgs, e), opt(cmsgs, e), Some(&blind))
        .unwrap_or_else(|err| {
            panic!("verify_blind_sign failed L={} M={}: {err:?}", msgs.len(), cmsgs.len())
        });

    // the byte form is what travels: it has to decode and still verify
    let sig_bytes = sig.to_bytes();
    let sig2 = BlindSignature::<BBSplus<CS>>::from_bytes(&sig_bytes).expect("signature decodes");
    assert!(sig == sig2, "signature round trip");
    (sig_bytes, blind)
}

/// All 2^L x 2^M disclosure pairs for one issued signature.
fn present_all<CS: BbsCiphersuite>(
    pk: &BBSplusPublicKey,
    sig: &[u8; 80],
    blind: Option<&BlindFactor>,
    msgs: &[Vec<u8>],
    cmsgs: &[Vec<u8>],
    header: Option<&[u8]>,
    ph: Option<&[u8]>,
    e: Empty,
) where
    CS::Expander: for<'a> ExpandMsg<'a>,
{
    let (L, M) = (msgs.len(), cmsgs.len());
    for dm in 0..(1usize << L) {
        for dc in 0..(1usize << M) {
            let di = subset(dm, L);
            let dci = subset(dc, M);
            let ctx = format!("L={L} M={M} disclosed={di:?} disclosed_committed={dci:?}");

            let proof = PoKSignature::<BBSplus<CS>>::blind_proof_gen(
                pk,
                sig,
                header,
                ph,
                opt(msgs, e),
                opt(cmsgs, e),
                opt(&di, e),
                opt(&dci, e),
                blind,
            )
            .unwrap_or_else(|err| panic!("blind_proof_gen failed {ctx}: {err:?}"));

            // U = (L + 1 + M) - R1 - R2 undisclosed scalars
            let pbytes = proof.to_bytes();
            assert_eq!(
                pbytes.len(),
                272 + 32 * (L + 1 + M - di.len() - dci.len()),
                "proof length {ctx}"
            );
            let proof = PoKSignature::<BBSplus<CS>>::from_bytes(&pbytes)
                .unwrap_or_else(|err| panic!("proof does not decode {ctx}: {err:?}"));

            let dmsgs = pick(msgs, &di);
            let dcmsgs = pick(cmsgs, &dci);
            let l_arg = if L == 0 && e == Empty::AsNone { None } else { Some(L) };
            proof
                .blind_proof_verify(
                    pk,
                    header,
                    ph,
                    l_arg,
                    opt(&dmsgs, e),
                    opt(&dcmsgs, e),
                    opt(&di, e),
                    opt(&dci, e),
                )
                .unwrap_or_else(|err| panic!("blind_proof_verify failed {ctx}: {err:?}"));
        }
    }
}

fn grid<CS: BbsCiphersuite>(ls: std::ops::RangeInclusive<usize>, ms: std::ops::RangeInclusive<usize>, e: Empty)
where
    CS::Expander: for<'a> ExpandMsg<'a>,
{
    let (sk, pk) = keys::<CS>();
    for L in ls {
        for M in ms.clone() {
            let msgs = signer_msgs(L);
            let cmsgs = committed_msgs(M);
            // alternate the optional byte strings over the grid
            let header: Option<&[u8]> = match (L + M) % 3 {
                0 => None,
                1 => Some(b""),
                _ => Some(b"header \x00\xff bytes"),
            };
            let ph: Option<&[u8]> = match (L + 2 * M) % 3 {
                0 => Some(b"presentation header"),
                1 => None,
                _ => Some(b""),
            };
            let (sig, blind) = issue::<CS>(&sk, &pk, &msgs, &cmsgs, header, e);
            present_all::<CS>(&pk, &sig, Some(&blind), &msgs, &cmsgs, header, ph, e);
        }
    }
}

// ---------------------------------------------------------------------------------------------
// F1: the full small grid, every shape the vectors never ran, all disclosure pairs, both suites
// ---------------------------------------------------------------------------------------------

#[test]
fn f01_grid_sha256_l0_to_1() {
    grid::<Bls12381Sha256>(0..=1, 0..=3, Empty::AsNone);
}
#[test]
fn f01_grid_sha256_l2() {
    grid::<Bls12381Sha256>(2..=2, 0..=3, Empty::AsSomeEmpty);
}
#[test]
fn f01_grid_sha256_l3() {
    grid::<Bls12381Sha256>(3..=3, 0..=3, Empty::AsNone);
}
#[test]
fn f01_grid_shake256_l0_to_1() {
    grid::<Bls12381Shake256>(0..=1, 0..=3, Empty::AsSomeEmpty);
}
#[test]
fn f01_grid_shake256_l2() {
    grid::<Bls12381Shake256>(2..=2, 0..=3, Empty::AsNone);
}
#[test]
fn f01_grid_shake256_l3() {
    grid::<Bls12381Shake256>(3..=3, 0..=3, Empty::AsSomeEmpty);
}

// ---------------------------------------------------------------------------------------------
// F2: a blind signature issued WITHOUT any commitment verifies and can be presented
// ---------------------------------------------------------------------------------------------

fn no_commitment<CS: BbsCiphersuite>()
where
    CS::Expander: for<'a> ExpandMsg<'a>,
{
    let (sk, pk) = keys::<CS>();
    for L in 0..=3usize {
        let msgs = signer_msgs(L);
        let header: Option<&[u8]> = if L % 2 == 0 { Some(b"hdr") } else { None };

        // every spelling of "no commitment" must give the same signature
        let s_none = BlindSignature::<BBSplus<CS>>::blind_sign(&sk, &pk, None, header, Some(&msgs))
            .unwrap_or_else(|err| panic!("blind_sign without commitment failed L={L}: {err:?}"));
        let s_empty =
            BlindSignature::<BBSplus<CS>>::blind_sign(&sk, &pk, Some(&[]), header, opt(&msgs, Empty::AsNone))
                .unwrap_or_else(|err| panic!("blind_sign with empty commitment failed L={L}: {err:?}"));
        assert_eq!(s_none.to_bytes(), s_empty.to_bytes(), "None and empty commitment differ, L={L}");

        // every spelling of "no committed messages, no blind" must verify
        let zero = BlindFactor::from_bytes(&[0u8; 32]).unwrap();
        for cm in [None, Some(&[][..])] {
            for bl in [None, Some(&zero)] {
                s_none
                    .verify_blind_sign(&pk, header, Some(&msgs), cm, bl)
                    .unwrap_or_else(|err| {
                        panic!("verify_blind_sign (no commitment) failed L={L} cm={:?} blind={:?}: {err:?}", cm.is_some(), bl.is_some())
                    });
            }
        }

        let sig = s_none.to_bytes();
        present_all::<CS>(&pk, &sig, None, &msgs, &[], header, Some(b"ph"), Empty::AsNone);
        present_all::<CS>(&pk, &sig, Some(&zero), &msgs, &[], header, None, Empty::AsSomeEmpty);
    }
}

#[test]
fn f02_no_commitment_sha256() {
    no_commitment::<Bls12381Sha256>();
}
#[test]
fn f02_no_commitment_shake256() {
    no_commitment::<Bls12381Shake256>();
}

// ---------------------------------------------------------------------------------------------
// F3: None and Some(empty) are the same thing on every optional argument (mixed across calls)
// ---------------------------------------------------------------------------------------------

fn none_vs_empty_mixed<CS: BbsCiphersuite>()
where
    CS::Expander: for<'a> ExpandMsg<'a>,
{
    let (sk, pk) = keys::<CS>();

    // commit(None): a commitment to zero messages, still carries a blind factor
    let (c, blind) = Commitment::<BBSplus<CS>>::commit(None).unwrap();
    assert_eq!(c.to_bytes().len(), 112);
    // signer spells everything as Some(empty) ...
    let sig = BlindSignature::<BBSplus<CS>>::blind_sign(&sk, &pk, Some(&c.to_bytes()), Some(b""), Some(&[]))
        .expect("blind_sign (0,0) with commitment");
    // ... the prover as None
    sig.verify_blind_sign(&pk, None, None, None, Some(&blind))
        .expect("verify (0,0): header None == empty header, messages None == empty");
    sig.verify_blind_sign(&pk, Some(b""), Some(&[]), Some(&[]), Some(&blind))
        .expect("verify (0,0) spelled with empties");

    let proof = PoKSignature::<BBSplus<CS>>::blind_proof_gen(
        &pk, &sig.to_bytes(), None, None, None, None, None, None, Some(&blind),
    )
    .expect("blind_proof_gen (0,0) all None");
    proof
        .blind_proof_verify(&pk, Some(b""), Some(b""), Some(0), Some(&[]), Some(&[]), Some(&[]), Some(&[]))
        .expect("blind_proof_verify (0,0) all Some(empty)");
    proof
        .blind_proof_verify(&pk, None, None, None, None, None, None, None)
        .expect("blind_proof_verify (0,0) all None");

    // and the other way round on a (2, 2) shape
    let msgs = signer_msgs(2);
    let cmsgs = committed_msgs(2);
    let (c, blind) = Commitment::<BBSplus<CS>>::commit(Some(&cmsgs)).unwrap();
    let sig = BlindSignature::<BBSplus<CS>>::blind_sign(&sk, &pk, Some(&c.to_bytes()), None, Some(&msgs)).unwrap();
    sig.verify_blind_sign(&pk, Some(b""), Some(&msgs), Some(&cmsgs), Some(&blind))
        .expect("verify (2,2) header None at signing, Some(empty) at verification");
    let proof = PoKSignature::<BBSplus<CS>>::blind_proof_gen(
        &pk, &sig.to_bytes(), Some(b""), Some(b""), Some(&msgs), Some(&cmsgs), Some(&[]), None, Some(&blind),
    )
    .unwrap();
    proof
        .blind_proof_verify(&pk, None, None, Some(2), None, Some(&[]), None, Some(&[]))
        .expect("blind_proof_verify (2,2) nothing disclosed, mixed None / empty");
}

#[test]
fn f03_none_vs_empty_sha256() {
    none_vs_empty_mixed::<Bls12381Sha256>();
}
#[test]
fn f03_none_vs_empty_shake256() {
    none_vs_empty_mixed::<Bls12381Shake256>();
}

// ---------------------------------------------------------------------------------------------
// F4: unusual message / header contents: empty, duplicated, long (around 255 / 256 / 65535 / 65536)
// ---------------------------------------------------------------------------------------------

fn odd_contents<CS: BbsCiphersuite>()
where
    CS::Expander: for<'a> ExpandMsg<'a>,
{
    let (sk, pk) = keys::<CS>();
    let msgs: Vec<Vec<u8>> = vec![
        vec![],               // the empty message
        vec![],               // ... twice
        vec![0u8; 255],
        vec![0u8; 256],
        vec![0xffu8; 65535],
        vec![0xffu8; 65536],
    ];
    let cmsgs: Vec<Vec<u8>> = vec![
        vec![],               // same content as a signer message
        vec![0u8; 256],       // same content as a signer message
        vec![7u8; 70000],
        vec![7u8; 70000],     // duplicate
    ];
    let header = vec![0xabu8; 65536 + 17];
    let ph = vec![0xcdu8; 65535];

    let (sig, blind) = issue::<CS>(&sk, &pk, &msgs, &cmsgs, Some(&header), Empty::AsNone);

    for (di, dci) in [
        (vec![], vec![]),
        (vec![0, 1, 2, 3, 4, 5], vec![0, 1, 2, 3]),
        (vec![1, 5], vec![0, 3]),
        (vec![0], vec![]),
        (vec![], vec![3]),
        (vec![5], vec![3]),
    ] {
        let proof = PoKSignature::<BBSplus<CS>>::blind_proof_gen(
            &pk, &sig, Some(&header), Some(&ph), Some(&msgs), Some(&cmsgs), Some(&di), Some(&dci), Some(&blind),
        )
        .unwrap_or_else(|err| panic!("gen {di:?} {dci:?}: {err:?}"));
        proof
            .blind_proof_verify(
                &pk, Some(&header), Some(&ph), Some(msgs.len()),
                Some(&pick(&msgs, &di)), Some(&pick(&cmsgs, &dci)), Some(&di), Some(&dci),
            )
            .unwrap_or_else(|err| panic!("verify {di:?} {dci:?}: {err:?}"));
    }
}

#[test]
fn f04_odd_contents_sha256() {
    odd_contents::<Bls12381Sha256>();
}
#[test]
fn f04_odd_contents_shake256() {
    odd_contents::<Bls12381Shake256>();
}

// ---------------------------------------------------------------------------------------------
// F5: lopsided and larger shapes, boundary disclosure choices (first / last / all / none / one side)
// ---------------------------------------------------------------------------------------------

fn boundary_choices(n: usize) -> Vec<Vec<usize>> {
    let mut v: Vec<Vec<usize>> = vec![vec![], (0..n).collect()];
    if n > 0 {
        v.push(vec![0]);
        v.push(vec![n - 1]);
        v.push((0..n).step_by(2).collect());
        v.push((0..n - 1).collect());
        v.push((1..n).collect());
    }
    v.sort();
    v.dedup();
    v
}

fn shape_with_boundaries<CS: BbsCiphersuite>(L: usize, M: usize)
where
    CS::Expander: for<'a> ExpandMsg<'a>,
{
    let (sk, pk) = keys::<CS>();
    let msgs = signer_msgs(L);
    let cmsgs = committed_msgs(M);
    let header = b"shape header";
    let (sig, blind) = issue::<CS>(&sk, &pk, &msgs, &cmsgs, Some(header), Empty::AsNone);
    for di in boundary_choices(L) {
        for dci in boundary_choices(M) {
            let proof = PoKSignature::<BBSplus<CS>>::blind_proof_gen(
                &pk, &sig, Some(header), Some(b"ph"), Some(&msgs), Some(&cmsgs), Some(&di), Some(&dci), Some(&blind),
            )
            .unwrap_or_else(|err| panic!("gen L={L} M={M} {di:?} {dci:?}: {err:?}"));
            let proof = PoKSignature::<BBSplus<CS>>::from_bytes(&proof.to_bytes()).unwrap();
            proof
                .blind_proof_verify(
                    &pk, Some(header), Some(b"ph"), Some(L),
                    Some(&pick(&msgs, &di)), Some(&pick(&cmsgs, &dci)), Some(&di), Some(&dci),
                )
                .unwrap_or_else(|err| panic!("verify L={L} M={M} {di:?} {dci:?}: {err:?}"));
        }
    }
}

#[test]
fn f05_shape_0_9_sha256() {
    shape_with_boundaries::<Bls12381Sha256>(0, 9);
}
#[test]
fn f05_shape_9_1_shake256() {
    shape_with_boundaries::<Bls12381Shake256>(9, 1);
}
#[test]
fn f05_shape_1_12_shake256() {
    shape_with_boundaries::<Bls12381Shake256>(1, 12);
}
#[test]
fn f05_shape_16_17_sha256() {
    shape_with_boundaries::<Bls12381Sha256>(16, 17);
}

// around 255 / 256 total scalars (L + 1 + M): one-byte length assumptions would show here
fn big_shape<CS: BbsCiphersuite>(L: usize, M: usize)
where
    CS::Expander: for<'a> ExpandMsg<'a>,
{
    let (sk, pk) = keys::<CS>();
    let msgs = signer_msgs(L);
    let cmsgs = committed_msgs(M);
    let (sig, blind) = issue::<CS>(&sk, &pk, &msgs, &cmsgs, None, Empty::AsNone);
    let choices: Vec<(Vec<usize>, Vec<usize>)> = vec![
        (vec![], vec![]),
        ((0..L).collect(), (0..M).collect()),
        (if L > 0 { vec![L - 1] } else { vec![] }, if M > 0 { vec![M - 1] } else { vec![] }),
    ];
    for (di, dci) in choices {
        let proof = PoKSignature::<BBSplus<CS>>::blind_proof_gen(
            &pk, &sig, None, None, Some(&msgs), Some(&cmsgs), Some(&di), Some(&dci), Some(&blind),
        )
        .unwrap_or_else(|err| panic!("gen L={L} M={M}: {err:?}"));
        proof
            .blind_proof_verify(
                &pk, None, None, Some(L),
                Some(&pick(&msgs, &di)), Some(&pick(&cmsgs, &dci)), Some(&di), Some(&dci),
            )
            .unwrap_or_else(|err| panic!("verify L={L} M={M} R1={} R2={}: {err:?}", di.len(), dci.len()));
    }
}

#[test]
fn f06_big_shape_127_127_sha256() {
    big_shape::<Bls12381Sha256>(127, 127); // 255 scalars, 256 generators
}
#[test]
fn f06_big_shape_128_127_shake256() {
    big_shape::<Bls12381Shake256>(128, 127); // 256 scalars, 257 generators
}
#[test]
fn f06_big_shape_0_256_sha256() {
    big_shape::<Bls12381Sha256>(0, 256);
}
#[test]
fn f06_big_shape_257_0_shake256() {
    big_shape::<Bls12381Shake256>(257, 0);
}

// ---------------------------------------------------------------------------------------------
// F7: the serde JSON representations of the public artefacts carry the same information
// ---------------------------------------------------------------------------------------------

fn json_roundtrip<CS: BbsCiphersuite>()
where
    CS::Expander: for<'a> ExpandMsg<'a>,
{
    let (sk, pk) = keys::<CS>();
    let sk: BBSplusSecretKey = serde_json::from_str(&serde_json::to_string(&sk).unwrap()).unwrap();
    let pk: BBSplusPublicKey = serde_json::from_str(&serde_json::to_string(&pk).unwrap()).unwrap();

    let msgs = signer_msgs(2);
    let cmsgs = committed_msgs(3);
    let (c, blind) = Commitment::<BBSplus<CS>>::commit(Some(&cmsgs)).unwrap();
    let c2: Commitment<BBSplus<CS>> = serde_json::from_str(&serde_json::to_string(&c).unwrap())
        .expect("commitment JSON round trip");
    assert!(c == c2, "commitment JSON round trip differs");
    let c3 = Commitment::<BBSplus<CS>>::from_bytes(&c.to_bytes()).expect("commitment byte round trip");
    assert!(c == c3, "commitment byte round trip differs");

    let sig = BlindSignature::<BBSplus<CS>>::blind_sign(&sk, &pk, Some(&c2.to_bytes()), Some(b"h"), Some(&msgs))
        .expect("blind_sign over re-encoded commitment");
    let sig2: BlindSignature<BBSplus<CS>> =
        serde_json::from_str(&serde_json::to_string(&sig).unwrap()).expect("signature JSON round trip");
    assert!(sig == sig2, "signature round trip");

    let blind2 = BlindFactor::from_bytes(&blind.to_bytes()).expect("blind factor byte round trip");
    sig2.verify_blind_sign(&pk, Some(b"h"), Some(&msgs), Some(&cmsgs), Some(&blind2))
        .expect("verify after JSON / byte round trips");

    let proof = PoKSignature::<BBSplus<CS>>::blind_proof_gen(
        &pk, &sig2.to_bytes(), Some(b"h"), Some(b"p"), Some(&msgs), Some(&cmsgs), Some(&[1]), Some(&[0, 2]), Some(&blind2),
    )
    .unwrap();
    let proof2: PoKSignature<BBSplus<CS>> =
        serde_json::from_str(&serde_json::to_string(&proof).unwrap()).expect("proof JSON round trip");
    assert!(proof == proof2, "proof JSON round trip differs");
    proof2
        .blind_proof_verify(
            &pk, Some(b"h"), Some(b"p"), Some(2),
            Some(&pick(&msgs, &[1])), Some(&pick(&cmsgs, &[0, 2])), Some(&[1]), Some(&[0, 2]),
        )
        .expect("verify proof after JSON round trip");
}

#[test]
fn f07_json_roundtrip_sha256() {
    json_roundtrip::<Bls12381Sha256>();
}
#[test]
fn f07_json_roundtrip_shake256() {
    json_roundtrip::<Bls12381Shake256>();
}

// ---------------------------------------------------------------------------------------------
// F8: "every key": extreme secret keys, key material variants, keys built from bytes
// ---------------------------------------------------------------------------------------------

fn run_with_key<CS: BbsCiphersuite>(sk: BBSplusSecretKey)
where
    CS::Expander: for<'a> ExpandMsg<'a>,
{
    let pk = sk.public_key();
    let pk = BBSplusPublicKey::from_bytes(&pk.to_bytes()).expect("public key decodes");
    let (x, y) = pk.to_coordinates();
    let pk = BBSplusPublicKey::from_coordinates(&x, &y).expect("public key from coordinates");
    let msgs = signer_msgs(2);
    let cmsgs = committed_msgs(1);
    let (sig, blind) = issue::<CS>(&sk, &pk, &msgs, &cmsgs, Some(b"k"), Empty::AsNone);
    present_all::<CS>(&pk, &sig, Some(&blind), &msgs, &cmsgs, Some(b"k"), Some(b"p"), Empty::AsNone);
}

fn extreme_keys<CS: BbsCiphersuite>()
where
    CS::Expander: for<'a> ExpandMsg<'a>,
{
    // sk = 1
    let mut one = [0u8; 32];
    one[31] = 1;
    run_with_key::<CS>(BBSplusSecretKey::from_bytes(&one).unwrap());
    // sk = r - 1
    let r_minus_1 = hex::decode("73eda753299d7d483339d80809a1d80553bda402fffe5bfeffffffff00000000").unwrap();
    run_with_key::<CS>(BBSplusSecretKey::from_bytes(&r_minus_1).unwrap());
    // minimal key material, explicit key_dst, maximal key_info
    let kp = KeyPair::<BBSplus<CS>>::generate(&[0u8; 32], Some(&vec![1u8; 65535]), Some(b"MY_DST")).unwrap();
    run_with_key::<CS>(kp.into_parts().0);
}

#[test]
fn f08_extreme_keys_sha256() {
    extreme_keys::<Bls12381Sha256>();
}
#[test]
fn f08_extreme_keys_shake256() {
    extreme_keys::<Bls12381Shake256>();
}

// ---------------------------------------------------------------------------------------------
// F9: the production randomness path: repeated commit / proof over the same inputs
// ---------------------------------------------------------------------------------------------

#[test]
fn f09_production_randomness_is_fresh_and_complete() {
    type CS = Bls12381Sha256;
    let (sk, pk) = keys::<CS>();
    let msgs = signer_msgs(1);
    let cmsgs = committed_msgs(2);
    let mut seen_commitments = std::collections::HashSet::new();
    let mut seen_proofs = std::collections::HashSet::new();
    for _ in 0..12 {
        let (sig, blind) = issue::<CS>(&sk, &pk, &msgs, &cmsgs, Some(b"r"), Empty::AsNone);
        // the mocked (seeded) scalars must not be what an integration build uses
        assert!(seen_commitments.insert(blind.to_bytes()), "the blind factor repeated");
        let proof = PoKSignature::<BBSplus<CS>>::blind_proof_gen(
            &pk, &sig, Some(b"r"), Some(b"p"), Some(&msgs), Some(&cmsgs), Some(&[0]), Some(&[1]), Some(&blind),
        )
        .unwrap();
        assert!(seen_proofs.insert(proof.to_bytes()), "the proof repeated");
        proof
            .blind_proof_verify(
                &pk, Some(b"r"), Some(b"p"), Some(1),
                Some(&pick(&msgs, &[0])), Some(&pick(&cmsgs, &[1])), Some(&[0]), Some(&[1]),
            )
            .expect("fresh-randomness proof verifies");
    }
}

// ---------------------------------------------------------------------------------------------
// F10: one commitment, several signatures (different signer lists / headers) - all complete
// ---------------------------------------------------------------------------------------------

#[test]
fn f10_one_commitment_many_signatures() {
    type CS = Bls12381Shake256;
    let (sk, pk) = keys::<CS>();
    let cmsgs = committed_msgs(2);
    let (c, blind) = Commitment::<BBSplus<CS>>::commit(Some(&cmsgs)).unwrap();
    let cbytes = c.to_bytes();
    for L in [0usize, 1, 4] {
        for header in [None, Some(&b"h1"[..]), Some(&b"h2"[..])] {
            let msgs = signer_msgs(L);
            let sig = BlindSignature::<BBSplus<CS>>::blind_sign(&sk, &pk, Some(&cbytes), header, Some(&msgs)).unwrap();
            sig.verify_blind_sign(&pk, header, Some(&msgs), Some(&cmsgs), Some(&blind))
                .unwrap_or_else(|err| panic!("re-used commitment L={L}: {err:?}"));
            present_all::<CS>(&pk, &sig.to_bytes(), Some(&blind), &msgs, &cmsgs, header, None, Empty::AsNone);
        }
    }
}

// ---------------------------------------------------------------------------------------------
// F11: the signer-side helper, called directly through the public API, accepts an honest commitment
//      both with exactly M + 1 blind generators and with the M + 2 that blind_sign prepares
// ---------------------------------------------------------------------------------------------

fn validate_commit_directly<CS: BbsCiphersuite>()
where
    CS::Expander: for<'a> ExpandMsg<'a>,
{
    for M in 0..=4usize {
        let cmsgs = committed_msgs(M);
        let (c, _blind) = Commitment::<BBSplus<CS>>::commit(Some(&cmsgs)).unwrap();
        let api = [b"BLIND_", CS::API_ID_BLIND].concat();
        for count in [M + 1, M + 2, M + 7] {
            let gens = Generators::create::<CS>(count, Some(&api));
            let point = Commitment::<BBSplus<CS>>::deserialize_and_validate_commit(
                Some(&c.to_bytes()),
                &gens,
                Some(CS::API_ID_BLIND),
            )
            .unwrap_or_else(|err| panic!("honest commitment refused M={M} count={count}: {err:?}"));
            match &c {
                Commitment::BBSplus(inner) => assert_eq!(inner.commitment, point),
                _ => unreachable!(),
            }
        }
    }
}

#[test]
fn f11_validate_commit_directly_sha256() {
    validate_commit_directly::<Bls12381Sha256>();
}
#[test]
fn f11_validate_commit_directly_shake256() {
    validate_commit_directly::<Bls12381Shake256>();
}

// ---------------------------------------------------------------------------------------------
// F12: disclosure choices handed to the PROVER unsorted or with a repeated position denote the same
//      subset: generation succeeds and the proof verifies with the subset in ascending order
// ---------------------------------------------------------------------------------------------

#[test]
fn f12_unsorted_choice_at_generation() {
    type CS = Bls12381Sha256;
    let (sk, pk) = keys::<CS>();
    let msgs = signer_msgs(4);
    let cmsgs = committed_msgs(4);
    let (sig, blind) = issue::<CS>(&sk, &pk, &msgs, &cmsgs, None, Empty::AsNone);
    let proof = PoKSignature::<BBSplus<CS>>::blind_proof_gen(
        &pk, &sig, None, None, Some(&msgs), Some(&cmsgs), Some(&[3, 0, 2]), Some(&[2, 2, 1]), Some(&blind),
    )
    .expect("generation with an unsorted / repeated choice");
    proof
        .blind_proof_verify(
            &pk, None, None, Some(4),
            Some(&pick(&msgs, &[0, 2, 3])), Some(&pick(&cmsgs, &[1, 2])), Some(&[0, 2, 3]), Some(&[1, 2]),
        )
        .expect("the proof verifies with the chosen subset, ascending");
}

// ---------------------------------------------------------------------------------------------
// F13: a message list shared between the two roles, and a committed message equal to the bytes of
//      the blind factor / of another artefact: contents are opaque, completeness must not care
// ---------------------------------------------------------------------------------------------

#[test]
fn f13_same_list_on_both_sides() {
    type CS = Bls12381Shake256;
    let (sk, pk) = keys::<CS>();
    let msgs = signer_msgs(3);
    let (c, blind) = Commitment::<BBSplus<CS>>::commit(Some(&msgs)).unwrap();
    let mut cmsgs = msgs.clone();
    // also commit again so that the committed list contains the first commitment's bytes
    cmsgs.push(c.to_bytes());
    cmsgs.push(blind.to_bytes().to_vec());
    let (sig, blind) = issue::<CS>(&sk, &pk, &msgs, &cmsgs, Some(b"x"), Empty::AsNone);
    present_all::<CS>(&pk, &sig, Some(&blind), &msgs, &cmsgs, Some(b"x"), Some(b"y"), Empty::AsNone);
}

// ---------------------------------------------------------------------------------------------
// F14: sanity of the surrounding contract (NOT clauses of C05, kept to make sure the passes above are
//      not vacuous): a wrong blind factor, a wrong L, a swapped list, the other suite, the plain interface
// ---------------------------------------------------------------------------------------------

#[test]
fn f14_non_vacuity() {
    type CS = Bls12381Sha256;
    let (sk, pk) = keys::<CS>();
    let msgs = signer_msgs(2);
    let cmsgs = committed_msgs(2);
    let (sig_bytes, blind) = issue::<CS>(&sk, &pk, &msgs, &cmsgs, Some(b"h"), Empty::AsNone);
    let sig = BlindSignature::<BBSplus<CS>>::from_bytes(&sig_bytes).unwrap();

    assert!(sig.verify_blind_sign(&pk, Some(b"h"), Some(&msgs), Some(&cmsgs), None).is_err(), "missing blind");
    assert!(sig.verify_blind_sign(&pk, Some(b"h"), Some(&msgs), Some(&cmsgs), Some(&BlindFactor::random())).is_err(), "wrong blind");
    assert!(sig.verify_blind_sign(&pk, Some(b"h"), Some(&cmsgs), Some(&msgs), Some(&blind)).is_err(), "swapped lists");
    assert!(sig.verify_blind_sign(&pk, Some(b"H"), Some(&msgs), Some(&cmsgs), Some(&blind)).is_err(), "other header");
    assert!(sig.verify_blind_sign(&pk, Some(b"h"), Some(&msgs), Some(&cmsgs[..1]), Some(&blind)).is_err(), "short committed list");

    let other = BlindSignature::<BBSplus<Bls12381Shake256>>::from_bytes(&sig_bytes).unwrap();
    assert!(other.verify_blind_sign(&pk, Some(b"h"), Some(&msgs), Some(&cmsgs), Some(&blind)).is_err(), "other suite");

    let plain = Signature::<BBSplus<CS>>::from_bytes(&sig_bytes).unwrap();
    let all: Vec<Vec<u8>> = msgs.iter().chain(cmsgs.iter()).cloned().collect();
    assert!(plain.verify(&pk, Some(&all), Some(b"h")).is_err(), "plain interface");

    // the other suite's commitment is refused by this suite's signer
    let (c_other, _) = Commitment::<BBSplus<Bls12381Shake256>>::commit(Some(&cmsgs)).unwrap();
    assert!(BlindSignature::<BBSplus<CS>>::blind_sign(&sk, &pk, Some(&c_other.to_bytes()), Some(b"h"), Some(&msgs)).is_err());

    let proof = PoKSignature::<BBSplus<CS>>::blind_proof_gen(
        &pk, &sig_bytes, Some(b"h"), Some(b"p"), Some(&msgs), Some(&cmsgs), Some(&[1]), Some(&[1]), Some(&blind),
    )
    .unwrap();
    let ok = |l: usize, dm: &[Vec<u8>], dcm: &[Vec<u8>], di: &[usize], dci: &[usize]| {
        proof
            .blind_proof_verify(&pk, Some(b"h"), Some(b"p"), Some(l), Some(dm), Some(dcm), Some(di), Some(dci))
            .is_ok()
    };
    assert!(ok(2, &pick(&msgs, &[1]), &pick(&cmsgs, &[1]), &[1], &[1]));
    assert!(!ok(1, &pick(&msgs, &[1]), &pick(&cmsgs, &[1]), &[1], &[1]), "wrong L (smaller)");
    assert!(!ok(3, &pick(&msgs, &[1]), &pick(&cmsgs, &[1]), &[1], &[1]), "wrong L (larger)");
    assert!(!ok(2, &pick(&msgs, &[1]), &pick(&cmsgs, &[1]), &[1], &[0]), "wrong committed position");
    assert!(!ok(2, &pick(&msgs, &[0]), &pick(&cmsgs, &[1]), &[1], &[1]), "wrong signer message");
    assert!(!ok(2, &pick(&cmsgs, &[1]), &pick(&msgs, &[1]), &[1], &[1]), "messages swapped between the lists");
}

// ---------------------------------------------------------------------------------------------
// F15: several provers at once (thread-local production RNG), both suites interleaved
// ---------------------------------------------------------------------------------------------

#[test]
fn f15_parallel_provers() {
    let handles: Vec<_> = (0..6usize)
        .map(|t| {
            std::thread::spawn(move || {
                if t % 2 == 0 {
                    grid::<Bls12381Sha256>(t % 3..=t % 3, 1..=2, Empty::AsNone);
                } else {
                    grid::<Bls12381Shake256>(t % 3..=t % 3, 1..=2, Empty::AsSomeEmpty);
                }
            })
        })
        .collect();
    for h in handles {
        h.join().expect("a prover thread failed");
    }
}
