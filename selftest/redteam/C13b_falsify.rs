#![cfg(feature = "cl03")]
#![allow(non_snake_case, non_upper_case_globals)]
// Red team, property C13 (CL03 signatures: issued ones verify, nothing else does).
// Every test asserts what the property requires; a failing test is a demonstrated violation.
// Reading used for panics: verify / verify_multiattr return bool, so the refusal the statement asks for ("verify = false")
// is the value false and a panic on attacker controlled data is not; the byte decoders return Self, a panic is their refusal.
// Fixed key material (CL1024), generated once with KeyPair::generate / Bases::generate of this tree.
const KP: &str = r#"{"public":{"N":{"radix":16,"value":"1a0050417c8ecfbe5e5e91ef0ee2d696fc1fce5b0d094d46add836ac41c67f9d8a422da5170d52709be1669fda2ec79ae1c006400421eb992aa227f9cdd766a410e441a6c560575acf013f8ceba2f8f5eef27455bc78833599711d5f2f9289e72c91e5fd81e8c48bba355693178854364a93a21f203d49cf42a8bc3a2f18286e9"},"b":{"radix":16,"value":"4806e0d661429da9297451fb11b16975a0c18f7333f0a133e5a0faf09b9d6bf9327c89e4a328b8e12fc4684304ad67780d1367ac61a855ff273002889d256a5c477f66a92887b8201ff6f7b4cb5a6ea2176d3d9273c48a1bfdd710ea8bc78315c9a05bd6a29d0b7eb898ba50b6affb08aaefc1faf86860157687b3b398ef9395"},"c":{"radix":16,"value":"2adc2ff5a3681d91593d7780f1b87f21ada9500f0e79aef90ec533d87d3b5e214048693d5c2a1d13f832e61ff511ffcd9625a6a83c7fa30b93a20c438f548a7f9587703a64529f58d68c95c934d355dec0306c0d4375c697304da85320c12d513c585357e4bd93994cbbfa16b6fda85f449d7ddbb4670b1d08fc381fed15ba03"}},"private":{"p":{"radix":16,"value":"16bf99c3dc579e02020c7bfab152eadf36ee57fe9d2f3dc12f02efa976d51a16bb5c560a380b11f5ab6b22874c66805d8a9712292ad913ef38468bbd6d7205c6b"},"q":{"radix":16,"value":"1249af329c7ea8e10c1e89b59b6f9dc64412d106b5911df6dfebb5228b97a080fa44c0fe27a4d30073314fe52f379d5bf813f681de0e1dd829b9fa666c4b23efb"}}}"#;
const BASES: &str = r#"[{"radix":16,"value":"135691b70365d8c1ab3489e66da8bb161f82ea5b8c164cc2e142909cfb5f0ad3e507fa766e65603294b9a5f0b126da89fc29d2391101875c83d33758870c778582add55c36968ff9dfb9b58be43cbda8f98f10f68f2832cafc92687e8d30d648b1b153be2989fb4b780b6203e09033cf43b36c2114ec9e5269add3495478dea95"},{"radix":16,"value":"155b51c42e3e5f45290756709019149a3a58bddc060f217b0d51b44dbe340d10be7d037436e89e2262bb0866940ee78463c3be8f932f9d807bce4e6152ee4be715d8211de7534407c8217074b7914eb8da2289dbf8dcaa7191edea4a7d77beb2041e893b4c76de329ba175de4e2bb6c49441a3c583e3f3800d6a17e2781c03e1a"},{"radix":16,"value":"e9d65e7fb027f8228ad344c39a18fa9b317bc91944b271077c5251f5052df32afb290dce89b8aec72fbd6031d285d2cedb1606302be230745a2516a7ca59156eaae57f1bed8bc4bbd26abdc53ad0e9fe803800b007d882c1e8aed4328da870b86bf6237400a5dbbf64cc45b5710b79c926edeed7f934c4df1819f03c02b82235"},{"radix":16,"value":"1608e58e51ce3d3dd9bbcd73423128baa897dd9a595077cf7a68acb814540ecac2bcefb00fd7a291a9b71d69276152a5043b428006a5a08c400f820963dbdad9af6d55afc8be40b6e72a1748b3e832c8d185a534fd0ac8f3bc59c97b05fad831efb163f979c2ed45599bc202e2b167ca19c1473acfe702f4f12b17dbe36bdaad1"}]"#;
const KP2: &str = r#"{"public":{"N":{"radix":16,"value":"1ef6b01e6891461faa11100adaedb344f4ba7105995c549bdd51f5e3a22a628236a39eb49a1eed55212fe3c0bc6393f2f9f1991c37eac94063089dbd8e9752ec98d505a1422e67075621d4c3998a7214392689fe72a9a2b79a08aba5ccb3f48d521881138b5e3b861daf005754d89f9cc65c836160aa5cbeccfa9520ba0e56775"},"b":{"radix":16,"value":"172b24ff795bb64a12d36e22495155ea6f25e7c1a35ab6c1be4c36a6a7b4087b4c55f0738d341924b5e9862e9a53f3f3488d04ff579f556760d97141912c2f523708b795e5dac73de0d89419236113bf1f6718a3150dcec0387846f0da255b7644507dfca4c9f438a18042658e7e5867754417e80747a0529a46be2b09b969a33"},"c":{"radix":16,"value":"12e29fa004283e1bee3e0c066264af6d6af557047da626b6c4a65d40dc41105610f9e194b8391ae6a269b971af88c97b1b52e802e387f1b4c34ae03adc725ce62dfe4a5ed6932bcbbec44242d1e818a80414d118a6a0730c10b7607806665b8140618ad9555add1f4f783c13ccfe97f616cb4336f95de71a264c66e21c9c5124d"}},"private":{"p":{"radix":16,"value":"19272584ad8f600eadb2ade50b09ba701e1f3398ad33c9bc085f63303a86f5ddb9b3c6ceabdbb919e7ebf4cfca8301065c56c9f47a1049c5c37a190caa9dce1af"},"q":{"radix":16,"value":"13b23d1adaad0356a32be226cd4ee7e0ddb41f647a9d4e016ec3e9a286cf7efdabd3d5543cee7d5ae96a761d4efab7cc503d88c3d42d28a806d1ad27f6508861b"}}}"#;
const BASES2: &str = r#"[{"radix":16,"value":"15c31554ed90b39061bf530816f4da398535a2ccf7291a958b6865715cbc55214fd5a42413cc362462df2b16d517518a5be861ae3e199dc9175066cf7eae9602cbeb526653d6b735a3060ab57e6c1470195c3eae2cc9900d6bcdbda3b76b2d567b0e47344499796e26923a42e78600f0f611dccf2fb53f58bd42fde1fe4e8c47"},{"radix":16,"value":"aaf014cdb69dd5c53f9ea7c980db13b0fbc56a4b5cf9e2924f0ed2241e2f03fda68a158f2b29d5fc817f691d33a778fe69c9f74d37dfa0c45f98ecd514d60bea165298dc5dcdbc2f023639f5c11cf34f7bbf806c9936e086401f848f2c6a6b3c191909ae58f8ee93a6c3802f98162042e7e175509256a4bac1843f88eb66f494"},{"radix":16,"value":"6975a3fd7e074cb9498f5a5e8ec56db92855a553c2f1009bd38d22e27b404cba77675f3dbdc24a61b1a725bbf793150c1ee1ae2effa1bb10e4c332d083169c135995ab07e52e11b0ecfab8cdde5dfa4b96aa66f1e9b7eac6601bbdf42dad587cc92fc220ed6d869515c709a3344338fb307e022f828c36292461b524b9c0a224"},{"radix":16,"value":"f9c43cc0482480f211e2216a04fcb0cee532421bb8cd8494e1668d2618018b56e469f35f79eb8a67c99d3e2d8832e4733c3040ccc43f515c3f10196b279b3db82e241595729a5fc7aa070ba78759a96f0333285bc3113730fe0d90a1f7b908ff5dacde2e039711fa4fb3d3d1948a636761ac1511bcd1d3984eb03512d5e9ac66"}]"#;

use rug::{integer::IsPrime, ops::Pow, Integer};
use serde_json::{json, Value};
use std::panic::{catch_unwind, AssertUnwindSafe};
use zkryptium::{
    cl03::{
        bases::Bases,
        ciphersuites::{CL1024Sha256, CL3072Sha256, CLCiphersuite},
        keys::{CL03PublicKey, CL03SecretKey},
    },
    keys::pair::KeyPair,
    schemes::algorithms::CL03,
    schemes::generics::{BlindSignature, Commitment, Signature, ZKPoK},
    utils::message::cl03_message::CL03Message,
};

type CS = CL1024Sha256;
type S = CL03<CS>;
type Sig = Signature<S>;

const LM: u32 = <CS as CLCiphersuite>::lm;
const LE: u32 = <CS as CLCiphersuite>::le;

fn kp() -> KeyPair<S> {
    serde_json::from_str(KP).unwrap()
}
fn kp2() -> KeyPair<S> {
    serde_json::from_str(KP2).unwrap()
}
fn bases() -> Bases {
    serde_json::from_str(BASES).unwrap()
}
fn bases2() -> Bases {
    serde_json::from_str(BASES2).unwrap()
}
fn bases_n(n: usize) -> Bases {
    Bases(bases().0[..n].to_vec())
}
fn m(i: u64) -> CL03Message {
    CL03Message::new(Integer::from(i))
}
fn mi(i: Integer) -> CL03Message {
    CL03Message::new(i)
}
fn two(n: u32) -> Integer {
    Integer::from(2).pow(n)
}
fn int_of(v: &Value) -> Integer {
    serde_json::from_value(v.clone()).unwrap()
}
/// (e, s, v) of a signature, through its JSON form
fn parts(sig: &Sig) -> (Integer, Integer, Integer) {
    let j = serde_json::to_value(sig).unwrap();
    (int_of(&j["CL03"]["e"]), int_of(&j["CL03"]["s"]), int_of(&j["CL03"]["v"]))
}
fn mk(e: &Integer, s: &Integer, v: &Integer) -> Sig {
    serde_json::from_value(json!({"CL03": {"e": e, "s": s, "v": v}})).unwrap()
}
fn inv(a: &Integer, n: &Integer) -> Integer {
    Integer::from(a.invert_ref(n).unwrap())
}
fn pw(a: &Integer, x: &Integer, n: &Integer) -> Integer {
    Integer::from(a.pow_mod_ref(x, n).unwrap())
}
/// verify that returns Err(()) when the library panics
fn v1(sig: &Sig, pk: &CL03PublicKey, b: &Bases, msg: &CL03Message) -> Result<bool, ()> {
    catch_unwind(AssertUnwindSafe(|| sig.verify(pk, b, msg))).map_err(|_| ())
}
fn vn(sig: &Sig, pk: &CL03PublicKey, b: &Bases, msgs: &[CL03Message]) -> Result<bool, ()> {
    catch_unwind(AssertUnwindSafe(|| sig.verify_multiattr(pk, b, msgs))).map_err(|_| ())
}
fn hashed(data: &[u8]) -> CL03Message {
    CL03Message::map_message_to_integer_as_hash::<CS>(data)
}

// ------------------------------------------------------------------------------------------------
// 1. honest single attribute, edges of the attribute range, encodings, shape of e
// ------------------------------------------------------------------------------------------------
#[test]
fn c01_honest_single_edges_encodings_and_e() {
    let kp = kp();
    let (pk, sk) = (kp.public_key(), kp.private_key());
    let b = bases_n(1);
    let phi = Integer::from(&sk.p - 1u32) * Integer::from(&sk.q - 1u32);
    let msgs = vec![
        m(0),
        m(1),
        mi(two(LM) - 1u32),
        mi(two(LM - 1)),
        hashed(b""),
        hashed(b"hello"),
        hashed(&[0xffu8; 300]),
    ];
    for msg in &msgs {
        let sig = Sig::sign(pk, sk, &b, msg);
        assert!(sig.verify(pk, &b, msg), "honest signature on {} refused", msg.value);
        assert!(sig.verify_multiattr(pk, &b, std::slice::from_ref(msg)));
        // bytes
        let bytes = sig.to_bytes();
        let back = Sig::from_bytes(&bytes);
        assert_eq!(back, sig);
        assert!(back.verify(pk, &b, msg));
        // json
        let js = serde_json::to_string(&sig).unwrap();
        let back: Sig = serde_json::from_str(&js).unwrap();
        assert_eq!(back, sig);
        assert!(back.verify(pk, &b, msg));
        // e
        let (e, s, v) = parts(&sig);
        assert_eq!(e.significant_bits(), LE, "bit length of e");
        assert!(e.is_probably_prime(40) != IsPrime::No, "e prime");
        assert_eq!(Integer::from(e.gcd_ref(&phi)), 1);
        assert!(s >= 0 && v > 0 && v < pk.N);
    }
}

// ------------------------------------------------------------------------------------------------
// 2. honest multi attribute + every subset of hidden positions, also unsorted / duplicated lists
// ------------------------------------------------------------------------------------------------
#[test]
fn c02_honest_multi_and_all_disclosure_subsets() {
    let kp = kp();
    let (pk, sk) = (kp.public_key(), kp.private_key());
    let b = bases_n(4);
    let msgs = vec![m(0), mi(two(LM) - 1u32), hashed(b"x"), m(1)];
    let sig = Sig::sign_multiattr(pk, sk, &b, &msgs);
    assert!(sig.verify_multiattr(pk, &b, &msgs));
    let back = Sig::from_bytes(&sig.to_bytes());
    assert!(back.verify_multiattr(pk, &b, &msgs));
    for mask in 0u32..16 {
        let idx: Vec<usize> = (0..4).filter(|i| mask >> i & 1 == 1).collect();
        let (sdm, sdb) = sig.disclose_selectively(&msgs, b.clone(), pk, &idx);
        assert!(sig.verify_multiattr(pk, &sdb, &sdm), "subset {:?}", idx);
        // the disclosed positions still carry the real attribute: changing one of them is refused
        for j in 0..4 {
            if !idx.contains(&j) {
                let mut wrong = sdm.clone();
                wrong[j].value += 1u32;
                if wrong[j].value < two(LM) {
                    assert!(!sig.verify_multiattr(pk, &sdb, &wrong));
                }
            }
        }
    }
    // unsorted and duplicated
    let (sdm, sdb) = sig.disclose_selectively(&msgs, b.clone(), pk, &[3, 1, 3, 1, 0]);
    assert!(sig.verify_multiattr(pk, &sdb, &sdm));
    // disclosure applied to its own output (same and further positions), and through JSON
    let (sdm2, sdb2) = sig.disclose_selectively(&sdm, sdb.clone(), pk, &[1, 2]);
    assert!(sig.verify_multiattr(pk, &sdb2, &sdm2));
    let sdb3: Bases = serde_json::from_str(&serde_json::to_string(&sdb2).unwrap()).unwrap();
    let sdm3: Vec<CL03Message> = serde_json::from_str(&serde_json::to_string(&sdm2).unwrap()).unwrap();
    assert!(sig.verify_multiattr(pk, &sdb3, &sdm3));
}

// ------------------------------------------------------------------------------------------------
// 3. many attributes
// ------------------------------------------------------------------------------------------------
#[test]
fn c03_honest_many_attributes() {
    let kp = kp();
    let (pk, sk) = (kp.public_key(), kp.private_key());
    let b = Bases::generate(pk, 70);
    let msgs: Vec<CL03Message> = (0..70u64).map(|i| hashed(&i.to_be_bytes())).collect();
    let sig = Sig::sign_multiattr(pk, sk, &b, &msgs);
    assert!(sig.verify_multiattr(pk, &b, &msgs));
    let mut wrong = msgs.clone();
    wrong[69].value -= 1u32;
    assert!(!sig.verify_multiattr(pk, &b, &wrong));
    wrong = msgs.clone();
    wrong.swap(68, 69);
    assert!(!sig.verify_multiattr(pk, &b, &wrong));
}

// ------------------------------------------------------------------------------------------------
// 4. other attribute vectors, with and without the matching shift of v
// ------------------------------------------------------------------------------------------------
#[test]
fn c04_other_vectors_and_shift_by_e() {
    let kp = kp();
    let (pk, sk) = (kp.public_key(), kp.private_key());
    let b = bases_n(3);
    let n = &pk.N;
    let msgs = vec![hashed(b"a"), m(5), mi(two(LM) - 1u32)];
    let sig = Sig::sign_multiattr(pk, sk, &b, &msgs);
    let (e, s, v) = parts(&sig);
    for i in 0..3usize {
        for k in [-3i32, -2, -1, 1, 2, 3] {
            // v' = v * a_i^k, m_i' = m_i + k e
            let ak = pw(&b.0[i], &Integer::from(k), n);
            let v2 = Integer::from(&v * &ak) % n;
            let mut m2 = msgs.clone();
            m2[i].value += Integer::from(k) * &e;
            let forged = mk(&e, &s, &v2);
            assert_eq!(vn(&forged, pk, &b, &m2), Ok(false), "shift i={} k={}", i, k);
            assert_eq!(vn(&sig, pk, &b, &m2), Ok(false));
            assert_eq!(vn(&forged, pk, &b, &msgs), Ok(false));
        }
        let mut m2 = msgs.clone();
        m2[i].value += two(LM);
        assert_eq!(vn(&sig, pk, &b, &m2), Ok(false));
        let mut m2 = msgs.clone();
        m2[i].value = two(LM);
        assert_eq!(vn(&sig, pk, &b, &m2), Ok(false));
        let mut m2 = msgs.clone();
        m2[i].value = Integer::from(-1);
        assert_eq!(vn(&sig, pk, &b, &m2), Ok(false));
    }
    let mut sw = msgs.clone();
    sw.swap(0, 1);
    assert_eq!(vn(&sig, pk, &b, &sw), Ok(false));
    // single attribute interface: the same
    let b1 = bases_n(1);
    let msg = mi(two(LM) - 1u32);
    let sig = Sig::sign(pk, sk, &b1, &msg);
    let (e, s, v) = parts(&sig);
    for k in [-2i32, -1, 1, 2] {
        let v2 = Integer::from(&v * &pw(&b1.0[0], &Integer::from(k), n)) % n;
        let m2 = mi(Integer::from(&msg.value + Integer::from(k) * &e));
        assert_eq!(v1(&mk(&e, &s, &v2), pk, &b1, &m2), Ok(false));
    }
    assert_eq!(v1(&sig, pk, &b1, &mi(two(LM))), Ok(false));
    assert_eq!(v1(&sig, pk, &b1, &mi(Integer::from(&msg.value - 1u32))), Ok(false));
}

// ------------------------------------------------------------------------------------------------
// 5. single field edits of (e, s, v): all refused with `false`
// ------------------------------------------------------------------------------------------------
#[test]
fn c05_single_field_edits() {
    let kp = kp();
    let (pk, sk) = (kp.public_key(), kp.private_key());
    let b = bases_n(2);
    let msgs = vec![hashed(b"a"), m(5)];
    let sig = Sig::sign_multiattr(pk, sk, &b, &msgs);
    let (e, s, v) = parts(&sig);
    let n = &pk.N;
    let es: Vec<Integer> = vec![
        Integer::from(&e + 1u32),
        Integer::from(&e - 1u32),
        Integer::from(&e + 2u32),
        Integer::from(&e * 2u32),
        Integer::from(0),
        Integer::from(1),
        Integer::from(-1),
        Integer::from(-&e),
        two(LE - 1),
        two(LE - 1) + 1u32,
        two(LE),
        two(LE) - 1u32,
        two(LE) + 1u32,
        Integer::from(&e + two(LE)),
    ];
    for e2 in &es {
        let f = mk(e2, &s, &v);
        assert_eq!(vn(&f, pk, &b, &msgs), Ok(false), "e -> {}", e2);
        assert_eq!(v1(&f, pk, &b, &msgs[0]), Ok(false), "e -> {}", e2);
    }
    let ss: Vec<Integer> = vec![
        Integer::from(&s + 1u32),
        Integer::from(&s - 1u32),
        Integer::from(0),
        Integer::from(-&s),
        Integer::from(&s + n),
        Integer::from(&s + &e),
        Integer::from(&s - &e),
        Integer::from(&s * 2u32),
    ];
    for s2 in &ss {
        let f = mk(&e, s2, &v);
        assert_eq!(vn(&f, pk, &b, &msgs), Ok(false), "s -> {}", s2);
    }
    let vs: Vec<Integer> = vec![
        Integer::from(&v + 1u32),
        Integer::from(&v - 1u32),
        Integer::from(0),
        Integer::from(1),
        Integer::from(n - &v),
        Integer::from(-&v),
        Integer::from(&v + n),
        Integer::from(&v - n),
        Integer::from(n - 1u32),
        n.clone(),
        inv(&v, n),
    ];
    for v2 in &vs {
        let f = mk(&e, &s, v2);
        assert_eq!(vn(&f, pk, &b, &msgs), Ok(false), "v -> {}", v2);
        assert_eq!(v1(&f, pk, &b, &msgs[0]), Ok(false), "v -> {}", v2);
    }
    // (N - v) with an even e would pass: e is odd for issued signatures and an even e in range needs a root
    assert!(e.is_odd());
}

// ------------------------------------------------------------------------------------------------
// 6. two fields edited at once: negative e and a non invertible v. The statement wants `false`
//    (reading: verify returns bool, a panic on attacker supplied data is not a refusal)
// ------------------------------------------------------------------------------------------------
#[test]
fn c06_negative_e_with_zero_v_is_refused_not_panic() {
    let kp = kp();
    let (pk, sk) = (kp.public_key(), kp.private_key());
    let b = bases_n(1);
    let msg = m(7);
    let sig = Sig::sign(pk, sk, &b, &msg);
    let (e, s, _v) = parts(&sig);
    let f = mk(&Integer::from(-&e), &s, &Integer::from(0));
    assert_eq!(v1(&f, pk, &b, &msg), Ok(false), "verify panicked instead of returning false");
    assert_eq!(vn(&f, pk, &b, &[msg.clone()]), Ok(false), "verify_multiattr panicked instead of returning false");
}

// ------------------------------------------------------------------------------------------------
// 7. other bases: another honest base set, permuted, and the representative a + N / a - N of the same base
// ------------------------------------------------------------------------------------------------
#[test]
fn c07_other_bases_honest() {
    let kp = kp();
    let (pk, sk) = (kp.public_key(), kp.private_key());
    let b = bases_n(2);
    let msgs = vec![hashed(b"a"), m(5)];
    let sig = Sig::sign_multiattr(pk, sk, &b, &msgs);
    let other = Bases(bases().0[2..4].to_vec());
    assert_eq!(vn(&sig, pk, &other, &msgs), Ok(false));
    let perm = Bases(vec![b.0[1].clone(), b.0[0].clone()]);
    assert_eq!(vn(&sig, pk, &perm, &msgs), Ok(false));
    let mixed = Bases(vec![b.0[0].clone(), bases().0[3].clone()]);
    assert_eq!(vn(&sig, pk, &mixed, &msgs), Ok(false));
    let foreign = Bases(bases2().0[..2].to_vec());
    assert_eq!(vn(&sig, pk, &foreign, &msgs), Ok(false));
    let sq = Bases(vec![Integer::from(&b.0[0] * &b.0[0]) % &pk.N, b.0[1].clone()]);
    assert_eq!(vn(&sig, pk, &sq, &msgs), Ok(false));
}

#[test]
fn c08_noncanonical_base_representative_is_another_base() {
    // v + N is refused since the repair; the bases are residues modulo N as well
    let kp = kp();
    let (pk, sk) = (kp.public_key(), kp.private_key());
    let b = bases_n(2);
    let msgs = vec![hashed(b"a"), m(5)];
    let sig = Sig::sign_multiattr(pk, sk, &b, &msgs);
    let plus = Bases(vec![Integer::from(&b.0[0] + &pk.N), b.0[1].clone()]);
    let minus = Bases(vec![b.0[0].clone(), Integer::from(&b.0[1] - &pk.N)]);
    assert!(plus.0[0] != b.0[0]);
    assert_eq!(vn(&sig, pk, &plus, &msgs), Ok(false), "bases with a_0 + N accepted");
    assert_eq!(vn(&sig, pk, &minus, &msgs), Ok(false), "bases with a_1 - N accepted");
    assert_eq!(v1(&sig, pk, &plus, &msgs[0]), Ok(false));
}

// ------------------------------------------------------------------------------------------------
// 9. other keys: another honest key, the same key with b + N / c + N
// ------------------------------------------------------------------------------------------------
#[test]
fn c09_other_keys_honest() {
    let kp = kp();
    let kp2 = kp2();
    let (pk, sk) = (kp.public_key(), kp.private_key());
    let b = bases_n(2);
    let msgs = vec![hashed(b"a"), m(5)];
    let sig = Sig::sign_multiattr(pk, sk, &b, &msgs);
    assert_eq!(vn(&sig, kp2.public_key(), &b, &msgs), Ok(false));
    assert_eq!(vn(&sig, kp2.public_key(), &bases2(), &msgs), Ok(false));
    let swapped = CL03PublicKey::new(pk.N.clone(), pk.c.clone(), pk.b.clone());
    assert_eq!(vn(&sig, &swapped, &b, &msgs), Ok(false));
    let k = CL03PublicKey::new(pk.N.clone(), pk.b.clone(), Integer::from(&pk.c + 1u32));
    assert_eq!(vn(&sig, &k, &b, &msgs), Ok(false));
    let k = CL03PublicKey::new(Integer::from(&pk.N + 2u32), pk.b.clone(), pk.c.clone());
    assert_eq!(vn(&sig, &k, &b, &msgs), Ok(false));
    let k = CL03PublicKey::new(Integer::from(-&pk.N), pk.b.clone(), pk.c.clone());
    assert_eq!(vn(&sig, &k, &b, &msgs), Ok(false));
    // a signature made with the wrong secret key for the public key
    let bad = Sig::sign_multiattr(pk, kp2.private_key(), &b, &msgs);
    assert_eq!(vn(&bad, pk, &b, &msgs), Ok(false));
    // key bytes round trip
    let pkb = CL03PublicKey::from_bytes::<S>(&pk.to_bytes::<S>());
    assert_eq!(&pkb, pk);
    let skb = CL03SecretKey::from_bytes::<S>(&sk.to_bytes::<S>());
    assert_eq!(&skb, sk);
    assert!(sig.verify_multiattr(&pkb, &b, &msgs));
}

#[test]
fn c10_noncanonical_key_representatives_are_other_keys() {
    let kp = kp();
    let (pk, sk) = (kp.public_key(), kp.private_key());
    let b = bases_n(1);
    let msg = m(5);
    let sig = Sig::sign(pk, sk, &b, &msg);
    let k1 = CL03PublicKey::new(pk.N.clone(), Integer::from(&pk.b + &pk.N), pk.c.clone());
    let k2 = CL03PublicKey::new(pk.N.clone(), pk.b.clone(), Integer::from(&pk.c + &pk.N));
    let k3 = CL03PublicKey::new(pk.N.clone(), pk.b.clone(), Integer::from(&pk.c - &pk.N));
    assert!(&k1 != pk && &k2 != pk && &k3 != pk);
    assert_eq!(v1(&sig, &k1, &b, &msg), Ok(false), "key (N, b + N, c) accepted");
    assert_eq!(v1(&sig, &k2, &b, &msg), Ok(false), "key (N, b, c + N) accepted");
    assert_eq!(v1(&sig, &k3, &b, &msg), Ok(false), "key (N, b, c - N) accepted");
}

// ------------------------------------------------------------------------------------------------
// 11. degenerate bases: a zero base makes (any e, any s, v = 0) a signature on every non zero attribute
// ------------------------------------------------------------------------------------------------
#[test]
fn c11_zero_base_and_zero_v_universal_acceptance() {
    let kp = kp();
    let pk = kp.public_key();
    let zero = Bases(vec![Integer::from(0)]);
    let e = two(LE - 1) + 1u32; // not even prime-checked: any value of the range
    let f = mk(&e, &Integer::from(0), &Integer::from(0));
    for msg in [m(1), m(2), hashed(b"anything")] {
        assert_eq!(v1(&f, pk, &zero, &msg), Ok(false), "(e, 0, 0) accepted for {} under the base 0", msg.value);
    }
    // a multiple of N is the same base
    let zero = Bases(vec![pk.N.clone(), bases().0[1].clone()]);
    assert_eq!(vn(&f, pk, &zero, &[m(3), m(4)]), Ok(false));
}

// ------------------------------------------------------------------------------------------------
// 12. degenerate keys N = 1 (everything is 0 mod 1) and N = 0
// ------------------------------------------------------------------------------------------------
#[test]
fn c12_degenerate_modulus() {
    let kp = kp();
    let (pk, sk) = (kp.public_key(), kp.private_key());
    let b = bases_n(1);
    let msg = m(5);
    let sig = Sig::sign(pk, sk, &b, &msg);
    let (e, s, _) = parts(&sig);
    let one = CL03PublicKey::new(Integer::from(1), pk.b.clone(), pk.c.clone());
    // the issued signature is refused (v >= N)
    assert_eq!(v1(&sig, &one, &b, &msg), Ok(false));
    let f = mk(&e, &s, &Integer::from(0));
    assert_eq!(v1(&f, &one, &b, &msg), Ok(false), "N = 1 accepts (e, s, 0) for everything");
}

#[test]
fn c12b_zero_modulus_is_refused_not_panic() {
    let kp = kp();
    let (pk, sk) = (kp.public_key(), kp.private_key());
    let b = bases_n(1);
    let msg = m(5);
    let sig = Sig::sign(pk, sk, &b, &msg);
    let (e, s, _) = parts(&sig);
    let zero = CL03PublicKey::new(Integer::from(0), pk.b.clone(), pk.c.clone());
    // the issued signature: v >= N = 0, refused before any arithmetic
    assert_eq!(v1(&sig, &zero, &b, &msg), Ok(false));
    // no v passes 0 <= v < 0: nothing can reach the arithmetic modulo 0
    assert_eq!(v1(&mk(&e, &s, &Integer::from(0)), &zero, &b, &msg), Ok(false));
}

// ------------------------------------------------------------------------------------------------
// 13. a signature object of the other scheme inside the CL03 type (public enum variant, also reachable from JSON)
// ------------------------------------------------------------------------------------------------
#[cfg(feature = "bbsplus")]
#[test]
fn c13_bbs_variant_inside_cl03_signature_is_refused_not_panic() {
    use zkryptium::bbsplus::keys::BBSplusPublicKey;
    use zkryptium::schemes::algorithms::BbsBls12381Sha256;
    let bkp = KeyPair::<BbsBls12381Sha256>::random().unwrap();
    let bsig = Signature::<BbsBls12381Sha256>::sign(
        Some(&[b"m".to_vec()]),
        bkp.private_key(),
        bkp.public_key(),
        None,
    )
    .unwrap();
    let _: &BBSplusPublicKey = bkp.public_key();
    let js = serde_json::to_string(&bsig).unwrap();
    // the JSON of a BBS+ signature decodes as a CL03 signature object
    let as_cl: Result<Sig, _> = serde_json::from_str(&js);
    let Ok(as_cl) = as_cl else { return }; // refused at decoding: fine
    let kp = kp();
    let r = v1(&as_cl, kp.public_key(), &bases_n(1), &m(1));
    assert_eq!(r, Ok(false), "verify panics on a signature decoded from the JSON of the other scheme");
}

// ------------------------------------------------------------------------------------------------
// 14. the ciphersuite is not bound: a CL1024 signature and key under the CL3072 type
// ------------------------------------------------------------------------------------------------
#[test]
fn c14_signature_of_another_suite() {
    let kp = kp();
    let (pk, sk) = (kp.public_key(), kp.private_key());
    let b = bases_n(1);
    let msg = m(5);
    let sig = Sig::sign(pk, sk, &b, &msg);
    let js = serde_json::to_string(&sig).unwrap();
    let other: Signature<CL03<CL3072Sha256>> = serde_json::from_str(&js).unwrap();
    let r = catch_unwind(AssertUnwindSafe(|| other.verify(pk, &b, &msg)));
    assert_eq!(r.ok(), Some(false), "a CL1024 signature under a 1024 bit key verifies as a CL3072 signature");
}

// ------------------------------------------------------------------------------------------------
// 15. sign_multiattr / verify_multiattr take more bases than attributes, disclose_selectively does not
// ------------------------------------------------------------------------------------------------
#[test]
fn c15_disclosure_with_a_longer_base_set() {
    let kp = kp();
    let (pk, sk) = (kp.public_key(), kp.private_key());
    let b = bases_n(4);
    let msgs = vec![hashed(b"a"), m(5)];
    let sig = Sig::sign_multiattr(pk, sk, &b, &msgs);
    assert!(sig.verify_multiattr(pk, &b, &msgs));
    let r = catch_unwind(AssertUnwindSafe(|| sig.disclose_selectively(&msgs, b.clone(), pk, &[1])));
    assert!(r.is_ok(), "disclose_selectively panics for a base set that sign and verify accept");
    let (sdm, sdb) = r.unwrap();
    assert!(sig.verify_multiattr(pk, &sdb, &sdm));
}

// ------------------------------------------------------------------------------------------------
// 16. the issuing side has no range check: a signature issued on an oversized attribute does not verify,
//     but (v / a, m - e) is then a verifying signature on an in-range attribute that was never issued
// ------------------------------------------------------------------------------------------------
#[test]
fn c16_oversized_attribute_at_issuance_gives_unissued_in_range_signature() {
    let kp = kp();
    let (pk, sk) = (kp.public_key(), kp.private_key());
    let b = bases_n(2);
    let n = &pk.N;
    let big = Integer::from(3u32) * two(LM); // e is in (2 * 2^lm, 4 * 2^lm)
    let mut found = None;
    for _ in 0..64 {
        let msgs = vec![mi(big.clone()), m(9)];
        let sig = Sig::sign_multiattr(pk, sk, &b, &msgs);
        // what was issued does not verify
        assert_eq!(vn(&sig, pk, &b, &msgs), Ok(false));
        let (e, s, v) = parts(&sig);
        let m2 = Integer::from(&big - &e);
        if m2 >= 0 && m2 < two(LM) {
            let v2 = Integer::from(&v * &inv(&b.0[0], n)) % n;
            found = Some((mk(&e, &s, &v2), vec![mi(m2), m(9)]));
            break;
        }
    }
    let (forged, m2) = found.expect("no e in the window in 64 tries");
    assert_eq!(
        vn(&forged, pk, &b, &m2),
        Ok(false),
        "a vector that was never issued verifies (derived without the secret key from a signature on an oversized attribute)"
    );
}

// ------------------------------------------------------------------------------------------------
// 17. byte decoder: other byte strings
// ------------------------------------------------------------------------------------------------
#[test]
fn c17_byte_encodings() {
    let kp = kp();
    let (pk, sk) = (kp.public_key(), kp.private_key());
    let b = bases_n(1);
    let msg = m(5);
    let sig = Sig::sign(pk, sk, &b, &msg);
    let bytes = sig.to_bytes();
    let head = (LE + <CS as CLCiphersuite>::ls) as usize;
    // one more byte at the end: another v
    let mut longer = bytes.clone();
    longer.push(0);
    assert_eq!(v1(&Sig::from_bytes(&longer), pk, &b, &msg), Ok(false));
    // last byte removed
    let shorter = &bytes[..bytes.len() - 1];
    assert_eq!(v1(&Sig::from_bytes(shorter), pk, &b, &msg), Ok(false));
    // every single byte flip in a sample of positions
    for pos in [head - 1, head, head + 1, bytes.len() - 1, LE as usize - 1, LE as usize - 33, LE as usize, head - 192] {
        let mut f = bytes.clone();
        f[pos] ^= 1;
        assert_eq!(v1(&Sig::from_bytes(&f), pk, &b, &msg), Ok(false), "flip at {}", pos);
    }
    // only the fixed part: v = 0
    assert_eq!(v1(&Sig::from_bytes(&bytes[..head]), pk, &b, &msg), Ok(false));
    // shorter than the fixed part: the decoder has no error value, a panic is its refusal (reading used here)
    let r = catch_unwind(|| Sig::from_bytes(&[0u8; 10]));
    if let Ok(s) = r {
        assert_eq!(v1(&s, pk, &b, &msg), Ok(false));
    }
    // bytes written under another suite (ls differs): not the same signature
    let r = catch_unwind(AssertUnwindSafe(|| {
        Signature::<CL03<CL3072Sha256>>::from_bytes(&bytes).verify(pk, &b, &msg)
    }));
    assert!(r.is_err() || r.ok() == Some(false));
}

// ------------------------------------------------------------------------------------------------
// 18. the single attribute functions and the multi attribute ones agree
// ------------------------------------------------------------------------------------------------
#[test]
fn c18_single_and_multi_agree() {
    let kp = kp();
    let (pk, sk) = (kp.public_key(), kp.private_key());
    let b3 = bases_n(3);
    let b1 = bases_n(1);
    let msg = hashed(b"zz");
    let s1 = Sig::sign(pk, sk, &b3, &msg); // longer base set: only a_0 is used
    assert!(s1.verify(pk, &b1, &msg));
    assert!(s1.verify_multiattr(pk, &b1, &[msg.clone()]));
    let s2 = Sig::sign_multiattr(pk, sk, &b1, &[msg.clone()]);
    assert!(s2.verify(pk, &b3, &msg));
    let wrong = mi(Integer::from(&msg.value ^ Integer::from(1)));
    assert!(!s2.verify(pk, &b3, &wrong));
    assert!(!s1.verify_multiattr(pk, &b1, &[wrong]));
    // disclosure of the only attribute, checked through the single attribute verifier
    let (sdm, sdb) = s1.disclose_selectively(&[msg.clone()], b1.clone(), pk, &[0]);
    assert!(s1.verify(pk, &sdb, &sdm[0]));
}

// ------------------------------------------------------------------------------------------------
// 19. verify with an empty base set: `false` wanted (reading as in c06)
// ------------------------------------------------------------------------------------------------
#[test]
fn c19_empty_base_set() {
    let kp = kp();
    let (pk, sk) = (kp.public_key(), kp.private_key());
    let b = bases_n(1);
    let msg = m(5);
    let sig = Sig::sign(pk, sk, &b, &msg);
    let empty = Bases(vec![]);
    assert_eq!(v1(&sig, pk, &empty, &msg), Ok(false), "verify panics on an empty base set");
}

#[test]
fn c19b_longer_vector_than_bases() {
    // an attribute vector that is not the issued one (one more attribute than there are bases)
    let kp = kp();
    let (pk, sk) = (kp.public_key(), kp.private_key());
    let b = bases_n(1);
    let msg = m(5);
    let sig = Sig::sign(pk, sk, &b, &msg);
    assert_eq!(vn(&sig, pk, &b, &[msg.clone(), m(0)]), Ok(false), "verify_multiattr panics (explicit panic!) instead of refusing");
}

// ------------------------------------------------------------------------------------------------
// 20. JSON: other spellings of the same integers give the same signature; other integers do not verify
// ------------------------------------------------------------------------------------------------
#[test]
fn c20_json_spellings() {
    let kp = kp();
    let (pk, sk) = (kp.public_key(), kp.private_key());
    let b = bases_n(1);
    let msg = m(5);
    let sig = Sig::sign(pk, sk, &b, &msg);
    let (e, s, v) = parts(&sig);
    let j = json!({"CL03": {
        "e": {"radix": 10, "value": e.to_string_radix(10)},
        "s": {"radix": 16, "value": format!("000{}", s.to_string_radix(16).to_uppercase())},
        "v": {"radix": 36, "value": v.to_string_radix(36)},
    }});
    let back: Sig = serde_json::from_value(j).unwrap();
    assert_eq!(back, sig);
    assert!(back.verify(pk, &b, &msg));
    // missing / extra / renamed fields
    assert!(serde_json::from_value::<Sig>(json!({"CL03": {"e": e, "s": s}})).is_err());
    assert!(serde_json::from_value::<Sig>(json!({"_Unreachable": null})).is_err());
    assert!(serde_json::from_value::<Sig>(json!({"CL03": {"e": e, "s": s, "v": "12"}})).is_err());
    // the blind signature object is not a signature object and the other way round
    assert!(serde_json::from_value::<Sig>(json!({"CL03": {"e": e, "rprime": s, "v": v}})).is_err());
    assert!(serde_json::from_value::<BlindSignature<S>>(json!({"CL03": {"e": e, "s": s, "v": v}})).is_err());
}

// ------------------------------------------------------------------------------------------------
// 21. the blind interface issues the same kind of signature (e of the same shape, verifies, other vectors refused)
// ------------------------------------------------------------------------------------------------
#[test]
fn c21_blind_issuance_and_update() {
    let kp = kp();
    let (pk, sk) = (kp.public_key(), kp.private_key());
    let b = bases_n(3);
    let phi = Integer::from(&sk.p - 1u32) * Integer::from(&sk.q - 1u32);
    let msgs = vec![hashed(b"h"), m(0), mi(two(LM) - 1u32)];
    let unrevealed = [0usize];
    let revealed_idx = [1usize, 2usize];
    let revealed = vec![msgs[1].clone(), msgs[2].clone()];
    let com = Commitment::<S>::commit_with_pk(&msgs, pk, &b, Some(&unrevealed));
    let zk = ZKPoK::<S>::generate_proof(&msgs, com.cl03Commitment(), None, pk, &b, None, &unrevealed);
    let bs = BlindSignature::<S>::blind_sign(
        pk, sk, &b, &zk, Some(&revealed), com.cl03Commitment(), None, None, &unrevealed, Some(&revealed_idx),
    );
    let sig = bs.unblind_sign(&com);
    assert!(sig.verify_multiattr(pk, &b, &msgs));
    let back = Sig::from_bytes(&sig.to_bytes());
    assert_eq!(back, sig);
    let (e, _s, _v) = parts(&sig);
    assert_eq!(e.significant_bits(), LE);
    assert!(e.is_probably_prime(40) != IsPrime::No);
    assert_eq!(Integer::from(e.gcd_ref(&phi)), 1);
    let mut wrong = msgs.clone();
    wrong[1] = m(1);
    assert!(!sig.verify_multiattr(pk, &b, &wrong));
    for mask in 0u32..8 {
        let idx: Vec<usize> = (0..3).filter(|i| mask >> i & 1 == 1).collect();
        let (sdm, sdb) = sig.disclose_selectively(&msgs, b.clone(), pk, &idx);
        assert!(sig.verify_multiattr(pk, &sdb, &sdm));
    }
    // update
    let new_revealed = vec![m(77), msgs[2].clone()];
    let up = bs.update_signature(Some(&new_revealed), com.cl03Commitment(), sk, pk, &b, Some(&revealed_idx));
    let usig = up.unblind_sign(&com);
    let newm = vec![msgs[0].clone(), m(77), msgs[2].clone()];
    assert!(usig.verify_multiattr(pk, &b, &newm));
    assert!(!usig.verify_multiattr(pk, &b, &msgs));
    let (e2, _, _) = parts(&usig);
    assert!(e2 != e);
    assert_eq!(e2.significant_bits(), LE);
    assert!(e2.is_probably_prime(40) != IsPrime::No);
}

// ------------------------------------------------------------------------------------------------
// 22. parts of two issued signatures mixed
// ------------------------------------------------------------------------------------------------
#[test]
fn c22_mix_of_two_signatures() {
    let kp = kp();
    let (pk, sk) = (kp.public_key(), kp.private_key());
    let b = bases_n(2);
    let n = &pk.N;
    let ma = vec![m(5), m(6)];
    let mb = vec![m(7), m(8)];
    let sa = Sig::sign_multiattr(pk, sk, &b, &ma);
    let sb = Sig::sign_multiattr(pk, sk, &b, &mb);
    let (ea, s_a, va) = parts(&sa);
    let (eb, s_b, vb) = parts(&sb);
    for (e, s, v) in [
        (&ea, &s_a, &vb),
        (&ea, &s_b, &va),
        (&eb, &s_a, &va),
        (&ea, &s_b, &vb),
        (&eb, &s_a, &vb),
        (&eb, &s_b, &va),
    ] {
        let f = mk(e, s, v);
        for ms in [&ma, &mb] {
            assert_eq!(vn(&f, pk, &b, ms), Ok(false));
        }
    }
    let prod = Integer::from(&va * &vb) % n;
    let f = mk(&ea, &Integer::from(&s_a + &s_b), &prod);
    assert_eq!(vn(&f, pk, &b, &[m(12), m(14)]), Ok(false));
    assert_eq!(vn(&sa, pk, &b, &mb), Ok(false));
}

// ------------------------------------------------------------------------------------------------
// 23. c16 through the blind interface: the disclosed attributes handed to blind_sign are not range checked either
// ------------------------------------------------------------------------------------------------
#[test]
fn c23_oversized_disclosed_attribute_in_blind_issuance() {
    let kp = kp();
    let (pk, sk) = (kp.public_key(), kp.private_key());
    let b = bases_n(2);
    let n = &pk.N;
    let big = Integer::from(3u32) * two(LM);
    let hidden = hashed(b"h");
    let msgs = vec![hidden.clone(), mi(big.clone())];
    let unrevealed = [0usize];
    let revealed_idx = [1usize];
    let revealed = vec![msgs[1].clone()];
    let com = Commitment::<S>::commit_with_pk(&msgs, pk, &b, Some(&unrevealed));
    let zk = ZKPoK::<S>::generate_proof(&msgs, com.cl03Commitment(), None, pk, &b, None, &unrevealed);
    let mut found = None;
    for _ in 0..64 {
        let r = catch_unwind(AssertUnwindSafe(|| {
            BlindSignature::<S>::blind_sign(
                pk, sk, &b, &zk, Some(&revealed), com.cl03Commitment(), None, None, &unrevealed, Some(&revealed_idx),
            )
        }));
        let Ok(bs) = r else { return }; // refused: the property holds on this path
        let sig = bs.unblind_sign(&com);
        assert_eq!(vn(&sig, pk, &b, &msgs), Ok(false));
        let (e, s, v) = parts(&sig);
        let m2 = Integer::from(&big - &e);
        if m2 >= 0 && m2 < two(LM) {
            let v2 = Integer::from(&v * &inv(&b.0[1], n)) % n;
            found = Some((mk(&e, &s, &v2), vec![hidden.clone(), mi(m2)]));
            break;
        }
    }
    let (forged, m2) = found.expect("no e in the window in 64 tries");
    assert_eq!(vn(&forged, pk, &b, &m2), Ok(false), "a vector that was never issued verifies");
}

// ------------------------------------------------------------------------------------------------
// 24. the largest attribute and the smallest / largest e: the new checks are not off by one
// ------------------------------------------------------------------------------------------------
#[test]
fn c24_edges_of_the_checked_ranges_with_the_secret_key() {
    // signatures computed here with the secret key for chosen e, to hit the bounds exactly
    let kp = kp();
    let (pk, sk) = (kp.public_key(), kp.private_key());
    let b = bases_n(1);
    let n = &pk.N;
    let phi = Integer::from(&sk.p - 1u32) * Integer::from(&sk.q - 1u32);
    let make = |e: &Integer, msg: &Integer| -> Option<Sig> {
        let d = e.invert_ref(&phi).map(Integer::from)?;
        let s = Integer::from(12345);
        let rhs = Integer::from(pw(&b.0[0], msg, n) * pw(&pk.b, &s, n)) * &pk.c % n;
        Some(mk(e, &s, &pw(&rhs, &d, n)))
    };
    let top = two(LM) - 1u32;
    // smallest admissible e = 2^(le-1) + 1 and largest = 2^le - 1 (whatever their primality: the verifier cannot see it)
    let mut lo = two(LE - 1) + 1u32;
    while Integer::from(lo.gcd_ref(&phi)) != 1 { lo += 2u32; }
    let mut hi = two(LE) - 1u32;
    while Integer::from(hi.gcd_ref(&phi)) != 1 { hi -= 2u32; }
    for e in [&lo, &hi] {
        let sig = make(e, &top).unwrap();
        assert_eq!(v1(&sig, pk, &b, &mi(top.clone())), Ok(true), "e = {} inside the range", e);
        assert_eq!(v1(&sig, pk, &b, &m(0)), Ok(false));
    }
    // e just outside on both sides, although the equation holds
    let mut below = two(LE - 1) - 1u32;
    while Integer::from(below.gcd_ref(&phi)) != 1 { below -= 2u32; }
    let mut above = two(LE) + 1u32;
    while Integer::from(above.gcd_ref(&phi)) != 1 { above += 2u32; }
    for e in [&below, &above] {
        let sig = make(e, &top).unwrap();
        assert_eq!(v1(&sig, pk, &b, &mi(top.clone())), Ok(false), "e = {} outside the range", e);
        assert_eq!(vn(&sig, pk, &b, &[mi(top.clone())]), Ok(false));
    }
    // attribute 2^lm with a correct equation: refused
    let sig = make(&lo, &two(LM)).unwrap();
    assert_eq!(v1(&sig, pk, &b, &mi(two(LM))), Ok(false));
    assert_eq!(vn(&sig, pk, &b, &[mi(two(LM))]), Ok(false));
}
