// Red-team candidates for PROPERTY C04 (BBS proof soundness).
// Every test asserts what the property requires: a failing test is a violation on the unmodified tree.
// Reading used for panics: a panic inside the verifier / decoder counts as a violation only where the statement
// demands "proof_verify = Err" (the harness would show it as a failed test anyway).
#![allow(non_snake_case)]
#![allow(dead_code)]

use bls12_381_plus::{G1Projective, G2Projective, Scalar};
use elliptic_curve::{group::Curve, hash2curve::ExpandMsg};
use zkryptium::{
    bbsplus::{
        ciphersuites::{BbsCiphersuite, Bls12381Sha256, Bls12381Shake256},
        commitment::BlindFactor,
        generators::Generators,
        keys::BBSplusPublicKey,
        proof::BBSplusPoKSignature,
    },
    keys::pair::KeyPair,
    schemes::{
        algorithms::BBSplus,
        generics::{BlindSignature, Commitment, PoKSignature, Signature},
    },
    utils::{
        message::bbsplus_message::BBSplusMessage,
        util::bbsplus_utils::{hash_to_scalar, i2osp},
    },
};

type Sha = Bls12381Sha256;
type Shake = Bls12381Shake256;

const HEADER: &[u8] = b"header-11223344";
const PH: &[u8] = b"presentation-header-aabbcc";

// ---------------------------------------------------------------------------------------------
// helpers
// ---------------------------------------------------------------------------------------------

fn keypair<CS: BbsCiphersuite>(seed: u8) -> KeyPair<BBSplus<CS>>
where
    CS::Expander: for<'a> ExpandMsg<'a>,
{
    KeyPair::<BBSplus<CS>>::generate(&[seed; 32], Some(b"falsify"), None).unwrap()
}

fn messages(n: usize) -> Vec<Vec<u8>> {
    (0..n).map(|i| format!("message-{}", i).into_bytes()).collect()
}

fn pick(msgs: &[Vec<u8>], idx: &[usize]) -> Vec<Vec<u8>> {
    idx.iter().map(|&i| msgs[i].clone()).collect()
}

/// honest plain proof (octets) for (msgs, idx, header, ph) under keypair(seed)
fn honest<CS: BbsCiphersuite>(
    kp: &KeyPair<BBSplus<CS>>,
    msgs: &[Vec<u8>],
    idx: &[usize],
    header: Option<&[u8]>,
    ph: Option<&[u8]>,
) -> Vec<u8>
where
    CS::Expander: for<'a> ExpandMsg<'a>,
{
    let sig = Signature::<BBSplus<CS>>::sign(Some(msgs), kp.private_key(), kp.public_key(), header).unwrap();
    sig.verify(kp.public_key(), Some(msgs), header).unwrap();
    let p = PoKSignature::<BBSplus<CS>>::proof_gen(
        kp.public_key(),
        &sig.to_bytes(),
        header,
        ph,
        Some(msgs),
        Some(idx),
    )
    .unwrap();
    p.to_bytes()
}

/// decode + verify through the public octet decoder
fn vfy<CS: BbsCiphersuite>(
    proof: &[u8],
    pk: &BBSplusPublicKey,
    dm: &[Vec<u8>],
    di: &[usize],
    header: Option<&[u8]>,
    ph: Option<&[u8]>,
) -> Result<(), String>
where
    CS::Expander: for<'a> ExpandMsg<'a>,
{
    let p = PoKSignature::<BBSplus<CS>>::from_bytes(proof).map_err(|e| format!("decode: {:?}", e))?;
    p.proof_verify(pk, Some(dm), Some(di), header, ph)
        .map_err(|e| format!("verify: {:?}", e))
}

fn vfy_blind<CS: BbsCiphersuite>(
    proof: &[u8],
    pk: &BBSplusPublicKey,
    header: Option<&[u8]>,
    ph: Option<&[u8]>,
    L: Option<usize>,
    dm: &[Vec<u8>],
    dcm: &[Vec<u8>],
    di: &[usize],
    dci: &[usize],
) -> Result<(), String>
where
    CS::Expander: for<'a> ExpandMsg<'a>,
{
    let p = PoKSignature::<BBSplus<CS>>::from_bytes(proof).map_err(|e| format!("decode: {:?}", e))?;
    p.blind_proof_verify(pk, header, ph, L, Some(dm), Some(dcm), Some(di), Some(dci))
        .map_err(|e| format!("verify: {:?}", e))
}

fn g1(p: &G1Projective) -> [u8; 48] {
    p.to_affine().to_compressed()
}

/// re-implementation (public helpers only) of calculate_domain
fn domain<CS: BbsCiphersuite>(pk: &BBSplusPublicKey, gens: &[G1Projective], header: &[u8], api_id: &[u8]) -> Scalar
where
    CS::Expander: for<'a> ExpandMsg<'a>,
{
    let mut v = Vec::new();
    v.extend_from_slice(&pk.to_bytes());
    v.extend_from_slice(&i2osp::<8>(gens.len() - 1));
    for g in gens {
        v.extend_from_slice(&g1(g));
    }
    v.extend_from_slice(api_id);
    v.extend_from_slice(&i2osp::<8>(header.len()));
    v.extend_from_slice(header);
    hash_to_scalar::<CS>(&v, &[api_id, b"H2S_"].concat()).unwrap()
}

/// re-implementation of proof_challenge_calculate
fn challenge<CS: BbsCiphersuite>(
    disclosed: &[(usize, Scalar)],
    abar: &G1Projective,
    bbar: &G1Projective,
    d: &G1Projective,
    t1: &G1Projective,
    t2: &G1Projective,
    domain: &Scalar,
    ph: &[u8],
    api_id: &[u8],
) -> Scalar
where
    CS::Expander: for<'a> ExpandMsg<'a>,
{
    let mut v = Vec::new();
    v.extend_from_slice(&i2osp::<8>(disclosed.len()));
    for (i, m) in disclosed {
        v.extend_from_slice(&i2osp::<8>(*i));
        v.extend_from_slice(&m.to_be_bytes());
    }
    for p in [abar, bbar, d, t1, t2] {
        v.extend_from_slice(&g1(p));
    }
    v.extend_from_slice(&domain.to_be_bytes());
    v.extend_from_slice(&i2osp::<8>(ph.len()));
    v.extend_from_slice(ph);
    hash_to_scalar::<CS>(&v, &[api_id, b"H2S_"].concat()).unwrap()
}

struct Parsed {
    abar: G1Projective,
    bbar: G1Projective,
    d: G1Projective,
    e: Scalar,
    r1: Scalar,
    r3: Scalar,
    m: Vec<Scalar>,
    c: Scalar,
}

fn sc(b: &[u8]) -> Scalar {
    Option::<Scalar>::from(Scalar::from_be_bytes(&<[u8; 32]>::try_from(b).unwrap())).unwrap()
}
fn pt(b: &[u8]) -> G1Projective {
    Option::<G1Projective>::from(G1Projective::from_compressed(&<[u8; 48]>::try_from(b).unwrap())).unwrap()
}

fn parse(p: &[u8]) -> Parsed {
    let n = (p.len() - 272) / 32;
    Parsed {
        abar: pt(&p[0..48]),
        bbar: pt(&p[48..96]),
        d: pt(&p[96..144]),
        e: sc(&p[144..176]),
        r1: sc(&p[176..208]),
        r3: sc(&p[208..240]),
        m: (0..n).map(|j| sc(&p[240 + 32 * j..272 + 32 * j])).collect(),
        c: sc(&p[p.len() - 32..]),
    }
}

fn encode(p: &Parsed) -> Vec<u8> {
    let mut v = Vec::new();
    v.extend_from_slice(&g1(&p.abar));
    v.extend_from_slice(&g1(&p.bbar));
    v.extend_from_slice(&g1(&p.d));
    v.extend_from_slice(&p.e.to_be_bytes());
    v.extend_from_slice(&p.r1.to_be_bytes());
    v.extend_from_slice(&p.r3.to_be_bytes());
    for m in &p.m {
        v.extend_from_slice(&m.to_be_bytes());
    }
    v.extend_from_slice(&p.c.to_be_bytes());
    v
}

/// everything the verifier recomputes, from public data only
struct Pub {
    gens: Vec<G1Projective>, // Q1, H_1.. (all of them, in the order the verifier uses)
    p1: G1Projective,
    dom: Scalar,
    bv: G1Projective,
    disclosed: Vec<(usize, Scalar)>,
    hidden: Vec<usize>,
    api_id: Vec<u8>,
}

fn public_plain<CS: BbsCiphersuite>(
    pk: &BBSplusPublicKey,
    L: usize,
    dm: &[Vec<u8>],
    di: &[usize],
    header: &[u8],
) -> Pub
where
    CS::Expander: for<'a> ExpandMsg<'a>,
{
    let g = Generators::create::<CS>(L + 1, Some(CS::API_ID));
    let ms = BBSplusMessage::messages_to_scalar::<CS>(dm, CS::API_ID).unwrap();
    let dom = domain::<CS>(pk, &g.values, header, CS::API_ID);
    let mut bv = g.g1_base_point + g.values[0] * dom;
    for (k, &i) in di.iter().enumerate() {
        bv += g.values[1 + i] * ms[k].value;
    }
    Pub {
        p1: g.g1_base_point,
        dom,
        bv,
        disclosed: di.iter().copied().zip(ms.iter().map(|m| m.value)).collect(),
        hidden: (0..L).filter(|i| !di.contains(i)).collect(),
        gens: g.values,
        api_id: CS::API_ID.to_vec(),
    }
}

/// blind interface: generators(L+1, api_blind) ++ generators(M+1, "BLIND_"+api_blind); indexes are the merged ones
fn public_blind<CS: BbsCiphersuite>(
    pk: &BBSplusPublicKey,
    L: usize,
    M: usize,
    dm: &[Vec<u8>],
    merged_idx: &[usize],
    header: &[u8],
) -> Pub
where
    CS::Expander: for<'a> ExpandMsg<'a>,
{
    let api = CS::API_ID_BLIND;
    let g = Generators::create::<CS>(L + 1, Some(api));
    let bg = Generators::create::<CS>(M + 1, Some(&[b"BLIND_", api].concat()));
    let mut all = g.values.clone();
    all.extend(bg.values);
    let ms = BBSplusMessage::messages_to_scalar::<CS>(dm, api).unwrap();
    let dom = domain::<CS>(pk, &all, header, api);
    let mut bv = g.g1_base_point + all[0] * dom;
    for (k, &i) in merged_idx.iter().enumerate() {
        bv += all[1 + i] * ms[k].value;
    }
    let total = L + M + 1;
    Pub {
        p1: g.g1_base_point,
        dom,
        bv,
        disclosed: merged_idx.iter().copied().zip(ms.iter().map(|m| m.value)).collect(),
        hidden: (0..total).filter(|i| !merged_idx.contains(i)).collect(),
        gens: all,
        api_id: api.to_vec(),
    }
}

/// T1, T2 as the verifier computes them
fn verifier_t<CSX>(pu: &Pub, p: &Parsed) -> (G1Projective, G1Projective) {
    let t1 = p.bbar * p.c + p.abar * p.e + p.d * p.r1;
    let mut t2 = pu.bv * p.c + p.d * p.r3;
    for (k, &j) in pu.hidden.iter().enumerate() {
        t2 += pu.gens[1 + j] * p.m[k];
    }
    (t1, t2)
}

fn s(n: u64) -> Scalar {
    Scalar::from(n)
}

// ---------------------------------------------------------------------------------------------
// 01 completeness on edge shapes (an honest operation must not fail)
// ---------------------------------------------------------------------------------------------

fn honest_shapes<CS: BbsCiphersuite>()
where
    CS::Expander: for<'a> ExpandMsg<'a>,
{
    let kp = keypair::<CS>(1);
    let pk = kp.public_key();
    let shapes: Vec<(usize, Vec<usize>)> = vec![
        (0, vec![]),
        (1, vec![]),
        (1, vec![0]),
        (2, vec![1]),
        (3, vec![0, 1, 2]),
        (5, vec![0, 4]),
    ];
    for (n, idx) in shapes {
        let msgs = messages(n);
        for (h, p) in [(Some(HEADER), Some(PH)), (None, None), (Some(&b""[..]), Some(&b""[..])), (None, Some(PH))] {
            let proof = honest::<CS>(&kp, &msgs, &idx, h, p);
            assert_eq!(proof.len(), 272 + 32 * (n - idx.len()));
            vfy::<CS>(&proof, pk, &pick(&msgs, &idx), &idx, h, p)
                .unwrap_or_else(|e| panic!("honest proof n={} idx={:?} refused: {}", n, idx, e));
            // the serde form carries the same proof
            let po = PoKSignature::<BBSplus<CS>>::from_bytes(&proof).unwrap();
            let js = serde_json::to_string(&po).unwrap();
            let back: PoKSignature<BBSplus<CS>> = serde_json::from_str(&js).unwrap();
            assert_eq!(back.to_bytes(), proof);
            back.proof_verify(pk, Some(&pick(&msgs, &idx)), Some(&idx), h, p).unwrap();
        }
        // n == 0: None and Some(&[]) are the same statement
        if n == 0 {
            let sig = Signature::<BBSplus<CS>>::sign(None, kp.private_key(), pk, None).unwrap();
            let p = PoKSignature::<BBSplus<CS>>::proof_gen(pk, &sig.to_bytes(), None, None, None, None).unwrap();
            p.proof_verify(pk, None, None, None, None).unwrap();
            p.proof_verify(pk, Some(&[]), Some(&[]), None, None).unwrap();
        }
    }
}

#[test]
fn t01_honest_edge_shapes_verify_sha() {
    honest_shapes::<Sha>();
}
#[test]
fn t01_honest_edge_shapes_verify_shake() {
    honest_shapes::<Shake>();
}

// ---------------------------------------------------------------------------------------------
// 02 the re-implemented challenge is the library's (so that the forgeries below are not vacuous)
// ---------------------------------------------------------------------------------------------

#[test]
fn t02_helper_reproduces_honest_challenge() {
    let kp = keypair::<Sha>(2);
    let msgs = messages(4);
    let idx = [1usize, 3];
    let proof = honest::<Sha>(&kp, &msgs, &idx, Some(HEADER), Some(PH));
    let p = parse(&proof);
    assert_eq!(encode(&p), proof);
    let pu = public_plain::<Sha>(kp.public_key(), 4, &pick(&msgs, &idx), &idx, HEADER);
    let (t1, t2) = verifier_t::<()>(&pu, &p);
    let c = challenge::<Sha>(&pu.disclosed, &p.abar, &p.bbar, &p.d, &t1, &t2, &pu.dom, PH, &pu.api_id);
    assert_eq!(c, p.c);
}

// ---------------------------------------------------------------------------------------------
// 03 every single-bit flip of every proof octet is refused (decoder or verifier)
// ---------------------------------------------------------------------------------------------

#[test]
fn t03_every_single_bit_flip_of_plain_proof_is_refused() {
    let kp = keypair::<Sha>(3);
    let msgs = messages(2);
    let idx = [0usize];
    let dm = pick(&msgs, &idx);
    let proof = honest::<Sha>(&kp, &msgs, &idx, Some(HEADER), Some(PH));
    vfy::<Sha>(&proof, kp.public_key(), &dm, &idx, Some(HEADER), Some(PH)).unwrap();
    let mut accepted = Vec::new();
    let mut decoded = 0usize;
    for byte in 0..proof.len() {
        for bit in 0..8 {
            let mut q = proof.clone();
            q[byte] ^= 1 << bit;
            match vfy::<Sha>(&q, kp.public_key(), &dm, &idx, Some(HEADER), Some(PH)) {
                Ok(()) => accepted.push((byte, bit)),
                Err(e) => {
                    if e.starts_with("verify") {
                        decoded += 1
                    }
                }
            }
        }
    }
    println!("flips that decoded and were refused by the verifier: {}", decoded);
    assert!(accepted.is_empty(), "bit flips accepted: {:?}", accepted);
}

// ---------------------------------------------------------------------------------------------
// 05 truncations / extensions by whole scalars, and lengths that are not whole
// ---------------------------------------------------------------------------------------------

#[test]
fn t05_truncations_and_extensions_are_refused() {
    let kp = keypair::<Shake>(5);
    let msgs = messages(4);
    let idx = [2usize];
    let dm = pick(&msgs, &idx);
    let proof = honest::<Shake>(&kp, &msgs, &idx, Some(HEADER), Some(PH));
    let pk = kp.public_key();
    vfy::<Shake>(&proof, pk, &dm, &idx, Some(HEADER), Some(PH)).unwrap();
    let mut cands: Vec<(String, Vec<u8>)> = Vec::new();
    // truncations from the end by k whole scalars and by odd lengths
    for k in 1..=6 {
        if proof.len() >= 32 * k {
            cands.push((format!("cut {} scalars at end", k), proof[..proof.len() - 32 * k].to_vec()));
        }
    }
    for cut in [1usize, 31, 33, 47, 48] {
        cands.push((format!("cut {} bytes", cut), proof[..proof.len() - cut].to_vec()));
    }
    // removal of one of the m^ scalars (keeps the challenge last)
    for j in 0..3 {
        let mut q = proof.clone();
        q.drain(240 + 32 * j..272 + 32 * j);
        cands.push((format!("remove m^[{}]", j), q));
    }
    // extensions: append / insert scalars (1, copy of last m^, copy of challenge, r-1)
    let one = s(1).to_be_bytes();
    let rm1 = (-s(1)).to_be_bytes();
    let chal = proof[proof.len() - 32..].to_vec();
    let last_m = proof[proof.len() - 64..proof.len() - 32].to_vec();
    for (name, sc) in [("one", one.to_vec()), ("r-1", rm1.to_vec()), ("challenge", chal.clone()), ("last m^", last_m.clone())] {
        let mut q = proof.clone();
        q.extend_from_slice(&sc);
        cands.push((format!("append {}", name), q));
        let mut q = proof.clone();
        let at = proof.len() - 32;
        q.splice(at..at, sc.iter().copied());
        cands.push((format!("insert {} before challenge", name), q));
        let mut q = proof.clone();
        q.splice(240..240, sc.iter().copied());
        cands.push((format!("insert {} as first m^", name), q));
    }
    // extension by non-whole byte counts
    for extra in [1usize, 16, 31] {
        let mut q = proof.clone();
        q.extend(std::iter::repeat(1u8).take(extra));
        cands.push((format!("append {} bytes", extra), q));
    }
    // prefix / suffix garbage
    let mut q = vec![0u8; 32];
    q.extend_from_slice(&proof);
    cands.push(("32 zero bytes in front".into(), q));
    cands.push(("empty".into(), vec![]));
    cands.push(("240 bytes (no challenge)".into(), proof[..240].to_vec()));
    for (name, q) in cands {
        // also try with the number of disclosed messages adapted so that L stays 4 or changes
        for (d_m, d_i) in [
            (dm.clone(), idx.to_vec()),
            (vec![], vec![]),
            (pick(&msgs, &[2, 3]), vec![2, 3]),
            (pick(&msgs, &[1, 2]), vec![1, 2]),
        ] {
            let r = vfy::<Shake>(&q, pk, &d_m, &d_i, Some(HEADER), Some(PH));
            assert!(r.is_err(), "accepted: {} with disclosed {:?}", name, d_i);
        }
    }
}

// ---------------------------------------------------------------------------------------------
// 06 single edits of the statement
// ---------------------------------------------------------------------------------------------

fn statement_edits<CS: BbsCiphersuite>()
where
    CS::Expander: for<'a> ExpandMsg<'a>,
{
    let kp = keypair::<CS>(6);
    let other = keypair::<CS>(7);
    let pk = kp.public_key();
    let msgs = messages(5);
    let idx = vec![1usize, 3];
    let dm = pick(&msgs, &idx);
    let proof = honest::<CS>(&kp, &msgs, &idx, Some(HEADER), Some(PH));
    vfy::<CS>(&proof, pk, &dm, &idx, Some(HEADER), Some(PH)).unwrap();
    let v = |dm: &[Vec<u8>], di: &[usize], h: Option<&[u8]>, p: Option<&[u8]>, pk: &BBSplusPublicKey| {
        vfy::<CS>(&proof, pk, dm, di, h, p)
    };
    // messages
    for k in 0..2 {
        let mut d = dm.clone();
        d[k][0] ^= 1;
        assert!(v(&d, &idx, Some(HEADER), Some(PH), pk).is_err());
        let mut d = dm.clone();
        d[k].push(0);
        assert!(v(&d, &idx, Some(HEADER), Some(PH), pk).is_err());
        let mut d = dm.clone();
        d[k].pop();
        assert!(v(&d, &idx, Some(HEADER), Some(PH), pk).is_err());
        let mut d = dm.clone();
        d[k] = vec![];
        assert!(v(&d, &idx, Some(HEADER), Some(PH), pk).is_err());
        // a hidden message of the same signature presented at the disclosed position
        let mut d = dm.clone();
        d[k] = msgs[0].clone();
        assert!(v(&d, &idx, Some(HEADER), Some(PH), pk).is_err());
    }
    let mut d = dm.clone();
    d.swap(0, 1);
    assert!(v(&d, &idx, Some(HEADER), Some(PH), pk).is_err());
    // indexes: every other ascending pair in range, and out of range / degenerate ones
    for a in 0..5usize {
        for b in 0..7usize {
            if (a, b) == (1, 3) {
                continue;
            }
            assert!(v(&dm, &[a, b], Some(HEADER), Some(PH), pk).is_err(), "indexes {:?}", (a, b));
        }
    }
    for bad in [vec![1usize], vec![3], vec![1, 3, 4], vec![0, 1, 3], vec![1, usize::MAX], vec![usize::MAX - 1, usize::MAX], vec![]] {
        assert!(v(&dm, &bad, Some(HEADER), Some(PH), pk).is_err(), "indexes {:?}", bad);
        let d2: Vec<Vec<u8>> = bad.iter().map(|&i| msgs.get(i).cloned().unwrap_or_default()).collect();
        assert!(v(&d2, &bad, Some(HEADER), Some(PH), pk).is_err(), "indexes+msgs {:?}", bad);
    }
    // number of hidden messages: one more / one less disclosed with the right message
    assert!(v(&pick(&msgs, &[1, 3, 4]), &[1, 3, 4], Some(HEADER), Some(PH), pk).is_err());
    assert!(v(&pick(&msgs, &[1]), &[1], Some(HEADER), Some(PH), pk).is_err());
    // header / ph
    let mut h = HEADER.to_vec();
    h[0] ^= 0x80;
    assert!(v(&dm, &idx, Some(&h), Some(PH), pk).is_err());
    assert!(v(&dm, &idx, None, Some(PH), pk).is_err());
    assert!(v(&dm, &idx, Some(b""), Some(PH), pk).is_err());
    assert!(v(&dm, &idx, Some(&[HEADER, &[0u8][..]].concat()), Some(PH), pk).is_err());
    assert!(v(&dm, &idx, Some(&HEADER[..HEADER.len() - 1]), Some(PH), pk).is_err());
    let mut p = PH.to_vec();
    let l = p.len() - 1;
    p[l] ^= 1;
    assert!(v(&dm, &idx, Some(HEADER), Some(&p), pk).is_err());
    assert!(v(&dm, &idx, Some(HEADER), None, pk).is_err());
    assert!(v(&dm, &idx, Some(HEADER), Some(b""), pk).is_err());
    assert!(v(&dm, &idx, Some(HEADER), Some(&[PH, &[0u8][..]].concat()), pk).is_err());
    assert!(v(&dm, &idx, Some(PH), Some(HEADER), pk).is_err());
    // boundary shift between header and ph
    let joined = [HEADER, PH].concat();
    for cut in [0usize, 1, HEADER.len() - 1, HEADER.len() + 1, joined.len()] {
        assert!(v(&dm, &idx, Some(&joined[..cut]), Some(&joined[cut..]), pk).is_err());
    }
    // public key
    assert!(v(&dm, &idx, Some(HEADER), Some(PH), other.public_key()).is_err());
    assert!(v(&dm, &idx, Some(HEADER), Some(PH), &BBSplusPublicKey(-pk.0)).is_err());
    assert!(v(&dm, &idx, Some(HEADER), Some(PH), &BBSplusPublicKey(pk.0.double())).is_err());
    assert!(v(&dm, &idx, Some(HEADER), Some(PH), &BBSplusPublicKey(pk.0 + G2Projective::GENERATOR)).is_err());
    assert!(v(&dm, &idx, Some(HEADER), Some(PH), &BBSplusPublicKey(G2Projective::GENERATOR)).is_err());
    assert!(v(&dm, &idx, Some(HEADER), Some(PH), &BBSplusPublicKey(G2Projective::IDENTITY)).is_err());
    // the same point in another projective representation is the same key (must still verify)
    let same = BBSplusPublicKey(G2Projective::from(pk.0.to_affine()) + G2Projective::IDENTITY);
    assert!(v(&dm, &idx, Some(HEADER), Some(PH), &same).is_ok());
}

#[test]
fn t06_single_edits_of_the_statement_sha() {
    statement_edits::<Sha>();
}
#[test]
fn t06_single_edits_of_the_statement_shake() {
    statement_edits::<Shake>();
}

// ---------------------------------------------------------------------------------------------
// 08 the position of a disclosed message is bound even when two signed messages are equal
// ---------------------------------------------------------------------------------------------

#[test]
fn t08_equal_messages_position_is_bound() {
    let kp = keypair::<Sha>(8);
    let pk = kp.public_key();
    let same = b"same".to_vec();
    let msgs = vec![same.clone(), same.clone(), same.clone()];
    let proof = honest::<Sha>(&kp, &msgs, &[1], None, Some(PH));
    vfy::<Sha>(&proof, pk, &[same.clone()], &[1], None, Some(PH)).unwrap();
    assert!(vfy::<Sha>(&proof, pk, &[same.clone()], &[0], None, Some(PH)).is_err());
    assert!(vfy::<Sha>(&proof, pk, &[same.clone()], &[2], None, Some(PH)).is_err());
    // a proof disclosing nothing does not verify as one disclosing something and vice versa
    let none = honest::<Sha>(&kp, &msgs, &[], None, Some(PH));
    assert!(vfy::<Sha>(&none, pk, &[same.clone()], &[0], None, Some(PH)).is_err());
    assert!(vfy::<Sha>(&proof, pk, &[], &[], None, Some(PH)).is_err());
}

// ---------------------------------------------------------------------------------------------
// 09 degenerate-element forgery families, assembled from public information only
// ---------------------------------------------------------------------------------------------

/// Builds a proof whose challenge is CONSISTENT (the verifier's recomputation gives back the same challenge):
/// D = Bv * t, r3^ = -c / t  (the two terms of T2 that depend on c cancel), Bbar = Abar * k + D * w,
/// e^ = -k c, r1^ = rho - w c (T1 does not depend on c). Only the pairing can refuse such a proof.
fn consistent_forgery<CS: BbsCiphersuite>(
    pu: &Pub,
    ph: &[u8],
    abar: G1Projective,
    k: Scalar,
    w: Scalar,
    t: Scalar,
    rho: Scalar,
) -> Parsed
where
    CS::Expander: for<'a> ExpandMsg<'a>,
{
    let d = pu.bv * t;
    let bbar = abar * k + d * w;
    let m: Vec<Scalar> = (0..pu.hidden.len()).map(|j| s(1000 + j as u64)).collect();
    let t1 = d * rho;
    let mut t2 = G1Projective::IDENTITY;
    for (kk, &j) in pu.hidden.iter().enumerate() {
        t2 += pu.gens[1 + j] * m[kk];
    }
    let c = challenge::<CS>(&pu.disclosed, &abar, &bbar, &d, &t1, &t2, &pu.dom, ph, &pu.api_id);
    let tinv = Option::<Scalar>::from(t.invert()).unwrap();
    let p = Parsed { abar, bbar, d, e: -(k * c), r1: rho - w * c, r3: -(c * tinv), m, c };
    // self-check: the verifier's T1/T2 are the ones hashed
    let (vt1, vt2) = verifier_t::<()>(pu, &p);
    assert_eq!(vt1, t1);
    assert_eq!(vt2, t2);
    p
}

fn forgery_families<CS: BbsCiphersuite>()
where
    CS::Expander: for<'a> ExpandMsg<'a>,
{
    let kp = keypair::<CS>(9);
    let pk = kp.public_key();
    let claimed = vec![b"I am the admin".to_vec(), b"balance=1000000".to_vec()];
    let mut reached_pairing = 0usize;
    for (L, di) in [(2usize, vec![0usize, 1]), (3, vec![0, 2]), (5, vec![1, 4]), (2, vec![]), (0, vec![])] {
        let dm: Vec<Vec<u8>> = claimed[..di.len()].to_vec();
        let pu = public_plain::<CS>(pk, L, &dm, &di, HEADER);
        let elems: Vec<(&str, G1Projective)> = vec![
            ("G1 generator", G1Projective::GENERATOR),
            ("P1", pu.p1),
            ("Bv", pu.bv),
            ("-Bv", -pu.bv),
            ("Q1", pu.gens[0]),
            ("2*Bv", pu.bv.double()),
        ];
        for (name, abar) in &elems {
            for (k, w, t) in [
                (s(1), s(0), s(1)),  // Abar = Bbar, D = Bv, r3^ = -c
                (-s(1), s(0), s(1)), // Bbar = -Abar
                (s(7), s(0), -s(1)), // D = -Bv, r3^ = c
                (s(0), s(1), s(1)),  // Bbar = D (e^ = 0 -> must be refused as a zero scalar)
                (s(3), s(5), s(11)), // "honest looking": Bbar = D*r1 - Abar*e for an A that is no signature
            ] {
                let p = consistent_forgery::<CS>(&pu, PH, *abar, k, w, t, s(42));
                let bytes = encode(&p);
                let r = vfy::<CS>(&bytes, pk, &dm, &di, Some(HEADER), Some(PH));
                assert!(r.is_err(), "FORGERY ACCEPTED: L={} Abar={} k,w,t={:?}", L, name, (k, w, t));
                if r.as_ref().unwrap_err().contains("Invalid Proof") {
                    reached_pairing += 1;
                }
                // same through the serde form
                let js = json_of(&p);
                let r2 = serde_json::from_str::<PoKSignature<BBSplus<CS>>>(&js)
                    .map_err(|e| e.to_string())
                    .and_then(|po| po.proof_verify(pk, Some(&dm), Some(&di), Some(HEADER), Some(PH)).map_err(|e| format!("{:?}", e)));
                assert!(r2.is_err(), "FORGERY ACCEPTED (json): L={} Abar={}", L, name);
            }
        }
        // identity in each position (octets c0 00..): refused by the decoder; through JSON too
        let base = consistent_forgery::<CS>(&pu, PH, pu.p1, s(1), s(0), s(1), s(42));
        for pos in 0..3 {
            let mut q = Parsed { abar: base.abar, bbar: base.bbar, d: base.d, e: base.e, r1: base.r1, r3: base.r3, m: base.m.clone(), c: base.c };
            match pos {
                0 => q.abar = G1Projective::IDENTITY,
                1 => q.bbar = G1Projective::IDENTITY,
                _ => q.d = G1Projective::IDENTITY,
            }
            assert!(vfy::<CS>(&encode(&q), pk, &dm, &di, Some(HEADER), Some(PH)).is_err());
            assert!(serde_json::from_str::<PoKSignature<BBSplus<CS>>>(&json_of(&q)).is_err());
        }
        // the F1 family itself: Abar = Bbar = identity, D = Bv, r3^ = -c with a consistent challenge
        {
            let id = G1Projective::IDENTITY;
            let d = pu.bv;
            let m: Vec<Scalar> = (0..pu.hidden.len()).map(|j| s(77 + j as u64)).collect();
            let t1 = d * s(42);
            let mut t2 = id;
            for (kk, &j) in pu.hidden.iter().enumerate() {
                t2 += pu.gens[1 + j] * m[kk];
            }
            let c = challenge::<CS>(&pu.disclosed, &id, &id, &d, &t1, &t2, &pu.dom, PH, &pu.api_id);
            let q = Parsed { abar: id, bbar: id, d, e: s(5), r1: s(42), r3: -c, m, c };
            assert!(vfy::<CS>(&encode(&q), pk, &dm, &di, Some(HEADER), Some(PH)).is_err());
            assert!(serde_json::from_str::<PoKSignature<BBSplus<CS>>>(&json_of(&q)).is_err());
            // ... and for the identity public key built through the public tuple field
            let idpk = BBSplusPublicKey(G2Projective::IDENTITY);
            let pu2 = public_plain::<CS>(&idpk, L, &dm, &di, HEADER);
            let p2 = consistent_forgery::<CS>(&pu2, PH, pu2.p1, s(1), s(0), s(1), s(42));
            assert!(vfy::<CS>(&encode(&p2), &idpk, &dm, &di, Some(HEADER), Some(PH)).is_err());
        }
    }
    assert!(reached_pairing > 0, "no forgery got past the challenge comparison: the family is vacuous");
    println!("forgeries refused only by the pairing: {}", reached_pairing);
}

fn json_of(p: &Parsed) -> String {
    let h = |b: &[u8]| hex::encode(b);
    format!(
        "{{\"BBSplus\":{{\"Abar\":\"{}\",\"Bbar\":\"{}\",\"D\":\"{}\",\"e_cap\":\"{}\",\"r1_cap\":\"{}\",\"r3_cap\":\"{}\",\"m_cap\":[{}],\"challenge\":\"{}\"}}}}",
        h(&g1(&p.abar)),
        h(&g1(&p.bbar)),
        h(&g1(&p.d)),
        h(&p.e.to_be_bytes()),
        h(&p.r1.to_be_bytes()),
        h(&p.r3.to_be_bytes()),
        p.m.iter().map(|m| format!("\"{}\"", h(&m.to_be_bytes()))).collect::<Vec<_>>().join(","),
        h(&p.c.to_be_bytes())
    )
}

#[test]
fn t09_forgery_families_without_signature_sha() {
    forgery_families::<Sha>();
}
#[test]
fn t09_forgery_families_without_signature_shake() {
    forgery_families::<Shake>();
}

#[test]
fn t09b_json_of_helper_matches_library_serialisation() {
    let kp = keypair::<Sha>(9);
    let msgs = messages(3);
    let proof = honest::<Sha>(&kp, &msgs, &[1], None, None);
    let po = PoKSignature::<BBSplus<Sha>>::from_bytes(&proof).unwrap();
    assert_eq!(serde_json::to_string(&po).unwrap(), json_of(&parse(&proof)));
}

// ---------------------------------------------------------------------------------------------
// 10 splicing two honest proofs, mauling an honest proof (negation, scaling, re-randomising responses)
// ---------------------------------------------------------------------------------------------

#[test]
fn t10_splices_and_maulings_of_honest_proofs_are_refused() {
    let kp = keypair::<Sha>(10);
    let pk = kp.public_key();
    let msgs = messages(3);
    let idx = [0usize];
    let dm = pick(&msgs, &idx);
    let a = honest::<Sha>(&kp, &msgs, &idx, Some(HEADER), Some(PH));
    let b = honest::<Sha>(&kp, &msgs, &idx, Some(HEADER), Some(PH));
    assert_ne!(a, b, "two proofs of the same statement are expected to differ (fresh randomness)");
    // every way of taking each of the 9 components from a or b, other than all-a / all-b
    let bounds = [0usize, 48, 96, 144, 176, 208, 240, 272, 304, 336];
    assert_eq!(a.len(), 336);
    for mask in 1u32..(1 << 9) - 1 {
        let mut q = a.clone();
        for k in 0..9 {
            if mask >> k & 1 == 1 {
                q[bounds[k]..bounds[k + 1]].copy_from_slice(&b[bounds[k]..bounds[k + 1]]);
            }
        }
        assert!(vfy::<Sha>(&q, pk, &dm, &idx, Some(HEADER), Some(PH)).is_err(), "splice {:09b}", mask);
    }
    // maulings that keep the pairing equation true
    let p = parse(&a);
    let k = s(5);
    let kinv = Option::<Scalar>::from(k.invert()).unwrap();
    let cands = vec![
        Parsed { abar: -p.abar, bbar: -p.bbar, d: p.d, e: p.e, r1: p.r1, r3: p.r3, m: p.m.clone(), c: p.c },
        Parsed { abar: -p.abar, bbar: -p.bbar, d: -p.d, e: p.e, r1: p.r1, r3: -p.r3, m: p.m.clone(), c: p.c },
        Parsed { abar: p.abar * k, bbar: p.bbar * k, d: p.d * k, e: p.e, r1: p.r1, r3: p.r3 * kinv, m: p.m.clone(), c: p.c },
        Parsed { abar: p.abar * k, bbar: p.bbar * k, d: p.d, e: p.e * kinv, r1: p.r1, r3: p.r3, m: p.m.clone(), c: p.c * kinv },
        Parsed { abar: p.abar, bbar: p.bbar, d: p.d * k, e: p.e, r1: p.r1 * kinv, r3: p.r3 * kinv, m: p.m.clone(), c: p.c },
        Parsed { abar: p.bbar, bbar: p.abar, d: p.d, e: p.e, r1: p.r1, r3: p.r3, m: p.m.clone(), c: p.c },
        Parsed { abar: p.abar, bbar: p.bbar, d: p.d, e: p.e, r1: p.r1, r3: p.r3, m: vec![p.m[1], p.m[0]], c: p.c },
    ];
    for (n, q) in cands.iter().enumerate() {
        assert!(vfy::<Sha>(&encode(q), pk, &dm, &idx, Some(HEADER), Some(PH)).is_err(), "mauling {}", n);
    }
}

// ---------------------------------------------------------------------------------------------
// 11 informational: with pk = G2 generator (sk = 1, publicly known) Abar = Bbar satisfies the pairing.
// Not asserted as a violation: whoever knows sk can sign. Asserted only: the same proof fails for a real key.
// ---------------------------------------------------------------------------------------------

#[test]
fn t11_public_key_of_known_secret_one_informational() {
    let pk1 = BBSplusPublicKey(G2Projective::GENERATOR);
    let dm = vec![b"x".to_vec()];
    let pu = public_plain::<Sha>(&pk1, 1, &dm, &[0], HEADER);
    let p = consistent_forgery::<Sha>(&pu, PH, pu.p1, s(1), s(0), s(1), s(42));
    let r = vfy::<Sha>(&encode(&p), &pk1, &dm, &[0], Some(HEADER), Some(PH));
    println!("pk = BP2 (sk = 1), Abar = Bbar: {:?}", r);
    let kp = keypair::<Sha>(11);
    assert!(vfy::<Sha>(&encode(&p), kp.public_key(), &dm, &[0], Some(HEADER), Some(PH)).is_err());
}

// ---------------------------------------------------------------------------------------------
// blind interface fixture
// ---------------------------------------------------------------------------------------------

struct BlindFx {
    msgs: Vec<Vec<u8>>,
    cmsgs: Vec<Vec<u8>>,
    sig: [u8; 80],
    blind: BlindFactor,
}

fn blind_fx<CS: BbsCiphersuite>(kp: &KeyPair<BBSplus<CS>>, L: usize, M: usize, header: Option<&[u8]>, with_commitment: bool) -> BlindFx
where
    CS::Expander: for<'a> ExpandMsg<'a>,
{
    let msgs = messages(L);
    let cmsgs: Vec<Vec<u8>> = (0..M).map(|i| format!("committed-{}", i).into_bytes()).collect();
    let (sig, blind) = if with_commitment {
        let (cwp, blind) = Commitment::<BBSplus<CS>>::commit(Some(&cmsgs)).unwrap();
        let sig = BlindSignature::<BBSplus<CS>>::blind_sign(kp.private_key(), kp.public_key(), Some(&cwp.to_bytes()), header, Some(&msgs)).unwrap();
        (sig, blind)
    } else {
        assert_eq!(M, 0);
        let sig = BlindSignature::<BBSplus<CS>>::blind_sign(kp.private_key(), kp.public_key(), None, header, Some(&msgs)).unwrap();
        (sig, BlindFactor::from_bytes(&[0u8; 32]).unwrap())
    };
    sig.verify_blind_sign(kp.public_key(), header, Some(&msgs), Some(&cmsgs), Some(&blind)).unwrap();
    BlindFx { msgs, cmsgs, sig: sig.to_bytes(), blind }
}

fn blind_proof<CS: BbsCiphersuite>(kp: &KeyPair<BBSplus<CS>>, fx: &BlindFx, di: &[usize], dci: &[usize], header: Option<&[u8]>, ph: Option<&[u8]>) -> Vec<u8>
where
    CS::Expander: for<'a> ExpandMsg<'a>,
{
    PoKSignature::<BBSplus<CS>>::blind_proof_gen(
        kp.public_key(),
        &fx.sig,
        header,
        ph,
        Some(&fx.msgs),
        Some(&fx.cmsgs),
        Some(di),
        Some(dci),
        Some(&fx.blind),
    )
    .unwrap()
    .to_bytes()
}

// ---------------------------------------------------------------------------------------------
// 12 honest blind shapes verify; plain / blind and ciphersuite mixing is refused
// ---------------------------------------------------------------------------------------------

fn blind_honest_and_mixing<CS: BbsCiphersuite, OTHER: BbsCiphersuite>()
where
    CS::Expander: for<'a> ExpandMsg<'a>,
    OTHER::Expander: for<'a> ExpandMsg<'a>,
{
    let kp = keypair::<CS>(12);
    let pk = kp.public_key();
    let h = Some(HEADER);
    let p = Some(PH);
    for (L, M, wc, di, dci) in [
        (3usize, 2usize, true, vec![0usize, 2], vec![1usize]),
        (3, 2, true, vec![], vec![]),
        (3, 2, true, vec![0, 1, 2], vec![0, 1]),
        (0, 2, true, vec![], vec![0]),
        (2, 0, true, vec![1], vec![]),
        (2, 0, false, vec![0, 1], vec![]),
        (0, 0, false, vec![], vec![]),
        (0, 0, true, vec![], vec![]),
    ] {
        let fx = blind_fx::<CS>(&kp, L, M, h, wc);
        let proof = blind_proof::<CS>(&kp, &fx, &di, &dci, h, p);
        let dm = pick(&fx.msgs, &di);
        let dcm = pick(&fx.cmsgs, &dci);
        vfy_blind::<CS>(&proof, pk, h, p, Some(L), &dm, &dcm, &di, &dci)
            .unwrap_or_else(|e| panic!("honest blind proof L={} M={} refused: {}", L, M, e));
        if L == 0 {
            vfy_blind::<CS>(&proof, pk, h, p, None, &dm, &dcm, &di, &dci).unwrap();
        }
        // every other L is refused
        let total = L + M + 1;
        for l2 in (0..total + 3).chain([usize::MAX, usize::MAX - 1, usize::MAX / 2]) {
            if l2 == L {
                continue;
            }
            assert!(vfy_blind::<CS>(&proof, pk, h, p, Some(l2), &dm, &dcm, &di, &dci).is_err(), "L={} M={} accepted with L'={}", L, M, l2);
        }
        // the plain verifier refuses a blind proof, with the merged view of the statement too
        let merged_i: Vec<usize> = di.iter().copied().chain(dci.iter().map(|j| j + L + 1)).collect();
        let merged_m: Vec<Vec<u8>> = dm.iter().cloned().chain(dcm.iter().cloned()).collect();
        assert!(vfy::<CS>(&proof, pk, &merged_m, &merged_i, h, p).is_err());
        assert!(vfy::<CS>(&proof, pk, &dm, &di, h, p).is_err());
        // other ciphersuite
        assert!(vfy_blind::<OTHER>(&proof, pk, h, p, Some(L), &dm, &dcm, &di, &dci).is_err());
    }
    // a plain proof is refused by the blind verifier for every L
    let msgs = messages(4);
    let plain = honest::<CS>(&kp, &msgs, &[1], h, p);
    for l in 0..6 {
        assert!(vfy_blind::<CS>(&plain, pk, h, p, Some(l), &pick(&msgs, &[1]), &[], &[1], &[]).is_err());
        assert!(vfy_blind::<CS>(&plain, pk, h, p, Some(l), &[], &pick(&msgs, &[1]), &[], &[1]).is_err());
        assert!(vfy_blind::<CS>(&plain, pk, h, p, Some(l), &[], &pick(&msgs, &[1]), &[], &[0]).is_err());
    }
    assert!(vfy::<OTHER>(&plain, pk, &pick(&msgs, &[1]), &[1], h, p).is_err());
    // a plain signature fed to the blind prover / a blind signature fed to the plain prover: no proof that verifies
    let sig = Signature::<BBSplus<CS>>::sign(Some(&msgs), kp.private_key(), pk, h).unwrap();
    if let Ok(px) = PoKSignature::<BBSplus<CS>>::blind_proof_gen(pk, &sig.to_bytes(), h, p, Some(&msgs), None, Some(&[1]), None, None) {
        assert!(px.blind_proof_verify(pk, h, p, Some(4), Some(&pick(&msgs, &[1])), None, Some(&[1]), None).is_err());
        assert!(px.proof_verify(pk, Some(&pick(&msgs, &[1])), Some(&[1]), h, p).is_err());
    }
    let fx = blind_fx::<CS>(&kp, 4, 0, h, false);
    if let Ok(px) = PoKSignature::<BBSplus<CS>>::proof_gen(pk, &fx.sig, h, p, Some(&fx.msgs), Some(&[1])) {
        assert!(px.proof_verify(pk, Some(&pick(&fx.msgs, &[1])), Some(&[1]), h, p).is_err());
        assert!(px.blind_proof_verify(pk, h, p, Some(4), Some(&pick(&fx.msgs, &[1])), None, Some(&[1]), None).is_err());
    }
}

#[test]
fn t12_blind_honest_shapes_and_interface_mixing_sha() {
    blind_honest_and_mixing::<Sha, Shake>();
}
#[test]
fn t12_blind_honest_shapes_and_interface_mixing_shake() {
    blind_honest_and_mixing::<Shake, Sha>();
}

// ---------------------------------------------------------------------------------------------
// 13 blind verifier: a message cannot change kind or position, the blind factor cannot be disclosed
// ---------------------------------------------------------------------------------------------

#[test]
fn t13_blind_lists_and_positions_are_bound() {
    type CS = Sha;
    let kp = keypair::<CS>(13);
    let pk = kp.public_key();
    let h = Some(HEADER);
    let p = Some(PH);
    let (L, M) = (3usize, 3usize);
    let fx = blind_fx::<CS>(&kp, L, M, h, true);
    let di = vec![0usize, 2];
    let dci = vec![1usize];
    let proof = blind_proof::<CS>(&kp, &fx, &di, &dci, h, p);
    let dm = pick(&fx.msgs, &di);
    let dcm = pick(&fx.cmsgs, &dci);
    vfy_blind::<CS>(&proof, pk, h, p, Some(L), &dm, &dcm, &di, &dci).unwrap();
    let total = L + M + 1;
    // exhaustive: every way to present the same three disclosed octet strings (in the same merged order)
    // as r1 signer messages followed by 3 - r1 committed ones, for every L' and every ascending index choice
    let all: Vec<Vec<u8>> = dm.iter().cloned().chain(dcm.iter().cloned()).collect();
    let mut tried = 0usize;
    for l2 in 0..total + 1 {
        for r1 in 0..=3usize {
            let n_idx = total + 1;
            for a in 0..n_idx {
                for b in 0..n_idx {
                    for c in 0..n_idx {
                        let pos = [a, b, c];
                        let (i1, i2) = pos.split_at(r1);
                        if l2 == L && r1 == 2 && i1 == &di[..] && i2 == &dci[..] {
                            continue;
                        }
                        // keep the run time small: skip lists the ascending check refuses at once
                        if i1.windows(2).any(|w| w[0] >= w[1]) || i2.windows(2).any(|w| w[0] >= w[1]) {
                            continue;
                        }
                        tried += 1;
                        let r = vfy_blind::<CS>(&proof, pk, h, p, Some(l2), &all[..r1], &all[r1..], i1, i2);
                        assert!(r.is_err(), "accepted L'={} signer idx {:?} committed idx {:?}", l2, i1, i2);
                    }
                }
            }
        }
    }
    println!("blind re-presentations tried: {}", tried);
    // the blind factor position (merged index L) presented as a message: not addressable
    let none = blind_proof::<CS>(&kp, &fx, &[], &[], h, p);
    let bf = fx.blind.to_bytes().to_vec();
    for l2 in 0..total {
        for cand in [bf.clone(), vec![], vec![0u8; 32]] {
            assert!(vfy_blind::<CS>(&none, pk, h, p, Some(l2), &[cand.clone()], &[], &[L], &[]).is_err());
            assert!(vfy_blind::<CS>(&none, pk, h, p, Some(l2), &[], &[cand.clone()], &[], &[0]).is_err());
            assert!(vfy_blind::<CS>(&none, pk, h, p, Some(l2), &[], &[cand.clone()], &[], &[usize::MAX]).is_err());
            assert!(vfy_blind::<CS>(&none, pk, h, p, Some(l2), &[], &[cand.clone()], &[], &[usize::MAX - l2]).is_err());
            assert!(vfy_blind::<CS>(&none, pk, h, p, Some(l2), &[], &[cand.clone()], &[], &[usize::MAX - l2 - 1]).is_err());
        }
    }
    // messages / lists of different lengths
    assert!(vfy_blind::<CS>(&proof, pk, h, p, Some(L), &all, &[], &di, &dci).is_err());
    assert!(vfy_blind::<CS>(&proof, pk, h, p, Some(L), &[], &all, &di, &dci).is_err());
    assert!(vfy_blind::<CS>(&proof, pk, h, p, Some(L), &all[..1], &all[1..], &di, &dci).is_err());
    // single edits as for the plain interface
    let mut d = dcm.clone();
    d[0][0] ^= 1;
    assert!(vfy_blind::<CS>(&proof, pk, h, p, Some(L), &dm, &d, &di, &dci).is_err());
    assert!(vfy_blind::<CS>(&proof, pk, None, p, Some(L), &dm, &dcm, &di, &dci).is_err());
    assert!(vfy_blind::<CS>(&proof, pk, h, None, Some(L), &dm, &dcm, &di, &dci).is_err());
    assert!(vfy_blind::<CS>(&proof, pk, p, h, Some(L), &dm, &dcm, &di, &dci).is_err());
    assert!(vfy_blind::<CS>(&proof, keypair::<CS>(14).public_key(), h, p, Some(L), &dm, &dcm, &di, &dci).is_err());
}

// ---------------------------------------------------------------------------------------------
// 14 blind interface: bit flips and signature-less forgeries
// ---------------------------------------------------------------------------------------------

#[test]
fn t14_blind_bit_flips_and_forgeries_are_refused() {
    type CS = Shake;
    let kp = keypair::<CS>(14);
    let pk = kp.public_key();
    let h = Some(HEADER);
    let p = Some(PH);
    let fx = blind_fx::<CS>(&kp, 1, 1, h, true);
    let proof = blind_proof::<CS>(&kp, &fx, &[0], &[0], h, p);
    assert_eq!(proof.len(), 304);
    vfy_blind::<CS>(&proof, pk, h, p, Some(1), &fx.msgs, &fx.cmsgs, &[0], &[0]).unwrap();
    for byte in 0..proof.len() {
        for bit in 0..8 {
            let mut q = proof.clone();
            q[byte] ^= 1 << bit;
            assert!(vfy_blind::<CS>(&q, pk, h, p, Some(1), &fx.msgs, &fx.cmsgs, &[0], &[0]).is_err(), "flip {}/{}", byte, bit);
        }
    }
    // helper check on the honest blind proof, then consistent forgeries
    let pu = public_blind::<CS>(pk, 1, 1, &[fx.msgs[0].clone(), fx.cmsgs[0].clone()], &[0, 2], HEADER);
    let hp = parse(&proof);
    let (t1, t2) = verifier_t::<()>(&pu, &hp);
    assert_eq!(challenge::<CS>(&pu.disclosed, &hp.abar, &hp.bbar, &hp.d, &t1, &t2, &pu.dom, PH, &pu.api_id), hp.c);
    let mut reached = 0;
    for (L, M, merged) in [(1usize, 1usize, vec![0usize, 2]), (2, 0, vec![0, 1]), (0, 2, vec![1, 2]), (0, 0, vec![])] {
        let claimed: Vec<Vec<u8>> = merged.iter().map(|i| format!("claimed-{}", i).into_bytes()).collect();
        let pu = public_blind::<CS>(pk, L, M, &claimed, &merged, HEADER);
        let r1 = merged.iter().filter(|&&i| i < L).count();
        let di: Vec<usize> = merged[..r1].to_vec();
        let dci: Vec<usize> = merged[r1..].iter().map(|i| i - L - 1).collect();
        for abar in [pu.p1, pu.bv, pu.gens[0], G1Projective::GENERATOR] {
            for (k, w, t) in [(s(1), s(0), s(1)), (-s(1), s(0), -s(1)), (s(3), s(5), s(11))] {
                let f = consistent_forgery::<CS>(&pu, PH, abar, k, w, t, s(9));
                let r = vfy_blind::<CS>(&encode(&f), pk, h, p, Some(L), &claimed[..r1], &claimed[r1..], &di, &dci);
                assert!(r.is_err(), "BLIND FORGERY ACCEPTED L={} M={}", L, M);
                if r.unwrap_err().contains("Invalid Proof") {
                    reached += 1;
                }
            }
        }
    }
    assert!(reached > 0);
    println!("blind forgeries refused only by the pairing: {}", reached);
}

// ---------------------------------------------------------------------------------------------
// 15 non-canonical / malformed encodings (octets and JSON)
// ---------------------------------------------------------------------------------------------

const R_HEX: &str = "73eda753299d7d483339d80809a1d80553bda402fffe5bfeffffffff00000001";
const P_HEX: &str = "1a0111ea397fe69a4b1ba7b6434bacd764774b84f38512bf6730d2a0f6b0f6241eabfffeb153ffffb9feffffffffaaab";

fn add_be(a: &[u8], b: &[u8]) -> Vec<u8> {
    let mut out = vec![0u8; a.len()];
    let mut carry = 0u16;
    for i in (0..a.len()).rev() {
        let v = a[i] as u16 + b[i] as u16 + carry;
        out[i] = v as u8;
        carry = v >> 8;
    }
    assert_eq!(carry, 0);
    out
}

#[test]
fn t15_noncanonical_scalars_and_points_are_refused() {
    type CS = Sha;
    let kp = keypair::<CS>(15);
    let pk = kp.public_key();
    let msgs = messages(2);
    let idx = [0usize];
    let dm = pick(&msgs, &idx);
    let proof = honest::<CS>(&kp, &msgs, &idx, None, None);
    let r = hex::decode(R_HEX).unwrap();
    // scalar fields: value + r (when it fits in 256 bits), r itself, r + 1, 2^256 - 1, zero
    for k in 0..5 {
        let off = [144usize, 176, 208, 240, 272][k];
        let orig = proof[off..off + 32].to_vec();
        let mut cands: Vec<Vec<u8>> = vec![r.clone(), add_be(&r, &s(1).to_be_bytes()), vec![0xff; 32], vec![0; 32]];
        // x + r fits when x < 2^256 - r
        if orig[0] < 0x8c {
            cands.push(add_be(&orig, &r));
        }
        for c in cands {
            let mut q = proof.clone();
            q[off..off + 32].copy_from_slice(&c);
            assert!(vfy::<CS>(&q, pk, &dm, &idx, None, None).is_err(), "scalar field {} = {}", k, hex::encode(&c));
            // JSON
            let js = json_of(&parse(&proof)).replace(&hex::encode(&orig), &hex::encode(&c));
            assert!(serde_json::from_str::<PoKSignature<BBSplus<CS>>>(&js).is_err());
        }
    }
    // make sure the x + r case was exercised at least on a crafted proof: small responses are legal scalars
    let mut small = parse(&proof);
    small.e = s(3);
    let enc = encode(&small);
    let mut q = enc.clone();
    q[144..176].copy_from_slice(&add_be(&s(3).to_be_bytes(), &r));
    assert!(PoKSignature::<BBSplus<CS>>::from_bytes(&enc).is_ok());
    assert!(PoKSignature::<BBSplus<CS>>::from_bytes(&q).is_err());
    // point fields: flags and x + p
    let p_mod = hex::decode(P_HEX).unwrap();
    for off in [0usize, 48, 96] {
        let orig = proof[off..off + 48].to_vec();
        let mut cands: Vec<Vec<u8>> = Vec::new();
        let mut c = orig.clone();
        c[0] &= 0x7f; // compression flag cleared
        cands.push(c);
        let mut c = orig.clone();
        c[0] |= 0x40; // infinity flag on a finite point
        cands.push(c);
        let mut c = vec![0u8; 48];
        c[0] = 0xc0; // identity
        cands.push(c.clone());
        c[0] = 0xe0; // identity with the sort flag
        cands.push(c.clone());
        c[0] = 0x80; // x = 0 (a point of order 3 if on curve)
        cands.push(c.clone());
        c[0] = 0xa0;
        cands.push(c);
        for c in cands {
            let mut q = proof.clone();
            q[off..off + 48].copy_from_slice(&c);
            assert!(vfy::<CS>(&q, pk, &dm, &idx, None, None).is_err(), "point at {} = {}", off, hex::encode(&c));
            let js = json_of(&parse(&proof)).replace(&hex::encode(&orig), &hex::encode(&c));
            assert!(serde_json::from_str::<PoKSignature<BBSplus<CS>>>(&js).is_err());
        }
    }
    // x + p for a point with small x
    let mut pnt = G1Projective::GENERATOR;
    let mut found = false;
    for _ in 0..200 {
        let enc = g1(&pnt);
        if enc[0] & 0x1f < 0x05 {
            let mut x = enc.to_vec();
            let flags = x[0] & 0xe0;
            x[0] &= 0x1f;
            let mut xp = add_be(&x, &p_mod);
            assert_eq!(xp[0] & 0xe0, 0);
            xp[0] |= flags;
            let mut good = parse(&proof);
            good.abar = pnt;
            let good = encode(&good);
            assert!(PoKSignature::<BBSplus<CS>>::from_bytes(&good).is_ok());
            let mut bad = good.clone();
            bad[0..48].copy_from_slice(&xp);
            assert!(PoKSignature::<BBSplus<CS>>::from_bytes(&bad).is_err(), "x + p accepted");
            found = true;
            break;
        }
        pnt += G1Projective::GENERATOR * s(7);
    }
    assert!(found);
}

#[test]
fn t15_json_shape_attacks_are_refused() {
    type CS = Sha;
    type P = PoKSignature<BBSplus<CS>>;
    let kp = keypair::<CS>(15);
    let pk = kp.public_key();
    let msgs = messages(2);
    let idx = [0usize];
    let dm = pick(&msgs, &idx);
    let proof = honest::<CS>(&kp, &msgs, &idx, None, None);
    let js = json_of(&parse(&proof));
    serde_json::from_str::<P>(&js).unwrap().proof_verify(pk, Some(&dm), Some(&idx), None, None).unwrap();
    let ok_or_refused = |j: &str| -> bool {
        match serde_json::from_str::<P>(j) {
            Err(_) => true,
            Ok(p) => p.proof_verify(pk, Some(&dm), Some(&idx), None, None).is_err(),
        }
    };
    // every hex digit changed in every one of its 4 value bits
    let bytes = js.as_bytes();
    let mut in_value = false;
    let mut n = 0;
    for i in 0..bytes.len() {
        // hex digits occur only inside the quoted values that follow a ':' or sit in the m_cap array
        if bytes[i] == b':' || bytes[i] == b'[' {
            in_value = true;
        }
        if bytes[i] == b',' && bytes[i - 1] == b'"' && bytes[i + 1] == b'"' && bytes.get(i + 2).map_or(false, |c| c.is_ascii_uppercase() || *c == b'e' || *c == b'r' || *c == b'm' || *c == b'c') {
            in_value = false;
        }
        let c = bytes[i] as char;
        if in_value && c.is_ascii_hexdigit() && bytes[i - 1] != b'{' {
            let v = c.to_digit(16).unwrap();
            for bit in 0..4 {
                let nv = std::char::from_digit(v ^ (1 << bit), 16).unwrap();
                let mut j = js.clone().into_bytes();
                j[i] = nv as u8;
                let j = String::from_utf8(j).unwrap();
                if j == js {
                    continue;
                }
                n += 1;
                assert!(ok_or_refused(&j), "hex digit {} changed to {} accepted", i, nv);
            }
        }
    }
    println!("json hex digit edits tried: {}", n);
    assert!(n > 2000);
    // shape attacks
    let inner = &js["{\"BBSplus\":".len()..js.len() - 1];
    let attacks = vec![
        js.replace("\"BBSplus\"", "\"CL03\""),
        js.replace("\"BBSplus\"", "\"_Unreachable\""),
        "\"_Unreachable\"".to_string(),
        "{\"_Unreachable\":null}".to_string(),
        inner.to_string(),
        js.replace("\"m_cap\":[", "\"m_cap\":[\"0000000000000000000000000000000000000000000000000000000000000000\","),
        js.replace("\"m_cap\":[", "\"m_cap\":[\"0000000000000000000000000000000000000000000000000000000000000001\","),
        js.replace("\"m_cap\":[", "\"m_cap\":null,\"x\":["),
        js.replace("\"m_cap\":[", "\"x\":["),
        js.replace("\"challenge\"", "\"Challenge\""),
        // duplicated field (second value wins in some decoders)
        js.replace("\"e_cap\":", "\"e_cap\":\"0000000000000000000000000000000000000000000000000000000000000001\",\"e_cap\":"),
        // wrong lengths
        js.replace("\"e_cap\":\"", "\"e_cap\":\"00"),
        js.replace("\"Abar\":\"", "\"Abar\":\"00"),
        js.replace("\"Abar\":\"", "\"Abar\":\"0x"),
    ];
    for a in attacks {
        assert!(ok_or_refused(&a), "accepted: {}", a);
    }
    // a public key in JSON: identity / malformed refused, honest accepted
    let pkjs = serde_json::to_string(pk).unwrap();
    assert_eq!(serde_json::from_str::<BBSplusPublicKey>(&pkjs).unwrap(), *pk);
    let id = format!("\"c0{}\"", "00".repeat(95));
    assert!(serde_json::from_str::<BBSplusPublicKey>(&id).is_err());
    assert!(BBSplusPublicKey::from_bytes(&hex::decode(&id[1..id.len() - 1]).unwrap()).is_err());
}

// ---------------------------------------------------------------------------------------------
// 16 prover side: what the prover accepts and what statement its proof is for
// ---------------------------------------------------------------------------------------------

#[test]
fn t16_prover_side_statement_is_the_sorted_deduplicated_one_and_bad_inputs_do_not_yield_valid_proofs() {
    type CS = Sha;
    type P = PoKSignature<BBSplus<CS>>;
    let kp = keypair::<CS>(16);
    let pk = kp.public_key();
    let msgs = messages(4);
    let h = Some(HEADER);
    let p = Some(PH);
    let sig = Signature::<BBSplus<CS>>::sign(Some(&msgs), kp.private_key(), pk, h).unwrap().to_bytes();
    // out of range / too many
    for bad in [vec![4usize], vec![0, 4], vec![usize::MAX], vec![0, 1, 2, 3, 4]] {
        assert!(P::proof_gen(pk, &sig, h, p, Some(&msgs), Some(&bad)).is_err(), "{:?}", bad);
    }
    // unsorted / duplicated: if a proof comes out, it is a proof for the ascending list and for nothing else
    for given in [vec![2usize, 0], vec![3, 3, 1], vec![0, 0]] {
        if let Ok(pr) = P::proof_gen(pk, &sig, h, p, Some(&msgs), Some(&given)) {
            let mut asc = given.clone();
            asc.sort();
            asc.dedup();
            pr.proof_verify(pk, Some(&pick(&msgs, &asc)), Some(&asc), h, p).unwrap();
            assert!(pr.proof_verify(pk, Some(&pick(&msgs, &given)), Some(&given), h, p).is_err());
        }
    }
    // a prover that lies about a hidden message, the header, the key, or uses another signature gets no valid proof
    let mut lie = msgs.clone();
    lie[3] = b"lie".to_vec();
    let pr = P::proof_gen(pk, &sig, h, p, Some(&lie), Some(&[0])).unwrap();
    assert!(pr.proof_verify(pk, Some(&pick(&msgs, &[0])), Some(&[0]), h, p).is_err());
    let mut lie = msgs.clone();
    lie[0] = b"lie".to_vec();
    let pr = P::proof_gen(pk, &sig, h, p, Some(&lie), Some(&[0])).unwrap();
    assert!(pr.proof_verify(pk, Some(&pick(&lie, &[0])), Some(&[0]), h, p).is_err());
    let pr = P::proof_gen(pk, &sig, Some(b"other header"), p, Some(&msgs), Some(&[0])).unwrap();
    assert!(pr.proof_verify(pk, Some(&pick(&msgs, &[0])), Some(&[0]), Some(b"other header"), p).is_err());
    assert!(pr.proof_verify(pk, Some(&pick(&msgs, &[0])), Some(&[0]), h, p).is_err());
    let other = keypair::<CS>(17);
    let pr = P::proof_gen(other.public_key(), &sig, h, p, Some(&msgs), Some(&[0])).unwrap();
    assert!(pr.proof_verify(other.public_key(), Some(&pick(&msgs, &[0])), Some(&[0]), h, p).is_err());
    assert!(pr.proof_verify(pk, Some(&pick(&msgs, &[0])), Some(&[0]), h, p).is_err());
    // fewer / more messages than signed
    let pr = P::proof_gen(pk, &sig, h, p, Some(&msgs[..3]), Some(&[0])).unwrap();
    assert!(pr.proof_verify(pk, Some(&pick(&msgs, &[0])), Some(&[0]), h, p).is_err());
    // a made-up signature (A = P1 * 5, e = 7)
    let pu = public_plain::<CS>(pk, 4, &[], &[], HEADER);
    let mut fake = [0u8; 80];
    fake[..48].copy_from_slice(&g1(&(pu.p1 * s(5))));
    fake[48..].copy_from_slice(&s(7).to_be_bytes());
    let pr = P::proof_gen(pk, &fake, h, p, Some(&msgs), Some(&[0, 1, 2, 3])).unwrap();
    assert!(pr.proof_verify(pk, Some(&msgs), Some(&[0, 1, 2, 3]), h, p).is_err());
    // degenerate signatures are refused by the prover
    let mut z = fake;
    z[48..].copy_from_slice(&[0u8; 32]);
    assert!(P::proof_gen(pk, &z, h, p, Some(&msgs), Some(&[0])).is_err());
    let mut z = fake;
    z[..48].copy_from_slice(&{
        let mut i = [0u8; 48];
        i[0] = 0xc0;
        i
    });
    assert!(P::proof_gen(pk, &z, h, p, Some(&msgs), Some(&[0])).is_err());
    assert!(P::proof_gen(pk, &fake[..79], h, p, Some(&msgs), Some(&[0])).is_err());
}

// ---------------------------------------------------------------------------------------------
// 17 the two octet decoders and the serde decoder agree; the encoding is canonical
// ---------------------------------------------------------------------------------------------

#[test]
fn t17_decoders_agree_and_encoding_is_canonical() {
    type CS = Shake;
    let kp = keypair::<CS>(17);
    let msgs = messages(3);
    let proof = honest::<CS>(&kp, &msgs, &[1], None, None);
    let a = PoKSignature::<BBSplus<CS>>::from_bytes(&proof).unwrap();
    let b = BBSplusPoKSignature::from_bytes(&proof).unwrap();
    assert_eq!(a.to_bytes(), proof);
    assert_eq!(b.to_bytes(), proof);
    assert_eq!(a.to_bbsplus_proof(), &b);
    let wrapped = PoKSignature::<BBSplus<CS>>::BBSplus(b.clone());
    wrapped.proof_verify(kp.public_key(), Some(&pick(&msgs, &[1])), Some(&[1]), None, None).unwrap();
    let inner_js = serde_json::to_string(&b).unwrap();
    let b2: BBSplusPoKSignature = serde_json::from_str(&inner_js).unwrap();
    assert_eq!(b2, b);
    // the inner type's serde decoder applies the same refusals as the wrapper's
    let zero = "0".repeat(64);
    let e_hex = hex::encode(&proof[144..176]);
    assert!(serde_json::from_str::<BBSplusPoKSignature>(&inner_js.replace(&e_hex, &zero)).is_err());
    let id = format!("c0{}", "00".repeat(47));
    assert!(serde_json::from_str::<BBSplusPoKSignature>(&inner_js.replace(&hex::encode(&proof[0..48]), &id)).is_err());
    // the other ciphersuite's type decodes the same octets but the proof does not verify there
    let other = PoKSignature::<BBSplus<Sha>>::from_bytes(&proof).unwrap();
    assert!(other.proof_verify(kp.public_key(), Some(&pick(&msgs, &[1])), Some(&[1]), None, None).is_err());
    let cross: PoKSignature<BBSplus<Sha>> = serde_json::from_str(&serde_json::to_string(&a).unwrap()).unwrap();
    assert!(cross.proof_verify(kp.public_key(), Some(&pick(&msgs, &[1])), Some(&[1]), None, None).is_err());
}

// ---------------------------------------------------------------------------------------------
// 18 large counts, long header / ph / messages, messages without indexes, the placeholder variant
// ---------------------------------------------------------------------------------------------

#[test]
fn t18_large_counts_long_inputs_and_argument_interactions() {
    type CS = Sha;
    type P = PoKSignature<BBSplus<CS>>;
    let kp = keypair::<CS>(18);
    let pk = kp.public_key();
    // 257 messages, disclosed at the edges 0 / 255 / 256
    let msgs = messages(257);
    let idx = [0usize, 255, 256];
    let long_header = vec![0xabu8; 70_000];
    let long_ph = vec![0xcdu8; 66_000];
    let proof = honest::<CS>(&kp, &msgs, &idx, Some(&long_header), Some(&long_ph));
    let dm = pick(&msgs, &idx);
    vfy::<CS>(&proof, pk, &dm, &idx, Some(&long_header), Some(&long_ph)).unwrap();
    assert!(vfy::<CS>(&proof, pk, &dm, &[0, 254, 256], Some(&long_header), Some(&long_ph)).is_err());
    assert!(vfy::<CS>(&proof, pk, &dm, &[0, 255, 257], Some(&long_header), Some(&long_ph)).is_err());
    assert!(vfy::<CS>(&proof, pk, &dm, &[1, 255, 256], Some(&long_header), Some(&long_ph)).is_err());
    let mut h2 = long_header.clone();
    h2[69_999] ^= 1;
    assert!(vfy::<CS>(&proof, pk, &dm, &idx, Some(&h2), Some(&long_ph)).is_err());
    assert!(vfy::<CS>(&proof, pk, &dm, &idx, Some(&long_header[..65_536]), Some(&long_ph)).is_err());
    assert!(vfy::<CS>(&proof, pk, &dm, &idx, Some(&long_header[..70_000 - 65_536]), Some(&long_ph)).is_err());
    let mut p2 = long_ph.clone();
    p2[0] ^= 1;
    assert!(vfy::<CS>(&proof, pk, &dm, &idx, Some(&long_header), Some(&p2)).is_err());
    assert!(vfy::<CS>(&proof, pk, &dm, &idx, Some(&long_header), Some(&long_ph[..65_536])).is_err());
    // one hidden scalar dropped + one more disclosed keeps L: still refused
    let mut q = proof.clone();
    q.drain(240..272);
    assert!(vfy::<CS>(&q, pk, &pick(&msgs, &[0, 1, 255, 256]), &[0, 1, 255, 256], Some(&long_header), Some(&long_ph)).is_err());
    // a long message
    let mut m2 = messages(2);
    m2[1] = vec![7u8; 100_000];
    let proof = honest::<CS>(&kp, &m2, &[1], None, None);
    vfy::<CS>(&proof, pk, &pick(&m2, &[1]), &[1], None, None).unwrap();
    let mut other = m2[1].clone();
    other[99_999] ^= 1;
    assert!(vfy::<CS>(&proof, pk, &[other], &[1], None, None).is_err());
    assert!(vfy::<CS>(&proof, pk, &[m2[1][..99_999].to_vec()], &[1], None, None).is_err());
    // messages without indexes / indexes without messages are not silently dropped
    let po = P::from_bytes(&proof).unwrap();
    assert!(po.proof_verify(pk, Some(&pick(&m2, &[1])), None, None, None).is_err());
    assert!(po.proof_verify(pk, None, Some(&[1]), None, None).is_err());
    assert!(po.proof_verify(pk, None, None, None, None).is_err());
    let hidden_all = honest::<CS>(&kp, &m2, &[], None, None);
    let po = P::from_bytes(&hidden_all).unwrap();
    po.proof_verify(pk, None, None, None, None).unwrap();
    assert!(po.proof_verify(pk, Some(&[b"claimed".to_vec()]), None, None, None).is_err(), "a claimed message without index was ignored");
    assert!(po.blind_proof_verify(pk, None, None, Some(1), Some(&[b"claimed".to_vec()]), None, None, None).is_err());
    // the placeholder variant is no proof
    let ph = P::_Unreachable(std::marker::PhantomData);
    assert!(ph.proof_verify(pk, None, None, None, None).is_err());
    assert!(ph.blind_proof_verify(pk, None, None, None, None, None, None, None).is_err());
}
