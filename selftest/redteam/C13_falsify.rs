#![cfg(feature = "cl03")]
#![allow(non_snake_case)]
// Red-team candidates for PROPERTY C13 (CL03 signatures: issued ones verify, nothing else does).
// Every test asserts what the property requires; a FAILING test is a demonstrated violation.
// Reading used for panics: a panic of the library on an HONEST operation is a violation; a panic on a
// malformed / hostile input is not counted (the statement only speaks of "verify = false").

use rug::{integer::IsPrime, ops::Pow, Integer};
use serde_json::Value;
use zkryptium::cl03::bases::Bases;
use zkryptium::cl03::ciphersuites::{CL1024Sha256, CL2048Sha256, CLCiphersuite};
use zkryptium::cl03::keys::{CL03PublicKey, CL03SecretKey};
use zkryptium::keys::pair::KeyPair;
use zkryptium::schemes::algorithms::CL03;
use zkryptium::schemes::generics::{BlindSignature, Commitment, Signature, ZKPoK};
use zkryptium::utils::message::cl03_message::CL03Message;

type CS = CL1024Sha256;
type Sig = Signature<CL03<CS>>;

// fixed key material (generated once with KeyPair::<CL03<CL1024Sha256>>::generate and Bases::generate)
const KP_JSON: &str = r#"{"public":{"N":{"radix":16,"value":"17ed258f4359a9235891d58795ddf428100054099d15cdd21b8b9ff3195b88252056d9f5d15b44b436229ae476ef72e04fc236ebc5bec6eec6acfaa46ae5748cc55ed151e57cb277240bb6bce6d32f63772ed78e31a1c5bef014eddbd4278f3ca13057a3a81fdf97974e8cf87aede93490ecab9908a4ffe9c057b672b747e0aa1"},"b":{"radix":16,"value":"a5d452ad60386e0e944b6405aba1ef8d3587f44f9f31bd95ce68cc0832a08df7afb364b2d1ffe73b0aefe0de25cf89631b6a3a87f1033057adad2360947f43668744a1f4633e449b8c5de527c7c254e25898dabba5d1d19846a01322b833d7d736a08f774b19ef337dee4c123e56a7b3c4d278b919a91d51cce22c5df1dfb388"},"c":{"radix":16,"value":"69567187209f9d63ab4aae8c081520ff52187d50e02de3af82e048ddad942e507a84e0237b21f7c520195e53a8dee440c3b4a79b5e8e040e0c9b50a42f48fa6ba2b11dda598090ec40523014657ff94b4a82d5a71b17b2b13d5df6e1acb8755cb2bcfb211bb61ce5139689b1b893e36a127145ffcf6112057371b85968922e0a"}},"private":{"p":{"radix":16,"value":"11986a385193e481264b2f3a52d046e6c6cbd48869bc18c396f4391cf22796f152bed277793418acdf413abe80f46020739be782ba05312ddbb8173735a6a1a23"},"q":{"radix":16,"value":"15c1c7b9df43d750f5aed4096e9aefef5b320c00fd5db62d1845048cf2d5eeaff9c157d080c5110381b5c6fcc6e5c125461a731951851deb54dd9a23acefd4a6b"}}}"#;
const BASES_JSON: &str = r#"[{"radix":16,"value":"16817bfe1ff3587e2ac31e878a5f3e496bb791683b759c93c6694f46198e5da80eef62b80c27273bbf868d118db53d0fdf276445bf3b1d5904fa8a72856aed9bdf938e07f24638ee43dbe7bf1633acfdb52d06d41ce1b2a60fe50a5e4a2eb9af5bc66f4b0fe0f24dbee830f91efca3f6b604c7f56c4db72527fd5ae6ecd899b8a"},{"radix":16,"value":"de9ec4f4cfcdff5f0837e489c2da247fe3c23b061d796dfd5a29e83b1c3afaf1f31322ad7068545a160e3e9710937a4a8b4b3628ef19de6b8838f626b60ff5c1baa4a3453ee9af70e363a8359714b5b558acd9b164db8687b0f60485a7a8dc2e7f9edfee0e43164d8898d0a4c0eb386c2d620e7af4dae43a3a74c51dd9b97d86"},{"radix":16,"value":"4a76199626cb7d0e17f680627f0b380fc1aa0b4d7e249ab2f66fb283e3fa0a8a844f276553ba2eb22702779790bdcdad71f06c23d8bf0333cf25eea851edd5b08dbf1796c4170b25fa107732d20e8b7e4940432e903aa9e829970280364f148c135b59df9ee6f9caaef080ea053aeee13ba44f1dcbdd9d5a872d95b4246cafde"},{"radix":16,"value":"1f13f61200d8665400734abda377230d0449a3c2f08cd6f585235a9ceb4cf445318fec50b9238e7eb61c30531053e795f5786eb29a3b00ef0f5edb0a7cac3624c4f1bfeced3fa989bdf1118b1a6fa4b948ca7969144be46b564a90508a61b7172f5c6ebec5cc8904354f0296c909c9475f66ef67c0b3abc1db430948f51a27d2"},{"radix":16,"value":"1430b5a563a32630be526571d3f8db5bd8857e8cb79c7fcfd2c7912adee3a7411ba46a169e1d50f96aeef75d0235c65eac11932ee40c3bcc6d19d0f4a0efc25f443c7a90b997edbe8fb84ec25fced04b1060ce4dec0c2c9ece7779146d2112e8fb09cc0d1797cefc4e5ded3a49654cc152ef311cf99755cea60574c4c4039a938"}]"#;
const KP2_JSON: &str = r#"{"public":{"N":{"radix":16,"value":"381a4dbc9ba7694573e4c0e76a45e2df3f4348639eb6e7a4cdd4662dee31b74b94c79cc79d2800a49278348f0a42ff7a82531174149ff0084cff6f1b7d2462819f0278cb1da0580545cef6ec917f5830070ac8e890a531081e59259632b668c4a841281630315ad8dfdd086902463d563528134fccfd531eb4fb897aaae18d5e9"},"b":{"radix":16,"value":"2db2db990b17f24cd076d71f59c743d1dc97a52045128df45ba6c3285306a14e1b03ad73ca66a23d0b880b95dd51605effe07dff591830e49a9cc35b3409d524e50c1851d22872ec9531e45705bcb1be6ddd34cc1b4ae551f3e5938f3bc9fc0d68a554bc404e09f6f468c15160cf446c06d65320c6f4e9d77671c3ed4aa358245"},"c":{"radix":16,"value":"1a3862f2e569e980508aba12dbf932c8894e07c07e4dc17d96e00e798d02462c37983abdc0e0dfae7cfa1199af2d07c413b73407be8ea2f41b80d483b43941878895e7b3bba8ed6f37cad966850dfda4e1010d1b4b75c034f687d46d40896f35283f5402fb586e101bdf4d23d905dedda2f43d9d469d61df5cbcc6a2d7204fdfd"}},"private":{"p":{"radix":16,"value":"1fccb2afdd77cb31d50c75f5c294bff266dca8add44ba636e47a35861a69cba24dc15ff63560da84e4484534808aa1f443e7ae4525c3a8397b477d9ceda234da3"},"q":{"radix":16,"value":"1c3a682787ee0f6d6827105b95896f205b354df214b0ac7e3c6a9220c744c1beb998dd2fa8c487187d17c35d1b12cc17b13d1dabaca4deebb1c5e484394ba2f03"}}}"#;

fn kp() -> KeyPair<CL03<CS>> {
    serde_json::from_str(KP_JSON).unwrap()
}
fn kp2() -> KeyPair<CL03<CS>> {
    serde_json::from_str(KP2_JSON).unwrap()
}
fn bases(n: usize) -> Bases {
    let b: Bases = serde_json::from_str(BASES_JSON).unwrap();
    Bases(b.0[..n].to_vec())
}
fn msg(i: u32) -> CL03Message {
    CL03Message::map_message_to_integer_as_hash::<CS>(&[i as u8, 0xAB, 0xCD])
}
fn msgs(n: usize) -> Vec<CL03Message> {
    (0..n as u32).map(msg).collect()
}
fn m(v: Integer) -> CL03Message {
    CL03Message::new(v)
}
fn two(k: u32) -> Integer {
    Integer::from(2).pow(k)
}
fn phi(sk: &CL03SecretKey) -> Integer {
    (sk.p.clone() - 1u32) * (sk.q.clone() - 1u32)
}
/// order of the subgroup of quadratic residues: p'q' with p = 2p'+1, q = 2q'+1
fn qr_order(sk: &CL03SecretKey) -> Integer {
    ((sk.p.clone() - 1u32) / 2u32) * ((sk.q.clone() - 1u32) / 2u32)
}
fn int_of(v: &Value) -> Integer {
    serde_json::from_value(v.clone()).unwrap()
}
fn parts(sig: &Sig) -> (Integer, Integer, Integer) {
    let j = serde_json::to_value(sig).unwrap();
    (int_of(&j["CL03"]["e"]), int_of(&j["CL03"]["s"]), int_of(&j["CL03"]["v"]))
}
fn build(e: &Integer, s: &Integer, v: &Integer) -> Sig {
    let j = serde_json::json!({"CL03": {"e": e, "s": s, "v": v}});
    serde_json::from_value(j).unwrap()
}
fn powm(b: &Integer, e: &Integer, n: &Integer) -> Integer {
    Integer::from(b.pow_mod_ref(e, n).unwrap())
}

// ---------------------------------------------------------------- positive clauses

#[test]
fn c01_single_attribute_roundtrip_edge_values() {
    let kp = kp();
    let (pk, sk) = (kp.public_key(), kp.private_key());
    let b = bases(1);
    for v in [
        Integer::from(0),
        Integer::from(1),
        two(CS::lm) - 1u32,
        two(CS::lm - 1),
        msg(7).value,
    ] {
        let mm = m(v);
        let sig = Sig::sign(pk, sk, &b, &mm);
        assert!(sig.verify(pk, &b, &mm), "issued signature must verify (single)");
        assert!(sig.verify_multiattr(pk, &b, &[mm.clone()]), "issued signature must verify (multi view)");
    }
}

#[test]
fn c02_multi_attribute_roundtrip_and_all_disclosure_subsets() {
    let kp = kp();
    let (pk, sk) = (kp.public_key(), kp.private_key());
    for n in 1..=4usize {
        let b = bases(n);
        let mut ms = msgs(n);
        // put edge values in
        ms[0] = m(Integer::from(0));
        if n > 1 {
            ms[n - 1] = m(two(CS::lm) - 1u32);
        }
        let sig = Sig::sign_multiattr(pk, sk, &b, &ms);
        assert!(sig.verify_multiattr(pk, &b, &ms));
        for mask in 0..(1u32 << n) {
            let unrevealed: Vec<usize> = (0..n).filter(|i| mask & (1 << i) != 0).collect();
            let (sdm, sdb) = sig.disclose_selectively(&ms, b.clone(), pk, &unrevealed);
            assert!(sig.verify_multiattr(pk, &sdb, &sdm), "n={} mask={}", n, mask);
            // revealed messages stay in place
            for i in 0..n {
                if !unrevealed.contains(&i) {
                    assert_eq!(sdm[i], ms[i]);
                    assert_eq!(sdb.0[i], b.0[i]);
                }
            }
        }
    }
}

#[test]
fn c03_disclosure_with_unsorted_and_duplicated_index_lists() {
    let kp = kp();
    let (pk, sk) = (kp.public_key(), kp.private_key());
    let b = bases(4);
    let ms = msgs(4);
    let sig = Sig::sign_multiattr(pk, sk, &b, &ms);
    for idx in [vec![3usize, 0], vec![2, 2], vec![1, 3, 1, 3, 0], vec![3, 2, 1, 0]] {
        let (sdm, sdb) = sig.disclose_selectively(&ms, b.clone(), pk, &idx);
        assert!(sig.verify_multiattr(pk, &sdb, &sdm), "idx={:?}", idx);
    }
}

#[test]
fn c04_byte_and_json_encodings_roundtrip() {
    let kp = kp();
    let (pk, sk) = (kp.public_key(), kp.private_key());
    let b = bases(3);
    let ms = msgs(3);
    for _ in 0..12 {
        let sig = Sig::sign_multiattr(pk, sk, &b, &ms);
        let back = Sig::from_bytes(&sig.to_bytes());
        assert_eq!(back, sig);
        assert!(back.verify_multiattr(pk, &b, &ms));
        let js = serde_json::to_string(&sig).unwrap();
        let back2: Sig = serde_json::from_str(&js).unwrap();
        assert_eq!(back2, sig);
        assert!(back2.verify_multiattr(pk, &b, &ms));
    }
    let one = Sig::sign(pk, sk, &bases(1), &ms[0]);
    let back = Sig::from_bytes(&one.to_bytes());
    assert_eq!(back, one);
    assert!(back.verify(pk, &bases(1), &ms[0]));
}

#[test]
fn c05_byte_encoding_roundtrip_when_v_is_short() {
    // v is written with its minimal length at the end of the encoding: a v with leading zero bytes
    // (built with the secret key: choose v, derive s is impossible, so instead just check the codec)
    let e = two(CS::le - 1) + 1u32;
    for v in [Integer::from(0), Integer::from(1), Integer::from(255), Integer::from(256), two(1000)] {
        for s in [Integer::from(0), two(CS::ls) - 1u32, two(CS::ls) + 5u32] {
            let sig = build(&e, &s, &v);
            let back = Sig::from_bytes(&sig.to_bytes());
            assert_eq!(back, sig, "codec must be lossless for v={} s_bits={}", v, s.significant_bits());
        }
    }
}

#[test]
fn c06_e_is_prime_of_exact_length_and_coprime_to_group_order() {
    let kp = kp();
    let (pk, sk) = (kp.public_key(), kp.private_key());
    let b = bases(2);
    let ms = msgs(2);
    let ph = phi(sk);
    for i in 0..40 {
        let sig = if i % 2 == 0 { Sig::sign(pk, sk, &b, &ms[0]) } else { Sig::sign_multiattr(pk, sk, &b, &ms) };
        let (e, s, v) = parts(&sig);
        assert_eq!(e.significant_bits(), CS::le, "e must have exactly le bits");
        assert!(e.is_probably_prime(40) != IsPrime::No, "e must be prime");
        assert_eq!(Integer::from(e.gcd_ref(&ph)), 1, "e coprime to phi(N)");
        assert_eq!(s.significant_bits(), CS::ls, "s has ls bits");
        assert!(v > 0 && v < pk.N);
    }
}

// ---------------------------------------------------------------- other attribute vectors

#[test]
fn c07_single_changed_attribute_and_swaps_rejected() {
    let kp = kp();
    let (pk, sk) = (kp.public_key(), kp.private_key());
    let b = bases(3);
    let ms = msgs(3);
    let sig = Sig::sign_multiattr(pk, sk, &b, &ms);
    for i in 0..3 {
        for delta in [1i32, -1, 2] {
            let mut w = ms.clone();
            w[i] = m(w[i].value.clone() + delta);
            assert!(!sig.verify_multiattr(pk, &b, &w));
        }
        let mut w = ms.clone();
        w[i] = m(Integer::from(0));
        assert!(!sig.verify_multiattr(pk, &b, &w));
    }
    for (i, j) in [(0, 1), (0, 2), (1, 2)] {
        let mut w = ms.clone();
        w.swap(i, j);
        assert!(!sig.verify_multiattr(pk, &b, &w));
    }
    let one = Sig::sign(pk, sk, &b, &ms[0]);
    assert!(!one.verify(pk, &b, &ms[1]));
    assert!(!one.verify(pk, &b, &m(ms[0].value.clone() ^ Integer::from(1))));
}

#[test]
fn c08_shift_by_multiples_of_e_rejected_single_and_multi() {
    let kp = kp();
    let (pk, sk) = (kp.public_key(), kp.private_key());
    let b = bases(3);
    let ms = msgs(3);
    let sig = Sig::sign_multiattr(pk, sk, &b, &ms);
    let (e, s, v) = parts(&sig);
    for i in 0..3usize {
        for k in [1i32, 2, -1, -2, 1000] {
            let k = Integer::from(k);
            let mut w = ms.clone();
            w[i] = m(w[i].value.clone() + k.clone() * &e);
            // v' = v * a_i^k : satisfies the verification equation, must be refused by the range check
            let v2 = v.clone() * powm(&b.0[i], &k, &pk.N) % &pk.N;
            let forged = build(&e, &s, &v2);
            // sanity: the equation indeed holds
            let lhs = powm(&v2, &e, &pk.N);
            let mut rhs = Integer::from(1);
            for (j, mm) in w.iter().enumerate() {
                rhs = rhs * powm(&b.0[j], &mm.value, &pk.N);
            }
            rhs = rhs * powm(&pk.b, &s, &pk.N) * &pk.c % &pk.N;
            assert_eq!(lhs, rhs);
            assert!(!forged.verify_multiattr(pk, &b, &w), "shifted forgery accepted (multi) i={} k={}", i, k);
            if i == 0 {
                // single-attribute interface on a single-attribute signature
                let one = Sig::sign(pk, sk, &b, &ms[0]);
                let (e1, s1, v1) = parts(&one);
                let v1b = v1 * powm(&b.0[0], &k, &pk.N) % &pk.N;
                let f1 = build(&e1, &s1, &v1b);
                let w1 = m(ms[0].value.clone() + k.clone() * &e1);
                assert!(!f1.verify(pk, &b, &w1), "shifted forgery accepted (single) k={}", k);
            }
        }
    }
}

#[test]
fn c09_oversized_and_negative_attributes_rejected() {
    let kp = kp();
    let (pk, sk) = (kp.public_key(), kp.private_key());
    let b = bases(2);
    let ord = qr_order(sk);
    let ms = vec![m(Integer::from(5)), m(two(CS::lm) - 1u32)];
    let sig = Sig::sign_multiattr(pk, sk, &b, &ms);
    // congruent modulo the group order: the equation holds, only the range check can refuse
    for i in 0..2usize {
        for d in [ord.clone(), -ord.clone(), phi(sk), ord.clone() * 7u32] {
            let mut w = ms.clone();
            w[i] = m(w[i].value.clone() + d);
            assert!(!sig.verify_multiattr(pk, &b, &w));
        }
    }
    let one = Sig::sign(pk, sk, &b, &ms[0]);
    assert!(!one.verify(pk, &b, &m(ms[0].value.clone() + &ord)));
    assert!(!one.verify(pk, &b, &m(ms[0].value.clone() - &ord)));
    // exactly 2^lm
    let edge = m(two(CS::lm));
    let s2 = Sig::sign(pk, sk, &b, &edge); // signing is not range checked; verification must refuse
    assert!(!s2.verify(pk, &b, &edge));
    assert!(!s2.verify_multiattr(pk, &b, &[edge.clone()]));
}

#[test]
fn c10a_signature_on_m0_zero_rejected_for_shorter_vector() {
    // [m0] , [m0, 0] and [m0, 0, 0] are three different attribute vectors
    let kp = kp();
    let (pk, sk) = (kp.public_key(), kp.private_key());
    let b = bases(3);
    let m0 = msg(0);
    let zero = m(Integer::from(0));
    let sig = Sig::sign_multiattr(pk, sk, &b, &[m0.clone(), zero.clone()]);
    assert!(sig.verify_multiattr(pk, &b, &[m0.clone(), zero.clone()]));
    assert!(
        !sig.verify_multiattr(pk, &b, &[m0.clone()]),
        "signature on [m0, 0] accepted for the shorter vector [m0]"
    );
}

#[test]
fn c10b_signature_on_m0_zero_rejected_for_longer_vector() {
    let kp = kp();
    let (pk, sk) = (kp.public_key(), kp.private_key());
    let b = bases(3);
    let m0 = msg(0);
    let zero = m(Integer::from(0));
    let sig = Sig::sign_multiattr(pk, sk, &b, &[m0.clone(), zero.clone()]);
    assert!(
        !sig.verify_multiattr(pk, &b, &[m0.clone(), zero.clone(), zero.clone()]),
        "signature on [m0, 0] accepted for the longer vector [m0, 0, 0]"
    );
}

#[test]
fn c10c_multi_signature_with_zero_tail_rejected_by_single_verifier() {
    let kp = kp();
    let (pk, sk) = (kp.public_key(), kp.private_key());
    let b = bases(3);
    let m0 = msg(0);
    let zero = m(Integer::from(0));
    let sig = Sig::sign_multiattr(pk, sk, &b, &[m0.clone(), zero.clone()]);
    assert!(!sig.verify(pk, &b, &m0), "signature on [m0, 0] accepted by the single-attribute verifier for m0");
}

#[test]
fn c10d_multi_signature_with_nonzero_tail_rejected_for_prefix() {
    // control: when the dropped attribute is not zero the shorter vector is refused
    let kp = kp();
    let (pk, sk) = (kp.public_key(), kp.private_key());
    let b = bases(3);
    let ms = msgs(3);
    let sig = Sig::sign_multiattr(pk, sk, &b, &ms);
    assert!(!sig.verify_multiattr(pk, &b, &ms[..2]));
    assert!(!sig.verify_multiattr(pk, &b, &ms[..1]));
    assert!(!sig.verify(pk, &b, &ms[0]));
    assert!(!sig.verify_multiattr(pk, &b, &[]));
}

// ---------------------------------------------------------------- altered signature components

#[test]
fn c11_single_field_edits_small_perturbations_rejected() {
    let kp = kp();
    let (pk, sk) = (kp.public_key(), kp.private_key());
    let b = bases(2);
    let ms = msgs(2);
    let sig = Sig::sign_multiattr(pk, sk, &b, &ms);
    let (e, s, v) = parts(&sig);
    let one = Sig::sign(pk, sk, &b, &ms[0]);
    let (e1, s1, v1) = parts(&one);
    for d in [1i32, -1, 2, -2] {
        assert!(!build(&(e.clone() + d), &s, &v).verify_multiattr(pk, &b, &ms));
        assert!(!build(&e, &(s.clone() + d), &v).verify_multiattr(pk, &b, &ms));
        assert!(!build(&e, &s, &(v.clone() + d)).verify_multiattr(pk, &b, &ms));
        assert!(!build(&(e1.clone() + d), &s1, &v1).verify(pk, &b, &ms[0]));
        assert!(!build(&e1, &(s1.clone() + d), &v1).verify(pk, &b, &ms[0]));
        assert!(!build(&e1, &s1, &(v1.clone() + d)).verify(pk, &b, &ms[0]));
    }
    // sign flips, zero, one
    for (ee, ss, vv) in [
        (-e.clone(), s.clone(), v.clone()),
        (e.clone(), -s.clone(), v.clone()),
        (e.clone(), s.clone(), -v.clone()),
        (Integer::from(0), s.clone(), v.clone()),
        (Integer::from(1), s.clone(), v.clone()),
        (e.clone(), Integer::from(0), v.clone()),
        (e.clone(), s.clone(), Integer::from(0)),
        (e.clone(), s.clone(), Integer::from(1)),
    ] {
        assert!(!build(&ee, &ss, &vv).verify_multiattr(pk, &b, &ms));
    }
}

#[test]
fn c12_v_other_representatives_rejected() {
    let kp = kp();
    let (pk, sk) = (kp.public_key(), kp.private_key());
    let b = bases(2);
    let ms = msgs(2);
    let sig = Sig::sign_multiattr(pk, sk, &b, &ms);
    let (e, s, v) = parts(&sig);
    for vv in [v.clone() + &pk.N, v.clone() - &pk.N, pk.N.clone() - &v, v.clone() + pk.N.clone() * 2u32] {
        assert!(!build(&e, &s, &vv).verify_multiattr(pk, &b, &ms));
        assert!(!build(&e, &s, &vv).verify(pk, &b, &ms[0]));
    }
    let one = Sig::sign(pk, sk, &b, &ms[0]);
    let (e1, s1, v1) = parts(&one);
    for vv in [v1.clone() + &pk.N, v1.clone() - &pk.N, pk.N.clone() - &v1] {
        assert!(!build(&e1, &s1, &vv).verify(pk, &b, &ms[0]));
    }
}

#[test]
fn c13_e_plus_group_order_rejected_by_single_verifier() {
    let kp = kp();
    let (pk, sk) = (kp.public_key(), kp.private_key());
    let b = bases(1);
    let m0 = msg(0);
    let sig = Sig::sign(pk, sk, &b, &m0);
    let (e, s, v) = parts(&sig);
    for d in [qr_order(sk), phi(sk), -qr_order(sk)] {
        let f = build(&(e.clone() + d), &s, &v);
        assert!(!f.verify(pk, &b, &m0));
    }
}

#[test]
fn c14_e_plus_group_order_rejected_by_multi_verifier() {
    // single-field edit of e: e' = e + k * ord(QR_N). v^e' = v^e, so only the bit-length check on e can refuse it.
    // `verify` has the check e < 2^le, `verify_multiattr` does not.
    let kp = kp();
    let (pk, sk) = (kp.public_key(), kp.private_key());
    let b = bases(2);
    let ms = msgs(2);
    let sig = Sig::sign_multiattr(pk, sk, &b, &ms);
    let (e, s, v) = parts(&sig);
    for d in [qr_order(sk), phi(sk), qr_order(sk) * 12345u32] {
        let e2 = e.clone() + d;
        assert!(e2.significant_bits() > CS::le);
        let f = build(&e2, &s, &v);
        assert_ne!(f, sig);
        assert!(
            !f.verify_multiattr(pk, &b, &ms),
            "verify_multiattr accepted an altered e of {} bits (le = {})",
            e2.significant_bits(),
            CS::le
        );
    }
}

#[test]
fn c15_keyless_composite_e_from_two_signatures_rejected_by_multi_verifier() {
    // Without the secret key: two issued signatures (e1,s1,v1), (e2,s2,v2) on the SAME vector give a third accepted
    // signature with e' = e1*e2 (composite, 2*le bits): choose s' = s1 mod e1, s' = s2 mod e2 (CRT), then
    //   X = a^m b^s' c has e1-th root r1 = v1 * b^((s'-s1)/e1) and e2-th root r2 = v2 * b^((s'-s2)/e2),
    //   and with alpha*e1 + beta*e2 = 1 :  v' = r1^beta * r2^alpha  satisfies v'^(e1 e2) = X.
    let kp = kp();
    let (pk, sk) = (kp.public_key(), kp.private_key());
    let b = bases(2);
    let ms = msgs(2);
    let sig1 = Sig::sign_multiattr(pk, sk, &b, &ms);
    let sig2 = Sig::sign_multiattr(pk, sk, &b, &ms);
    let (e1, s1, v1) = parts(&sig1);
    let (e2, s2, v2) = parts(&sig2);
    assert_ne!(e1, e2);
    let n = &pk.N;
    // CRT for s'
    let e1_inv_mod_e2 = Integer::from(e1.invert_ref(&e2).unwrap());
    let t = ((s2.clone() - &s1) * e1_inv_mod_e2).modulo(&e2);
    let sp = s1.clone() + t * &e1; // sp = s1 mod e1, sp = s2 mod e2, sp >= 0
    assert!(Integer::from(&sp - &s1).is_divisible(&e1) && Integer::from(&sp - &s2).is_divisible(&e2));
    let r1 = v1.clone() * powm(&pk.b, &(Integer::from(&sp - &s1) / &e1), n) % n;
    let r2 = v2.clone() * powm(&pk.b, &(Integer::from(&sp - &s2) / &e2), n) % n;
    let (g, alpha, beta) = e1.clone().extended_gcd(e2.clone(), Integer::new());
    assert_eq!(g, 1);
    let vp = powm(&r1, &beta, n) * powm(&r2, &alpha, n) % n;
    let ep = e1.clone() * &e2;
    let forged = build(&ep, &sp, &vp);
    assert!(ep.is_probably_prime(30) == IsPrime::No && ep.significant_bits() > CS::le);
    assert!(
        !forged.verify_multiattr(pk, &b, &ms),
        "verify_multiattr accepted a keyless-derived signature whose e is composite and has {} bits",
        ep.significant_bits()
    );
}

#[test]
fn c15b_keyless_composite_e_rejected_by_single_verifier() {
    let kp = kp();
    let (pk, sk) = (kp.public_key(), kp.private_key());
    let b = bases(1);
    let m0 = msg(0);
    let (e1, s1, v1) = parts(&Sig::sign(pk, sk, &b, &m0));
    let (e2, s2, v2) = parts(&Sig::sign(pk, sk, &b, &m0));
    let n = &pk.N;
    let e1_inv_mod_e2 = Integer::from(e1.invert_ref(&e2).unwrap());
    let t = ((s2.clone() - &s1) * e1_inv_mod_e2).modulo(&e2);
    let sp = s1.clone() + t * &e1;
    let r1 = v1.clone() * powm(&pk.b, &(Integer::from(&sp - &s1) / &e1), n) % n;
    let r2 = v2.clone() * powm(&pk.b, &(Integer::from(&sp - &s2) / &e2), n) % n;
    let (_g, alpha, beta) = e1.clone().extended_gcd(e2.clone(), Integer::new());
    let vp = powm(&r1, &beta, n) * powm(&r2, &alpha, n) % n;
    let forged = build(&(e1.clone() * &e2), &sp, &vp);
    assert!(!forged.verify(pk, &b, &m0));
}

#[test]
fn c16_s_plus_group_order_single_field_edit_rejected() {
    // single-field edit of s: s' = s + k * ord(QR_N) (needs the factorisation, e.g. the issuer itself).
    // b^s' = b^s, so the equation holds; nothing in the verifier restricts s.
    let kp = kp();
    let (pk, sk) = (kp.public_key(), kp.private_key());
    let b = bases(2);
    let ms = msgs(2);
    let sig = Sig::sign_multiattr(pk, sk, &b, &ms);
    let (e, s, v) = parts(&sig);
    let ord = qr_order(sk);
    for d in [ord.clone(), phi(sk), -(ord.clone() * two(600))] {
        let s2 = s.clone() + d;
        let f = build(&e, &s2, &v);
        assert_ne!(f, sig);
        assert!(
            !f.verify_multiattr(pk, &b, &ms),
            "altered s accepted by verify_multiattr (s' has {} bits, negative: {})",
            s2.significant_bits(),
            s2 < 0
        );
    }
}

#[test]
fn c16b_s_plus_group_order_single_field_edit_rejected_single_verifier() {
    let kp = kp();
    let (pk, sk) = (kp.public_key(), kp.private_key());
    let b = bases(1);
    let m0 = msg(0);
    let sig = Sig::sign(pk, sk, &b, &m0);
    let (e, s, v) = parts(&sig);
    let s2 = s.clone() + qr_order(sk);
    assert!(!build(&e, &s2, &v).verify(pk, &b, &m0), "altered s accepted by verify");
}

#[test]
fn c17_components_of_two_signatures_mixed_rejected() {
    let kp = kp();
    let (pk, sk) = (kp.public_key(), kp.private_key());
    let b = bases(2);
    let ms = msgs(2);
    let (e1, s1, v1) = parts(&Sig::sign_multiattr(pk, sk, &b, &ms));
    let (e2, s2, v2) = parts(&Sig::sign_multiattr(pk, sk, &b, &ms));
    for (e, s, v) in [
        (&e2, &s1, &v1),
        (&e1, &s2, &v1),
        (&e1, &s1, &v2),
        (&e2, &s2, &v1),
        (&e2, &s1, &v2),
        (&e1, &s2, &v2),
    ] {
        assert!(!build(e, s, v).verify_multiattr(pk, &b, &ms));
    }
}

// ---------------------------------------------------------------- other bases / other keys

#[test]
fn c18_other_bases_rejected() {
    let kp = kp();
    let (pk, sk) = (kp.public_key(), kp.private_key());
    let all = bases(5);
    let b = bases(2);
    let ms = msgs(2);
    let sig = Sig::sign_multiattr(pk, sk, &b, &ms);
    assert!(!sig.verify_multiattr(pk, &Bases(vec![all.0[1].clone(), all.0[0].clone()]), &ms));
    assert!(!sig.verify_multiattr(pk, &Bases(vec![all.0[0].clone(), all.0[2].clone()]), &ms));
    assert!(!sig.verify_multiattr(pk, &Bases(vec![all.0[3].clone(), all.0[1].clone()]), &ms));
    assert!(!sig.verify_multiattr(pk, &Bases(vec![all.0[3].clone(), all.0[4].clone()]), &ms));
    let fresh = Bases::generate(pk, 2);
    assert!(!sig.verify_multiattr(pk, &fresh, &ms));
    assert!(!sig.verify(pk, &fresh, &ms[0]));
}

#[test]
fn c19_negated_base_with_even_attribute_rejected() {
    // a' = N - a = -a is another base (not even a quadratic residue); (-a)^m = a^m whenever m is even. No key needed.
    let kp = kp();
    let (pk, sk) = (kp.public_key(), kp.private_key());
    let b = bases(2);
    let ms = vec![m(Integer::from(1234)), msg(1)];
    let sig = Sig::sign_multiattr(pk, sk, &b, &ms);
    let other = Bases(vec![pk.N.clone() - &b.0[0], b.0[1].clone()]);
    assert_ne!(other.0[0], b.0[0]);
    assert!(!sig.verify_multiattr(pk, &other, &ms), "signature accepted under the negated base -a_0");
}

#[test]
fn c20_other_base_at_a_zero_attribute_rejected() {
    let kp = kp();
    let (pk, sk) = (kp.public_key(), kp.private_key());
    let all = bases(5);
    let b = bases(2);
    let ms = vec![msg(0), m(Integer::from(0))];
    let sig = Sig::sign_multiattr(pk, sk, &b, &ms);
    let other = Bases(vec![all.0[0].clone(), all.0[4].clone()]);
    assert!(!sig.verify_multiattr(pk, &other, &ms), "signature accepted under another base for a zero attribute");
}

#[test]
fn c21_other_keys_rejected() {
    let kp = kp();
    let other = kp2();
    let (pk, sk) = (kp.public_key(), kp.private_key());
    let b = bases(2);
    let ms = msgs(2);
    let sig = Sig::sign_multiattr(pk, sk, &b, &ms);
    assert!(!sig.verify_multiattr(other.public_key(), &b, &ms));
    assert!(!sig.verify(other.public_key(), &b, &ms[0]));
    // keys differing in one component
    let o = other.public_key();
    for k in [
        CL03PublicKey::new(pk.N.clone(), o.b.clone(), pk.c.clone()),
        CL03PublicKey::new(pk.N.clone(), pk.b.clone(), o.c.clone()),
        CL03PublicKey::new(o.N.clone(), pk.b.clone(), pk.c.clone()),
        CL03PublicKey::new(pk.N.clone(), pk.c.clone(), pk.b.clone()),
    ] {
        assert!(!sig.verify_multiattr(&k, &b, &ms));
    }
    // a signature of the other key under this key
    let b2 = Bases::generate(o, 2);
    let sig2 = Signature::<CL03<CS>>::sign_multiattr(o, other.private_key(), &b2, &ms);
    assert!(sig2.verify_multiattr(o, &b2, &ms));
    assert!(!sig2.verify_multiattr(pk, &b2, &ms));
    assert!(!sig2.verify_multiattr(pk, &b, &ms));
}

#[test]
fn c21b_key_with_modulus_multiple_rejected() {
    // pk' = (t*N, b, c) for a small t is another key (anyone can write it down). v < N < t*N passes the canonical-residue
    // check, the equation holds modulo N, and modulo the small cofactor t it holds by chance with probability ~1/phi(t)..1/2.
    let kp = kp();
    let (pk, sk) = (kp.public_key(), kp.private_key());
    let b = bases(2);
    let ms = msgs(2);
    let sig = Sig::sign_multiattr(pk, sk, &b, &ms);
    let mut accepted = Vec::new();
    for t in 2u32..=12 {
        let other = CL03PublicKey::new(pk.N.clone() * t, pk.b.clone(), pk.c.clone());
        if sig.verify_multiattr(&other, &b, &ms) {
            accepted.push(t);
        }
    }
    assert!(accepted.is_empty(), "signature accepted under the other keys (t*N, b, c) for t in {:?}", accepted);
}

#[test]
fn c22_key_with_negated_b_rejected() {
    // pk' = (N, -b, c) is another key; (-b)^s = b^s when s is even (half of the issued signatures). No secret needed.
    let kp = kp();
    let (pk, sk) = (kp.public_key(), kp.private_key());
    let b = bases(1);
    let m0 = msg(0);
    let sig = loop {
        let s = Sig::sign(pk, sk, &b, &m0);
        if parts(&s).1.is_even() {
            break s;
        }
    };
    let other = CL03PublicKey::new(pk.N.clone(), pk.N.clone() - &pk.b, pk.c.clone());
    assert_ne!(&other, pk);
    assert!(!sig.verify(&other, &b, &m0), "signature accepted under the other key (N, -b, c)");
}

// ---------------------------------------------------------------- selective disclosure as an attack surface

#[test]
fn c23_disclosed_view_with_another_revealed_attribute_rejected() {
    // Holder of a signature on (m0, m1) hides index 1 and shows a DIFFERENT revealed attribute m0':
    // the hidden position's "base" is supplied by the holder, so  A1' = a1^m1 * a0^(m0 - m0')  absorbs the difference.
    // The revealed position keeps the genuine base a0.
    let kp = kp();
    let (pk, sk) = (kp.public_key(), kp.private_key());
    let b = bases(2);
    let ms = msgs(2);
    let sig = Sig::sign_multiattr(pk, sk, &b, &ms);
    let (hm, hb) = sig.disclose_selectively(&ms, b.clone(), pk, &[1]);
    assert!(sig.verify_multiattr(pk, &hb, &hm));
    let m0p = msg(99);
    assert_ne!(m0p, ms[0]);
    let diff = Integer::from(&ms[0].value - &m0p.value);
    let a1p = hb.0[1].clone() * powm(&b.0[0], &diff, &pk.N) % &pk.N;
    let forged_bases = Bases(vec![b.0[0].clone(), a1p]);
    let forged_msgs = vec![m0p, hm[1].clone()];
    assert_eq!(forged_bases.0[0], b.0[0], "revealed position uses the issuer's base");
    assert!(
        !sig.verify_multiattr(pk, &forged_bases, &forged_msgs),
        "disclosed view accepted with a revealed attribute that was never signed"
    );
}

// ---------------------------------------------------------------- blind interface, suites, decoders

#[test]
fn c24_blind_issuance_unblinds_to_a_verifying_signature_with_proper_e() {
    let kp = kp();
    let (pk, sk) = (kp.public_key(), kp.private_key());
    let b = bases(3);
    let ms = msgs(3);
    let unrevealed = [0usize];
    let revealed_idx = [1usize, 2usize];
    let revealed = vec![ms[1].clone(), ms[2].clone()];
    let commitment = Commitment::<CL03<CS>>::commit_with_pk(&ms, pk, &b, Some(&unrevealed));
    let zkpok = ZKPoK::<CL03<CS>>::generate_proof(&ms, commitment.cl03Commitment(), None, pk, &b, None, &unrevealed);
    let blind = BlindSignature::<CL03<CS>>::blind_sign(
        pk, sk, &b, &zkpok, Some(&revealed), commitment.cl03Commitment(), None, None, &unrevealed, Some(&revealed_idx),
    );
    let sig = blind.unblind_sign(&commitment);
    assert!(sig.verify_multiattr(pk, &b, &ms));
    let (e, _s, _v) = parts(&sig);
    assert_eq!(e.significant_bits(), CS::le);
    assert!(e.is_probably_prime(40) != IsPrime::No);
    assert_eq!(Integer::from(e.gcd_ref(&phi(sk))), 1);
    // encodings of the unblinded signature (s may have ls + 1 bits)
    let back = Sig::from_bytes(&sig.to_bytes());
    assert_eq!(back, sig);
    let back2: Sig = serde_json::from_str(&serde_json::to_string(&sig).unwrap()).unwrap();
    assert_eq!(back2, sig);
    // wrong vector
    let mut w = ms.clone();
    w[0] = msg(50);
    assert!(!sig.verify_multiattr(pk, &b, &w));
    // the blind signature taken as a plain one (rprime as s) must not verify
    let bj = serde_json::to_value(&blind).unwrap();
    let as_plain = build(&int_of(&bj["CL03"]["e"]), &int_of(&bj["CL03"]["rprime"]), &int_of(&bj["CL03"]["v"]));
    assert!(!as_plain.verify_multiattr(pk, &b, &ms));
    // disclosure of the unblinded signature
    let (sdm, sdb) = sig.disclose_selectively(&ms, b.clone(), pk, &[0, 2]);
    assert!(sig.verify_multiattr(pk, &sdb, &sdm));
}

#[test]
fn c25_json_non_canonical_integer_spellings_decode_to_same_signature() {
    let kp = kp();
    let (pk, sk) = (kp.public_key(), kp.private_key());
    let b = bases(1);
    let m0 = msg(0);
    let sig = Sig::sign(pk, sk, &b, &m0);
    let (e, s, v) = parts(&sig);
    let j = serde_json::json!({"CL03": {
        "e": {"radix": 10, "value": e.to_string_radix(10)},
        "s": {"radix": 2, "value": format!("000{}", s.to_string_radix(2))},
        "v": {"radix": 36, "value": v.to_string_radix(36).to_uppercase()},
    }});
    let back: Sig = serde_json::from_value(j).unwrap();
    assert_eq!(back, sig);
    assert!(back.verify(pk, &b, &m0));
}

#[test]
fn c26_other_suite_same_parameters() {
    // lm / le are the same in every suite, so a CL1024 signature re-typed as CL2048 verifies under the same (1024-bit) key;
    // the statement does not speak about suite binding, this only documents the behaviour of the honest path per suite type.
    let kp = kp();
    let (pk, sk) = (kp.public_key(), kp.private_key());
    let b = bases(1);
    let m0 = msg(0);
    let sig = Signature::<CL03<CL2048Sha256>>::sign(pk, sk, &b, &m0);
    assert!(sig.verify(pk, &b, &m0));
    let back = Signature::<CL03<CL2048Sha256>>::from_bytes(&sig.to_bytes());
    assert_eq!(back, sig);
    let (e, s, _) = {
        let j = serde_json::to_value(&sig).unwrap();
        (int_of(&j["CL03"]["e"]), int_of(&j["CL03"]["s"]), 0)
    };
    assert_eq!(e.significant_bits(), CL2048Sha256::le);
    assert_eq!(s.significant_bits(), CL2048Sha256::ls);
}

#[test]
fn c27_extra_unused_bases_do_not_break_honest_verification() {
    let kp = kp();
    let (pk, sk) = (kp.public_key(), kp.private_key());
    let b = bases(5);
    let ms = msgs(2);
    let sig = Sig::sign_multiattr(pk, sk, &b, &ms);
    assert!(sig.verify_multiattr(pk, &b, &ms));
    assert!(sig.verify_multiattr(pk, &bases(2), &ms));
}

#[test]
fn c28_keyless_rerandomisation_s_plus_ke_v_times_b_k_rejected() {
    // TWO-field edit (outside the "single-field" quantifier, inside the sentence "altered signature components"):
    // (e, s + k*e, v * b^k) satisfies the equation for every k and is derivable without the secret key.
    let kp = kp();
    let (pk, sk) = (kp.public_key(), kp.private_key());
    let b = bases(2);
    let ms = msgs(2);
    let sig = Sig::sign_multiattr(pk, sk, &b, &ms);
    let (e, s, v) = parts(&sig);
    for k in [1i32, -1, 5] {
        let k = Integer::from(k);
        let s2 = s.clone() + k.clone() * &e;
        let v2 = v.clone() * powm(&pk.b, &k, &pk.N) % &pk.N;
        let f = build(&e, &s2, &v2);
        assert_ne!(f, sig);
        assert!(!f.verify_multiattr(pk, &b, &ms), "re-randomised signature accepted (k={})", k);
    }
}
