// Red-team candidates for PROPERTY C12 (signature update is correct over any history of updates).
//
// Every test ASSERTS WHAT THE PROPERTY REQUIRES. A failing test is a demonstrated violation on the
// unmodified tree, a passing test documents a family for which the property held.
//
// Reading used for panics: the statement only asks for an error VALUE for out-of-range positions, so a
// panic there would be counted as a violation; elsewhere a panic of an honest operation is also a violation
// ("the current signature verifies ...").

#![allow(non_snake_case)]

use bls12_381_plus::{G1Projective, Scalar};
use elliptic_curve::group::Curve;
use elliptic_curve::hash2curve::ExpandMsg;
use zkryptium::bbsplus::ciphersuites::{BbsCiphersuite, Bls12381Sha256, Bls12381Shake256};
use zkryptium::bbsplus::generators::Generators;
use zkryptium::bbsplus::keys::{BBSplusPublicKey, BBSplusSecretKey};
use zkryptium::bbsplus::signature::BBSplusSignature;
use zkryptium::keys::pair::KeyPair;
use zkryptium::schemes::algorithms::BBSplus;
use zkryptium::schemes::generics::{BlindSignature, Signature};
use zkryptium::utils::message::bbsplus_message::BBSplusMessage;
use zkryptium::utils::util::bbsplus_utils::{hash_to_scalar, i2osp};

const IKM: &str = "746869732d49532d6a7573742d616e2d546573742d494b4d2d746f2d67656e65726174652d246528724074232d6b6579";
const KEY_INFO: &str = "746869732d49532d736f6d652d6b65792d6d657461646174612d746f2d62652d757365642d696e2d746573742d6b65792d67656e";
const HEADER: &[u8] = &[0x11, 0x22, 0x33, 0x44, 0x55, 0x66, 0x77, 0x88, 0x99, 0x00, 0xaa, 0xbb, 0xcc, 0xdd, 0xee, 0xff];

type Sig<CS> = Signature<BBSplus<CS>>;

fn keys<CS: BbsCiphersuite>() -> (BBSplusSecretKey, BBSplusPublicKey)
where
    CS::Expander: for<'a> ExpandMsg<'a>,
{
    KeyPair::<BBSplus<CS>>::generate(
        &hex::decode(IKM).unwrap(),
        Some(&hex::decode(KEY_INFO).unwrap()),
        None,
    )
    .unwrap()
    .into_parts()
}

/// deterministic message material
fn msg(tag: &str, a: usize, b: usize) -> Vec<u8> {
    format!("{}-{}-{}", tag, a, b).into_bytes()
}

fn msgs(tag: &str, L: usize) -> Vec<Vec<u8>> {
    (0..L).map(|i| msg(tag, i, 0)).collect()
}

/// Independent re-computation (from public pieces only) of B(msgs) / (sk + e): what the key holder
/// would obtain for `messages` and `header` with the exponent `e`.
fn expected_A<CS: BbsCiphersuite>(
    sk: &BBSplusSecretKey,
    pk: &BBSplusPublicKey,
    messages: &[Vec<u8>],
    header: Option<&[u8]>,
    e: Scalar,
) -> G1Projective
where
    CS::Expander: for<'a> ExpandMsg<'a>,
{
    let L = messages.len();
    let gens = Generators::create::<CS>(L + 1, Some(CS::API_ID));
    let Q1 = gens.values[0];
    let H = &gens.values[1..];
    let header = header.unwrap_or(b"");

    // domain, per draft-08 section 4.1.2 (calculate_domain is crate-private)
    let mut dom: Vec<u8> = Vec::new();
    dom.extend_from_slice(&pk.to_bytes());
    dom.extend_from_slice(&i2osp::<8>(L));
    dom.extend_from_slice(&Q1.to_affine().to_compressed());
    for h in H {
        dom.extend_from_slice(&h.to_affine().to_compressed());
    }
    dom.extend_from_slice(CS::API_ID);
    dom.extend_from_slice(&i2osp::<8>(header.len()));
    dom.extend_from_slice(header);
    let domain = hash_to_scalar::<CS>(&dom, &[CS::API_ID, CS::H2S].concat()).unwrap();

    let map_dst = [CS::API_ID, CS::MAP_MSG_SCALAR].concat();
    let mut B = gens.g1_base_point + Q1 * domain;
    for i in 0..L {
        B += H[i] * hash_to_scalar::<CS>(&messages[i], &map_dst).unwrap();
    }
    B * (sk.0 + e).invert().unwrap()
}

fn assert_current<CS: BbsCiphersuite>(
    sig: &Sig<CS>,
    sk: &BBSplusSecretKey,
    pk: &BBSplusPublicKey,
    cur: &[Vec<u8>],
    header: Option<&[u8]>,
    e0: Scalar,
    ctx: &str,
) where
    CS::Expander: for<'a> ExpandMsg<'a>,
{
    assert!(
        sig.verify(pk, Some(cur), header).is_ok(),
        "{ctx}: updated signature does not verify for the current vector"
    );
    assert_eq!(sig.e(), e0, "{ctx}: exponent changed");
    assert_eq!(
        sig.a(),
        expected_A::<CS>(sk, pk, cur, header, e0),
        "{ctx}: A != B(msgs_k)/(sk+e)"
    );
}

// ---------------------------------------------------------------------------------------------
// 1. every position, L = 1..=5, both suites, one update
// ---------------------------------------------------------------------------------------------
fn exhaustive_single<CS: BbsCiphersuite>()
where
    CS::Expander: for<'a> ExpandMsg<'a>,
{
    let (sk, pk) = keys::<CS>();
    for L in 1..=5usize {
        let m0 = msgs("m", L);
        let sig0 = Sig::<CS>::sign(Some(&m0), &sk, &pk, Some(HEADER)).unwrap();
        // sanity for the oracle
        assert_eq!(sig0.a(), expected_A::<CS>(&sk, &pk, &m0, Some(HEADER), sig0.e()));
        for i in 0..L {
            let newv = msg("new", i, L);
            let sig1 = sig0.update_signature(&sk, &m0[i], &newv, i, L).unwrap();
            let mut m1 = m0.clone();
            m1[i] = newv;
            assert_current::<CS>(&sig1, &sk, &pk, &m1, Some(HEADER), sig0.e(), &format!("L={L} i={i}"));
            assert!(sig1.verify(&pk, Some(&m0), Some(HEADER)).is_err(), "L={L} i={i}: verifies for old vector");
            // the new value at any OTHER position must not verify
            for j in 0..L {
                if j != i {
                    let mut mj = m0.clone();
                    mj[j] = m1[i].clone();
                    assert!(sig1.verify(&pk, Some(&mj), Some(HEADER)).is_err(), "L={L} i={i} j={j}");
                }
            }
        }
    }
}
#[test]
fn t01_exhaustive_single_update_sha256() {
    exhaustive_single::<Bls12381Sha256>();
}
#[test]
fn t01_exhaustive_single_update_shake256() {
    exhaustive_single::<Bls12381Shake256>();
}

// ---------------------------------------------------------------------------------------------
// 2. chain of 32 updates, pseudo random positions, including repeats of the same position
// ---------------------------------------------------------------------------------------------
fn chain32<CS: BbsCiphersuite>(L: usize, seed: u64)
where
    CS::Expander: for<'a> ExpandMsg<'a>,
{
    let (sk, pk) = keys::<CS>();
    let m0 = msgs("c", L);
    let sig0 = Sig::<CS>::sign(Some(&m0), &sk, &pk, Some(HEADER)).unwrap();
    let e0 = sig0.e();
    let mut history: Vec<Vec<Vec<u8>>> = vec![m0.clone()];
    let mut cur = m0;
    let mut sig = sig0;
    let mut x = seed;
    for k in 1..=32usize {
        x = x.wrapping_mul(6364136223846793005).wrapping_add(1442695040888963407);
        let i = ((x >> 33) as usize) % L;
        // every 5th step: go back to a value the position had before (revisits an earlier vector sometimes)
        let newv = if k % 5 == 0 { history[k / 2][i].clone() } else { msg("chain", k, i) };
        sig = sig.update_signature(&sk, &cur[i], &newv, i, L).unwrap();
        cur[i] = newv;
        assert_current::<CS>(&sig, &sk, &pk, &cur, Some(HEADER), e0, &format!("L={L} step {k} i={i}"));
        // previous vector and the original one
        for old in [&history[k - 1], &history[0]] {
            if *old != cur {
                assert!(sig.verify(&pk, Some(old), Some(HEADER)).is_err(), "L={L} step {k}: earlier vector accepted");
            }
        }
        history.push(cur.clone());
    }
    // at the end: every earlier, different vector is rejected
    for (j, old) in history.iter().enumerate() {
        if *old != cur {
            assert!(sig.verify(&pk, Some(old), Some(HEADER)).is_err(), "L={L}: vector of step {j} accepted at the end");
        }
    }
}
#[test]
fn t02_chain_of_32_updates_sha256() {
    chain32::<Bls12381Sha256>(4, 1);
    chain32::<Bls12381Sha256>(1, 2);
}
#[test]
fn t02_chain_of_32_updates_shake256() {
    chain32::<Bls12381Shake256>(3, 3);
    chain32::<Bls12381Shake256>(2, 4);
}

// ---------------------------------------------------------------------------------------------
// 3. out of range positions, n stated truthfully (n = L)
// ---------------------------------------------------------------------------------------------
fn out_of_range<CS: BbsCiphersuite>()
where
    CS::Expander: for<'a> ExpandMsg<'a>,
{
    let (sk, pk) = keys::<CS>();
    for L in 0..=4usize {
        let m0 = msgs("o", L);
        let sig0 = Sig::<CS>::sign(Some(&m0), &sk, &pk, Some(HEADER)).unwrap();
        for i in [L, L + 1, L + 2, 255, 256, 65535, 65536, usize::MAX - 1, usize::MAX] {
            if i < L {
                continue;
            }
            let r = sig0.update_signature(&sk, b"old", b"new", i, L);
            assert!(r.is_err(), "L={L} i={i}: out-of-range position accepted");
        }
        // last valid position is accepted
        if L > 0 {
            assert!(sig0.update_signature(&sk, &m0[L - 1], b"new", L - 1, L).is_ok());
        }
    }
    // n = usize::MAX (n + 1 overflows): must be an error value, not a panic / not an endless loop
    let m0 = msgs("o", 2);
    let sig0 = Sig::<CS>::sign(Some(&m0), &sk, &pk, None).unwrap();
    assert!(sig0.update_signature(&sk, &m0[0], b"new", usize::MAX, usize::MAX).is_err());
    assert!(sig0.update_signature(&sk, &m0[0], b"new", 2, usize::MAX).is_err());
}
#[test]
fn t03_out_of_range_positions_refused_sha256() {
    out_of_range::<Bls12381Sha256>();
}
#[test]
fn t03_out_of_range_positions_refused_shake256() {
    out_of_range::<Bls12381Shake256>();
}

// ---------------------------------------------------------------------------------------------
// 4. out of range position, caller states a message count n larger than the real L
//    STRICT READING of "forall i >= L: Err": L is the length of the vector the signature was
//    issued for, n is just another caller input.
// ---------------------------------------------------------------------------------------------
#[test]
fn t04_out_of_range_position_refused_when_n_is_overstated() {
    type CS = Bls12381Sha256;
    let (sk, pk) = keys::<CS>();
    let L = 3usize;
    let m0 = msgs("p", L);
    let sig0 = Sig::<CS>::sign(Some(&m0), &sk, &pk, Some(HEADER)).unwrap();
    for (i, n) in [(3usize, 4usize), (3, 8), (7, 8)] {
        let r = sig0.update_signature(&sk, b"whatever", b"new", i, n);
        if let Ok(s) = &r {
            // what did we get? something that verifies for nothing we can name
            let mut m1 = m0.clone();
            assert!(s.verify(&pk, Some(&m1), Some(HEADER)).is_err());
            m1.push(b"new".to_vec());
            assert!(s.verify(&pk, Some(&m1), Some(HEADER)).is_err());
        }
        assert!(r.is_err(), "L={L}: update at position {i} >= L accepted because n={n} was stated");
    }
}

// ---------------------------------------------------------------------------------------------
// 5. wrong old value
// ---------------------------------------------------------------------------------------------
fn wrong_old<CS: BbsCiphersuite>()
where
    CS::Expander: for<'a> ExpandMsg<'a>,
{
    let (sk, pk) = keys::<CS>();
    let L = 3usize;
    let m0 = msgs("w", L);
    let sig0 = Sig::<CS>::sign(Some(&m0), &sk, &pk, Some(HEADER)).unwrap();
    for i in 0..L {
        let newv = msg("wnew", i, 0);
        let mut intended = m0.clone();
        intended[i] = newv.clone();
        let mut trailing = m0[i].clone();
        trailing.push(0);
        let mut leading = vec![0u8];
        leading.extend_from_slice(&m0[i]);
        // the scalar the true old value maps to, as bytes: stating the *scalar* instead of the message
        let scalar_bytes = BBSplusMessage::map_message_to_scalar_as_hash::<CS>(&m0[i], CS::API_ID)
            .unwrap()
            .to_bytes_be()
            .to_vec();
        let wrongs: Vec<Vec<u8>> = vec![
            Vec::new(),
            m0[(i + 1) % L].clone(),
            newv.clone(),
            trailing,
            leading,
            m0[i][..m0[i].len() - 1].to_vec(),
            scalar_bytes,
            m0[i].to_ascii_uppercase(),
        ];
        for (w, wrong) in wrongs.iter().enumerate() {
            assert_ne!(*wrong, m0[i]);
            match sig0.update_signature(&sk, wrong, &newv, i, L) {
                Err(_) => {}
                Ok(s) => {
                    assert!(
                        s.verify(&pk, Some(&intended), Some(HEADER)).is_err(),
                        "i={i} wrong#{w}: verifies for the intended vector"
                    );
                }
            }
        }
    }
}
#[test]
fn t05_wrong_old_value_never_verifies_sha256() {
    wrong_old::<Bls12381Sha256>();
}
#[test]
fn t05_wrong_old_value_never_verifies_shake256() {
    wrong_old::<Bls12381Shake256>();
}

// ---------------------------------------------------------------------------------------------
// 6. coming back to the original vector gives back the ORIGINAL signature (bytes), and two
//    different histories ending in the same vector give the same signature
// ---------------------------------------------------------------------------------------------
fn round_trip<CS: BbsCiphersuite + std::fmt::Debug>()
where
    CS::Expander: for<'a> ExpandMsg<'a>,
{
    let (sk, pk) = keys::<CS>();
    let L = 4usize;
    let m0 = msgs("r", L);
    let sig0 = Sig::<CS>::sign(Some(&m0), &sk, &pk, Some(HEADER)).unwrap();

    // history A: 0,1,2,3 ; history B: 3,1,0,2 with a detour on 1
    let target: Vec<Vec<u8>> = (0..L).map(|i| msg("target", i, 0)).collect();
    let mut a = Sig::<CS>::from_bytes(&sig0.to_bytes()).unwrap();
    for i in 0..L {
        a = a.update_signature(&sk, &m0[i], &target[i], i, L).unwrap();
    }
    let mut b = Sig::<CS>::from_bytes(&sig0.to_bytes()).unwrap();
    b = b.update_signature(&sk, &m0[3], &target[3], 3, L).unwrap();
    b = b.update_signature(&sk, &m0[1], b"detour", 1, L).unwrap();
    b = b.update_signature(&sk, &m0[0], &target[0], 0, L).unwrap();
    b = b.update_signature(&sk, b"detour", &target[1], 1, L).unwrap();
    b = b.update_signature(&sk, &m0[2], &target[2], 2, L).unwrap();
    assert_eq!(a, b, "path dependence");
    assert_eq!(a.to_bytes(), b.to_bytes());
    assert_current::<CS>(&a, &sk, &pk, &target, Some(HEADER), sig0.e(), "target");

    // and back
    let mut back = a;
    for i in (0..L).rev() {
        back = back.update_signature(&sk, &target[i], &m0[i], i, L).unwrap();
    }
    assert_eq!(back.to_bytes(), sig0.to_bytes(), "round trip does not give back the original signature");
    assert!(back.verify(&pk, Some(&m0), Some(HEADER)).is_ok());
    assert!(back.verify(&pk, Some(&target), Some(HEADER)).is_err());
}
#[test]
fn t06_round_trip_and_path_independence_sha256() {
    round_trip::<Bls12381Sha256>();
}
#[test]
fn t06_round_trip_and_path_independence_shake256() {
    round_trip::<Bls12381Shake256>();
}

// ---------------------------------------------------------------------------------------------
// 7. header variants (update never sees the header)
// ---------------------------------------------------------------------------------------------
#[test]
fn t07_header_variants() {
    type CS = Bls12381Shake256;
    let (sk, pk) = keys::<CS>();
    let L = 2usize;
    let m0 = msgs("h", L);
    let long = vec![0xabu8; 70000];
    let headers: Vec<Option<&[u8]>> = vec![None, Some(b""), Some(b"\0"), Some(HEADER), Some(&long)];
    for (hi, h) in headers.iter().enumerate() {
        let sig0 = Sig::<CS>::sign(Some(&m0), &sk, &pk, *h).unwrap();
        let sig1 = sig0.update_signature(&sk, &m0[1], b"hv", 1, L).unwrap();
        let m1 = vec![m0[0].clone(), b"hv".to_vec()];
        assert_current::<CS>(&sig1, &sk, &pk, &m1, *h, sig0.e(), &format!("header#{hi}"));
        for (hj, other) in headers.iter().enumerate() {
            let same = h.unwrap_or(b"") == other.unwrap_or(b"");
            assert_eq!(
                sig1.verify(&pk, Some(&m1), *other).is_ok(),
                same,
                "header#{hi} checked under header#{hj}"
            );
        }
    }
}

// ---------------------------------------------------------------------------------------------
// 8. message shapes: empty, one byte, very long, 0-bytes, duplicated values at several positions
// ---------------------------------------------------------------------------------------------
#[test]
fn t08_message_shapes_and_duplicates() {
    type CS = Bls12381Sha256;
    let (sk, pk) = keys::<CS>();
    let dup = b"same".to_vec();
    let m0: Vec<Vec<u8>> = vec![dup.clone(), dup.clone(), Vec::new(), dup.clone()];
    let L = m0.len();
    let sig0 = Sig::<CS>::sign(Some(&m0), &sk, &pk, None).unwrap();
    let e0 = sig0.e();
    let long = vec![0x5au8; 100_000];
    let values: Vec<Vec<u8>> = vec![Vec::new(), vec![0], vec![0, 0], vec![0xff], long, dup.clone()];

    let mut cur = m0.clone();
    let mut sig = sig0;
    let mut step = 0;
    for v in &values {
        for i in [1usize, 2, 3, 0] {
            step += 1;
            let prev = cur.clone();
            sig = sig.update_signature(&sk, &cur[i], v, i, L).unwrap();
            cur[i] = v.clone();
            assert_current::<CS>(&sig, &sk, &pk, &cur, None, e0, &format!("step {step}"));
            if prev != cur {
                assert!(sig.verify(&pk, Some(&prev), None).is_err(), "step {step}");
            }
            // the same multiset of values in another order must not verify
            let mut rot = cur.clone();
            rot.rotate_left(1);
            if rot != cur {
                assert!(sig.verify(&pk, Some(&rot), None).is_err(), "step {step} rotation");
            }
        }
    }
    // shorter / longer vector never verifies
    assert!(sig.verify(&pk, Some(&cur[..L - 1]), None).is_err());
    let mut longer = cur.clone();
    longer.push(Vec::new());
    assert!(sig.verify(&pk, Some(&longer), None).is_err());
}

// ---------------------------------------------------------------------------------------------
// 9. update to the very same value is the identity
// ---------------------------------------------------------------------------------------------
#[test]
fn t09_noop_update() {
    type CS = Bls12381Shake256;
    let (sk, pk) = keys::<CS>();
    let m0 = msgs("n", 3);
    let sig0 = Sig::<CS>::sign(Some(&m0), &sk, &pk, Some(HEADER)).unwrap();
    for i in 0..3 {
        let s = sig0.update_signature(&sk, &m0[i], &m0[i], i, 3).unwrap();
        assert_eq!(s, sig0);
        assert!(s.verify(&pk, Some(&m0), Some(HEADER)).is_ok());
    }
    // wrong old == new: nothing changes, so the "intended" vector must not verify
    let s = sig0.update_signature(&sk, b"X", b"X", 1, 3).unwrap();
    let intended = vec![m0[0].clone(), b"X".to_vec(), m0[2].clone()];
    assert!(s.verify(&pk, Some(&intended), Some(HEADER)).is_err());
}

// ---------------------------------------------------------------------------------------------
// 10. signature goes through its byte / JSON encodings between updates
// ---------------------------------------------------------------------------------------------
#[test]
fn t10_encodings_between_updates() {
    type CS = Bls12381Sha256;
    let (sk, pk) = keys::<CS>();
    let L = 3usize;
    let m0 = msgs("e", L);
    let sig0 = Sig::<CS>::sign(Some(&m0), &sk, &pk, Some(HEADER)).unwrap();
    let e0 = sig0.e();
    let mut cur = m0.clone();
    let mut sig = sig0;
    for k in 0..6usize {
        let i = (k * 2) % L;
        let v = msg("enc", k, i);
        sig = sig.update_signature(&sk, &cur[i], &v, i, L).unwrap();
        cur[i] = v;
        sig = if k % 2 == 0 {
            Sig::<CS>::from_bytes(&sig.to_bytes()).unwrap()
        } else {
            serde_json::from_str(&serde_json::to_string(&sig).unwrap()).unwrap()
        };
        // secret key through bytes too
        let sk2 = BBSplusSecretKey::from_bytes(&sk.to_bytes()).unwrap();
        assert_eq!(sk2, sk);
        assert_current::<CS>(&sig, &sk2, &pk, &cur, Some(HEADER), e0, &format!("enc step {k}"));
    }
    assert!(sig.verify(&pk, Some(&m0), Some(HEADER)).is_err());
}

// ---------------------------------------------------------------------------------------------
// 11. degenerate but VALID (accepted by verify) starting signatures: e = 0 (reachable through the
//     pub fields and through serde JSON, refused only by from_bytes), and the key sk = 0
//     (accepted by BBSplusSecretKey::from_bytes)
// ---------------------------------------------------------------------------------------------
#[test]
fn t11_degenerate_valid_signatures() {
    type CS = Bls12381Sha256;
    let (sk, pk) = keys::<CS>();
    let L = 3usize;
    let m0 = msgs("d", L);

    // e = 0
    let a0 = expected_A::<CS>(&sk, &pk, &m0, Some(HEADER), Scalar::ZERO);
    let built: Sig<CS> = Signature::BBSplus(BBSplusSignature { A: a0, e: Scalar::ZERO });
    let via_json: Sig<CS> = serde_json::from_str(&serde_json::to_string(&built).unwrap()).unwrap();
    assert_eq!(via_json, built);
    if via_json.verify(&pk, Some(&m0), Some(HEADER)).is_ok() {
        eprintln!("t11: e = 0 signature is accepted by verify -> property applies");
        // it IS a valid signature for verify, so the property speaks about it
        let mut cur = m0.clone();
        let mut sig = via_json;
        for i in [2usize, 0, 1, 2] {
            let v = msg("dz", i, cur[i].len());
            sig = sig.update_signature(&sk, &cur[i], &v, i, L).unwrap();
            cur[i] = v;
            assert_current::<CS>(&sig, &sk, &pk, &cur, Some(HEADER), Scalar::ZERO, "e=0");
        }
        assert!(sig.verify(&pk, Some(&m0), Some(HEADER)).is_err());
    }

    // sk = 0 (pk = identity of G2)
    let sk0 = BBSplusSecretKey::from_bytes(&[0u8; 32]).unwrap();
    let pk0 = sk0.public_key();
    let sig0 = Sig::<CS>::sign(Some(&m0), &sk0, &pk0, Some(HEADER)).unwrap();
    if sig0.verify(&pk0, Some(&m0), Some(HEADER)).is_ok() {
        eprintln!("t11: sk = 0 signature is accepted by verify -> property applies");
        let s = sig0.update_signature(&sk0, &m0[1], b"zz", 1, L).unwrap();
        let m1 = vec![m0[0].clone(), b"zz".to_vec(), m0[2].clone()];
        assert_current::<CS>(&s, &sk0, &pk0, &m1, Some(HEADER), sig0.e(), "sk=0");
        assert!(s.verify(&pk0, Some(&m0), Some(HEADER)).is_err());
    }

    // sk = r - 1 (maximal canonical scalar)
    let skm = BBSplusSecretKey(-Scalar::ONE);
    let skm = BBSplusSecretKey::from_bytes(&skm.to_bytes()).unwrap();
    let pkm = skm.public_key();
    let sigm = Sig::<CS>::sign(Some(&m0), &skm, &pkm, None).unwrap();
    let s = sigm.update_signature(&skm, &m0[2], b"mm", 2, L).unwrap();
    let m1 = vec![m0[0].clone(), m0[1].clone(), b"mm".to_vec()];
    assert_current::<CS>(&s, &skm, &pkm, &m1, None, sigm.e(), "sk=r-1");
}

// ---------------------------------------------------------------------------------------------
// 12. L around 256: positions 0, 254, 255, 256 (= L-1) and 257 (= L)
// ---------------------------------------------------------------------------------------------
#[test]
fn t12_L_around_256() {
    type CS = Bls12381Sha256;
    let (sk, pk) = keys::<CS>();
    let L = 257usize;
    let m0 = msgs("big", L);
    let sig0 = Sig::<CS>::sign(Some(&m0), &sk, &pk, Some(HEADER)).unwrap();
    let e0 = sig0.e();
    let mut cur = m0.clone();
    let mut sig = sig0.clone();
    for i in [255usize, 256, 0, 254] {
        let v = msg("bigv", i, 0);
        sig = sig.update_signature(&sk, &cur[i], &v, i, L).unwrap();
        cur[i] = v;
        assert!(sig.verify(&pk, Some(&cur), Some(HEADER)).is_ok(), "i={i}");
    }
    assert_eq!(sig.e(), e0);
    assert_eq!(sig.a(), expected_A::<CS>(&sk, &pk, &cur, Some(HEADER), e0));
    assert!(sig.verify(&pk, Some(&m0), Some(HEADER)).is_err());
    assert!(sig0.update_signature(&sk, b"a", b"b", 257, L).is_err());
    assert!(sig0.update_signature(&sk, b"a", b"b", 258, L).is_err());
}

// ---------------------------------------------------------------------------------------------
// 13. n mis-stated but the position is inside the real vector: result must still be the right one
// ---------------------------------------------------------------------------------------------
#[test]
fn t13_n_misstated_position_in_range() {
    type CS = Bls12381Shake256;
    let (sk, pk) = keys::<CS>();
    let L = 4usize;
    let m0 = msgs("q", L);
    let sig0 = Sig::<CS>::sign(Some(&m0), &sk, &pk, Some(HEADER)).unwrap();
    for i in 0..L {
        let v = msg("qv", i, 0);
        let mut m1 = m0.clone();
        m1[i] = v.clone();
        let reference = sig0.update_signature(&sk, &m0[i], &v, i, L).unwrap();
        for n in [i + 1, L + 1, L + 7] {
            let s = sig0.update_signature(&sk, &m0[i], &v, i, n).unwrap();
            assert_eq!(s, reference, "i={i} n={n}");
            assert!(s.verify(&pk, Some(&m1), Some(HEADER)).is_ok());
        }
    }
}

// ---------------------------------------------------------------------------------------------
// 14. a value of a foreign variant (reachable through serde) is refused with an error, not a panic
// ---------------------------------------------------------------------------------------------
#[test]
fn t14_foreign_variant_is_refused() {
    type CS = Bls12381Sha256;
    let (sk, pk) = keys::<CS>();
    let foreign: Sig<CS> = serde_json::from_str(r#"{"_Unreachable":null}"#).unwrap();
    assert!(foreign.update_signature(&sk, b"a", b"b", 0, 1).is_err());
    assert!(foreign.verify(&pk, Some(&[b"b".to_vec()]), None).is_err());
}

// ---------------------------------------------------------------------------------------------
// 15. mixing interfaces / suites: a blind signature, or a signature of the other suite, carried over
//     through the 80-byte encoding is NOT a valid plain signature, so the property's premise
//     ("starting from any valid signature") is not met and nothing it produces may verify
// ---------------------------------------------------------------------------------------------
#[test]
fn t15_blind_and_cross_suite_signatures_are_not_valid_starting_points() {
    type CS = Bls12381Sha256;
    type CS2 = Bls12381Shake256;
    let (sk, pk) = keys::<CS>();
    let L = 2usize;
    let m0 = msgs("b", L);

    let blind = BlindSignature::<BBSplus<CS>>::blind_sign(&sk, &pk, None, Some(HEADER), Some(&m0)).unwrap();
    assert!(blind.verify_blind_sign(&pk, Some(HEADER), Some(&m0), None, None).is_ok());
    let as_plain = Sig::<CS>::from_bytes(&blind.to_bytes()).unwrap();
    assert!(as_plain.verify(&pk, Some(&m0), Some(HEADER)).is_err());
    let upd = as_plain.update_signature(&sk, &m0[0], b"nb", 0, L).unwrap();
    let m1 = vec![b"nb".to_vec(), m0[1].clone()];
    assert!(upd.verify(&pk, Some(&m1), Some(HEADER)).is_err());
    assert!(upd.verify(&pk, Some(&m0), Some(HEADER)).is_err());

    let sig = Sig::<CS>::sign(Some(&m0), &sk, &pk, Some(HEADER)).unwrap();
    let other = Sig::<CS2>::from_bytes(&sig.to_bytes()).unwrap();
    assert!(other.verify(&pk, Some(&m0), Some(HEADER)).is_err());
    let upd = other.update_signature(&sk, &m0[0], b"nb", 0, L).unwrap();
    assert!(upd.verify(&pk, Some(&m1), Some(HEADER)).is_err());
    // ... and under the suite that issued it neither
    let back = Sig::<CS>::from_bytes(&upd.to_bytes()).unwrap();
    assert!(back.verify(&pk, Some(&m1), Some(HEADER)).is_err());
}

// ---------------------------------------------------------------------------------------------
// 16. update with a different secret key than the one that signed (still "states" the right old value):
//     must not yield something that verifies for the new vector under either key
// ---------------------------------------------------------------------------------------------
#[test]
fn t16_update_with_foreign_key() {
    type CS = Bls12381Sha256;
    let (sk, pk) = keys::<CS>();
    let sk2 = BBSplusSecretKey(sk.0 + Scalar::ONE);
    let pk2 = sk2.public_key();
    let L = 2usize;
    let m0 = msgs("f", L);
    let sig = Sig::<CS>::sign(Some(&m0), &sk, &pk, None).unwrap();
    let m1 = vec![m0[0].clone(), b"nf".to_vec()];
    if let Ok(s) = sig.update_signature(&sk2, &m0[1], b"nf", 1, L) {
        assert!(s.verify(&pk, Some(&m1), None).is_err());
        assert!(s.verify(&pk2, Some(&m1), None).is_err());
    }
}

// ---------------------------------------------------------------------------------------------
// 17. after a wrong-old-value update, a later *honest-looking* update cannot repair it either:
//     stating the true old value later on never produces the intended vector's signature
// ---------------------------------------------------------------------------------------------
#[test]
fn t17_wrong_old_value_then_more_updates() {
    type CS = Bls12381Shake256;
    let (sk, pk) = keys::<CS>();
    let L = 3usize;
    let m0 = msgs("x", L);
    let sig0 = Sig::<CS>::sign(Some(&m0), &sk, &pk, Some(HEADER)).unwrap();
    let bad = sig0.update_signature(&sk, b"not the old value", b"v1", 1, L).unwrap();
    let intended1 = vec![m0[0].clone(), b"v1".to_vec(), m0[2].clone()];
    assert!(bad.verify(&pk, Some(&intended1), Some(HEADER)).is_err());
    // continue "as if" it had worked
    let next = bad.update_signature(&sk, b"v1", b"v2", 1, L).unwrap();
    let intended2 = vec![m0[0].clone(), b"v2".to_vec(), m0[2].clone()];
    assert!(next.verify(&pk, Some(&intended2), Some(HEADER)).is_err());
    let next = next.update_signature(&sk, &m0[0], b"v0", 0, L).unwrap();
    let intended3 = vec![b"v0".to_vec(), b"v2".to_vec(), m0[2].clone()];
    assert!(next.verify(&pk, Some(&intended3), Some(HEADER)).is_err());
    for v in [&m0, &intended1, &intended2] {
        assert!(next.verify(&pk, Some(v), Some(HEADER)).is_err());
    }
}

// ---------------------------------------------------------------------------------------------
// 18. a starting signature whose A is OUTSIDE the prime-order subgroup (A + T, T a small-order point).
//     Not reachable through from_bytes / serde (both check the subgroup); reachable only because the
//     fields of BBSplusSignature are pub and bls12_381_plus exposes from_compressed_unchecked.
//     If verify accepts it, it is a "valid signature" and the property speaks about it.
// ---------------------------------------------------------------------------------------------
#[test]
fn t18_starting_signature_with_small_order_component() {
    use bls12_381_plus::G1Affine;
    type CS = Bls12381Sha256;
    let (sk, pk) = keys::<CS>();
    let L = 2usize;
    let m0 = msgs("t", L);
    let sig0 = Sig::<CS>::sign(Some(&m0), &sk, &pk, Some(HEADER)).unwrap();

    // a curve point that is not in G1
    let mut P = None;
    for x in 1u8..=255 {
        let mut b = [0u8; 48];
        b[0] = 0x80;
        b[47] = x;
        let c = G1Affine::from_compressed_unchecked(&b);
        if bool::from(c.is_some()) {
            let c = c.unwrap();
            if bool::from(c.is_on_curve()) && !bool::from(c.is_torsion_free()) {
                P = Some(G1Projective::from(c));
                break;
            }
        }
    }
    let P = P.expect("no off-subgroup point found");
    // T = r * P : order divides the cofactor
    let T = P * (-Scalar::ONE) + P;
    assert!(T != G1Projective::IDENTITY, "unlucky: P*r is the identity");
    assert!(!bool::from(T.to_affine().is_torsion_free()));

    let shifted: Sig<CS> = Signature::BBSplus(BBSplusSignature { A: sig0.a() + T, e: sig0.e() });
    // the checked decoders refuse it
    let mut enc = [0u8; 80];
    enc[..48].copy_from_slice(&(sig0.a() + T).to_affine().to_compressed());
    enc[48..].copy_from_slice(&sig0.e().to_be_bytes());
    assert!(Sig::<CS>::from_bytes(&enc).is_err(), "from_bytes accepts a point outside G1");

    if shifted.verify(&pk, Some(&m0), Some(HEADER)).is_ok() {
        eprintln!("t18: A + T is accepted by verify -> property applies");
        let s = shifted.update_signature(&sk, &m0[0], b"tt", 0, L).unwrap();
        let m1 = vec![b"tt".to_vec(), m0[1].clone()];
        assert_current::<CS>(&s, &sk, &pk, &m1, Some(HEADER), sig0.e(), "A+T");
    } else {
        eprintln!("t18: A + T is rejected by verify -> premise not met");
    }
}

// ---------------------------------------------------------------------------------------------
// 19. the updated signature in the proof interface: a disclosure proof made from it verifies for the
//     current values and not for the earlier ones (the proof generator does not check the signature,
//     so this is the only place where a wrong A would surface for a holder)
// ---------------------------------------------------------------------------------------------
#[test]
fn t19_updated_signature_in_proof_interface() {
    use zkryptium::schemes::generics::PoKSignature;
    type CS = Bls12381Sha256;
    let (sk, pk) = keys::<CS>();
    let L = 4usize;
    let m0 = msgs("pf", L);
    let sig0 = Sig::<CS>::sign(Some(&m0), &sk, &pk, Some(HEADER)).unwrap();
    let mut cur = m0.clone();
    let mut sig = sig0;
    for i in [3usize, 0, 3] {
        let v = msg("pfv", i, cur[i].len());
        sig = sig.update_signature(&sk, &cur[i], &v, i, L).unwrap();
        cur[i] = v;
    }
    let idx = [0usize, 3];
    let proof = PoKSignature::<BBSplus<CS>>::proof_gen(
        &pk,
        &sig.to_bytes(),
        Some(HEADER),
        Some(b"ph"),
        Some(&cur),
        Some(&idx),
    )
    .unwrap();
    let disclosed_new = vec![cur[0].clone(), cur[3].clone()];
    let disclosed_old = vec![m0[0].clone(), m0[3].clone()];
    assert!(proof.proof_verify(&pk, Some(&disclosed_new), Some(&idx), Some(HEADER), Some(b"ph")).is_ok());
    assert!(proof.proof_verify(&pk, Some(&disclosed_old), Some(&idx), Some(HEADER), Some(b"ph")).is_err());
    // a proof computed from the updated signature but over the OLD vector must not verify
    let stale = PoKSignature::<BBSplus<CS>>::proof_gen(&pk, &sig.to_bytes(), Some(HEADER), Some(b"ph"), Some(&m0), Some(&idx)).unwrap();
    assert!(stale.proof_verify(&pk, Some(&disclosed_old), Some(&idx), Some(HEADER), Some(b"ph")).is_err());
}
