#![cfg(feature = "cl03")]
#![allow(non_snake_case)]
//! Red-team candidates for PROPERTY C16 (Boudot range proof: in-range values prove, nothing else is accepted).
//!
//! Every test ASSERTS WHAT THE PROPERTY REQUIRES: a test that fails on the unmodified tree is a violation.
//!
//! Reading used for panics: `verify` returns a bool, "rejected" is read as "not accepted", so a panic inside
//! `verify` on an altered proof counts as a rejection in the soundness tests (helper `accepted`), and is
//! asserted separately, and strictly, in `edits_are_rejected_with_false_not_with_a_panic`.
//! For the completeness clause a panic of the honest prover on an in-range value is a failure to prove.

use rug::{ops::Pow, Complete, Integer};
use serde_json::Value;
use sha2::Sha256;
use std::panic::{catch_unwind, AssertUnwindSafe};
use zkryptium::cl03::{commitment::CL03Commitment, range_proof::Boudot2000RangeProof};

type RP = Boudot2000RangeProof;

const T_SEC: u32 = 128;
const L_SEC: u32 = 40;

// ------------------------------------------------------------------------------------------------
// fixed key material (deterministic): a 1024-bit modulus with KNOWN factors, two bases in QR_n
// ------------------------------------------------------------------------------------------------
struct Grp {
    n: Integer,
    g: Integer,
    h: Integer,
    lambda: Integer, // lcm(p-1, q-1): a multiple of the order of every unit
}

fn grp() -> Grp {
    let p = (Integer::from(2).pow(511) + Integer::from(0x1234_5678_9abc_def1u64)).next_prime();
    let q = (Integer::from(2).pow(511) + Integer::from(3) * Integer::from(2).pow(300) + Integer::from(0xfeed_beefu64))
        .next_prime();
    let n = (&p * &q).complete();
    let lambda = Integer::from(&p - 1u32).lcm(&Integer::from(&q - 1u32));
    let h0 = Integer::from(3).pow(600) % &n;
    let h = Integer::from(h0.pow_mod_ref(&Integer::from(2), &n).unwrap());
    let f = Integer::from(7).pow(350);
    let g = Integer::from(h.pow_mod_ref(&f, &n).unwrap());
    Grp { n, g, h, lambda }
}

fn fixed_r(i: u32) -> Integer {
    // a fixed ~1024-bit "randomness"
    (Integer::from(5).pow(460 + i) + Integer::from(i)) % Integer::from(2).pow(1024)
}

fn commit(G: &Grp, x: &Integer, r: &Integer) -> CL03Commitment {
    let v = (Integer::from(G.g.pow_mod_ref(x, &G.n).unwrap()) * Integer::from(G.h.pow_mod_ref(r, &G.n).unwrap())) % &G.n;
    CL03Commitment {
        value: v,
        randomness: r.clone(),
    }
}

fn prove(G: &Grp, x: &Integer, r: &Integer, a: &Integer, b: &Integer) -> RP {
    let c = commit(G, x, r);
    RP::prove::<Sha256>(x, &c, &G.g, &G.h, &G.n, a, b)
}

/// Ok(bool) = what verify returned, Err(()) = verify panicked
fn ver(p: &RP, g: &Integer, h: &Integer, n: &Integer, a: &Integer, b: &Integer) -> Result<bool, ()> {
    catch_unwind(AssertUnwindSafe(|| p.verify::<Sha256>(g, h, n, a, b))).map_err(|_| ())
}

/// "accepted" = verify returned true (a panic is not an acceptance)
fn accepted(p: &RP, g: &Integer, h: &Integer, n: &Integer, a: &Integer, b: &Integer) -> bool {
    matches!(ver(p, g, h, n, a, b), Ok(true))
}

fn int(s: i64) -> Integer {
    Integer::from(s)
}
fn two(k: u32) -> Integer {
    Integer::from(2).pow(k)
}

// ------------------------------------------------------------------------------------------------
// JSON helpers (private fields are reached through the serde representation)
// ------------------------------------------------------------------------------------------------
const LEAVES: [&str; 24] = [
    "/E",
    "/E_prime",
    "/proof_of_tolerance/E_a_1",
    "/proof_of_tolerance/E_a_2",
    "/proof_of_tolerance/E_b_1",
    "/proof_of_tolerance/E_b_2",
    "/proof_of_tolerance/proof_of_square_a/E",
    "/proof_of_tolerance/proof_of_square_a/F",
    "/proof_of_tolerance/proof_of_square_a/proof_ss/challenge",
    "/proof_of_tolerance/proof_of_square_a/proof_ss/d",
    "/proof_of_tolerance/proof_of_square_a/proof_ss/d_1",
    "/proof_of_tolerance/proof_of_square_a/proof_ss/d_2",
    "/proof_of_tolerance/proof_of_square_b/E",
    "/proof_of_tolerance/proof_of_square_b/F",
    "/proof_of_tolerance/proof_of_square_b/proof_ss/challenge",
    "/proof_of_tolerance/proof_of_square_b/proof_ss/d",
    "/proof_of_tolerance/proof_of_square_b/proof_ss/d_1",
    "/proof_of_tolerance/proof_of_square_b/proof_ss/d_2",
    "/proof_of_tolerance/proof_large_i_a/C",
    "/proof_of_tolerance/proof_large_i_a/D_1",
    "/proof_of_tolerance/proof_large_i_a/D_2",
    "/proof_of_tolerance/proof_large_i_b/C",
    "/proof_of_tolerance/proof_large_i_b/D_1",
    "/proof_of_tolerance/proof_large_i_b/D_2",
];

fn to_json(p: &RP) -> Value {
    serde_json::to_value(p).unwrap()
}
fn from_json(v: &Value) -> RP {
    serde_json::from_value(v.clone()).unwrap()
}
fn jget(v: &Value, ptr: &str) -> Integer {
    serde_json::from_value(v.pointer(ptr).unwrap_or_else(|| panic!("no {ptr}")).clone()).unwrap()
}
fn jset(v: &mut Value, ptr: &str, i: &Integer) {
    *v.pointer_mut(ptr).unwrap_or_else(|| panic!("no {ptr}")) = serde_json::to_value(i).unwrap();
}
fn edited(p: &RP, ptr: &str, f: impl Fn(&Integer) -> Integer) -> RP {
    let mut v = to_json(p);
    let old = jget(&v, ptr);
    jset(&mut v, ptr, &f(&old));
    from_json(&v)
}

fn divm(a: &Integer, b: &Integer, n: &Integer) -> Integer {
    (Integer::from(b.invert_ref(n).unwrap()) * a) % n
}
fn powm(b: &Integer, e: &Integer, n: &Integer) -> Integer {
    let r = Integer::from(b.pow_mod_ref(e, n).unwrap());
    r
}

/// the verifier's public derived quantities (T, aa, bb)
fn derived(a: &Integer, b: &Integer) -> (u32, Integer, Integer) {
    let w = (b - a).complete();
    let T = 2 * (T_SEC + L_SEC + 1) + w.significant_bits();
    let s = Integer::from(w.sqrt_ref());
    let K = two(L_SEC + T_SEC + T / 2 + 1);
    let aa = two(T) * a - (&K * &s).complete();
    let bb = two(T) * b + (&K * &s).complete();
    (T, aa, bb)
}

/// PUBLIC-DATA-ONLY transplant: takes an honest proof `p` made for commitment E and bounds [a, b] and builds
/// a proof for the commitment  E' = E * g^delta * h^rho  and bounds [a2, b2] (same width bit-length),
/// re-using all four sub-proofs of `p`; only the two remainder commitments E_a_2 / E_b_2 are recomputed the
/// way the verifier does and the two responses (D_1, D_2) of each larger-interval proof are shifted by
/// c * (known exponent difference). Neither the committed value nor the randomness is used.
fn malleate(
    G: &Grp,
    p: &RP,
    a: &Integer,
    b: &Integer,
    a2: &Integer,
    b2: &Integer,
    delta: &Integer,
    rho: &Integer,
) -> RP {
    let (T, aa, bb) = derived(a, b);
    let (T2, aa2, bb2) = derived(a2, b2);
    assert_eq!(T, T2, "the transplant keeps the scaling factor");
    let n = &G.n;
    let mut v = to_json(p);
    let E = jget(&v, "/E");
    let E2 = (E * powm(&G.g, delta, n) * powm(&G.h, rho, n)) % n;
    let E2_prime = powm(&E2, &two(T), n);
    let E_a2 = divm(&E2_prime, &powm(&G.g, &aa2, n), n);
    let E_b2 = divm(&powm(&G.g, &bb2, n), &E2_prime, n);
    let E_a_1 = jget(&v, "/proof_of_tolerance/E_a_1");
    let E_b_1 = jget(&v, "/proof_of_tolerance/E_b_1");
    jset(&mut v, "/E", &E2);
    jset(&mut v, "/E_prime", &E2_prime);
    jset(&mut v, "/proof_of_tolerance/E_a_2", &divm(&E_a2, &E_a_1, n));
    jset(&mut v, "/proof_of_tolerance/E_b_2", &divm(&E_b2, &E_b_1, n));

    // exponent differences (known to everybody)
    let dg_a = (two(T) * delta) - (&aa2 - &aa).complete();
    let dh_a = two(T) * rho;
    let dg_b = (&bb2 - &bb).complete() - (two(T) * delta);
    let dh_b = -(two(T) * rho);

    for (side, dg, dh) in [("a", dg_a, dh_a), ("b", dg_b, dh_b)] {
        let base = format!("/proof_of_tolerance/proof_large_i_{side}");
        let c = jget(&v, &format!("{base}/C")) % two(T_SEC);
        let D_1 = jget(&v, &format!("{base}/D_1")) + (&c * &dg).complete();
        let D_2 = jget(&v, &format!("{base}/D_2")) + (&c * &dh).complete();
        jset(&mut v, &format!("{base}/D_1"), &D_1);
        jset(&mut v, &format!("{base}/D_2"), &D_2);
    }
    from_json(&v)
}

// ================================================================================================
// 1. completeness: endpoints, interval widths
// ================================================================================================
#[test]
fn c01_honest_proofs_verify_for_endpoints_and_all_widths() {
    let G = grp();
    let widths: Vec<Integer> = vec![
        int(1),
        int(2),
        int(3),
        int(4),
        int(10),
        int(255),
        int(256),
        two(64) - 1u32,
        two(128),
        two(255),
        two(256) - 1u32,
        two(256),
        two(1024) - 1u32,
        two(2000) + 12345u32,
    ];
    let starts: Vec<Integer> = vec![int(0), int(1), int(17), two(256) + 5u32, two(1100)];
    let mut k = 0u32;
    for w in &widths {
        for a in &starts {
            let b = (a + w).complete();
            let mid: Integer = a + Integer::from(w / 2u32);
            let mut xs = vec![a.clone(), (a + 1u32).complete(), mid, (&b - 1u32).complete(), b.clone()];
            xs.dedup();
            for x in xs {
                if x < *a || x > b {
                    continue;
                }
                k += 1;
                let r = fixed_r(k % 7);
                let res = catch_unwind(AssertUnwindSafe(|| prove(&G, &x, &r, a, &b)));
                let p = res.unwrap_or_else(|_| panic!("honest prover panicked: a={a} w={w} x={x}"));
                assert_eq!(
                    ver(&p, &G.g, &G.h, &G.n, a, &b),
                    Ok(true),
                    "honest proof rejected: a={a} w={w} x={x}"
                );
            }
        }
    }
    println!("c01: {k} honest proofs verified");
}

#[test]
fn c02_honest_proofs_verify_with_negative_lower_bound_and_negative_values() {
    let G = grp();
    for (a, b, x) in [
        (int(-5), int(5), int(-5)),
        (int(-5), int(5), int(-1)),
        (int(-5), int(5), int(0)),
        (int(-5), int(5), int(5)),
        (-two(256), two(256), -two(256)),
        (-two(256), two(256), int(-3)),
        (-two(256), int(1), int(1)),
    ] {
        let r = fixed_r(1);
        let p = catch_unwind(AssertUnwindSafe(|| prove(&G, &x, &r, &a, &b)))
            .unwrap_or_else(|_| panic!("honest prover panicked on [{a},{b}] x={x}"));
        assert_eq!(ver(&p, &G.g, &G.h, &G.n, &a, &b), Ok(true), "[{a},{b}] x={x}");
    }
}

/// intervals whose upper end is 0 or negative are intervals too ("forall intervals [a, b]")
#[test]
fn c03_honest_proofs_verify_when_rmax_is_zero_or_negative() {
    let G = grp();
    let mut failures = vec![];
    for (a, b, x) in [
        (int(-10), int(0), int(-3)),
        (int(-10), int(0), int(0)),
        (int(-10), int(-2), int(-5)),
        (-two(256), int(-1), int(-1)),
    ] {
        let r = fixed_r(2);
        match catch_unwind(AssertUnwindSafe(|| prove(&G, &x, &r, &a, &b))) {
            Err(_) => failures.push(format!("prover panicked on [{a},{b}] x={x}")),
            Ok(p) => {
                if ver(&p, &G.g, &G.h, &G.n, &a, &b) != Ok(true) {
                    failures.push(format!("honest proof not accepted on [{a},{b}] x={x}"));
                }
            }
        }
    }
    assert!(failures.is_empty(), "{failures:#?}");
}

/// negative randomness / randomness larger than the modulus / zero randomness in the commitment
#[test]
fn c04_honest_proofs_verify_for_unusual_randomness() {
    let G = grp();
    let a = int(0);
    let b = two(256) - 1u32;
    // (randomness above 2^40 * n, e.g. 2^3000, makes the prover's splitting loop spin forever; such randomness is
    //  not what an honest committer uses, so it is not asserted here)
    for r in [int(0), int(1), int(-1), -fixed_r(3), two(1024) - 1u32, two(1060) + 1u32] {
        for x in [a.clone(), b.clone()] {
            let p = prove(&G, &x, &r, &a, &b);
            assert_eq!(ver(&p, &G.g, &G.h, &G.n, &a, &b), Ok(true), "r={r} x={x}");
        }
    }
}

/// many repetitions at the tightest interval: the prover's and the verifier's acceptance windows differ
/// slightly in the larger-interval proof (2^T*2^(t+l)*b - 1 versus 2^T*(2^(t+l)*b - 1))
#[test]
fn c05_repeated_honest_proofs_on_unit_interval() {
    let G = grp();
    let a = int(0);
    let b = int(1);
    for i in 0..60u32 {
        let x = int((i % 2) as i64);
        let p = prove(&G, &x, &fixed_r(i), &a, &b);
        assert_eq!(ver(&p, &G.g, &G.h, &G.n, &a, &b), Ok(true), "i={i}");
    }
}

// ================================================================================================
// 2. the honest prover cannot produce an accepted proof for a value outside [a, b]
// ================================================================================================
#[test]
fn c06_honest_prover_cannot_prove_out_of_range_values() {
    let G = grp();
    let cases: Vec<(Integer, Integer)> = vec![
        (int(0), int(1)),
        (int(10), int(20)),
        (int(10), int(13)),
        (int(0), two(256) - 1u32),
        (two(256) + 1u32, two(257)),
        (int(-5), int(5)),
    ];
    for (a, b) in cases {
        let outs = vec![
            (&a - 1u32).complete(),
            (&b + 1u32).complete(),
            &a - two(8),
            &b + two(8),
            &a - two(300),
            &b + two(300),
        ];
        for x in outs {
            let r = fixed_r(4);
            let res = catch_unwind(AssertUnwindSafe(|| prove(&G, &x, &r, &a, &b)));
            if let Ok(p) = res {
                assert!(
                    !accepted(&p, &G.g, &G.h, &G.n, &a, &b),
                    "honest prover produced an accepted proof for x={x} outside [{a},{b}]"
                );
            }
        }
    }
}

// ================================================================================================
// 3. proofs checked against other bounds / bases / modulus
// ================================================================================================
#[test]
fn c07_other_bounds_are_rejected() {
    let G = grp();
    // width 10 and 11 share the bit length (4) and the integer square root (3): aa or bb coincide
    let a = int(100);
    let b = int(110);
    let x = int(105);
    let p = prove(&G, &x, &fixed_r(5), &a, &b);
    assert_eq!(ver(&p, &G.g, &G.h, &G.n, &a, &b), Ok(true));
    let others: Vec<(Integer, Integer)> = vec![
        (int(100), int(111)),
        (int(99), int(110)),
        (int(101), int(110)),
        (int(100), int(109)),
        (int(101), int(111)),
        (int(99), int(109)),
        (int(0), int(110)),
        (int(100), int(1000)),
        (int(0), int(10)),
        (int(-110), int(-100)),
        (int(100), int(100) + two(256)),
        (int(105), int(106)),
        (int(110), int(100)), // reversed: verify panics, which is not an acceptance
        (int(100), int(100)),
    ];
    for (a2, b2) in others {
        assert!(!accepted(&p, &G.g, &G.h, &G.n, &a2, &b2), "accepted for other bounds [{a2},{b2}]");
    }

    // the CL03 message interval against the CL03 `e` interval and vice versa
    let (a, b) = (int(0), two(256) - 1u32);
    let (ae, be) = (two(257) + 1u32, two(258) - 1u32);
    let p = prove(&G, &int(77), &fixed_r(5), &a, &b);
    assert!(!accepted(&p, &G.g, &G.h, &G.n, &ae, &be));
    let p = prove(&G, &(two(257) + 99u32), &fixed_r(5), &ae, &be);
    assert_eq!(ver(&p, &G.g, &G.h, &G.n, &ae, &be), Ok(true));
    assert!(!accepted(&p, &G.g, &G.h, &G.n, &a, &b));
}

#[test]
fn c08_other_bases_are_rejected() {
    let G = grp();
    let (a, b) = (int(0), two(256) - 1u32);
    let x = two(200) + 3u32;
    let p = prove(&G, &x, &fixed_r(6), &a, &b);
    assert_eq!(ver(&p, &G.g, &G.h, &G.n, &a, &b), Ok(true));
    let n = &G.n;
    let g2 = powm(&G.g, &int(2), n);
    let hinv = powm(&G.h, &int(-1), n);
    let bases: Vec<(&str, Integer, Integer)> = vec![
        ("swapped", G.h.clone(), G.g.clone()),
        ("g,g", G.g.clone(), G.g.clone()),
        ("h,h", G.h.clone(), G.h.clone()),
        ("g^2,h", g2, G.h.clone()),
        ("g,h^-1", G.g.clone(), hinv),
        ("g,1", G.g.clone(), int(1)),
        ("1,h", int(1), G.h.clone()),
        ("g,-h", G.g.clone(), (n - &G.h).complete()),
    ];
    for (name, g, h) in bases {
        assert!(!accepted(&p, &g, &h, n, &a, &b), "accepted against other bases: {name}");
    }
}

/// the same residues written with other representatives are other integers handed to `verify`
#[test]
fn c09_non_canonical_representatives_of_the_bases_are_rejected() {
    let G = grp();
    let (a, b) = (int(0), two(256) - 1u32);
    let p = prove(&G, &int(5), &fixed_r(6), &a, &b);
    let n = &G.n;
    let mut bad = vec![];
    for (name, g, h) in [
        ("g+n,h", (&G.g + n).complete(), G.h.clone()),
        ("g,h+n", G.g.clone(), (&G.h + n).complete()),
        ("g-n,h", (&G.g - n).complete(), G.h.clone()),
    ] {
        if accepted(&p, &g, &h, n, &a, &b) {
            bad.push(name);
        }
    }
    assert!(bad.is_empty(), "accepted against bases that are not the ones the proof was made for: {bad:?}");
}

/// -g is a different group element (not even a square); an honest proof whose four `g`-responses happen to
/// be even (1 honest proof in 16) is accepted against (-g, h)
#[test]
fn c10_negated_base_is_rejected() {
    let G = grp();
    let (a, b) = (int(0), two(256) - 1u32);
    let x = int(12345); // odd: E is not g'^x h^r for g' = -g
    let n = &G.n;
    let mg = (n - &G.g).complete();
    let mut accepted_one = None;
    for i in 0..200u32 {
        let p = prove(&G, &x, &fixed_r(i % 5), &a, &b);
        if accepted(&p, &mg, &G.h, n, &a, &b) {
            accepted_one = Some(i);
            break;
        }
    }
    assert!(
        accepted_one.is_none(),
        "honest proof number {accepted_one:?} (made for base g) is accepted against base n - g"
    );
}

#[test]
fn c11_other_modulus_is_rejected() {
    let G = grp();
    let (a, b) = (int(0), two(256) - 1u32);
    let p = prove(&G, &int(99), &fixed_r(6), &a, &b);
    let n = &G.n;
    let pfac = (Integer::from(2).pow(511) + Integer::from(0x1234_5678_9abc_def1u64)).next_prime();
    let mods: Vec<Integer> = vec![
        (n + 2u32).complete(),
        (n * 2u32).complete(),
        (n * 3u32).complete(),
        (n * n).complete(),
        pfac,
        (-n).complete(),
        (n - 2u32).complete(),
    ];
    for m in mods {
        assert!(!accepted(&p, &G.g, &G.h, &m, &a, &b), "accepted against other modulus {m}");
    }
}

// ================================================================================================
// 4. single-field edits
// ================================================================================================
#[test]
fn c12_single_field_edits_are_not_accepted() {
    let G = grp();
    let (a, b) = (int(10), int(1000));
    let p = prove(&G, &int(500), &fixed_r(7), &a, &b);
    assert_eq!(ver(&p, &G.g, &G.h, &G.n, &a, &b), Ok(true));
    let n = G.n.clone();
    let edits: Vec<(&str, Box<dyn Fn(&Integer) -> Integer>)> = vec![
        ("+1", Box::new(|v| (v + 1u32).complete())),
        ("-1", Box::new(|v| (v - 1u32).complete())),
        ("+n", Box::new({
            let n = n.clone();
            move |v| (v + &n).complete()
        })),
        ("-n", Box::new({
            let n = n.clone();
            move |v| (v - &n).complete()
        })),
        ("neg", Box::new(|v| (-v).complete())),
        ("n-v", Box::new({
            let n = n.clone();
            move |v| (&n - v).complete()
        })),
        ("zero", Box::new(|_| int(0))),
        ("one", Box::new(|_| int(1))),
        ("*2", Box::new(|v| (v * 2u32).complete())),
        ("+2^128", Box::new(|v| v + two(128))),
        ("+2^256", Box::new(|v| v + two(256))),
    ];
    let mut bad = vec![];
    let mut panics = vec![];
    for leaf in LEAVES {
        for (name, f) in &edits {
            if *name == "n-v" && (leaf == "/E" || leaf.ends_with("/F")) {
                continue; // the sign flips of E and F have their own tests (c26, c27)
            }
            let q = edited(&p, leaf, |v| f(v));
            if q == p {
                continue;
            }
            match ver(&q, &G.g, &G.h, &G.n, &a, &b) {
                Ok(true) => bad.push(format!("{leaf} {name}")),
                Ok(false) => {}
                Err(()) => panics.push(format!("{leaf} {name}")),
            }
        }
    }
    println!("c12: verify PANICKED (counted as not accepted here) for: {panics:?}");
    assert!(bad.is_empty(), "accepted after a single-field edit: {bad:?}");
}

/// sign flips need no secret: F -> n - F inside a proof of square survives whenever the challenge and the
/// response d of that proof are both even (one honest proof in four)
#[test]
fn c26_sign_flip_of_F_is_not_accepted() {
    let G = grp();
    let (a, b) = (int(10), int(1000));
    let mut hit = None;
    'outer: for i in 0..60u32 {
        let p = prove(&G, &int(500), &fixed_r(i % 5), &a, &b);
        for leaf in ["/proof_of_tolerance/proof_of_square_a/F", "/proof_of_tolerance/proof_of_square_b/F"] {
            let q = edited(&p, leaf, |v| (&G.n - v).complete());
            assert_ne!(q, p);
            if accepted(&q, &G.g, &G.h, &G.n, &a, &b) {
                hit = Some((i, leaf));
                break 'outer;
            }
        }
    }
    assert!(hit.is_none(), "single-field edit F -> n - F accepted: {hit:?}");
}

/// the commitment itself: E -> n - E is another group element (not a square, nobody knows an opening)
#[test]
fn c27_sign_flip_of_the_commitment_is_not_accepted() {
    let G = grp();
    for (a, b, x) in [(int(10), int(1000), int(500)), (int(0), two(256) - 1u32, int(0)), (int(0), int(1), int(1))] {
        let p = prove(&G, &x, &fixed_r(3), &a, &b);
        let q = edited(&p, "/E", |v| (&G.n - v).complete());
        assert_ne!(q.E, p.E);
        assert!(
            !accepted(&q, &G.g, &G.h, &G.n, &a, &b),
            "the honest proof for E is accepted, with the single field E replaced, for the commitment n - E"
        );
    }
}

/// strict reading of "rejected": verify answers `false`, it does not abort the verifier
#[test]
fn c13_edits_are_rejected_with_false_not_with_a_panic() {
    let G = grp();
    let (a, b) = (int(10), int(1000));
    let p = prove(&G, &int(500), &fixed_r(7), &a, &b);
    let mut panics = vec![];
    for leaf in LEAVES {
        for (name, val) in [("zero", int(0)), ("p-multiple", {
            // a non-unit: a multiple of the prime factor p (only somebody who knows p can write it)
            (Integer::from(2).pow(511) + Integer::from(0x1234_5678_9abc_def1u64)).next_prime()
        })] {
            let q = edited(&p, leaf, |_| val.clone());
            if ver(&q, &G.g, &G.h, &G.n, &a, &b).is_err() {
                panics.push(format!("{leaf}={name}"));
            }
        }
    }
    // E = 0 together with the matching E_prime = 0
    let mut v = to_json(&p);
    jset(&mut v, "/E", &int(0));
    jset(&mut v, "/E_prime", &int(0));
    if ver(&from_json(&v), &G.g, &G.h, &G.n, &a, &b).is_err() {
        panics.push("E=E_prime=0".into());
    }
    assert!(panics.is_empty(), "verify panicked instead of returning false: {panics:?}");
}

/// two-field edits that keep the internal consistency checks satisfied
#[test]
fn c14_paired_edits_are_not_accepted() {
    let G = grp();
    let (a, b) = (int(10), int(1000));
    let p = prove(&G, &int(500), &fixed_r(7), &a, &b);
    let n = &G.n;
    for side in ["a", "b"] {
        // E_x_1 and the copy inside the proof of square both moved to the representative + n
        let mut v = to_json(&p);
        let e1 = jget(&v, &format!("/proof_of_tolerance/E_{side}_1"));
        jset(&mut v, &format!("/proof_of_tolerance/E_{side}_1"), &(&e1 + n).complete());
        jset(&mut v, &format!("/proof_of_tolerance/proof_of_square_{side}/E"), &(&e1 + n).complete());
        assert!(!accepted(&from_json(&v), &G.g, &G.h, n, &a, &b), "E_{side}_1 + n accepted");

        // E_x_1 := 1 (a square: 1 = g^0 h^0), E_x_2 := E_x, proof of square for 1 with all-zero responses
        let mut v = to_json(&p);
        let e1 = jget(&v, &format!("/proof_of_tolerance/E_{side}_1"));
        let e2 = jget(&v, &format!("/proof_of_tolerance/E_{side}_2"));
        jset(&mut v, &format!("/proof_of_tolerance/E_{side}_1"), &int(1));
        jset(&mut v, &format!("/proof_of_tolerance/proof_of_square_{side}/E"), &int(1));
        jset(&mut v, &format!("/proof_of_tolerance/E_{side}_2"), &((e1 * e2) % n));
        assert!(!accepted(&from_json(&v), &G.g, &G.h, n, &a, &b), "E_{side}_1 = 1 accepted");
    }
    // the a-side and the b-side exchanged
    let mut v = to_json(&p);
    for f in ["E_{}_1", "E_{}_2", "proof_of_square_{}", "proof_large_i_{}"] {
        let pa = format!("/proof_of_tolerance/{}", f.replace("{}", "a"));
        let pb = format!("/proof_of_tolerance/{}", f.replace("{}", "b"));
        let va = v.pointer(&pa).unwrap().clone();
        let vb = v.pointer(&pb).unwrap().clone();
        *v.pointer_mut(&pa).unwrap() = vb;
        *v.pointer_mut(&pb).unwrap() = va;
    }
    assert!(!accepted(&from_json(&v), &G.g, &G.h, n, &a, &b), "sides exchanged accepted");
}

/// a response moved by a multiple of the group order is an altered field (only whoever knows the
/// factorisation of the modulus, e.g. the issuer that generated it, can write such an edit)
#[test]
fn c15_responses_shifted_by_a_multiple_of_the_group_order_are_rejected() {
    let G = grp();
    let (a, b) = (int(10), int(1000));
    let p = prove(&G, &int(500), &fixed_r(7), &a, &b);
    let mut bad = vec![];
    for leaf in LEAVES {
        let is_response = leaf.ends_with("/d") || leaf.ends_with("/d_1") || leaf.ends_with("/d_2") || leaf.ends_with("/D_1") || leaf.ends_with("/D_2");
        if !is_response {
            continue;
        }
        for (name, k) in [("+lambda", 1i32), ("-lambda", -1i32)] {
            let q = edited(&p, leaf, |v| v + (&G.lambda * Integer::from(k)));
            assert_ne!(q, p);
            if accepted(&q, &G.g, &G.h, &G.n, &a, &b) {
                bad.push(format!("{leaf} {name}"));
            }
        }
    }
    assert!(bad.is_empty(), "accepted although a field was altered: {bad:?}");
}

// ================================================================================================
// 5. transplants
// ================================================================================================
/// naive transplants: the honest sub-proofs are copied unchanged onto another commitment
#[test]
fn c16_naive_transplants_are_rejected() {
    let G = grp();
    let (a, b) = (int(0), two(256) - 1u32);
    let x = b.clone();
    let r = fixed_r(8);
    let p = prove(&G, &x, &r, &a, &b);
    let n = &G.n;
    let (T, aa, bb) = derived(&a, &b);
    let targets: Vec<(&str, Integer)> = vec![
        ("a-1", commit(&G, &int(-1), &r).value),
        ("b+1", commit(&G, &(&b + 1u32).complete(), &r).value),
        ("a-2^64", commit(&G, &(-two(64)), &r).value),
        ("random", powm(&Integer::from(0xabcdefu32), &int(2), n)),
        ("one", int(1)),
    ];
    for (name, E2) in targets {
        // (i) only E / E_prime replaced
        let mut v = to_json(&p);
        let E2p = powm(&E2, &two(T), n);
        jset(&mut v, "/E", &E2);
        jset(&mut v, "/E_prime", &E2p);
        assert!(!accepted(&from_json(&v), &G.g, &G.h, n, &a, &b), "(i) {name}");
        // (ii) E_a_2 / E_b_2 recomputed so that the decomposition equations hold
        let E_a = divm(&E2p, &powm(&G.g, &aa, n), n);
        let E_b = divm(&powm(&G.g, &bb, n), &E2p, n);
        let e_a_1 = jget(&v, "/proof_of_tolerance/E_a_1");
        let e_b_1 = jget(&v, "/proof_of_tolerance/E_b_1");
        jset(&mut v, "/proof_of_tolerance/E_a_2", &divm(&E_a, &e_a_1, n));
        jset(&mut v, "/proof_of_tolerance/E_b_2", &divm(&E_b, &e_b_1, n));
        assert!(!accepted(&from_json(&v), &G.g, &G.h, n, &a, &b), "(ii) {name}");
        // (iii) the pinned-tree shape: E_a_1 / E_b_1 recomputed instead, proofs of square keep their own E
        let mut v = to_json(&p);
        jset(&mut v, "/E", &E2);
        jset(&mut v, "/E_prime", &E2p);
        let e_a_2 = jget(&v, "/proof_of_tolerance/E_a_2");
        let e_b_2 = jget(&v, "/proof_of_tolerance/E_b_2");
        jset(&mut v, "/proof_of_tolerance/E_a_1", &divm(&E_a, &e_a_2, n));
        jset(&mut v, "/proof_of_tolerance/E_b_1", &divm(&E_b, &e_b_2, n));
        assert!(!accepted(&from_json(&v), &G.g, &G.h, n, &a, &b), "(iii) {name}");
    }
}

/// sub-proofs of an honest proof for one commitment put into an honest proof for another commitment
#[test]
fn c17_sub_proofs_of_another_honest_proof_are_rejected() {
    let G = grp();
    let (a, b) = (int(0), two(256) - 1u32);
    let p1 = prove(&G, &int(1000), &fixed_r(1), &a, &b);
    let p2 = prove(&G, &int(2000), &fixed_r(2), &a, &b);
    let v1 = to_json(&p1);
    for part in [
        "/proof_of_tolerance/proof_of_square_a",
        "/proof_of_tolerance/proof_of_square_b",
        "/proof_of_tolerance/proof_large_i_a",
        "/proof_of_tolerance/proof_large_i_b",
        "/proof_of_tolerance",
    ] {
        let mut v2 = to_json(&p2);
        *v2.pointer_mut(part).unwrap() = v1.pointer(part).unwrap().clone();
        assert!(!accepted(&from_json(&v2), &G.g, &G.h, &G.n, &a, &b), "{part} of another proof accepted");
    }
}

/// THE transplant that matters: everything is taken from the honest proof, the target commitment is
/// E * g^delta (a commitment to x + delta whose opening the forger does not need), the remainder commitments
/// are recomputed and the larger-interval responses are shifted by public quantities.
#[test]
fn c18_transplant_onto_commitment_to_b_plus_1_is_rejected() {
    let G = grp();
    let (a, b) = (int(10), int(20));
    let x = b.clone();
    let p = prove(&G, &x, &fixed_r(9), &a, &b);
    assert_eq!(ver(&p, &G.g, &G.h, &G.n, &a, &b), Ok(true));
    let forged = malleate(&G, &p, &a, &b, &a, &b, &int(1), &int(0));
    // the target really is the commitment to b + 1 = 21 (same randomness)
    assert_eq!(forged.E, commit(&G, &int(21), &fixed_r(9)).value);
    assert!(
        !accepted(&forged, &G.g, &G.h, &G.n, &a, &b),
        "a proof for [10,20] is accepted for the commitment to 21, built from an honest proof for 20 and public data only"
    );
}

#[test]
fn c19_transplant_onto_commitment_to_a_minus_1_is_rejected() {
    let G = grp();
    let (a, b) = (int(0), two(256) - 1u32);
    let x = a.clone();
    let p = prove(&G, &x, &fixed_r(10), &a, &b);
    let forged = malleate(&G, &p, &a, &b, &a, &b, &int(-1), &int(0));
    assert_eq!(forged.E, commit(&G, &int(-1), &fixed_r(10)).value);
    assert!(
        !accepted(&forged, &G.g, &G.h, &G.n, &a, &b),
        "accepted for the commitment to -1 in [0, 2^256-1]"
    );
}

#[test]
fn c20_transplant_onto_commitment_to_a_minus_2_pow_k_is_rejected() {
    let G = grp();
    let (a, b) = (int(0), two(256) - 1u32);
    let x = int(7);
    let mut bad = vec![];
    for k in [8u32, 64, 200, 256] {
        let p = prove(&G, &x, &fixed_r(11), &a, &b);
        let delta = -(two(k)) - 7u32;
        let forged = malleate(&G, &p, &a, &b, &a, &b, &delta, &int(0));
        assert_eq!(forged.E, commit(&G, &(-two(k)), &fixed_r(11)).value);
        if accepted(&forged, &G.g, &G.h, &G.n, &a, &b) {
            bad.push(format!("a - 2^{k}"));
        }
    }
    assert!(bad.is_empty(), "accepted for commitments to {bad:?} in [0, 2^256-1]");
}

/// the verifier accepts a proof only for the commitment it was made for: E * h^rho is another commitment
#[test]
fn c21_transplant_onto_rerandomised_commitment_is_rejected() {
    let G = grp();
    let (a, b) = (int(0), two(256) - 1u32);
    let x = two(100) + 1u32;
    let p = prove(&G, &x, &fixed_r(12), &a, &b);
    let rho = Integer::from(0x1234_5678_9abc_def0u64) * two(900) + 77u32;
    let forged = malleate(&G, &p, &a, &b, &a, &b, &int(0), &rho);
    assert_ne!(forged.E, p.E);
    assert!(
        !accepted(&forged, &G.g, &G.h, &G.n, &a, &b),
        "accepted for E * h^rho, a commitment the proof was not made for"
    );
}

/// target = "random looking" element E * g^delta * h^rho with large rho: the forger knows no opening of it
#[test]
fn c22_transplant_onto_shifted_and_rerandomised_commitment_is_rejected() {
    let G = grp();
    let (a, b) = (int(1000), int(2000));
    let x = int(1000);
    let p = prove(&G, &x, &fixed_r(13), &a, &b);
    let rho = -(Integer::from(3).pow(640));
    let forged = malleate(&G, &p, &a, &b, &a, &b, &int(-500), &rho);
    assert_eq!(forged.E, commit(&G, &int(500), &(fixed_r(13) + &rho)).value);
    assert!(
        !accepted(&forged, &G.g, &G.h, &G.n, &a, &b),
        "accepted for a commitment to 500 in [1000, 2000]"
    );
}

/// same commitment, other bounds: an honest proof that x = a lies in [a, b] re-worked (public data only)
/// into a proof that the SAME commitment lies in [a + 1, b + 1]
#[test]
fn c23_proof_reworked_for_other_bounds_on_the_same_commitment_is_rejected() {
    let G = grp();
    let (a, b) = (int(100), int(200));
    let x = int(100);
    let p = prove(&G, &x, &fixed_r(14), &a, &b);
    let mut bad = vec![];
    for (a2, b2) in [(int(101), int(201)), (int(150), int(250)), (int(0), int(99)), (int(1000), int(1100))] {
        let forged = malleate(&G, &p, &a, &b, &a2, &b2, &int(0), &int(0));
        assert_eq!(forged.E, p.E);
        if accepted(&forged, &G.g, &G.h, &G.n, &a2, &b2) {
            bad.push(format!("[{a2},{b2}]"));
        }
    }
    assert!(bad.is_empty(), "the commitment to 100 is accepted as lying in {bad:?}");
}

/// the same transplant in the real CL03 setting: modulus and bases from CL03CommitmentPublicKey::generate
/// (factorisation unknown to everybody in the test), commitment from commit_with_commitment_pk
#[test]
fn c24_transplant_in_the_cl1024_setting_is_rejected() {
    use zkryptium::cl03::ciphersuites::CL1024Sha256;
    use zkryptium::cl03::keys::CL03CommitmentPublicKey;
    use zkryptium::schemes::algorithms::CL03;
    use zkryptium::schemes::generics::Commitment;
    use zkryptium::utils::message::cl03_message::CL03Message;

    let cpk = CL03CommitmentPublicKey::generate::<CL1024Sha256>(None, Some(1));
    let (a, b) = (int(0), two(256) - 1u32);
    let m = CL03Message::new(b.clone()); // the largest admissible message
    let c = Commitment::<CL03<CL1024Sha256>>::commit_with_commitment_pk(&[m.clone()], &cpk, None)
        .cl03Commitment()
        .to_owned();
    let p = RP::prove::<Sha256>(&m.value, &c, &cpk.g_bases[0], &cpk.h, &cpk.N, &a, &b);
    assert!(p.verify::<Sha256>(&cpk.g_bases[0], &cpk.h, &cpk.N, &a, &b), "honest proof verifies");

    let G = Grp {
        n: cpk.N.clone(),
        g: cpk.g_bases[0].clone(),
        h: cpk.h.clone(),
        lambda: int(0),
    };
    // commitment to 2^256 + 2^200 - 1 > max, and re-randomised
    let forged = malleate(&G, &p, &a, &b, &a, &b, &two(200), &int(123456789));
    assert_ne!(forged.E, p.E);
    assert!(
        !accepted(&forged, &G.g, &G.h, &G.n, &a, &b),
        "CL1024: accepted for a commitment to a message above 2^256 - 1"
    );
}

// ================================================================================================
// 6. serde representation
// ================================================================================================
#[test]
fn c25_json_roundtrip_and_shape() {
    let G = grp();
    let (a, b) = (int(0), two(256) - 1u32);
    let p = prove(&G, &int(42), &fixed_r(15), &a, &b);
    let v = to_json(&p);
    let q = from_json(&v);
    assert_eq!(p, q);
    assert_eq!(ver(&q, &G.g, &G.h, &G.n, &a, &b), Ok(true));
    let s = serde_json::to_string(&p).unwrap();
    let q: RP = serde_json::from_str(&s).unwrap();
    assert_eq!(p, q);
    // every leaf is present exactly where LEAVES says
    for l in LEAVES {
        let _ = jget(&v, l);
    }
    // a missing sub-proof is a decoding error, not a proof
    let mut w = v.clone();
    w.pointer_mut("/proof_of_tolerance").unwrap().as_object_mut().unwrap().remove("proof_large_i_b");
    assert!(serde_json::from_value::<RP>(w).is_err());
    let mut w = v.clone();
    *w.pointer_mut("/proof_of_tolerance/proof_large_i_b").unwrap() = Value::Null;
    assert!(serde_json::from_value::<RP>(w).is_err());
}
