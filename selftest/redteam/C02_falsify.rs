// Red-team candidates for PROPERTY C02 (BBS signature binding: nothing but what was signed verifies).
//
// Every test ASSERTS WHAT THE PROPERTY REQUIRES: a test that fails on the unmodified tree is a
// demonstrated violation; a test that passes documents a family for which the property held.
//
// Reading used for panics: the statement demands `verify = Err` (a decoding error counts as failure).
// A panic inside the library makes the corresponding test fail as well; it is then reported
// separately as "panic instead of Err", not as an acceptance of a forged artefact.
#![allow(non_snake_case)]

use bls12_381_plus::{G1Projective, G2Projective, Scalar};
use elliptic_curve::hash2curve::ExpandMsg;
use zkryptium::{
    bbsplus::{
        ciphersuites::{BbsCiphersuite, Bls12381Sha256, Bls12381Shake256},
        commitment::BlindFactor,
        keys::{BBSplusPublicKey, BBSplusSecretKey},
        signature::BBSplusSignature,
    },
    keys::pair::KeyPair,
    schemes::{
        algorithms::BBSplus,
        generics::{BlindSignature, Signature},
    },
};

type Sig<CS> = Signature<BBSplus<CS>>;
type BSig<CS> = BlindSignature<BBSplus<CS>>;

const IKM: &[u8] = b"this-IS-just-an-Test-IKM-to-generate-$e(r@t#-key";
const IKM2: &[u8] = b"another-IKM-another-IKM-another-IKM-another-IKM!";
const KEY_INFO: &[u8] = b"this-IS-some-key-metadata-to-be-used-in-test-key-gen";
const HEADER: &[u8] = &[
    0x11, 0x22, 0x33, 0x44, 0x55, 0x66, 0x77, 0x88, 0x99, 0x00, 0xaa, 0xbb, 0xcc, 0xdd, 0xee, 0xff,
];

fn keypair<CS: BbsCiphersuite + std::fmt::Debug>(ikm: &[u8]) -> (BBSplusSecretKey, BBSplusPublicKey)
where
    CS::Expander: for<'a> ExpandMsg<'a>,
{
    KeyPair::<BBSplus<CS>>::generate(ikm, Some(KEY_INFO), None)
        .unwrap()
        .into_parts()
}

/// Deterministic, pairwise distinct messages of varied lengths (never empty).
fn msgs(n: usize) -> Vec<Vec<u8>> {
    (0..n)
        .map(|i| {
            let mut m = format!("message-{i:04}-").into_bytes();
            m.extend((0..(i * 7) % 23).map(|j| (i * 31 + j * 17) as u8));
            m
        })
        .collect()
}

fn sign<CS: BbsCiphersuite + std::fmt::Debug>(
    sk: &BBSplusSecretKey,
    pk: &BBSplusPublicKey,
    m: &[Vec<u8>],
    h: Option<&[u8]>,
) -> Sig<CS>
where
    CS::Expander: for<'a> ExpandMsg<'a>,
{
    let s = Sig::<CS>::sign(Some(m), sk, pk, h).expect("honest sign failed");
    s.verify(pk, Some(m), h)
        .expect("honest signature does not verify");
    s
}

fn must_fail<CS: BbsCiphersuite + std::fmt::Debug>(
    s: &Sig<CS>,
    pk: &BBSplusPublicKey,
    m: &[Vec<u8>],
    h: Option<&[u8]>,
    what: &str,
) where
    CS::Expander: for<'a> ExpandMsg<'a>,
{
    assert!(
        s.verify(pk, Some(m), h).is_err(),
        "ACCEPTED although not what was signed: {what}"
    );
}

// ---------------------------------------------------------------------------------------------
// 1. every single byte / bit change of every message, L = 1..=5
// ---------------------------------------------------------------------------------------------
fn f01_message_byte_change<CS: BbsCiphersuite + std::fmt::Debug>()
where
    CS::Expander: for<'a> ExpandMsg<'a>,
{
    let (sk, pk) = keypair::<CS>(IKM);
    for (L, h) in [(1usize, None), (2, Some(HEADER)), (3, None), (5, Some(HEADER))] {
        let m = msgs(L);
        let s = sign::<CS>(&sk, &pk, &m, h);
        for i in 0..L {
            // first, middle and last byte: every bit; other bytes: +1
            let len = m[i].len();
            for pos in 0..len {
                let masks: Vec<u8> = if pos == 0 || pos == len - 1 || pos == len / 2 {
                    (0..8).map(|b| 1u8 << b).collect()
                } else if L <= 2 {
                    vec![0x01, 0x80]
                } else {
                    continue;
                };
                for mask in masks {
                    let mut m2 = m.clone();
                    m2[i][pos] ^= mask;
                    must_fail::<CS>(&s, &pk, &m2, h, &format!("L={L} msg {i} byte {pos} ^{mask:#x}"));
                }
            }
            // append / prepend a zero byte to the message, drop its last byte, make it empty
            let mut m2 = m.clone();
            m2[i].push(0);
            must_fail::<CS>(&s, &pk, &m2, h, &format!("L={L} msg {i} + trailing 0"));
            let mut m2 = m.clone();
            m2[i].insert(0, 0);
            must_fail::<CS>(&s, &pk, &m2, h, &format!("L={L} msg {i} + leading 0"));
            let mut m2 = m.clone();
            m2[i].pop();
            must_fail::<CS>(&s, &pk, &m2, h, &format!("L={L} msg {i} - last byte"));
            let mut m2 = m.clone();
            m2[i].clear();
            must_fail::<CS>(&s, &pk, &m2, h, &format!("L={L} msg {i} emptied"));
        }
    }
}
#[test]
fn f01_message_byte_change_sha256() {
    f01_message_byte_change::<Bls12381Sha256>()
}
#[test]
fn f01_message_byte_change_shake256() {
    f01_message_byte_change::<Bls12381Shake256>()
}

// ---------------------------------------------------------------------------------------------
// 2. insert / delete at every position, L = 0..=5 (including the empty message and duplicates)
// ---------------------------------------------------------------------------------------------
fn f02_insert_delete<CS: BbsCiphersuite + std::fmt::Debug>()
where
    CS::Expander: for<'a> ExpandMsg<'a>,
{
    let (sk, pk) = keypair::<CS>(IKM);
    for L in 0..=5usize {
        for h in [None, Some(HEADER)] {
            let m = msgs(L);
            let s = sign::<CS>(&sk, &pk, &m, h);
            for pos in 0..=L {
                let mut cands: Vec<Vec<u8>> = vec![vec![], vec![0], b"extra".to_vec()];
                if pos < L {
                    cands.push(m[pos].clone());
                }
                if pos > 0 {
                    cands.push(m[pos - 1].clone());
                }
                for c in cands {
                    let mut m2 = m.clone();
                    m2.insert(pos, c.clone());
                    must_fail::<CS>(&s, &pk, &m2, h, &format!("L={L} insert {c:?} at {pos}"));
                }
            }
            for pos in 0..L {
                let mut m2 = m.clone();
                m2.remove(pos);
                must_fail::<CS>(&s, &pk, &m2, h, &format!("L={L} delete {pos}"));
            }
        }
    }
}
#[test]
fn f02_insert_delete_sha256() {
    f02_insert_delete::<Bls12381Sha256>()
}
#[test]
fn f02_insert_delete_shake256() {
    f02_insert_delete::<Bls12381Shake256>()
}

// ---------------------------------------------------------------------------------------------
// 3. swaps of distinct messages, rotations, reversal; duplicates in the list
// ---------------------------------------------------------------------------------------------
fn f03_swap_move<CS: BbsCiphersuite + std::fmt::Debug>()
where
    CS::Expander: for<'a> ExpandMsg<'a>,
{
    let (sk, pk) = keypair::<CS>(IKM);
    for L in 2..=6usize {
        let mut m = msgs(L);
        if L >= 4 {
            // a duplicated message and an empty message inside the list
            m[2] = m[0].clone();
            m[3] = vec![];
        }
        let h = if L % 2 == 0 { Some(HEADER) } else { None };
        let s = sign::<CS>(&sk, &pk, &m, h);
        for i in 0..L {
            for j in (i + 1)..L {
                let mut m2 = m.clone();
                m2.swap(i, j);
                if m2 == m {
                    // swap of equal messages: same list, must still verify
                    s.verify(&pk, Some(&m2), h).unwrap();
                } else {
                    must_fail::<CS>(&s, &pk, &m2, h, &format!("L={L} swap {i},{j}"));
                }
            }
        }
        for r in 1..L {
            let mut m2 = m.clone();
            m2.rotate_left(r);
            if m2 != m {
                must_fail::<CS>(&s, &pk, &m2, h, &format!("L={L} rotate {r}"));
            }
        }
        let mut m2 = m.clone();
        m2.reverse();
        if m2 != m {
            must_fail::<CS>(&s, &pk, &m2, h, &format!("L={L} reverse"));
        }
    }
}
#[test]
fn f03_swap_move_sha256() {
    f03_swap_move::<Bls12381Sha256>()
}
#[test]
fn f03_swap_move_shake256() {
    f03_swap_move::<Bls12381Shake256>()
}

// ---------------------------------------------------------------------------------------------
// 4. every proper prefix and several extensions, L = 0..=6; None vs Some(empty list)
// ---------------------------------------------------------------------------------------------
fn f04_truncate_extend<CS: BbsCiphersuite + std::fmt::Debug>()
where
    CS::Expander: for<'a> ExpandMsg<'a>,
{
    let (sk, pk) = keypair::<CS>(IKM);
    for L in 0..=6usize {
        let m = msgs(L);
        let h = if L % 2 == 1 { Some(HEADER) } else { None };
        let s = sign::<CS>(&sk, &pk, &m, h);
        for k in 0..L {
            must_fail::<CS>(&s, &pk, &m[..k], h, &format!("L={L} prefix {k}"));
            must_fail::<CS>(&s, &pk, &m[L - k..], h, &format!("L={L} suffix {k}"));
        }
        if L > 0 {
            assert!(s.verify(&pk, None, h).is_err(), "L={L} messages=None accepted");
        }
        let longer = msgs(L + 3);
        for k in 1..=3 {
            must_fail::<CS>(&s, &pk, &longer[..L + k], h, &format!("L={L} extend by {k}"));
        }
        for tail in [vec![], vec![0u8], m.last().cloned().unwrap_or_default()] {
            let mut m2 = m.clone();
            m2.push(tail.clone());
            must_fail::<CS>(&s, &pk, &m2, h, &format!("L={L} extend with {tail:?}"));
            m2.push(tail.clone());
            must_fail::<CS>(&s, &pk, &m2, h, &format!("L={L} extend twice with {tail:?}"));
        }
    }
    // None and Some(&[]) denote the same (empty) list: both directions verify
    let s = Sig::<CS>::sign(None, &sk, &pk, None).unwrap();
    s.verify(&pk, Some(&[]), Some(&[])).unwrap();
    let s = Sig::<CS>::sign(Some(&[]), &sk, &pk, Some(&[])).unwrap();
    s.verify(&pk, None, None).unwrap();
}
#[test]
fn f04_truncate_extend_sha256() {
    f04_truncate_extend::<Bls12381Sha256>()
}
#[test]
fn f04_truncate_extend_shake256() {
    f04_truncate_extend::<Bls12381Shake256>()
}

// ---------------------------------------------------------------------------------------------
// 5. header: every bit, truncation, extension, None/empty, header <-> message boundary confusion
// ---------------------------------------------------------------------------------------------
fn f05_header<CS: BbsCiphersuite + std::fmt::Debug>()
where
    CS::Expander: for<'a> ExpandMsg<'a>,
{
    let (sk, pk) = keypair::<CS>(IKM);
    for L in [0usize, 1, 3] {
        let m = msgs(L);
        let s = sign::<CS>(&sk, &pk, &m, Some(HEADER));
        for bit in 0..HEADER.len() * 8 {
            let mut h2 = HEADER.to_vec();
            h2[bit / 8] ^= 1 << (bit % 8);
            must_fail::<CS>(&s, &pk, &m, Some(&h2), &format!("L={L} header bit {bit}"));
        }
        for k in 0..HEADER.len() {
            must_fail::<CS>(&s, &pk, &m, Some(&HEADER[..k]), &format!("L={L} header prefix {k}"));
            must_fail::<CS>(&s, &pk, &m, Some(&HEADER[k + 1..]), &format!("L={L} header suffix"));
        }
        must_fail::<CS>(&s, &pk, &m, None, &format!("L={L} header None"));
        for ext in [&[0u8][..], &[0, 0, 0, 0, 0, 0, 0, 0], HEADER] {
            let h2 = [HEADER, ext].concat();
            must_fail::<CS>(&s, &pk, &m, Some(&h2), &format!("L={L} header extended"));
            let h2 = [ext, HEADER].concat();
            must_fail::<CS>(&s, &pk, &m, Some(&h2), &format!("L={L} header prefixed"));
        }

        // signed with the empty header (None == Some(empty)), verified with non-empty ones
        let s0 = sign::<CS>(&sk, &pk, &m, None);
        s0.verify(&pk, Some(&m), Some(&[])).unwrap();
        let s0b = sign::<CS>(&sk, &pk, &m, Some(&[]));
        s0b.verify(&pk, Some(&m), None).unwrap();
        assert_eq!(s0.to_bytes(), s0b.to_bytes());
        for h2 in [&[0u8][..], &[0, 0, 0, 0, 0, 0, 0, 0], &[0u8; 32], HEADER] {
            must_fail::<CS>(&s0, &pk, &m, Some(h2), &format!("L={L} empty header -> {h2:?}"));
        }
    }

    // boundary confusion between header and messages
    let a = b"alpha".to_vec();
    let b = b"beta".to_vec();
    let s = sign::<CS>(&sk, &pk, &[a.clone(), b.clone()], Some(HEADER));
    let ha = [HEADER, &a[..]].concat();
    must_fail::<CS>(&s, &pk, &[b.clone()], Some(&ha), "header||m0, [m1]");
    must_fail::<CS>(&s, &pk, &[HEADER.to_vec(), a.clone(), b.clone()], None, "[h,m0,m1], no header");
    must_fail::<CS>(&s, &pk, &[[&a[..], &b[..]].concat()], Some(HEADER), "[m0||m1]");
    must_fail::<CS>(&s, &pk, &[a.clone(), b.clone()], Some(&[HEADER, &a[..], &b[..]].concat()), "h||m0||m1");
    let ab = [&a[..], &b[..]].concat();
    must_fail::<CS>(&s, &pk, &[ab[..3].to_vec(), ab[3..].to_vec()], Some(HEADER), "re-split m0||m1");
    // header and single message exchanged
    let s = sign::<CS>(&sk, &pk, &[a.clone()], Some(&b));
    must_fail::<CS>(&s, &pk, &[b.clone()], Some(&a), "header <-> message exchanged");
    let s = sign::<CS>(&sk, &pk, &[], Some(&a));
    must_fail::<CS>(&s, &pk, &[a.clone()], None, "header a,[] vs no header,[a]");
    let s = sign::<CS>(&sk, &pk, &[a.clone()], None);
    must_fail::<CS>(&s, &pk, &[], Some(&a), "no header,[a] vs header a,[]");
}
#[test]
fn f05_header_sha256() {
    f05_header::<Bls12381Sha256>()
}
#[test]
fn f05_header_shake256() {
    f05_header::<Bls12381Shake256>()
}

// ---------------------------------------------------------------------------------------------
// 6. other public keys (related keys, identity, other-suite key, decoders)
// ---------------------------------------------------------------------------------------------
fn f06_other_pk<CS: BbsCiphersuite + std::fmt::Debug, Other: BbsCiphersuite + std::fmt::Debug>()
where
    CS::Expander: for<'a> ExpandMsg<'a>,
    Other::Expander: for<'a> ExpandMsg<'a>,
{
    let (sk, pk) = keypair::<CS>(IKM);
    let (_, pk2) = keypair::<CS>(IKM2);
    let (_, pk_other_suite) = keypair::<Other>(IKM);
    assert_ne!(pk, pk_other_suite);
    let g2 = G2Projective::GENERATOR;
    let others: Vec<(&str, BBSplusPublicKey)> = vec![
        ("unrelated key", pk2.clone()),
        ("same IKM, other suite keygen", pk_other_suite),
        ("-pk", BBSplusPublicKey(-pk.0)),
        ("pk+G2", BBSplusPublicKey(pk.0 + g2)),
        ("pk-G2", BBSplusPublicKey(pk.0 - g2)),
        ("2pk", BBSplusPublicKey(pk.0 + pk.0)),
        ("identity", BBSplusPublicKey(G2Projective::IDENTITY)),
        ("generator", BBSplusPublicKey(g2)),
        ("pk+pk2", BBSplusPublicKey(pk.0 + pk2.0)),
    ];
    for L in [0usize, 1, 4] {
        for h in [None, Some(HEADER)] {
            let m = msgs(L);
            let s = sign::<CS>(&sk, &pk, &m, h);
            for (name, p) in &others {
                assert_ne!(p, &pk);
                must_fail::<CS>(&s, p, &m, h, &format!("L={L} pk' = {name}"));
                // pk' = pk - e*G2 .. pk + e*G2 relations with the signature's own e
            }
            let e = s.e();
            for (name, p) in [
                ("pk+e*G2", BBSplusPublicKey(pk.0 + g2 * e)),
                ("pk-e*G2", BBSplusPublicKey(pk.0 - g2 * e)),
                ("-e*G2", BBSplusPublicKey(-(g2 * e))),
            ] {
                must_fail::<CS>(&s, &p, &m, h, &format!("L={L} pk' = {name}"));
            }
            // the signature made with pk' passed to sign (sk unchanged) must not verify under pk'
            // (sign takes pk as an independent argument)
            let s_wrongpk = Sig::<CS>::sign(Some(&m), &sk, &pk2, h).unwrap();
            assert!(s_wrongpk.verify(&pk2, Some(&m), h).is_err(), "sk/pk2 mismatch accepted under pk2");
            assert!(s_wrongpk.verify(&pk, Some(&m), h).is_err(), "sk/pk2 mismatch accepted under pk");
        }
    }
    // all decoders of the same key give the same key; one flipped bit gives another key or an error
    let m = msgs(2);
    let s = sign::<CS>(&sk, &pk, &m, Some(HEADER));
    let enc = pk.to_bytes();
    assert_eq!(BBSplusPublicKey::from_bytes(&enc).unwrap(), pk);
    let (x, y) = pk.to_coordinates();
    assert_eq!(BBSplusPublicKey::from_coordinates(&x, &y).unwrap(), pk);
    let js = serde_json::to_string(&pk).unwrap();
    assert_eq!(serde_json::from_str::<BBSplusPublicKey>(&js).unwrap(), pk);
    let mut accepted_decodings = 0;
    for bit in 0..enc.len() * 8 {
        let mut e2 = enc;
        e2[bit / 8] ^= 1 << (bit % 8);
        if let Ok(p) = BBSplusPublicKey::from_bytes(&e2) {
            accepted_decodings += 1;
            assert_ne!(p, pk);
            must_fail::<CS>(&s, &p, &m, Some(HEADER), &format!("pk bit {bit}"));
        }
    }
    // only the sign bit flip (-pk) is expected to decode
    assert!(accepted_decodings >= 1);
}
#[test]
fn f06_other_pk_sha256() {
    f06_other_pk::<Bls12381Sha256, Bls12381Shake256>()
}
#[test]
fn f06_other_pk_shake256() {
    f06_other_pk::<Bls12381Shake256, Bls12381Sha256>()
}

// ---------------------------------------------------------------------------------------------
// 7. all 640 single-bit flips of the 80 signature bytes, L = 0, 1, 3
// ---------------------------------------------------------------------------------------------
fn f07_bitflips<CS: BbsCiphersuite + std::fmt::Debug>()
where
    CS::Expander: for<'a> ExpandMsg<'a>,
{
    let (sk, pk) = keypair::<CS>(IKM);
    for (L, h) in [(0usize, None), (1, Some(HEADER)), (3, None)] {
        let m = msgs(L);
        let s = sign::<CS>(&sk, &pk, &m, h);
        let bytes = s.to_bytes();
        assert_eq!(bytes.len(), 80);
        assert_eq!(Sig::<CS>::from_bytes(&bytes).unwrap(), s);
        let mut decoded = 0;
        for bit in 0..640 {
            let mut b = bytes;
            b[bit / 8] ^= 1 << (bit % 8);
            // both decoders agree
            let inner = BBSplusSignature::from_bytes(&b);
            match Sig::<CS>::from_bytes(&b) {
                Err(_) => assert!(inner.is_err()),
                Ok(s2) => {
                    decoded += 1;
                    assert!(inner.is_ok());
                    assert_ne!(s2, s);
                    assert_eq!(s2.to_bytes(), b, "non-canonical encoding accepted at bit {bit}");
                    must_fail::<CS>(&s2, &pk, &m, h, &format!("L={L} signature bit {bit}"));
                }
            }
        }
        // the y-sign flip of A and most flips of e decode; all of them were refused above
        assert!(decoded >= 200, "suspiciously few decodable flips: {decoded}");
    }
}
#[test]
fn f07_bitflips_sha256() {
    f07_bitflips::<Bls12381Sha256>()
}
#[test]
fn f07_bitflips_shake256() {
    f07_bitflips::<Bls12381Shake256>()
}

// ---------------------------------------------------------------------------------------------
// 8. non-canonical / degenerate encodings of the 80 bytes: e + r, x + p, infinity, zero, flags
// ---------------------------------------------------------------------------------------------
fn add_be(a: &[u8], b: &[u8]) -> Option<Vec<u8>> {
    assert_eq!(a.len(), b.len());
    let mut out = vec![0u8; a.len()];
    let mut carry = 0u16;
    for i in (0..a.len()).rev() {
        let t = a[i] as u16 + b[i] as u16 + carry;
        out[i] = t as u8;
        carry = t >> 8;
    }
    if carry == 0 {
        Some(out)
    } else {
        None
    }
}
const R_BE: &str = "73eda753299d7d483339d80809a1d80553bda402fffe5bfeffffffff00000001";
const P_BE: &str = "1a0111ea397fe69a4b1ba7b6434bacd764774b84f38512bf6730d2a0f6b0f6241eabfffeb153ffffb9feffffffffaaab";

fn f08_noncanonical<CS: BbsCiphersuite + std::fmt::Debug>()
where
    CS::Expander: for<'a> ExpandMsg<'a>,
{
    let (sk, pk) = keypair::<CS>(IKM);
    let r = hex::decode(R_BE).unwrap();
    let p = hex::decode(P_BE).unwrap();
    let mut tried_x_plus_p = 0;
    for i in 0..24usize {
        let m = msgs(i % 4);
        let hdr = [HEADER, &[i as u8]].concat();
        let s = sign::<CS>(&sk, &pk, &m, Some(&hdr));
        let bytes = s.to_bytes();

        // e + r still fits in 32 bytes (2r < 2^256): must be refused, not reduced
        let e_plus_r = add_be(&bytes[48..], &r).expect("e + r fits");
        let mut b = bytes;
        b[48..].copy_from_slice(&e_plus_r);
        if let Ok(s2) = Sig::<CS>::from_bytes(&b) {
            assert!(s2.verify(&pk, Some(&m), Some(&hdr)).is_err(), "e + r accepted and verifies");
            panic!("e + r decoded (non-canonical scalar accepted)");
        }
        if let Some(e_plus_2r) = add_be(&e_plus_r, &r) {
            let mut b = bytes;
            b[48..].copy_from_slice(&e_plus_2r);
            assert!(Sig::<CS>::from_bytes(&b).is_err(), "e + 2r decoded");
        }

        // x + p, when it still fits in the 381 bits left by the three flag bits
        let mut x = bytes[..48].to_vec();
        let flags = x[0] & 0xe0;
        x[0] &= 0x1f;
        if let Some(xp) = add_be(&x, &p) {
            if xp[0] & 0xe0 == 0 {
                tried_x_plus_p += 1;
                let mut b = bytes;
                b[..48].copy_from_slice(&xp);
                b[0] |= flags;
                if let Ok(s2) = Sig::<CS>::from_bytes(&b) {
                    assert!(s2.verify(&pk, Some(&m), Some(&hdr)).is_err(), "x + p accepted and verifies");
                    panic!("x + p decoded (non-canonical field element accepted)");
                }
            }
        }

        // compression flag cleared, infinity flag set, both
        for mask in [0x80u8, 0x40, 0xc0, 0xe0, 0x60] {
            let mut b = bytes;
            b[0] ^= mask;
            if let Ok(s2) = Sig::<CS>::from_bytes(&b) {
                must_fail::<CS>(&s2, &pk, &m, Some(&hdr), &format!("flag mask {mask:#x}"));
            }
        }
        // A = point at infinity (canonical encoding c0 00..00) with the honest e; e = 0 with honest A
        let mut b = bytes;
        b[..48].fill(0);
        b[0] = 0xc0;
        assert!(Sig::<CS>::from_bytes(&b).is_err(), "A = identity decoded");
        let mut b = bytes;
        b[48..].fill(0);
        assert!(Sig::<CS>::from_bytes(&b).is_err(), "e = 0 decoded");
        // e = r (== 0 mod r), e = r - 1 + 1 ...
        let mut b = bytes;
        b[48..].copy_from_slice(&r);
        assert!(Sig::<CS>::from_bytes(&b).is_err(), "e = r decoded");
        let mut b = bytes;
        b[48..].fill(0xff);
        assert!(Sig::<CS>::from_bytes(&b).is_err(), "e = 2^256-1 decoded");
    }
    assert!(tried_x_plus_p > 0, "no signature with small x found; x + p family not exercised");
    assert!(Sig::<CS>::from_bytes(&[0u8; 80]).is_err());
    assert!(Sig::<CS>::from_bytes(&[0xffu8; 80]).is_err());
}
#[test]
fn f08_noncanonical_sha256() {
    f08_noncanonical::<Bls12381Sha256>()
}
#[test]
fn f08_noncanonical_shake256() {
    f08_noncanonical::<Bls12381Shake256>()
}

// ---------------------------------------------------------------------------------------------
// 9. algebraically related signatures built through the public fields (A, e)
// ---------------------------------------------------------------------------------------------
fn f09_related_signatures<CS: BbsCiphersuite + std::fmt::Debug>()
where
    CS::Expander: for<'a> ExpandMsg<'a>,
{
    let (sk, pk) = keypair::<CS>(IKM);
    let m1 = msgs(3);
    let mut m2 = m1.clone();
    m2[2] = b"something else".to_vec();
    let s1 = sign::<CS>(&sk, &pk, &m1, Some(HEADER));
    let s2 = sign::<CS>(&sk, &pk, &m2, Some(HEADER));
    let (a1, e1, a2, e2) = (s1.a(), s1.e(), s2.a(), s2.e());
    let mk = |A: G1Projective, e: Scalar| Sig::<CS>::BBSplus(BBSplusSignature { A, e });
    let two = Scalar::from(2u64);
    let cands: Vec<(&str, Sig<CS>)> = vec![
        ("(-A, e)", mk(-a1, e1)),
        ("(A, -e)", mk(a1, -e1)),
        ("(-A, -e)", mk(-a1, -e1)),
        ("(A1, e2)", mk(a1, e2)),
        ("(A2, e1)", mk(a2, e1)),
        ("(A1+A2, e1)", mk(a1 + a2, e1)),
        ("(A1+A2, e1+e2)", mk(a1 + a2, e1 + e2)),
        ("(2A, e)", mk(a1 + a1, e1)),
        ("(2A, 2e)", mk(a1 + a1, e1 * two)),
        ("(A, e+1)", mk(a1, e1 + Scalar::ONE)),
        ("(A, e-1)", mk(a1, e1 - Scalar::ONE)),
        ("(identity, e)", mk(G1Projective::IDENTITY, e1)),
        ("(A, 0)", mk(a1, Scalar::ZERO)),
        ("(identity, 0)", mk(G1Projective::IDENTITY, Scalar::ZERO)),
        ("(G1, e)", mk(G1Projective::GENERATOR, e1)),
        ("(A, 1/e)", mk(a1, e1.invert().unwrap())),
    ];
    for (name, c) in &cands {
        must_fail::<CS>(c, &pk, &m1, Some(HEADER), name);
        must_fail::<CS>(c, &pk, &m2, Some(HEADER), name);
        must_fail::<CS>(c, &pk, &[], None, name);
    }
    // each honest signature verifies for its own list only
    must_fail::<CS>(&s1, &pk, &m2, Some(HEADER), "s1 on m2");
    must_fail::<CS>(&s2, &pk, &m1, Some(HEADER), "s2 on m1");
    // signing is deterministic: the same inputs give the same bytes, different inputs different e
    let s1b = sign::<CS>(&sk, &pk, &m1, Some(HEADER));
    assert_eq!(s1.to_bytes(), s1b.to_bytes());
    assert_ne!(e1, e2);
}
#[test]
fn f09_related_signatures_sha256() {
    f09_related_signatures::<Bls12381Sha256>()
}
#[test]
fn f09_related_signatures_shake256() {
    f09_related_signatures::<Bls12381Shake256>()
}

// ---------------------------------------------------------------------------------------------
// 10. cross-ciphersuite: bytes, JSON re-interpretation, both directions, same key material
// ---------------------------------------------------------------------------------------------
fn f10_cross_suite<CS: BbsCiphersuite + std::fmt::Debug, Other: BbsCiphersuite + std::fmt::Debug>()
where
    CS::Expander: for<'a> ExpandMsg<'a>,
    Other::Expander: for<'a> ExpandMsg<'a>,
{
    // one and the same (sk, pk) used under both suites (keys are not typed by suite)
    let (sk, pk) = keypair::<CS>(IKM);
    let (_, pk_o) = keypair::<Other>(IKM);
    for L in 0..=4usize {
        for h in [None, Some(&[][..]), Some(HEADER)] {
            let m = msgs(L);
            let s = sign::<CS>(&sk, &pk, &m, h);
            let via_bytes = Sig::<Other>::from_bytes(&s.to_bytes()).unwrap();
            let js = serde_json::to_string(&s).unwrap();
            let via_json: Sig<Other> = serde_json::from_str(&js).unwrap();
            assert_eq!(via_bytes, via_json);
            for o in [&via_bytes, &via_json] {
                assert!(o.verify(&pk, Some(&m), h).is_err(), "cross-suite accepted, L={L}");
                assert!(o.verify(&pk_o, Some(&m), h).is_err(), "cross-suite accepted (other-suite pk), L={L}");
                assert!(o.verify(&pk, None, None).is_err(), "cross-suite accepted for empty input, L={L}");
                // the other suite's blind interface, too
            }
            let as_blind_other = BSig::<Other>::from_bytes(&s.to_bytes()).unwrap();
            assert!(as_blind_other.verify_blind_sign(&pk, h, Some(&m), None, None).is_err());
            // and the same inputs signed under the other suite give another signature
            let so = sign::<Other>(&sk, &pk, &m, h);
            assert_ne!(so.to_bytes(), s.to_bytes());
        }
    }
}
#[test]
fn f10_cross_suite_sha256_to_shake256() {
    f10_cross_suite::<Bls12381Sha256, Bls12381Shake256>()
}
#[test]
fn f10_cross_suite_shake256_to_sha256() {
    f10_cross_suite::<Bls12381Shake256, Bls12381Sha256>()
}

// ---------------------------------------------------------------------------------------------
// 11. cross-interface, no commitment: blind signature -> plain verify, plain signature -> blind verify
// ---------------------------------------------------------------------------------------------
fn zero_blind() -> BlindFactor {
    BlindFactor::from_bytes(&[0u8; 32]).unwrap()
}
fn f11_cross_interface_nocommit<CS: BbsCiphersuite + std::fmt::Debug, Other: BbsCiphersuite + std::fmt::Debug>()
where
    CS::Expander: for<'a> ExpandMsg<'a>,
    Other::Expander: for<'a> ExpandMsg<'a>,
{
    let (sk, pk) = keypair::<CS>(IKM);
    for L in 0..=4usize {
        for h in [None, Some(HEADER)] {
            let m = msgs(L);
            // blind -> plain
            let bs = BSig::<CS>::blind_sign(&sk, &pk, None, h, Some(&m)).unwrap();
            bs.verify_blind_sign(&pk, h, Some(&m), None, None)
                .expect("honest blind signature (no commitment) does not verify");
            let as_plain = Sig::<CS>::from_bytes(&bs.to_bytes()).unwrap();
            let js = serde_json::to_string(&bs).unwrap();
            let as_plain_json: Sig<CS> = serde_json::from_str(&js).unwrap();
            assert_eq!(as_plain, as_plain_json);
            let as_plain_other = Sig::<Other>::from_bytes(&bs.to_bytes()).unwrap();
            let zero = vec![0u8; 32];
            let mut lists: Vec<Vec<Vec<u8>>> = vec![m.clone()];
            let mut t = m.clone();
            t.push(vec![]);
            lists.push(t);
            let mut t = m.clone();
            t.push(zero.clone());
            lists.push(t);
            if L > 0 {
                lists.push(m[..L - 1].to_vec());
            }
            for l in &lists {
                for h2 in [h, None, Some(HEADER)] {
                    assert!(as_plain.verify(&pk, Some(l), h2).is_err(), "blind sig accepted by plain verify, L={L}");
                    assert!(as_plain_other.verify(&pk, Some(l), h2).is_err(), "blind sig accepted by other-suite plain verify");
                }
            }
            // plain -> blind
            let s = sign::<CS>(&sk, &pk, &m, h);
            let as_blind = BSig::<CS>::from_bytes(&s.to_bytes()).unwrap();
            let zb = zero_blind();
            assert!(as_blind.verify_blind_sign(&pk, h, Some(&m), None, None).is_err(), "plain sig accepted by blind verify");
            assert!(as_blind.verify_blind_sign(&pk, h, Some(&m), None, Some(&zb)).is_err());
            assert!(as_blind.verify_blind_sign(&pk, h, Some(&m), Some(&[]), Some(&zb)).is_err());
            for k in 0..=L {
                assert!(as_blind.verify_blind_sign(&pk, h, Some(&m[..k]), Some(&m[k..]), None).is_err(),
                    "plain sig accepted by blind verify with split {k}");
                assert!(as_blind.verify_blind_sign(&pk, h, Some(&m[..k]), Some(&m[k..]), Some(&zb)).is_err());
            }
            if L > 0 {
                assert!(as_blind.verify_blind_sign(&pk, h, Some(&m[..L - 1]), None, None).is_err());
            }
            // the two interfaces never produce the same signature for the same inputs
            assert_ne!(s.to_bytes(), bs.to_bytes());
        }
    }
}
#[test]
fn f11_cross_interface_nocommit_sha256() {
    f11_cross_interface_nocommit::<Bls12381Sha256, Bls12381Shake256>()
}
#[test]
fn f11_cross_interface_nocommit_shake256() {
    f11_cross_interface_nocommit::<Bls12381Shake256, Bls12381Sha256>()
}

// ---------------------------------------------------------------------------------------------
// 12. cross-interface with commitments (fixture vectors): blind signature -> plain verify
//     + edits inside the blind interface (adjacent to the statement)
// ---------------------------------------------------------------------------------------------
fn hexv(v: &serde_json::Value) -> Vec<u8> {
    hex::decode(v.as_str().unwrap()).unwrap()
}
fn f12_cross_interface_commit<CS: BbsCiphersuite + std::fmt::Debug, Other: BbsCiphersuite + std::fmt::Debug>(dir: &str)
where
    CS::Expander: for<'a> ExpandMsg<'a>,
    Other::Expander: for<'a> ExpandMsg<'a>,
{
    let mut exercised = 0;
    for n in 1..=5 {
        let path = format!("./fixture_data_blind/{dir}/signature/signature00{n}.json");
        let j: serde_json::Value = serde_json::from_str(&std::fs::read_to_string(&path).unwrap()).unwrap();
        if !j["result"]["valid"].as_bool().unwrap() {
            continue;
        }
        let sk = BBSplusSecretKey::from_bytes(&hexv(&j["signerKeyPair"]["secretKey"])).unwrap();
        let pk = BBSplusPublicKey::from_bytes(&hexv(&j["signerKeyPair"]["publicKey"])).unwrap();
        let header = hexv(&j["header"]);
        let m: Vec<Vec<u8>> = j["messages"].as_array().unwrap().iter().map(hexv).collect();
        let cm: Vec<Vec<u8>> = j["committedMessages"]
            .as_array()
            .map(|a| a.iter().map(hexv).collect())
            .unwrap_or_default();
        let cwp = j["commitmentWithProof"].as_str().map(|c| hex::decode(c).unwrap());
        let blind = j["proverBlind"]
            .as_str()
            .map(|b| BlindFactor::from_bytes(&hex::decode(b).unwrap().try_into().unwrap()).unwrap());
        let bs = BSig::<CS>::blind_sign(&sk, &pk, cwp.as_deref(), Some(&header), Some(&m)).unwrap();
        bs.verify_blind_sign(&pk, Some(&header), Some(&m), Some(&cm), blind.as_ref())
            .expect("fixture blind signature does not verify");
        exercised += 1;

        // -> plain interface (same and other suite), with every plausible flattening of the inputs
        let blind_bytes = blind.as_ref().map(|b| b.to_bytes().to_vec()).unwrap_or(vec![0u8; 32]);
        let mut lists: Vec<Vec<Vec<u8>>> = vec![m.clone(), [m.clone(), cm.clone()].concat(), cm.clone(), vec![]];
        lists.push([m.clone(), vec![blind_bytes.clone()], cm.clone()].concat());
        lists.push([m.clone(), vec![vec![]], cm.clone()].concat());
        let as_plain = Sig::<CS>::from_bytes(&bs.to_bytes()).unwrap();
        let as_plain_other = Sig::<Other>::from_bytes(&bs.to_bytes()).unwrap();
        for l in &lists {
            for h2 in [Some(&header[..]), None] {
                assert!(as_plain.verify(&pk, Some(l), h2).is_err(), "{path}: blind sig accepted by plain verify");
                assert!(as_plain_other.verify(&pk, Some(l), h2).is_err(), "{path}: blind sig accepted by other-suite plain verify");
            }
        }
        // -> other suite's blind interface
        let as_blind_other = BSig::<Other>::from_bytes(&bs.to_bytes()).unwrap();
        assert!(as_blind_other
            .verify_blind_sign(&pk, Some(&header), Some(&m), Some(&cm), blind.as_ref())
            .is_err(), "{path}: accepted by the other suite's blind verify");

        // edits inside the blind interface
        let vb = |mm: &[Vec<u8>], cc: &[Vec<u8>], b: Option<&BlindFactor>, hh: Option<&[u8]>| {
            bs.verify_blind_sign(&pk, hh, Some(mm), Some(cc), b).is_ok()
        };
        let b = blind.as_ref();
        assert!(!vb(&m, &cm, b, None) || header.is_empty(), "{path}: header dropped");
        for i in 0..cm.len() {
            let mut c2 = cm.clone();
            c2[i].push(1);
            assert!(!vb(&m, &c2, b, Some(&header)), "{path}: committed msg {i} altered");
            let mut c2 = cm.clone();
            c2.remove(i);
            assert!(!vb(&m, &c2, b, Some(&header)), "{path}: committed msg {i} removed");
        }
        for i in 0..m.len() {
            let mut m2 = m.clone();
            m2[i].push(1);
            assert!(!vb(&m2, &cm, b, Some(&header)), "{path}: msg {i} altered");
            let mut m2 = m.clone();
            m2.remove(i);
            assert!(!vb(&m2, &cm, b, Some(&header)), "{path}: msg {i} removed");
        }
        if cm.len() >= 2 {
            let mut c2 = cm.clone();
            c2.swap(0, 1);
            if c2 != cm {
                assert!(!vb(&m, &c2, b, Some(&header)), "{path}: committed swap");
            }
        }
        // move the boundary between signer messages and committed messages
        if !m.is_empty() && !cm.is_empty() {
            let all = [m.clone(), cm.clone()].concat();
            for k in 0..=all.len() {
                if k != m.len() {
                    assert!(!vb(&all[..k], &all[k..], b, Some(&header)), "{path}: boundary moved to {k}");
                }
            }
        }
        let mut c2 = cm.clone();
        c2.push(vec![]);
        assert!(!vb(&m, &c2, b, Some(&header)), "{path}: committed list extended");
        if blind.is_some() {
            assert!(!vb(&m, &cm, None, Some(&header)), "{path}: prover blind dropped");
            let mut bb = blind.as_ref().unwrap().to_bytes();
            bb[31] ^= 1;
            let b2 = BlindFactor::from_bytes(&bb).unwrap();
            assert!(!vb(&m, &cm, Some(&b2), Some(&header)), "{path}: prover blind altered");
        }
    }
    assert!(exercised >= 3, "too few valid fixtures exercised: {exercised}");
}
#[test]
fn f12_cross_interface_commit_sha256() {
    f12_cross_interface_commit::<Bls12381Sha256, Bls12381Shake256>("bls12-381-sha-256")
}
#[test]
fn f12_cross_interface_commit_shake256() {
    f12_cross_interface_commit::<Bls12381Shake256, Bls12381Sha256>("bls12-381-shake-256")
}

// ---------------------------------------------------------------------------------------------
// 13. serde JSON representation of the signature: other variants, degenerate values, text malleability
// ---------------------------------------------------------------------------------------------
fn f13_json<CS: BbsCiphersuite + std::fmt::Debug>()
where
    CS::Expander: for<'a> ExpandMsg<'a>,
{
    let (sk, pk) = keypair::<CS>(IKM);
    let m = msgs(2);
    let s = sign::<CS>(&sk, &pk, &m, Some(HEADER));
    let js = serde_json::to_string(&s).unwrap();
    let v: serde_json::Value = serde_json::from_str(&js).unwrap();
    let a_hex = v["BBSplus"]["A"].as_str().unwrap().to_owned();
    let e_hex = v["BBSplus"]["e"].as_str().unwrap().to_owned();
    assert_eq!(serde_json::from_str::<Sig<CS>>(&js).unwrap(), s);

    // a value of the phantom variant, built through serde, must be refused (Err), not verified
    if let Ok(u) = serde_json::from_str::<Sig<CS>>(r#"{"_Unreachable":null}"#) {
        assert!(u.verify(&pk, Some(&m), Some(HEADER)).is_err());
        assert!(u.verify(&pk, None, None).is_err());
    }
    // degenerate components that the byte decoder refuses
    let id_hex = format!("c0{}", "00".repeat(47));
    let zero_hex = "00".repeat(32);
    for (name, a, e) in [
        ("A=identity", id_hex.as_str(), e_hex.as_str()),
        ("e=0", a_hex.as_str(), zero_hex.as_str()),
        ("A=identity,e=0", id_hex.as_str(), zero_hex.as_str()),
    ] {
        let j = format!(r#"{{"BBSplus":{{"A":"{a}","e":"{e}"}}}}"#);
        if let Ok(x) = serde_json::from_str::<Sig<CS>>(&j) {
            for (l, h) in [(&m[..], Some(HEADER)), (&[][..], None)] {
                assert!(x.verify(&pk, Some(l), h).is_err(), "{name} accepted");
            }
        }
    }
    // every single hex digit of A and e changed in the JSON text: decode error or another, refused, signature
    for (field, hexs) in [("A", &a_hex), ("e", &e_hex)] {
        for pos in 0..hexs.len() {
            let mut chars: Vec<char> = hexs.chars().collect();
            let d = chars[pos].to_digit(16).unwrap();
            chars[pos] = char::from_digit((d + 1) % 16, 16).unwrap();
            let h2: String = chars.into_iter().collect();
            let (a, e) = if field == "A" { (h2.as_str(), e_hex.as_str()) } else { (a_hex.as_str(), h2.as_str()) };
            let j = format!(r#"{{"BBSplus":{{"A":"{a}","e":"{e}"}}}}"#);
            if let Ok(x) = serde_json::from_str::<Sig<CS>>(&j) {
                assert_ne!(x, s);
                assert!(x.verify(&pk, Some(&m), Some(HEADER)).is_err(), "JSON {field} digit {pos} accepted");
            }
        }
    }
    // truncated / extended hex strings never decode to a verifying signature
    for (a, e) in [
        (&a_hex[..94], &e_hex[..]),
        (&a_hex[..], &e_hex[..62]),
        (&a_hex[2..], &e_hex[..]),
    ] {
        let j = format!(r#"{{"BBSplus":{{"A":"{a}","e":"{e}"}}}}"#);
        if let Ok(x) = serde_json::from_str::<Sig<CS>>(&j) {
            assert!(x.verify(&pk, Some(&m), Some(HEADER)).is_err());
        }
    }
}
#[test]
fn f13_json_sha256() {
    f13_json::<Bls12381Sha256>()
}
#[test]
fn f13_json_shake256() {
    f13_json::<Bls12381Shake256>()
}

// ---------------------------------------------------------------------------------------------
// 14. lengths around 255 / 256: many messages; last element; prefix / extension by one
// ---------------------------------------------------------------------------------------------
fn f14_many_messages<CS: BbsCiphersuite + std::fmt::Debug>()
where
    CS::Expander: for<'a> ExpandMsg<'a>,
{
    let (sk, pk) = keypair::<CS>(IKM);
    let all = msgs(258);
    for L in [255usize, 256, 257] {
        let m = all[..L].to_vec();
        let s = sign::<CS>(&sk, &pk, &m, Some(HEADER));
        must_fail::<CS>(&s, &pk, &all[..L - 1], Some(HEADER), &format!("L={L} minus last"));
        must_fail::<CS>(&s, &pk, &all[..L + 1], Some(HEADER), &format!("L={L} plus one"));
        must_fail::<CS>(&s, &pk, &all[1..L + 1], Some(HEADER), &format!("L={L} shifted"));
        for i in [0, 1, 127, 254, L - 2, L - 1] {
            let mut m2 = m.clone();
            *m2[i].last_mut().unwrap() ^= 1;
            must_fail::<CS>(&s, &pk, &m2, Some(HEADER), &format!("L={L} msg {i} altered"));
        }
        let mut m2 = m.clone();
        m2.swap(L - 1, L - 2);
        must_fail::<CS>(&s, &pk, &m2, Some(HEADER), &format!("L={L} last two swapped"));
        let mut m2 = m.clone();
        m2.swap(0, L - 1);
        must_fail::<CS>(&s, &pk, &m2, Some(HEADER), &format!("L={L} first/last swapped"));
        let mut m2 = m.clone();
        m2[L - 1] = vec![];
        must_fail::<CS>(&s, &pk, &m2, Some(HEADER), &format!("L={L} last emptied"));
    }
}
#[test]
fn f14_many_messages_sha256() {
    f14_many_messages::<Bls12381Sha256>()
}
#[test]
fn f14_many_messages_shake256() {
    f14_many_messages::<Bls12381Shake256>()
}

// ---------------------------------------------------------------------------------------------
// 15. long octet strings: header / message lengths 255, 256, 65535, 65536
// ---------------------------------------------------------------------------------------------
fn f15_long_strings<CS: BbsCiphersuite + std::fmt::Debug>()
where
    CS::Expander: for<'a> ExpandMsg<'a>,
{
    let (sk, pk) = keypair::<CS>(IKM);
    for n in [255usize, 256, 257, 65535, 65536, 65537] {
        let long: Vec<u8> = (0..n).map(|i| (i % 251) as u8).collect();
        let short = msgs(2);
        // as header
        let s = sign::<CS>(&sk, &pk, &short, Some(&long));
        let mut l2 = long.clone();
        *l2.last_mut().unwrap() ^= 0x80;
        must_fail::<CS>(&s, &pk, &short, Some(&l2), &format!("header len {n}: last byte"));
        let mut l2 = long.clone();
        l2[0] ^= 1;
        must_fail::<CS>(&s, &pk, &short, Some(&l2), &format!("header len {n}: first byte"));
        must_fail::<CS>(&s, &pk, &short, Some(&long[..n - 1]), &format!("header len {n}: -1"));
        let mut l2 = long.clone();
        l2.push(0);
        must_fail::<CS>(&s, &pk, &short, Some(&l2), &format!("header len {n}: +1"));
        if n >= 256 {
            must_fail::<CS>(&s, &pk, &short, Some(&long[..n % 256]), &format!("header len {n}: mod 256"));
        }
        if n >= 65536 {
            must_fail::<CS>(&s, &pk, &short, Some(&long[..n % 65536]), &format!("header len {n}: mod 65536"));
        }
        // as last message
        let m = vec![short[0].clone(), long.clone()];
        let s = sign::<CS>(&sk, &pk, &m, None);
        let mut m2 = m.clone();
        *m2[1].last_mut().unwrap() ^= 1;
        must_fail::<CS>(&s, &pk, &m2, None, &format!("msg len {n}: last byte"));
        let mut m2 = m.clone();
        m2[1].pop();
        must_fail::<CS>(&s, &pk, &m2, None, &format!("msg len {n}: -1"));
        let mut m2 = m.clone();
        m2[1].push(0);
        must_fail::<CS>(&s, &pk, &m2, None, &format!("msg len {n}: +1"));
        if n >= 256 {
            let mut m2 = m.clone();
            m2[1].truncate(n % 256);
            must_fail::<CS>(&s, &pk, &m2, None, &format!("msg len {n}: mod 256"));
        }
        if n >= 65536 {
            let mut m2 = m.clone();
            m2[1].truncate(n % 65536);
            must_fail::<CS>(&s, &pk, &m2, None, &format!("msg len {n}: mod 65536"));
        }
    }
}
#[test]
fn f15_long_strings_sha256() {
    f15_long_strings::<Bls12381Sha256>()
}
#[test]
fn f15_long_strings_shake256() {
    f15_long_strings::<Bls12381Shake256>()
}

// ---------------------------------------------------------------------------------------------
// 16. update_signature: the updated signature binds the new list only, the old one the old list only
// ---------------------------------------------------------------------------------------------
fn f16_update<CS: BbsCiphersuite + std::fmt::Debug>()
where
    CS::Expander: for<'a> ExpandMsg<'a>,
{
    let (sk, pk) = keypair::<CS>(IKM);
    let L = 4usize;
    let m = msgs(L);
    let s = sign::<CS>(&sk, &pk, &m, Some(HEADER));
    for i in 0..L {
        let newm = format!("updated-{i}").into_bytes();
        let mut m_new = m.clone();
        m_new[i] = newm.clone();
        let u = s.update_signature(&sk, &m[i], &newm, i, L).unwrap();
        u.verify(&pk, Some(&m_new), Some(HEADER)).expect("honest update does not verify");
        must_fail::<CS>(&u, &pk, &m, Some(HEADER), &format!("updated sig {i} on old list"));
        must_fail::<CS>(&s, &pk, &m_new, Some(HEADER), &format!("old sig on updated list {i}"));
        must_fail::<CS>(&u, &pk, &m_new, None, &format!("updated sig {i} without header"));
        // the new value placed at another index
        for j in 0..L {
            if j != i {
                let mut w = m.clone();
                w[j] = newm.clone();
                must_fail::<CS>(&u, &pk, &w, Some(HEADER), &format!("update {i} claimed at {j}"));
            }
        }
        // a wrong "old message" or wrong n gives a signature that verifies for nothing relevant
        if let Ok(bad) = s.update_signature(&sk, b"not the old message", &newm, i, L) {
            must_fail::<CS>(&bad, &pk, &m_new, Some(HEADER), "update with wrong old message");
            must_fail::<CS>(&bad, &pk, &m, Some(HEADER), "update with wrong old message (old list)");
        }
        if let Ok(bad) = s.update_signature(&sk, &m[i], &newm, i, L + 1) {
            // generators H_i do not depend on n, so this is the same update; it must still bind L messages only
            let mut longer = m_new.clone();
            longer.push(vec![]);
            must_fail::<CS>(&bad, &pk, &longer, Some(HEADER), "update with n+1 verifies for n+1 messages");
        }
    }
}
#[test]
fn f16_update_sha256() {
    f16_update::<Bls12381Sha256>()
}
#[test]
fn f16_update_shake256() {
    f16_update::<Bls12381Shake256>()
}

// ---------------------------------------------------------------------------------------------
// 17. IETF fixture signatures (L = 10 and L = 1): last-message, prefix, extension, bit flips of e's top byte
// ---------------------------------------------------------------------------------------------
fn f17_fixture_vectors<CS: BbsCiphersuite + std::fmt::Debug>(dir: &str)
where
    CS::Expander: for<'a> ExpandMsg<'a>,
{
    for n in ["001", "004"] {
        let path = format!("./fixture_data/{dir}/signature/signature{n}.json");
        let j: serde_json::Value = serde_json::from_str(&std::fs::read_to_string(&path).unwrap()).unwrap();
        assert!(j["result"]["valid"].as_bool().unwrap());
        let pk = BBSplusPublicKey::from_bytes(&hexv(&j["signerKeyPair"]["publicKey"])).unwrap();
        let header = hexv(&j["header"]);
        let m: Vec<Vec<u8>> = j["messages"].as_array().unwrap().iter().map(hexv).collect();
        let sb: [u8; 80] = hexv(&j["signature"]).try_into().unwrap();
        let s = Sig::<CS>::from_bytes(&sb).unwrap();
        s.verify(&pk, Some(&m), Some(&header)).unwrap();
        let L = m.len();
        for k in 0..L {
            must_fail::<CS>(&s, &pk, &m[..k], Some(&header), &format!("{path} prefix {k}"));
        }
        let mut m2 = m.clone();
        m2.push(vec![]);
        must_fail::<CS>(&s, &pk, &m2, Some(&header), &format!("{path} + empty message"));
        let mut m2 = m.clone();
        m2[L - 1].push(0);
        must_fail::<CS>(&s, &pk, &m2, Some(&header), &format!("{path} last message + 0"));
        if L >= 2 {
            // the last fixture message of the L = 10 vector is the empty string: remove it
            must_fail::<CS>(&s, &pk, &m[..L - 1], Some(&header), &format!("{path} drop last (empty?) message"));
        }
        must_fail::<CS>(&s, &pk, &m, None, &format!("{path} header None"));
        for bit in 0..8 {
            let mut b = sb;
            b[48] ^= 1 << bit;
            if let Ok(x) = Sig::<CS>::from_bytes(&b) {
                must_fail::<CS>(&x, &pk, &m, Some(&header), &format!("{path} e high byte bit {bit}"));
            }
        }
    }
}
#[test]
fn f17_fixture_vectors_sha256() {
    f17_fixture_vectors::<Bls12381Sha256>("bls12-381-sha-256")
}
#[test]
fn f17_fixture_vectors_shake256() {
    f17_fixture_vectors::<Bls12381Shake256>("bls12-381-shake-256")
}

// ---------------------------------------------------------------------------------------------
// 18. degenerate secret keys accepted by the decoder (sk = 0 -> pk = identity, sk = 1, sk = r - 1)
//     binding of an honest signature must hold for them as well
// ---------------------------------------------------------------------------------------------
fn f18_degenerate_sk<CS: BbsCiphersuite + std::fmt::Debug>()
where
    CS::Expander: for<'a> ExpandMsg<'a>,
{
    let r_minus_1 = {
        let mut r = hex::decode(R_BE).unwrap();
        r[31] -= 1;
        r
    };
    let mut one = [0u8; 32];
    one[31] = 1;
    for skb in [vec![0u8; 32], one.to_vec(), r_minus_1] {
        let sk = match BBSplusSecretKey::from_bytes(&skb) {
            Ok(sk) => sk,
            Err(_) => continue,
        };
        let pk = sk.public_key();
        let m = msgs(3);
        let s = match Sig::<CS>::sign(Some(&m), &sk, &pk, Some(HEADER)) {
            Ok(s) => s,
            Err(_) => continue,
        };
        if s.verify(&pk, Some(&m), Some(HEADER)).is_err() {
            continue; // not an honest verifying tuple, nothing to bind
        }
        let mut m2 = m.clone();
        m2[2].push(0);
        must_fail::<CS>(&s, &pk, &m2, Some(HEADER), "degenerate sk: altered");
        must_fail::<CS>(&s, &pk, &m[..2], Some(HEADER), "degenerate sk: prefix");
        must_fail::<CS>(&s, &pk, &m, None, "degenerate sk: header");
        let (_, pk2) = keypair::<CS>(IKM);
        must_fail::<CS>(&s, &pk2, &m, Some(HEADER), "degenerate sk: other pk");
        for p in [
            BBSplusPublicKey(G2Projective::GENERATOR),
            BBSplusPublicKey(G2Projective::GENERATOR + G2Projective::GENERATOR),
            BBSplusPublicKey(G2Projective::IDENTITY),
            BBSplusPublicKey(-pk.0 + G2Projective::GENERATOR),
        ] {
            if p != pk {
                must_fail::<CS>(&s, &p, &m, Some(HEADER), "degenerate sk: related pk");
            }
        }
    }
}
#[test]
fn f18_degenerate_sk_sha256() {
    f18_degenerate_sk::<Bls12381Sha256>()
}
#[test]
fn f18_degenerate_sk_shake256() {
    f18_degenerate_sk::<Bls12381Shake256>()
}

// ---------------------------------------------------------------------------------------------
// 19. A outside the prime-order subgroup (A + T, T of cofactor order, built with the dependency's
//     unchecked constructor): its 80-byte encoding must be refused by the decoders
// 20. pk' = pk + T2 with T2 in the G2 cofactor torsion (public tuple field + unchecked constructor):
//     pk' != pk, so verification must fail
// ---------------------------------------------------------------------------------------------
fn mul_by_r<G: Copy + core::ops::Add<Output = G>>(p: G, zero: G) -> G {
    // plain double-and-add with the complete addition law, valid for every curve point
    let r = hex::decode(R_BE).unwrap();
    let mut acc = zero;
    for byte in r {
        for bit in (0..8).rev() {
            acc = acc + acc;
            if (byte >> bit) & 1 == 1 {
                acc = acc + p;
            }
        }
    }
    acc
}

fn f19_f20_off_subgroup<CS: BbsCiphersuite + std::fmt::Debug>()
where
    CS::Expander: for<'a> ExpandMsg<'a>,
{
    use bls12_381_plus::{G1Affine, G2Affine};
    let (sk, pk) = keypair::<CS>(IKM);
    let m = msgs(2);
    let s = sign::<CS>(&sk, &pk, &m, Some(HEADER));

    // --- G1
    let mut found = 0;
    for c in 1u8..=60 {
        let mut enc = [0u8; 48];
        enc[0] = 0x80;
        enc[47] = c;
        let p = match Option::<G1Affine>::from(G1Affine::from_compressed_unchecked(&enc)) {
            Some(p) => p,
            None => continue,
        };
        if bool::from(p.is_torsion_free()) {
            continue;
        }
        let p = G1Projective::from(p);
        let t = mul_by_r(p, G1Projective::IDENTITY); // order divides the cofactor
        for (name, off) in [("P", p), ("T=rP", t)] {
            if off == G1Projective::IDENTITY {
                continue;
            }
            found += 1;
            let a2 = s.a() + off;
            let forged = Sig::<CS>::BBSplus(BBSplusSignature { A: a2, e: s.e() });
            let enc = forged.to_bytes();
            assert_ne!(enc, s.to_bytes());
            assert!(Sig::<CS>::from_bytes(&enc).is_err(), "A + {name} (off-subgroup) decoded");
            assert!(BBSplusSignature::from_bytes(&enc).is_err(), "A + {name} (off-subgroup) decoded");
            let js = serde_json::to_string(&forged).unwrap();
            assert!(serde_json::from_str::<Sig<CS>>(&js).is_err(), "A + {name} (off-subgroup) decoded from JSON");
            // whatever the in-memory value does, it never verifies for anything else
            let mut m2 = m.clone();
            m2[1].push(0);
            must_fail::<CS>(&forged, &pk, &m2, Some(HEADER), "off-subgroup A, altered message");
            must_fail::<CS>(&forged, &pk, &m, None, "off-subgroup A, other header");
        }
        if found >= 4 {
            break;
        }
    }
    assert!(found >= 2, "no off-subgroup G1 point found");

    // --- G2
    let mut found = 0;
    for c in 1u8..=60 {
        let mut enc = [0u8; 96];
        enc[0] = 0x80;
        enc[95] = c;
        let p = match Option::<G2Affine>::from(G2Affine::from_compressed_unchecked(&enc)) {
            Some(p) => p,
            None => continue,
        };
        if bool::from(p.is_torsion_free()) {
            continue;
        }
        let p = G2Projective::from(p);
        let t = mul_by_r(p, G2Projective::IDENTITY);
        for (name, off) in [("P", p), ("T=rP", t)] {
            if off == G2Projective::IDENTITY {
                continue;
            }
            found += 1;
            let pk2 = BBSplusPublicKey(pk.0 + off);
            assert_ne!(pk2, pk);
            must_fail::<CS>(&s, &pk2, &m, Some(HEADER), &format!("pk + {name} (off-subgroup)"));
            // and its encoding is refused by the key decoders
            assert!(BBSplusPublicKey::from_bytes(&pk2.to_bytes()).is_err(), "pk + {name} decoded");
        }
        if found >= 4 {
            break;
        }
    }
    assert!(found >= 2, "no off-subgroup G2 point found");
}
#[test]
fn f19_f20_off_subgroup_sha256() {
    f19_f20_off_subgroup::<Bls12381Sha256>()
}
#[test]
fn f19_f20_off_subgroup_shake256() {
    f19_f20_off_subgroup::<Bls12381Shake256>()
}

// ---------------------------------------------------------------------------------------------
// 21. deterministic pseudo-random sweep of single edits, L = 0..=12, both header shapes
// ---------------------------------------------------------------------------------------------
struct Lcg(u64);
impl Lcg {
    fn next(&mut self) -> usize {
        self.0 = self.0.wrapping_mul(6364136223846793005).wrapping_add(1442695040888963407);
        (self.0 >> 33) as usize
    }
}
fn f21_sweep<CS: BbsCiphersuite + std::fmt::Debug>(seed: u64)
where
    CS::Expander: for<'a> ExpandMsg<'a>,
{
    let (sk, pk) = keypair::<CS>(IKM);
    let mut g = Lcg(seed);
    for L in 0..=12usize {
        let mut m: Vec<Vec<u8>> = (0..L)
            .map(|_| {
                let n = g.next() % 40;
                (0..n).map(|_| g.next() as u8).collect()
            })
            .collect();
        if L >= 3 {
            m[L - 1] = vec![]; // empty last message, as in the IETF vector
        }
        let hdr: Vec<u8> = (0..g.next() % 20).map(|_| g.next() as u8).collect();
        let h = Some(&hdr[..]);
        let s = sign::<CS>(&sk, &pk, &m, h);
        for round in 0..25 {
            let mut m2 = m.clone();
            let mut h2 = hdr.clone();
            match g.next() % 8 {
                0 if L > 0 => {
                    let i = g.next() % L;
                    if m2[i].is_empty() {
                        m2[i].push(g.next() as u8);
                    } else {
                        let p = g.next() % m2[i].len();
                        m2[i][p] ^= 1 << (g.next() % 8);
                    }
                }
                1 => {
                    let i = g.next() % (L + 1);
                    let n = g.next() % 4;
                    m2.insert(i, (0..n).map(|_| g.next() as u8).collect());
                }
                2 if L > 0 => {
                    m2.remove(g.next() % L);
                }
                3 if L > 1 => {
                    let (i, j) = (g.next() % L, g.next() % L);
                    m2.swap(i, j);
                }
                4 if L > 0 => {
                    m2.truncate(g.next() % L);
                }
                5 => {
                    for _ in 0..1 + g.next() % 3 {
                        m2.push(vec![]);
                    }
                }
                6 => {
                    if h2.is_empty() {
                        h2.push(0);
                    } else {
                        let p = g.next() % h2.len();
                        h2[p] ^= 1 << (g.next() % 8);
                    }
                }
                _ => {
                    h2.push(0);
                }
            }
            if m2 == m && h2 == hdr {
                continue;
            }
            must_fail::<CS>(&s, &pk, &m2, Some(&h2), &format!("sweep L={L} round {round}: {m2:?} / {h2:?}"));
        }
    }
}
#[test]
fn f21_sweep_sha256() {
    f21_sweep::<Bls12381Sha256>(1)
}
#[test]
fn f21_sweep_shake256() {
    f21_sweep::<Bls12381Shake256>(2)
}
