// Red-team candidates for PROPERTY C10.
//
// Every #[test] asserts what the property requires: a FAILING test is a demonstrated violation
// on the unmodified tree, a passing one documents a family for which the property held.
//
// The file contains an independent reference of draft-irtf-cfrg-bbs-signatures-08 (expand_message
// XMD/XOF written directly on sha2 / sha3, OS2IP mod r written with scalar arithmetic, keygen,
// generators, messages-to-scalars, domain, Sign, Verify, ProofVerify including the draft's
// octets_to_pubkey / octets_to_signature / octets_to_proof rules). Curve arithmetic, SSWU and
// pairings come from bls12_381_plus, but hash_to_curve is driven by the reference expand_message
// through a private ExpandMsg implementation.
#![allow(non_snake_case)]

use bls12_381_plus::group::Curve;
use bls12_381_plus::{pairing, G1Affine, G1Projective, G2Affine, G2Projective, Scalar};
use elliptic_curve::hash2curve::{ExpandMsg, Expander};
use sha2::{Digest, Sha256};
use sha3::digest::{ExtendableOutput, Update, XofReader};
use sha3::Shake256;
use zkryptium::{
    bbsplus::{
        ciphersuites::{BbsCiphersuite, Bls12381Sha256, Bls12381Shake256},
        commitment::BlindFactor,
        generators::Generators,
        keys::{BBSplusPublicKey, BBSplusSecretKey},
        signature::BBSplusSignature,
    },
    keys::pair::KeyPair,
    schemes::{
        algorithms::BBSplus,
        generics::{BlindSignature, Commitment, PoKSignature, Signature},
    },
    utils::{message::bbsplus_message::BBSplusMessage, util::bbsplus_utils::hash_to_scalar},
};

// ---------------------------------------------------------------------------------------------
// Reference implementation
// ---------------------------------------------------------------------------------------------

#[derive(Clone, Copy, PartialEq, Eq, Debug)]
enum Suite {
    Sha,
    Shake,
}

impl Suite {
    fn id(self) -> &'static [u8] {
        match self {
            Suite::Sha => b"BBS_BLS12381G1_XMD:SHA-256_SSWU_RO_",
            Suite::Shake => b"BBS_BLS12381G1_XOF:SHAKE-256_SSWU_RO_",
        }
    }
    fn api_id(self) -> Vec<u8> {
        [self.id(), b"H2G_HM2S_"].concat()
    }
    fn p1(self) -> G1Projective {
        let h = match self {
            Suite::Sha => "a8ce256102840821a3e94ea9025e4662b205762f9776b3a766c872b948f1fd225e7c59698588e70d11406d161b4e28c9",
            Suite::Shake => "8929dfbc7e6642c4ed9cba0856e493f8b9d7d5fcb0c31ef8fdcd34d50648a56c795e106e9eada6e0bda386b414150755",
        };
        let b: [u8; 48] = hex::decode(h).unwrap().try_into().unwrap();
        G1Projective::from(G1Affine::from_compressed(&b).unwrap())
    }
    fn dir(self) -> &'static str {
        match self {
            Suite::Sha => "bls12-381-sha-256",
            Suite::Shake => "bls12-381-shake-256",
        }
    }
}

fn ref_xmd(msg: &[u8], dst: &[u8], len: usize) -> Vec<u8> {
    let dst: Vec<u8> = if dst.len() > 255 {
        let mut h = Sha256::new();
        Digest::update(&mut h, b"H2C-OVERSIZE-DST-");
        Digest::update(&mut h, dst);
        h.finalize().to_vec()
    } else {
        dst.to_vec()
    };
    let ell = (len + 31) / 32;
    assert!(ell <= 255 && len <= 65535);
    let mut dst_prime = dst.clone();
    dst_prime.push(dst.len() as u8);
    let mut h = Sha256::new();
    Digest::update(&mut h, [0u8; 64]);
    Digest::update(&mut h, msg);
    Digest::update(&mut h, (len as u16).to_be_bytes());
    Digest::update(&mut h, [0u8]);
    Digest::update(&mut h, &dst_prime);
    let b0 = h.finalize().to_vec();
    let mut out: Vec<u8> = Vec::new();
    let mut prev: Vec<u8> = vec![0u8; 32];
    for i in 1..=ell {
        let x: Vec<u8> = b0.iter().zip(prev.iter()).map(|(a, b)| a ^ b).collect();
        let mut h = Sha256::new();
        Digest::update(&mut h, &x);
        Digest::update(&mut h, [i as u8]);
        Digest::update(&mut h, &dst_prime);
        prev = h.finalize().to_vec();
        out.extend_from_slice(&prev);
    }
    out.truncate(len);
    out
}

fn ref_xof(msg: &[u8], dst: &[u8], len: usize) -> Vec<u8> {
    let dst: Vec<u8> = if dst.len() > 255 {
        let mut h = Shake256::default();
        h.update(b"H2C-OVERSIZE-DST-");
        h.update(dst);
        let mut o = vec![0u8; 32];
        h.finalize_xof().read(&mut o);
        o
    } else {
        dst.to_vec()
    };
    assert!(len <= 65535);
    let mut h = Shake256::default();
    h.update(msg);
    h.update(&(len as u16).to_be_bytes());
    h.update(&dst);
    h.update(&[dst.len() as u8]);
    let mut o = vec![0u8; len];
    h.finalize_xof().read(&mut o);
    o
}

fn ref_expand(s: Suite, msg: &[u8], dst: &[u8], len: usize) -> Vec<u8> {
    match s {
        Suite::Sha => ref_xmd(msg, dst, len),
        Suite::Shake => ref_xof(msg, dst, len),
    }
}

// ExpandMsg adapters so that hash_to_curve (SSWU of bls12_381_plus) is fed by the reference expand_message
struct BufExpander {
    buf: Vec<u8>,
    pos: usize,
}
impl Expander for BufExpander {
    fn fill_bytes(&mut self, okm: &mut [u8]) {
        let n = okm.len();
        okm.copy_from_slice(&self.buf[self.pos..self.pos + n]);
        self.pos += n;
    }
}
struct RefXmd;
struct RefXof;
impl<'a> ExpandMsg<'a> for RefXmd {
    type Expander = BufExpander;
    fn expand_message(
        msgs: &[&[u8]],
        dsts: &'a [&'a [u8]],
        len_in_bytes: usize,
    ) -> elliptic_curve::Result<Self::Expander> {
        Ok(BufExpander {
            buf: ref_xmd(&msgs.concat(), &dsts.concat(), len_in_bytes),
            pos: 0,
        })
    }
}
impl<'a> ExpandMsg<'a> for RefXof {
    type Expander = BufExpander;
    fn expand_message(
        msgs: &[&[u8]],
        dsts: &'a [&'a [u8]],
        len_in_bytes: usize,
    ) -> elliptic_curve::Result<Self::Expander> {
        Ok(BufExpander {
            buf: ref_xof(&msgs.concat(), &dsts.concat(), len_in_bytes),
            pos: 0,
        })
    }
}

fn ref_hash_to_g1(s: Suite, msg: &[u8], dst: &[u8]) -> G1Projective {
    match s {
        Suite::Sha => G1Projective::hash::<RefXmd>(msg, dst),
        Suite::Shake => G1Projective::hash::<RefXof>(msg, dst),
    }
}

/// OS2IP(bytes) mod r, by Horner on scalars
fn os2ip_mod_r(bytes: &[u8]) -> Scalar {
    let mut acc = Scalar::ZERO;
    let base = Scalar::from(256u64);
    for b in bytes {
        acc = acc * base + Scalar::from(*b as u64);
    }
    acc
}

fn sc_be(s: &Scalar) -> [u8; 32] {
    s.to_be_bytes()
}

fn ref_h2s(s: Suite, msg: &[u8], dst: &[u8]) -> Option<Scalar> {
    if dst.len() > 255 {
        return None;
    }
    Some(os2ip_mod_r(&ref_expand(s, msg, dst, 48)))
}

fn ref_keygen(s: Suite, ikm: &[u8], info: &[u8], dst: Option<&[u8]>) -> Option<Scalar> {
    if ikm.len() < 32 || info.len() > 65535 {
        return None;
    }
    let d = dst
        .map(|d| d.to_vec())
        .unwrap_or([&s.api_id()[..], b"KEYGEN_DST_"].concat());
    let mut inp = ikm.to_vec();
    inp.extend_from_slice(&(info.len() as u16).to_be_bytes());
    inp.extend_from_slice(info);
    ref_h2s(s, &inp, &d)
}

fn ref_sk_to_pk(sk: &Scalar) -> [u8; 96] {
    (G2Projective::GENERATOR * sk).to_affine().to_compressed()
}

fn ref_generators(s: Suite, count: usize, api_id: &[u8]) -> Vec<G1Projective> {
    let seed_dst = [api_id, b"SIG_GENERATOR_SEED_"].concat();
    let gen_dst = [api_id, b"SIG_GENERATOR_DST_"].concat();
    let gen_seed = [api_id, b"MESSAGE_GENERATOR_SEED"].concat();
    let mut v = ref_expand(s, &gen_seed, &seed_dst, 48);
    let mut out = Vec::new();
    for i in 1..=count {
        let mut inp = v.clone();
        inp.extend_from_slice(&(i as u64).to_be_bytes());
        v = ref_expand(s, &inp, &seed_dst, 48);
        out.push(ref_hash_to_g1(s, &v, &gen_dst));
    }
    out
}

fn ref_msgs(s: Suite, msgs: &[Vec<u8>], api_id: &[u8]) -> Option<Vec<Scalar>> {
    let dst = [api_id, b"MAP_MSG_TO_SCALAR_AS_HASH_"].concat();
    msgs.iter().map(|m| ref_h2s(s, m, &dst)).collect()
}

fn g1c(p: &G1Projective) -> [u8; 48] {
    p.to_affine().to_compressed()
}

fn ref_domain(
    s: Suite,
    pk: &[u8],
    q1: &G1Projective,
    hs: &[G1Projective],
    header: &[u8],
    api_id: &[u8],
) -> Option<Scalar> {
    let mut inp = pk.to_vec();
    inp.extend_from_slice(&(hs.len() as u64).to_be_bytes());
    inp.extend_from_slice(&g1c(q1));
    for h in hs {
        inp.extend_from_slice(&g1c(h));
    }
    inp.extend_from_slice(api_id);
    inp.extend_from_slice(&(header.len() as u64).to_be_bytes());
    inp.extend_from_slice(header);
    ref_h2s(s, &inp, &[api_id, b"H2S_"].concat())
}

fn ref_sign(s: Suite, sk: &Scalar, pk: &[u8], header: &[u8], msgs: &[Vec<u8>]) -> Option<[u8; 80]> {
    let api_id = s.api_id();
    let ms = ref_msgs(s, msgs, &api_id)?;
    let gens = ref_generators(s, msgs.len() + 1, &api_id);
    let domain = ref_domain(s, pk, &gens[0], &gens[1..], header, &api_id)?;
    let mut e_in = sc_be(sk).to_vec();
    for m in &ms {
        e_in.extend_from_slice(&sc_be(m));
    }
    e_in.extend_from_slice(&sc_be(&domain));
    let e = ref_h2s(s, &e_in, &[&api_id[..], b"H2S_"].concat())?;
    let mut B = s.p1() + gens[0] * domain;
    for (h, m) in gens[1..].iter().zip(ms.iter()) {
        B += h * m;
    }
    let inv = Option::<Scalar>::from((sk + e).invert())?;
    let A = B * inv;
    if A == G1Projective::IDENTITY {
        return None;
    }
    let mut out = [0u8; 80];
    out[..48].copy_from_slice(&g1c(&A));
    out[48..].copy_from_slice(&sc_be(&e));
    Some(out)
}

fn ref_octets_to_pubkey(pk: &[u8]) -> Option<G2Projective> {
    let b: [u8; 96] = pk.try_into().ok()?;
    let a = Option::<G2Affine>::from(G2Affine::from_compressed(&b))?; // curve + subgroup check
    let p = G2Projective::from(a);
    if p == G2Projective::IDENTITY {
        return None;
    }
    Some(p)
}

fn ref_octets_to_scalar_nz(b: &[u8]) -> Option<Scalar> {
    let b: [u8; 32] = b.try_into().ok()?;
    let s = Option::<Scalar>::from(Scalar::from_be_bytes(&b))?;
    if s == Scalar::ZERO {
        return None;
    }
    Some(s)
}

fn ref_octets_to_g1_nz(b: &[u8]) -> Option<G1Projective> {
    let b: [u8; 48] = b.try_into().ok()?;
    let a = Option::<G1Affine>::from(G1Affine::from_compressed(&b))?;
    let p = G1Projective::from(a);
    if p == G1Projective::IDENTITY {
        return None;
    }
    Some(p)
}

fn ref_octets_to_signature(sig: &[u8]) -> Option<(G1Projective, Scalar)> {
    if sig.len() != 80 {
        return None;
    }
    Some((ref_octets_to_g1_nz(&sig[..48])?, ref_octets_to_scalar_nz(&sig[48..])?))
}

fn ref_verify(s: Suite, pk: &[u8], sig: &[u8], header: &[u8], msgs: &[Vec<u8>]) -> bool {
    let api_id = s.api_id();
    let Some(ms) = ref_msgs(s, msgs, &api_id) else { return false };
    let gens = ref_generators(s, msgs.len() + 1, &api_id);
    let Some((A, e)) = ref_octets_to_signature(sig) else { return false };
    let Some(W) = ref_octets_to_pubkey(pk) else { return false };
    let Some(domain) = ref_domain(s, pk, &gens[0], &gens[1..], header, &api_id) else { return false };
    let mut B = s.p1() + gens[0] * domain;
    for (h, m) in gens[1..].iter().zip(ms.iter()) {
        B += h * m;
    }
    pairing(&A.to_affine(), &(W + G2Projective::GENERATOR * e).to_affine())
        == pairing(&B.to_affine(), &G2Affine::generator())
}

fn ref_proof_verify(
    s: Suite,
    pk: &[u8],
    proof: &[u8],
    header: &[u8],
    ph: &[u8],
    dmsgs: &[Vec<u8>],
    didx: &[usize],
) -> bool {
    let api_id = s.api_id();
    // ProofVerify deserialization
    let floor = 3 * 48 + 4 * 32;
    if proof.len() < floor {
        return false;
    }
    let U = (proof.len() - floor) / 32;
    let R = didx.len();
    let Some(ms) = ref_msgs(s, dmsgs, &api_id) else { return false };
    let gens = ref_generators(s, U + R + 1, &api_id);
    // octets_to_proof
    if (proof.len() - 144) % 32 != 0 {
        return false;
    }
    let Some(Abar) = ref_octets_to_g1_nz(&proof[0..48]) else { return false };
    let Some(Bbar) = ref_octets_to_g1_nz(&proof[48..96]) else { return false };
    let Some(D) = ref_octets_to_g1_nz(&proof[96..144]) else { return false };
    let mut scalars = Vec::new();
    for c in proof[144..].chunks(32) {
        let Some(x) = ref_octets_to_scalar_nz(c) else { return false };
        scalars.push(x);
    }
    let (e_cap, r1_cap, r3_cap) = (scalars[0], scalars[1], scalars[2]);
    let c = *scalars.last().unwrap();
    let m_cap = &scalars[3..scalars.len() - 1];
    assert_eq!(m_cap.len(), U);
    let Some(W) = ref_octets_to_pubkey(pk) else { return false };
    // ProofVerifyInit
    let L = U + R;
    for &i in didx {
        if i >= L {
            return false;
        }
    }
    if ms.len() != R {
        return false;
    }
    let undisclosed: Vec<usize> = (0..L).filter(|j| !didx.contains(j)).collect();
    if undisclosed.len() != U {
        return false; // duplicated indexes: (0..L) \ disclosed has not U elements
    }
    let Some(domain) = ref_domain(s, pk, &gens[0], &gens[1..], header, &api_id) else { return false };
    let H = &gens[1..];
    let T1 = Bbar * c + Abar * e_cap + D * r1_cap;
    let mut Bv = s.p1() + gens[0] * domain;
    for (k, &i) in didx.iter().enumerate() {
        Bv += H[i] * ms[k];
    }
    let mut T2 = Bv * c + D * r3_cap;
    for (k, &j) in undisclosed.iter().enumerate() {
        T2 += H[j] * m_cap[k];
    }
    // challenge
    let mut c_in: Vec<u8> = Vec::new();
    c_in.extend_from_slice(&(R as u64).to_be_bytes());
    for (k, &i) in didx.iter().enumerate() {
        c_in.extend_from_slice(&(i as u64).to_be_bytes());
        c_in.extend_from_slice(&sc_be(&ms[k]));
    }
    for p in [&Abar, &Bbar, &D, &T1, &T2] {
        c_in.extend_from_slice(&g1c(p));
    }
    c_in.extend_from_slice(&sc_be(&domain));
    c_in.extend_from_slice(&(ph.len() as u64).to_be_bytes());
    c_in.extend_from_slice(ph);
    let Some(cv) = ref_h2s(s, &c_in, &[&api_id[..], b"H2S_"].concat()) else { return false };
    if cv != c {
        return false;
    }
    pairing(&Abar.to_affine(), &W.to_affine()) == pairing(&Bbar.to_affine(), &G2Affine::generator())
}

// ---------------------------------------------------------------------------------------------
// helpers to drive the library
// ---------------------------------------------------------------------------------------------

const IKM: &[u8] = b"this-IS-just-an-Test-IKM-to-generate-$e(r@t#-key";
const KEY_INFO: &[u8] = b"this-IS-some-key-metadata-to-be-used-in-test-key-gen";

fn lib_keypair<CS: BbsCiphersuite>() -> (BBSplusSecretKey, BBSplusPublicKey)
where
    CS::Expander: for<'a> ExpandMsg<'a>,
{
    KeyPair::<BBSplus<CS>>::generate(IKM, Some(KEY_INFO), None)
        .unwrap()
        .into_parts()
}

fn msgs_n(n: usize) -> Vec<Vec<u8>> {
    (0..n)
        .map(|i| {
            let mut v = format!("message number {}", i).into_bytes();
            if i % 3 == 2 {
                v.clear(); // include empty messages
            }
            v
        })
        .collect()
}

fn read_json(path: &str) -> serde_json::Value {
    serde_json::from_str(&std::fs::read_to_string(path).expect(path)).unwrap()
}
fn hx(v: &serde_json::Value) -> Vec<u8> {
    hex::decode(v.as_str().unwrap()).unwrap()
}

macro_rules! both {
    ($f:ident) => {{
        // run both suites even when the first one fails, then report which ones failed
        let a = std::panic::catch_unwind(|| $f::<Bls12381Sha256>(Suite::Sha)).is_ok();
        let b = std::panic::catch_unwind(|| $f::<Bls12381Shake256>(Suite::Shake)).is_ok();
        assert!(a && b, "property violated: SHA-256 suite ok = {}, SHAKE-256 suite ok = {}", a, b);
    }};
}

// ---------------------------------------------------------------------------------------------
// 0. The reference reproduces the core fixtures
// ---------------------------------------------------------------------------------------------

#[test]
fn f00_reference_reproduces_core_fixtures() {
    for s in [Suite::Sha, Suite::Shake] {
        let base = format!("./fixture_data/{}/", s.dir());
        // keypair
        let j = read_json(&format!("{}keypair.json", base));
        let sk = ref_keygen(s, &hx(&j["keyMaterial"]), &hx(&j["keyInfo"]), Some(&hx(&j["keyDst"]))).unwrap();
        assert_eq!(hex::encode(sc_be(&sk)), j["keyPair"]["secretKey"].as_str().unwrap());
        assert_eq!(hex::encode(ref_sk_to_pk(&sk)), j["keyPair"]["publicKey"].as_str().unwrap());
        // default dst equals the fixture dst
        let sk2 = ref_keygen(s, &hx(&j["keyMaterial"]), &hx(&j["keyInfo"]), None).unwrap();
        assert_eq!(sk, sk2);
        // h2s
        let j = read_json(&format!("{}h2s.json", base));
        let x = ref_h2s(s, &hx(&j["message"]), &hx(&j["dst"])).unwrap();
        assert_eq!(hex::encode(sc_be(&x)), j["scalar"].as_str().unwrap());
        // map message to scalar
        let j = read_json(&format!("{}MapMessageToScalarAsHash.json", base));
        for c in j["cases"].as_array().unwrap() {
            let x = ref_msgs(s, &[hx(&c["message"])], &s.api_id()).unwrap();
            assert_eq!(hex::encode(sc_be(&x[0])), c["scalar"].as_str().unwrap());
        }
        // generators
        let j = read_json(&format!("{}generators.json", base));
        let exp: Vec<String> = j["MsgGenerators"].as_array().unwrap().iter().map(|g| g.as_str().unwrap().to_owned()).collect();
        let g = ref_generators(s, exp.len() + 1, &s.api_id());
        assert_eq!(hex::encode(g1c(&g[0])), j["Q1"].as_str().unwrap());
        assert_eq!(hex::encode(g1c(&s.p1())), j["P1"].as_str().unwrap());
        for (a, b) in g[1..].iter().zip(exp.iter()) {
            assert_eq!(&hex::encode(g1c(a)), b);
        }
        // signatures
        for n in 1..=10 {
            let j = read_json(&format!("{}signature/signature{:03}.json", base, n));
            let msgs: Vec<Vec<u8>> = j["messages"].as_array().unwrap().iter().map(hx).collect();
            let header = hx(&j["header"]);
            let sk = Option::<Scalar>::from(Scalar::from_be_bytes(&hx(&j["signerKeyPair"]["secretKey"]).try_into().unwrap())).unwrap();
            let pk = hx(&j["signerKeyPair"]["publicKey"]);
            let sig = hx(&j["signature"]);
            let valid = j["result"]["valid"].as_bool().unwrap();
            assert_eq!(ref_verify(s, &pk, &sig, &header, &msgs), valid, "{:?} signature {}", s, n);
            if valid {
                assert_eq!(ref_sign(s, &sk, &pk, &header, &msgs).unwrap().to_vec(), sig, "{:?} signature {}", s, n);
            }
        }
        // proofs
        for n in 1..=15 {
            let j = read_json(&format!("{}proof/proof{:03}.json", base, n));
            let msgs: Vec<Vec<u8>> = j["messages"].as_array().unwrap().iter().map(hx).collect();
            let idx: Vec<usize> = j["disclosedIndexes"].as_array().unwrap().iter().map(|v| v.as_u64().unwrap() as usize).collect();
            let dmsgs: Vec<Vec<u8>> = idx.iter().map(|&i| msgs[i].clone()).collect();
            let valid = j["result"]["valid"].as_bool().unwrap();
            let got = ref_proof_verify(s, &hx(&j["signerPublicKey"]), &hx(&j["proof"]), &hx(&j["header"]), &hx(&j["presentationHeader"]), &dmsgs, &idx);
            assert_eq!(got, valid, "{:?} proof {}", s, n);
        }
    }
}

// ---------------------------------------------------------------------------------------------
// 1. hash_to_scalar over message / dst length grid, refusal above 255
// ---------------------------------------------------------------------------------------------

fn h2s_grid<CS: BbsCiphersuite>(s: Suite)
where
    CS::Expander: for<'a> ExpandMsg<'a>,
{
    for ml in [0usize, 1, 31, 32, 63, 64, 65, 135, 136, 137, 255, 256, 65535, 65536, 70001] {
        let msg: Vec<u8> = (0..ml).map(|i| (i * 7 + 3) as u8).collect();
        for dl in [1usize, 2, 16, 47, 254, 255, 256, 257, 1000] {
            let dst: Vec<u8> = (0..dl).map(|i| (i * 11 + 5) as u8).collect();
            let lib = hash_to_scalar::<CS>(&msg, &dst).ok();
            let r = ref_h2s(s, &msg, &dst);
            assert_eq!(lib.is_some(), dl <= 255, "refusal bound, dst len {}", dl);
            assert_eq!(lib.map(|x| sc_be(&x)), r.map(|x| sc_be(&x)), "{:?} msg {} dst {}", s, ml, dl);
        }
    }
}
#[test]
fn f01_hash_to_scalar_grid() {
    both!(h2s_grid);
}

// ---------------------------------------------------------------------------------------------
// 2. key generation: outputs and the three refusals, at the exact bounds
// ---------------------------------------------------------------------------------------------

fn keygen_grid<CS: BbsCiphersuite>(s: Suite)
where
    CS::Expander: for<'a> ExpandMsg<'a>,
{
    let big: Vec<u8> = (0..70000usize).map(|i| (i % 251) as u8).collect();
    for il in [0usize, 1, 31, 32, 33, 48, 64, 1000] {
        for kl in [0usize, 1, 255, 256, 257, 65534, 65535, 65536] {
            for dst in [None, Some(1usize), Some(254), Some(255), Some(256)] {
                let ikm = &big[..il];
                let info = &big[100..100 + kl];
                let dstv = dst.map(|d| big[7..7 + d].to_vec());
                let lib = KeyPair::<BBSplus<CS>>::generate(ikm, Some(info), dstv.as_deref());
                let r = ref_keygen(s, ikm, info, dstv.as_deref());
                let must_refuse = il < 32 || kl > 65535 || dst.map(|d| d > 255).unwrap_or(false);
                assert_eq!(lib.is_err(), must_refuse, "ikm {} info {} dst {:?}", il, kl, dst);
                assert_eq!(r.is_none(), must_refuse);
                if let (Ok(kp), Some(sk)) = (lib, r) {
                    assert_eq!(kp.private_key().to_bytes(), sc_be(&sk));
                    assert_eq!(kp.public_key().to_bytes(), ref_sk_to_pk(&sk));
                    assert_eq!(kp.private_key().public_key().to_bytes(), ref_sk_to_pk(&sk));
                }
            }
        }
    }
    // None key_info == empty key_info
    let a = KeyPair::<BBSplus<CS>>::generate(IKM, None, None).unwrap();
    let b = KeyPair::<BBSplus<CS>>::generate(IKM, Some(&[]), None).unwrap();
    assert_eq!(a.private_key().to_bytes(), b.private_key().to_bytes());
    assert_eq!(a.private_key().to_bytes(), sc_be(&ref_keygen(s, IKM, &[], None).unwrap()));
}
#[test]
fn f02_keygen_grid_and_refusals() {
    both!(keygen_grid);
}

// The draft's KeyGen / hash_to_scalar abort only for len(dst) > 255. An empty key_dst is not refused by the
// draft text; expand_message is well defined for it (DST_prime = I2OSP(0,1)).
// READING: "zkryptium output = reference output" with the reference following the draft's pseudo-code literally.
fn keygen_empty_dst<CS: BbsCiphersuite>(s: Suite)
where
    CS::Expander: for<'a> ExpandMsg<'a>,
{
    let r = ref_keygen(s, IKM, KEY_INFO, Some(&[])).unwrap();
    let lib = KeyPair::<BBSplus<CS>>::generate(IKM, Some(KEY_INFO), Some(&[]));
    assert!(lib.is_ok(), "{:?}: key_dst = \"\" refused by the library: {:?}", s, lib.err());
    assert_eq!(lib.unwrap().private_key().to_bytes(), sc_be(&r));
}
#[test]
fn f03_keygen_empty_key_dst() {
    both!(keygen_empty_dst);
}

// ---------------------------------------------------------------------------------------------
// 3. generators: counts 0.., api_id None / empty / suite / blind / oversize (DST > 255), prefix consistency
// ---------------------------------------------------------------------------------------------

fn generators_grid<CS: BbsCiphersuite>(s: Suite)
where
    CS::Expander: for<'a> ExpandMsg<'a>,
{
    let long: Vec<u8> = (0..400usize).map(|i| b'a' + (i % 26) as u8).collect();
    let mut api_ids: Vec<Option<Vec<u8>>> = vec![
        None,
        Some(vec![]),
        Some(s.api_id()),
        Some(CS::API_ID.to_vec()),
        Some(CS::API_ID_BLIND.to_vec()),
        Some([b"BLIND_", CS::API_ID_BLIND].concat()),
        Some(vec![0u8]),
        Some(long.clone()),
    ];
    // DST lengths straddling 255 for seed dst (19 byte suffix) and generator dst (18 byte suffix)
    for l in [255 - 19, 256 - 19, 255 - 18, 256 - 18, 255, 256] {
        api_ids.push(Some(long[..l].to_vec()));
    }
    for a in &api_ids {
        let full = ref_generators(s, 4, a.as_deref().unwrap_or(&[]));
        for count in [0usize, 1, 2, 4] {
            let lib = Generators::create::<CS>(count, a.as_deref());
            assert_eq!(lib.values.len(), count);
            assert_eq!(lib.g1_base_point, s.p1());
            for i in 0..count {
                assert_eq!(g1c(&lib.values[i]), g1c(&full[i]), "{:?} api_id {:?} count {} i {}", s, a.as_ref().map(|x| x.len()), count, i);
            }
        }
    }
    assert_eq!(CS::API_ID, &s.api_id()[..]);
}
#[test]
fn f04_generators_grid() {
    both!(generators_grid);
}

fn generators_many<CS: BbsCiphersuite>(s: Suite)
where
    CS::Expander: for<'a> ExpandMsg<'a>,
{
    let n = 300; // crosses i = 255 / 256 in I2OSP(i, 8)
    let lib = Generators::create::<CS>(n, Some(CS::API_ID));
    let r = ref_generators(s, n, &s.api_id());
    for i in 0..n {
        assert_eq!(g1c(&lib.values[i]), g1c(&r[i]), "i = {}", i);
    }
}
#[test]
fn f05_generators_300() {
    both!(generators_many);
}

// ---------------------------------------------------------------------------------------------
// 4. messages_to_scalars: api_id shapes, refusal when the DST exceeds 255
// ---------------------------------------------------------------------------------------------

fn msgs_grid<CS: BbsCiphersuite>(s: Suite)
where
    CS::Expander: for<'a> ExpandMsg<'a>,
{
    let long: Vec<u8> = (0..400usize).map(|i| b'a' + (i % 26) as u8).collect();
    let msgs = vec![vec![], vec![0u8], vec![0u8; 2], msgs_n(2)[1].clone(), long.clone(), vec![0xffu8; 65537]];
    for al in [0usize, 1, 46, 255 - 26, 256 - 26, 300] {
        let api = &long[..al];
        let lib = BBSplusMessage::messages_to_scalar::<CS>(&msgs, api).ok();
        let r = ref_msgs(s, &msgs, api);
        assert_eq!(lib.is_some(), r.is_some(), "api_id len {}", al);
        if let (Some(l), Some(r)) = (lib, r) {
            assert_eq!(l.iter().map(|m| m.to_bytes_be()).collect::<Vec<_>>(), r.iter().map(sc_be).collect::<Vec<_>>());
        }
        for m in &msgs {
            let l = BBSplusMessage::map_message_to_scalar_as_hash::<CS>(m, api).ok().map(|x| x.to_bytes_be());
            assert_eq!(l, ref_msgs(s, &[m.clone()], api).map(|v| sc_be(&v[0])));
        }
    }
    // empty list
    assert!(BBSplusMessage::messages_to_scalar::<CS>(&[], CS::API_ID).unwrap().is_empty());
}
#[test]
fn f06_messages_to_scalars_grid() {
    both!(msgs_grid);
}

// ---------------------------------------------------------------------------------------------
// 5. Sign: byte-for-byte for L and header lengths around the 1-byte boundaries, None vs empty
// ---------------------------------------------------------------------------------------------

fn sign_grid<CS: BbsCiphersuite>(s: Suite)
where
    CS::Expander: for<'a> ExpandMsg<'a>,
{
    let (sk, pk) = lib_keypair::<CS>();
    let skr = ref_keygen(s, IKM, KEY_INFO, None).unwrap();
    assert_eq!(sk.to_bytes(), sc_be(&skr));
    let pkb = pk.to_bytes();
    let hdr: Vec<u8> = (0..70000usize).map(|i| (i % 253) as u8).collect();
    for (L, hl) in [(0usize, None), (0, Some(0usize)), (0, Some(256)), (1, None), (1, Some(1)), (2, Some(255)), (3, Some(256)), (5, Some(65536)), (7, Some(70000)), (10, Some(16))] {
        let msgs = msgs_n(L);
        let header = hl.map(|h| &hdr[..h]);
        let lib = Signature::<BBSplus<CS>>::sign(Some(&msgs), &sk, &pk, header).unwrap();
        let r = ref_sign(s, &skr, &pkb, header.unwrap_or(&[]), &msgs).unwrap();
        assert_eq!(lib.to_bytes(), r, "{:?} L {} header {:?}", s, L, hl);
        assert!(lib.verify(&pk, Some(&msgs), header).is_ok());
        assert!(ref_verify(s, &pkb, &lib.to_bytes(), header.unwrap_or(&[]), &msgs));
        if L == 0 {
            let lib2 = Signature::<BBSplus<CS>>::sign(None, &sk, &pk, header).unwrap();
            assert_eq!(lib2.to_bytes(), r);
            assert!(lib2.verify(&pk, None, header).is_ok());
        }
    }
}
#[test]
fn f07_sign_grid() {
    both!(sign_grid);
}

fn sign_large_L<CS: BbsCiphersuite>(s: Suite)
where
    CS::Expander: for<'a> ExpandMsg<'a>,
{
    let (sk, pk) = lib_keypair::<CS>();
    let skr = ref_keygen(s, IKM, KEY_INFO, None).unwrap();
    for L in [255usize, 256] {
        let msgs = msgs_n(L);
        let lib = Signature::<BBSplus<CS>>::sign(Some(&msgs), &sk, &pk, Some(b"h")).unwrap();
        let r = ref_sign(s, &skr, &pk.to_bytes(), b"h", &msgs).unwrap();
        assert_eq!(lib.to_bytes(), r, "{:?} L {}", s, L);
        assert!(lib.verify(&pk, Some(&msgs), Some(b"h")).is_ok());
    }
}
#[test]
fn f08_sign_L_255_256() {
    both!(sign_large_L);
}

// ---------------------------------------------------------------------------------------------
// 6. Verify: decision equality on honest and mutated signatures / inputs
// ---------------------------------------------------------------------------------------------

fn lib_verify_bytes<CS: BbsCiphersuite>(pk: &[u8], sig: &[u8], header: Option<&[u8]>, msgs: Option<&[Vec<u8>]>) -> bool
where
    CS::Expander: for<'a> ExpandMsg<'a>,
{
    let Ok(pk) = BBSplusPublicKey::from_bytes(pk) else { return false };
    let Ok(sig) = <&[u8; 80]>::try_from(sig) else { return false };
    let Ok(sig) = Signature::<BBSplus<CS>>::from_bytes(sig) else { return false };
    sig.verify(&pk, msgs, header).is_ok()
}

fn verify_mutations<CS: BbsCiphersuite>(s: Suite)
where
    CS::Expander: for<'a> ExpandMsg<'a>,
{
    let (sk, pk) = lib_keypair::<CS>();
    let pkb = pk.to_bytes().to_vec();
    let msgs = msgs_n(3);
    let header = b"hdr".to_vec();
    let sig = Signature::<BBSplus<CS>>::sign(Some(&msgs), &sk, &pk, Some(&header)).unwrap().to_bytes().to_vec();

    let mut cases: Vec<(String, Vec<u8>, Vec<u8>, Vec<u8>, Vec<Vec<u8>>)> = Vec::new();
    cases.push(("honest".into(), pkb.clone(), sig.clone(), header.clone(), msgs.clone()));
    for pos in [0usize, 1, 20, 47, 48, 60, 79] {
        for bit in [0u8, 7] {
            let mut x = sig.clone();
            x[pos] ^= 1 << bit;
            cases.push((format!("sig byte {} bit {}", pos, bit), pkb.clone(), x, header.clone(), msgs.clone()));
        }
    }
    // special encodings
    let mut inf = vec![0u8; 48];
    inf[0] = 0xc0;
    let r_be = hex::decode("73eda753299d7d483339d80809a1d80553bda402fffe5bfeffffffff00000001").unwrap();
    let mut x = sig.clone();
    x[..48].copy_from_slice(&inf);
    cases.push(("A = identity".into(), pkb.clone(), x, header.clone(), msgs.clone()));
    let mut x = sig.clone();
    x[48..].copy_from_slice(&[0u8; 32]);
    cases.push(("e = 0".into(), pkb.clone(), x, header.clone(), msgs.clone()));
    let mut x = sig.clone();
    x[48..].copy_from_slice(&r_be);
    cases.push(("e = r".into(), pkb.clone(), x, header.clone(), msgs.clone()));
    // e + r (non canonical representative of the honest e), when it fits in 32 bytes it is >= r anyway
    let mut x = sig.clone();
    x[48..].copy_from_slice(&[0xffu8; 32]);
    cases.push(("e = 2^256-1".into(), pkb.clone(), x, header.clone(), msgs.clone()));
    cases.push(("sig short".into(), pkb.clone(), sig[..79].to_vec(), header.clone(), msgs.clone()));
    cases.push(("sig long".into(), pkb.clone(), [sig.clone(), vec![0]].concat(), header.clone(), msgs.clone()));
    // inputs
    cases.push(("header empty".into(), pkb.clone(), sig.clone(), vec![], msgs.clone()));
    cases.push(("header +0".into(), pkb.clone(), sig.clone(), [header.clone(), vec![0]].concat(), msgs.clone()));
    cases.push(("msgs swapped".into(), pkb.clone(), sig.clone(), header.clone(), vec![msgs[1].clone(), msgs[0].clone(), msgs[2].clone()]));
    cases.push(("msgs fewer".into(), pkb.clone(), sig.clone(), header.clone(), msgs[..2].to_vec()));
    cases.push(("msgs more".into(), pkb.clone(), sig.clone(), header.clone(), [msgs.clone(), vec![vec![]]].concat()));
    cases.push(("msgs none".into(), pkb.clone(), sig.clone(), header.clone(), vec![]));
    // public key encodings
    let mut pinf = vec![0u8; 96];
    pinf[0] = 0xc0;
    cases.push(("pk identity".into(), pinf, sig.clone(), header.clone(), msgs.clone()));
    let mut p = pkb.clone();
    p[95] ^= 1;
    cases.push(("pk flipped".into(), p, sig.clone(), header.clone(), msgs.clone()));
    let mut p = pkb.clone();
    p[0] ^= 0x20; // sign flag: -PK
    cases.push(("pk negated".into(), p, sig.clone(), header.clone(), msgs.clone()));
    cases.push(("pk short".into(), pkb[..95].to_vec(), sig.clone(), header.clone(), msgs.clone()));
    cases.push(("pk = other key".into(), ref_sk_to_pk(&Scalar::from(5u64)).to_vec(), sig.clone(), header.clone(), msgs.clone()));

    for (name, pk, sg, h, m) in cases {
        let l = lib_verify_bytes::<CS>(&pk, &sg, Some(&h), Some(&m));
        let r = ref_verify(s, &pk, &sg, &h, &m);
        assert_eq!(l, r, "{:?} case {}", s, name);
        if name == "honest" {
            assert!(l);
        } else {
            assert!(!l, "{:?} case {} accepted", s, name);
        }
    }
    // None vs empty header on verify
    let sig0 = Signature::<BBSplus<CS>>::sign(Some(&msgs), &sk, &pk, None).unwrap();
    assert!(sig0.verify(&pk, Some(&msgs), Some(&[])).is_ok());
    assert!(ref_verify(s, &pkb, &sig0.to_bytes(), &[], &msgs));
}
#[test]
fn f09_verify_decisions_on_mutations() {
    both!(verify_mutations);
}

// ---------------------------------------------------------------------------------------------
// 7. ProofVerify: decision equality on honest and mutated proofs / inputs
// ---------------------------------------------------------------------------------------------

fn lib_proof_verify_bytes<CS: BbsCiphersuite>(
    pk: &[u8],
    proof: &[u8],
    header: Option<&[u8]>,
    ph: Option<&[u8]>,
    dmsgs: Option<&[Vec<u8>]>,
    didx: Option<&[usize]>,
) -> bool
where
    CS::Expander: for<'a> ExpandMsg<'a>,
{
    let Ok(pk) = BBSplusPublicKey::from_bytes(pk) else { return false };
    let Ok(p) = PoKSignature::<BBSplus<CS>>::from_bytes(proof) else { return false };
    p.proof_verify(&pk, dmsgs, didx, header, ph).is_ok()
}

fn proof_shapes<CS: BbsCiphersuite>(s: Suite)
where
    CS::Expander: for<'a> ExpandMsg<'a>,
{
    let (sk, pk) = lib_keypair::<CS>();
    let pkb = pk.to_bytes().to_vec();
    let hdr: Vec<u8> = (0..300usize).map(|i| i as u8).collect();
    // (L, disclosed, header, ph)
    let shapes: Vec<(usize, Vec<usize>, Option<&[u8]>, Option<&[u8]>)> = vec![
        (0, vec![], None, None),
        (0, vec![], Some(&[]), Some(&[])),
        (1, vec![], None, Some(b"ph")),
        (1, vec![0], Some(b"h"), None),
        (2, vec![1], Some(&hdr[..256]), Some(&hdr[..256])),
        (5, vec![0, 2, 4], Some(&hdr[..255]), Some(&hdr[..1])),
        (5, vec![0, 1, 2, 3, 4], Some(b"h"), Some(b"p")),
        (5, vec![4], Some(b"h"), Some(b"p")),
        (6, vec![], Some(b"h"), Some(b"p")),
    ];
    for (L, didx, header, ph) in shapes {
        let msgs = msgs_n(L);
        let sig = Signature::<BBSplus<CS>>::sign(Some(&msgs), &sk, &pk, header).unwrap().to_bytes();
        let proof = PoKSignature::<BBSplus<CS>>::proof_gen(&pk, &sig, header, ph, Some(&msgs), Some(&didx))
            .unwrap_or_else(|e| panic!("honest proof_gen failed L {} {:?}: {:?}", L, didx, e));
        let pb = proof.to_bytes();
        assert_eq!(pb.len(), 272 + 32 * (L - didx.len()));
        let dmsgs: Vec<Vec<u8>> = didx.iter().map(|&i| msgs[i].clone()).collect();
        let l = lib_proof_verify_bytes::<CS>(&pkb, &pb, header, ph, Some(&dmsgs), Some(&didx));
        let r = ref_proof_verify(s, &pkb, &pb, header.unwrap_or(&[]), ph.unwrap_or(&[]), &dmsgs, &didx);
        assert!(l, "{:?} honest proof rejected by the library: L {} {:?}", s, L, didx);
        assert!(r, "{:?} honest proof rejected by the reference: L {} {:?}", s, L, didx);
        if didx.is_empty() {
            // None vs empty
            assert!(lib_proof_verify_bytes::<CS>(&pkb, &pb, header, ph, None, None));
            assert!(lib_proof_verify_bytes::<CS>(&pkb, &pb, header, ph, Some(&[]), None));
            assert!(lib_proof_verify_bytes::<CS>(&pkb, &pb, header, ph, None, Some(&[])));
        }
        if L == 0 {
            let p2 = PoKSignature::<BBSplus<CS>>::proof_gen(&pk, &sig, header, ph, None, None).unwrap();
            assert!(p2.proof_verify(&pk, None, None, header, ph).is_ok());
        }
        // header / ph: None == empty
        let l2 = lib_proof_verify_bytes::<CS>(&pkb, &pb, Some(header.unwrap_or(&[])), Some(ph.unwrap_or(&[])), Some(&dmsgs), Some(&didx));
        assert!(l2);
    }
}
#[test]
fn f10_proof_honest_shapes() {
    both!(proof_shapes);
}

fn proof_mutations<CS: BbsCiphersuite>(s: Suite)
where
    CS::Expander: for<'a> ExpandMsg<'a>,
{
    let (sk, pk) = lib_keypair::<CS>();
    let pkb = pk.to_bytes().to_vec();
    let L = 5;
    let msgs = msgs_n(L);
    let header = b"header".to_vec();
    let ph = b"ph".to_vec();
    let didx = vec![1usize, 3];
    let dmsgs: Vec<Vec<u8>> = didx.iter().map(|&i| msgs[i].clone()).collect();
    let sig = Signature::<BBSplus<CS>>::sign(Some(&msgs), &sk, &pk, Some(&header)).unwrap().to_bytes();
    let pb = PoKSignature::<BBSplus<CS>>::proof_gen(&pk, &sig, Some(&header), Some(&ph), Some(&msgs), Some(&didx)).unwrap().to_bytes();
    assert_eq!(pb.len(), 272 + 3 * 32);

    type Case = (String, Vec<u8>, Vec<u8>, Vec<u8>, Vec<u8>, Vec<Vec<u8>>, Vec<usize>);
    let mut cases: Vec<Case> = Vec::new();
    let base = |name: &str| -> Case { (name.to_owned(), pkb.clone(), pb.clone(), header.clone(), ph.clone(), dmsgs.clone(), didx.clone()) };
    cases.push(base("honest"));
    for pos in [0usize, 47, 48, 100, 143, 144, 175, 176, 208, 240, 272, 304, 336, 367] {
        let mut c = base(&format!("proof byte {}", pos));
        c.2[pos] ^= 1;
        cases.push(c);
    }
    let mut inf = vec![0u8; 48];
    inf[0] = 0xc0;
    for k in 0..3 {
        let mut c = base(&format!("point {} = identity", k));
        c.2[48 * k..48 * (k + 1)].copy_from_slice(&inf);
        cases.push(c);
    }
    for k in 0..7 {
        let mut c = base(&format!("scalar {} = 0", k));
        c.2[144 + 32 * k..144 + 32 * (k + 1)].copy_from_slice(&[0u8; 32]);
        cases.push(c);
        let mut c = base(&format!("scalar {} = r", k));
        c.2[144 + 32 * k..144 + 32 * (k + 1)].copy_from_slice(&hex::decode("73eda753299d7d483339d80809a1d80553bda402fffe5bfeffffffff00000001").unwrap());
        cases.push(c);
    }
    let mut c = base("truncated 1 byte");
    c.2.pop();
    cases.push(c);
    let mut c = base("truncated 32 bytes");
    c.2.truncate(pb.len() - 32);
    cases.push(c);
    let mut c = base("extended 32 bytes");
    c.2.extend_from_slice(&[1u8; 32]);
    cases.push(c);
    let mut c = base("extended 1 byte");
    c.2.push(0);
    cases.push(c);
    let mut c = base("only 271 bytes");
    c.2.truncate(271);
    cases.push(c);
    let mut c = base("m_cap swapped");
    let (a, b) = (c.2[240..272].to_vec(), c.2[272..304].to_vec());
    c.2[240..272].copy_from_slice(&b);
    c.2[272..304].copy_from_slice(&a);
    cases.push(c);
    // inputs
    let mut c = base("header differs");
    c.3.push(0);
    cases.push(c);
    let mut c = base("header empty");
    c.3.clear();
    cases.push(c);
    let mut c = base("ph differs");
    c.4[0] ^= 1;
    cases.push(c);
    let mut c = base("ph empty");
    c.4.clear();
    cases.push(c);
    let mut c = base("disclosed message differs");
    c.5[0].push(0);
    cases.push(c);
    let mut c = base("indexes reversed, messages as is");
    c.6.reverse();
    cases.push(c);
    let mut c = base("indexes reversed with their messages");
    c.6.reverse();
    c.5.reverse();
    cases.push(c);
    let mut c = base("duplicated index");
    c.6 = vec![1, 1];
    c.5 = vec![msgs[1].clone(), msgs[1].clone()];
    cases.push(c);
    let mut c = base("duplicated index, 3 entries");
    c.6 = vec![1, 1, 3];
    c.5 = vec![msgs[1].clone(), msgs[1].clone(), msgs[3].clone()];
    cases.push(c);
    let mut c = base("other indexes");
    c.6 = vec![0, 3];
    cases.push(c);
    let mut c = base("index out of range L");
    c.6 = vec![1, 5];
    cases.push(c);
    let mut c = base("index usize::MAX");
    c.6 = vec![1, usize::MAX];
    cases.push(c);
    let mut c = base("fewer messages than indexes");
    c.5.pop();
    cases.push(c);
    let mut c = base("more messages than indexes");
    c.5.push(vec![]);
    cases.push(c);
    let mut c = base("no indexes, no messages");
    c.5.clear();
    c.6.clear();
    cases.push(c);
    let mut c = base("one more disclosed (real) message: L changes");
    c.6 = vec![1, 3, 4];
    c.5.push(msgs[4].clone());
    cases.push(c);
    let mut pinf = vec![0u8; 96];
    pinf[0] = 0xc0;
    let mut c = base("pk identity");
    c.1 = pinf;
    cases.push(c);
    let mut c = base("pk other");
    c.1 = ref_sk_to_pk(&Scalar::from(7u64)).to_vec();
    cases.push(c);

    for (name, pk, p, h, ph, dm, di) in cases {
        let l = lib_proof_verify_bytes::<CS>(&pk, &p, Some(&h), Some(&ph), Some(&dm), Some(&di));
        let r = ref_proof_verify(s, &pk, &p, &h, &ph, &dm, &di);
        assert_eq!(l, r, "{:?} case {}", s, name);
        assert_eq!(l, name == "honest", "{:?} case {}", s, name);
    }
}
#[test]
fn f11_proof_decisions_on_mutations() {
    both!(proof_mutations);
}

// proof_gen input shapes: the draft's ProofGen refuses out-of-range indexes and R > L
fn proof_gen_inputs<CS: BbsCiphersuite>(_s: Suite)
where
    CS::Expander: for<'a> ExpandMsg<'a>,
{
    let (sk, pk) = lib_keypair::<CS>();
    let msgs = msgs_n(3);
    let sig = Signature::<BBSplus<CS>>::sign(Some(&msgs), &sk, &pk, None).unwrap().to_bytes();
    let gen = |m: Option<&[Vec<u8>]>, i: Option<&[usize]>, sg: &[u8]| PoKSignature::<BBSplus<CS>>::proof_gen(&pk, sg, None, None, m, i);
    assert!(gen(Some(&msgs), Some(&[3]), &sig).is_err());
    assert!(gen(Some(&msgs), Some(&[usize::MAX]), &sig).is_err());
    assert!(gen(Some(&msgs), Some(&[0, 1, 2, 3]), &sig).is_err());
    assert!(gen(None, Some(&[0]), &sig).is_err());
    assert!(gen(Some(&msgs), None, &sig[..79]).is_err());
    assert!(gen(Some(&msgs), None, &[&sig[..], &[0u8][..]].concat()).is_err());
    let mut bad = sig;
    bad[48..].copy_from_slice(&[0u8; 32]);
    assert!(gen(Some(&msgs), None, &bad).is_err()); // e = 0 refused by octets_to_signature
    // wrong message list: draft's ProofGen does not verify the signature, a proof is produced but must not verify
    let p = gen(Some(&msgs[..2]), Some(&[0]), &sig).unwrap();
    assert!(p.proof_verify(&pk, Some(&msgs[..1]), Some(&[0]), None, None).is_err());
}
#[test]
fn f12_proof_gen_input_shapes() {
    both!(proof_gen_inputs);
}

// ---------------------------------------------------------------------------------------------
// 8. Public key validation (octets_to_pubkey: W must not be Identity_G2) on every route that yields a
//    BBSplusPublicKey usable by the verifiers: bytes, coordinates, serde, secret key -> public key.
// ---------------------------------------------------------------------------------------------

/// A "signature" that satisfies e(A, W + BP2*e) = e(B, BP2) for W = Identity_G2: A = B * (1/e). Anyone can compute it.
fn forge_for_identity_pk(s: Suite, pk_bytes: &[u8], header: &[u8], msgs: &[Vec<u8>]) -> [u8; 80] {
    let api_id = s.api_id();
    let ms = ref_msgs(s, msgs, &api_id).unwrap();
    let gens = ref_generators(s, msgs.len() + 1, &api_id);
    let domain = ref_domain(s, pk_bytes, &gens[0], &gens[1..], header, &api_id).unwrap();
    let mut B = s.p1() + gens[0] * domain;
    for (h, m) in gens[1..].iter().zip(ms.iter()) {
        B += h * m;
    }
    let e = Scalar::from(2u64);
    let A = B * e.invert().unwrap();
    let mut out = [0u8; 80];
    out[..48].copy_from_slice(&g1c(&A));
    out[48..].copy_from_slice(&sc_be(&e));
    out
}

fn identity_pk_bytes() -> [u8; 96] {
    let mut b = [0u8; 96];
    b[0] = 0xc0;
    b
}

fn pk_identity_from_bytes_and_coordinates<CS: BbsCiphersuite>(_s: Suite)
where
    CS::Expander: for<'a> ExpandMsg<'a>,
{
    assert!(BBSplusPublicKey::from_bytes(&identity_pk_bytes()).is_err());
    let mut x = [0u8; 96];
    x[0] = 0x40; // uncompressed infinity
    assert!(BBSplusPublicKey::from_coordinates(&x, &[0u8; 96]).is_err());
}
#[test]
fn f13_pk_identity_refused_by_byte_decoders() {
    both!(pk_identity_from_bytes_and_coordinates);
}

// serde JSON form of the public key type
fn pk_identity_serde<CS: BbsCiphersuite>(s: Suite)
where
    CS::Expander: for<'a> ExpandMsg<'a>,
{
    let (_, honest_pk) = lib_keypair::<CS>();
    let honest_json = serde_json::to_string(&honest_pk).unwrap();
    let id_json = serde_json::to_string(&BBSplusPublicKey(G2Projective::IDENTITY)).unwrap();
    assert_ne!(honest_json, id_json);
    let msgs = msgs_n(2);
    let forged = forge_for_identity_pk(s, &identity_pk_bytes(), b"h", &msgs);
    // reference decision: INVALID (octets_to_pubkey refuses the identity)
    assert!(!ref_verify(s, &identity_pk_bytes(), &forged, b"h", &msgs));
    // library decision through the JSON decoder of its public type
    let lib = match serde_json::from_str::<BBSplusPublicKey>(&id_json) {
        Err(_) => false,
        Ok(pk) => Signature::<BBSplus<CS>>::from_bytes(&forged).unwrap().verify(&pk, Some(&msgs), Some(b"h")).is_ok(),
    };
    assert!(!lib, "{:?}: a signature computed without any secret verifies under the JSON-decoded identity public key {}", s, id_json);
}
#[test]
fn f14_pk_identity_through_serde_json() {
    both!(pk_identity_serde);
}

// secret key decoder: SK = 0 gives PK = Identity_G2 (draft: 0 < SK < r)
fn sk_zero<CS: BbsCiphersuite>(s: Suite)
where
    CS::Expander: for<'a> ExpandMsg<'a>,
{
    let msgs = msgs_n(2);
    let lib = match BBSplusSecretKey::from_bytes(&[0u8; 32]) {
        Err(_) => false,
        Ok(sk) => {
            let pk = sk.public_key();
            assert_eq!(pk.to_bytes(), identity_pk_bytes());
            let forged = forge_for_identity_pk(s, &pk.to_bytes(), b"h", &msgs);
            assert!(!ref_verify(s, &pk.to_bytes(), &forged, b"h", &msgs));
            Signature::<BBSplus<CS>>::from_bytes(&forged).unwrap().verify(&pk, Some(&msgs), Some(b"h")).is_ok()
        }
    };
    assert!(!lib, "{:?}: SK = 0 is decoded, its public key is Identity_G2 and a forged signature verifies under it", s);
}
#[test]
fn f15_sk_zero_gives_identity_pk_that_verifies_forgeries() {
    both!(sk_zero);
}

// ---------------------------------------------------------------------------------------------
// 9. Signature with e = 0 / A = identity built through the public fields or serde (octets_to_signature refuses both)
// ---------------------------------------------------------------------------------------------

fn sig_e_zero<CS: BbsCiphersuite>(s: Suite)
where
    CS::Expander: for<'a> ExpandMsg<'a>,
{
    let (sk, pk) = lib_keypair::<CS>();
    let skr = ref_keygen(s, IKM, KEY_INFO, None).unwrap();
    let msgs = msgs_n(2);
    let api_id = s.api_id();
    let ms = ref_msgs(s, &msgs, &api_id).unwrap();
    let gens = ref_generators(s, 3, &api_id);
    let domain = ref_domain(s, &pk.to_bytes(), &gens[0], &gens[1..], b"h", &api_id).unwrap();
    let mut B = s.p1() + gens[0] * domain;
    for (h, m) in gens[1..].iter().zip(ms.iter()) {
        B += h * m;
    }
    let A = B * skr.invert().unwrap(); // signer-made signature with e = 0
    let _ = sk;
    let sig = Signature::<BBSplus<CS>>::BBSplus(BBSplusSignature { A, e: Scalar::ZERO });
    let octets = sig.to_bytes();
    assert!(!ref_verify(s, &pk.to_bytes(), &octets, b"h", &msgs), "reference refuses e = 0");
    assert!(Signature::<BBSplus<CS>>::from_bytes(&octets).is_err(), "byte decoder refuses e = 0");
    // same value through serde JSON
    let json = serde_json::to_string(&sig).unwrap();
    let lib = match serde_json::from_str::<Signature<BBSplus<CS>>>(&json) {
        Err(_) => false,
        Ok(sg) => sg.verify(&pk, Some(&msgs), Some(b"h")).is_ok(),
    };
    assert!(!lib, "{:?}: a signature with e = 0 decoded from JSON {} is accepted by verify", s, json);
}
#[test]
fn f16_signature_e_zero_through_serde_json() {
    both!(sig_e_zero);
}

// ---------------------------------------------------------------------------------------------
// 10. Blind extension: honest flows over shapes nobody tried (None vs empty, L = 0, M = 0, no commitment)
// ---------------------------------------------------------------------------------------------

fn blind_round_trips<CS: BbsCiphersuite>(_s: Suite)
where
    CS::Expander: for<'a> ExpandMsg<'a>,
{
    let (sk, pk) = lib_keypair::<CS>();
    let hdr: Vec<u8> = (0..300usize).map(|i| i as u8).collect();
    // (L, M (None = no commitment at all), header, disclosed, disclosed committed)
    let shapes: Vec<(usize, Option<usize>, Option<&[u8]>, Vec<usize>, Vec<usize>)> = vec![
        (0, None, None, vec![], vec![]),
        (0, Some(0), None, vec![], vec![]),
        (0, Some(1), Some(&[]), vec![], vec![0]),
        (1, None, Some(b"h"), vec![0], vec![]),
        (2, Some(0), Some(&hdr[..256]), vec![1], vec![]),
        (3, Some(2), Some(&hdr[..255]), vec![0, 2], vec![1]),
        (3, Some(3), Some(b"h"), vec![0, 1, 2], vec![0, 1, 2]),
        (2, Some(2), Some(b"h"), vec![], vec![]),
    ];
    for (L, M, header, didx, dcidx) in shapes {
        let msgs = msgs_n(L);
        let committed: Vec<Vec<u8>> = (0..M.unwrap_or(0)).map(|i| format!("committed {}", i).into_bytes()).collect();
        let tag = format!("L {} M {:?}", L, M);
        let (cwp, blind): (Option<Vec<u8>>, Option<BlindFactor>) = match M {
            None => (None, None),
            Some(0) => {
                let (c, b) = Commitment::<BBSplus<CS>>::commit(None).expect(&tag);
                (Some(c.to_bytes()), Some(b))
            }
            Some(_) => {
                let (c, b) = Commitment::<BBSplus<CS>>::commit(Some(&committed)).expect(&tag);
                (Some(c.to_bytes()), Some(b))
            }
        };
        if let Some(c) = &cwp {
            assert_eq!(c.len(), 48 + 32 * (M.unwrap() + 2));
            let again = Commitment::<BBSplus<CS>>::from_bytes(c).unwrap();
            assert_eq!(&again.to_bytes(), c);
        }
        let msgs_opt: Option<&[Vec<u8>]> = if L == 0 { None } else { Some(&msgs) };
        let com_opt: Option<&[Vec<u8>]> = if committed.is_empty() { None } else { Some(&committed) };
        let sig = BlindSignature::<BBSplus<CS>>::blind_sign(&sk, &pk, cwp.as_deref(), header, msgs_opt)
            .unwrap_or_else(|e| panic!("honest blind_sign failed {}: {:?}", tag, e));
        // deterministic
        let sig2 = BlindSignature::<BBSplus<CS>>::blind_sign(&sk, &pk, cwp.as_deref(), header, Some(&msgs)).unwrap();
        assert_eq!(sig.to_bytes(), sig2.to_bytes(), "None vs empty messages {}", tag);
        if cwp.is_none() {
            let sig3 = BlindSignature::<BBSplus<CS>>::blind_sign(&sk, &pk, Some(&[]), header, msgs_opt).unwrap();
            assert_eq!(sig.to_bytes(), sig3.to_bytes(), "None vs empty commitment {}", tag);
        }
        sig.verify_blind_sign(&pk, header, msgs_opt, com_opt, blind.as_ref())
            .unwrap_or_else(|e| panic!("honest verify_blind_sign failed {}: {:?}", tag, e));
        sig.verify_blind_sign(&pk, header, Some(&msgs), Some(&committed), blind.as_ref()).expect(&tag);
        if blind.is_none() {
            let zero = BlindFactor::from_bytes(&[0u8; 32]).unwrap();
            sig.verify_blind_sign(&pk, header, msgs_opt, com_opt, Some(&zero)).expect(&tag);
        }
        let sig_rt = BlindSignature::<BBSplus<CS>>::from_bytes(&sig.to_bytes()).unwrap();
        assert!(sig_rt == sig);

        let ph: Option<&[u8]> = Some(b"presentation");
        let proof = PoKSignature::<BBSplus<CS>>::blind_proof_gen(&pk, &sig.to_bytes(), header, ph, msgs_opt, com_opt, Some(&didx), Some(&dcidx), blind.as_ref())
            .unwrap_or_else(|e| panic!("honest blind_proof_gen failed {}: {:?}", tag, e));
        let proof = PoKSignature::<BBSplus<CS>>::from_bytes(&proof.to_bytes()).unwrap();
        let dm: Vec<Vec<u8>> = didx.iter().map(|&i| msgs[i].clone()).collect();
        let dcm: Vec<Vec<u8>> = dcidx.iter().map(|&i| committed[i].clone()).collect();
        proof
            .blind_proof_verify(&pk, header, ph, Some(L), Some(&dm), Some(&dcm), Some(&didx), Some(&dcidx))
            .unwrap_or_else(|e| panic!("honest blind_proof_verify failed {}: {:?}", tag, e));
        if L == 0 {
            proof.blind_proof_verify(&pk, header, ph, None, None, Some(&dcm), None, Some(&dcidx)).expect(&tag);
        }
        // negative: wrong L, wrong ph, wrong disclosed message, plain verifier on blind proof
        assert!(proof.blind_proof_verify(&pk, header, ph, Some(L + 1), Some(&dm), Some(&dcm), Some(&didx), Some(&dcidx)).is_err(), "{}", tag);
        if L > 0 {
            assert!(proof.blind_proof_verify(&pk, header, ph, Some(L - 1), Some(&dm), Some(&dcm), Some(&didx), Some(&dcidx)).is_err(), "{}", tag);
        }
        assert!(proof.blind_proof_verify(&pk, header, ph, Some(usize::MAX), Some(&dm), Some(&dcm), Some(&didx), Some(&dcidx)).is_err(), "{}", tag);
        assert!(proof.blind_proof_verify(&pk, header, Some(b"other"), Some(L), Some(&dm), Some(&dcm), Some(&didx), Some(&dcidx)).is_err(), "{}", tag);
        if !dcm.is_empty() {
            let mut bad = dcm.clone();
            bad[0].push(1);
            assert!(proof.blind_proof_verify(&pk, header, ph, Some(L), Some(&dm), Some(&bad), Some(&didx), Some(&dcidx)).is_err(), "{}", tag);
            let big: Vec<usize> = dcidx.iter().map(|_| usize::MAX).collect();
            assert!(proof.blind_proof_verify(&pk, header, ph, Some(L), Some(&dm), Some(&dcm), Some(&didx), Some(&big[..1])).is_err(), "{}", tag);
        }
        // plain interface must not accept blind artefacts and vice versa
        let all_idx: Vec<usize> = didx.clone();
        assert!(proof.proof_verify(&pk, Some(&dm), Some(&all_idx), header, ph).is_err() || (didx.len() != dm.len()), "{}", tag);
        let as_plain = Signature::<BBSplus<CS>>::from_bytes(&sig.to_bytes()).unwrap();
        let mut all_msgs = msgs.clone();
        all_msgs.extend(committed.clone());
        assert!(as_plain.verify(&pk, Some(&all_msgs), header).is_err(), "{}", tag);
        assert!(as_plain.verify(&pk, Some(&msgs), header).is_err(), "{}", tag);
        // wrong blind factor / wrong committed message
        if blind.is_some() {
            assert!(sig.verify_blind_sign(&pk, header, msgs_opt, com_opt, None).is_err(), "{}", tag);
            let other = BlindFactor::from_bytes(&sc_be(&Scalar::from(3u64))).unwrap();
            assert!(sig.verify_blind_sign(&pk, header, msgs_opt, com_opt, Some(&other)).is_err(), "{}", tag);
        }
        if !committed.is_empty() {
            let mut bad = committed.clone();
            bad.swap(0, committed.len() - 1);
            if bad != committed {
                assert!(sig.verify_blind_sign(&pk, header, msgs_opt, Some(&bad), blind.as_ref()).is_err(), "{}", tag);
            }
            // committed message presented as signer message
            let mut shifted = msgs.clone();
            shifted.push(committed[0].clone());
            assert!(sig.verify_blind_sign(&pk, header, Some(&shifted), Some(&committed[1..]), blind.as_ref()).is_err(), "{}", tag);
        }
    }
}
#[test]
fn f17_blind_round_trips_and_rejections() {
    both!(blind_round_trips);
}

// plain signature handed to the blind verifier
fn plain_vs_blind<CS: BbsCiphersuite>(_s: Suite)
where
    CS::Expander: for<'a> ExpandMsg<'a>,
{
    let (sk, pk) = lib_keypair::<CS>();
    let msgs = msgs_n(2);
    let sig = Signature::<BBSplus<CS>>::sign(Some(&msgs), &sk, &pk, Some(b"h")).unwrap();
    let b = BlindSignature::<BBSplus<CS>>::from_bytes(&sig.to_bytes()).unwrap();
    assert!(b.verify_blind_sign(&pk, Some(b"h"), Some(&msgs), None, None).is_err());
    assert!(b.verify_blind_sign(&pk, Some(b"h"), Some(&msgs[..1]), Some(&msgs[1..]), None).is_err());
    let proof = PoKSignature::<BBSplus<CS>>::proof_gen(&pk, &sig.to_bytes(), Some(b"h"), None, Some(&msgs), Some(&[0])).unwrap();
    assert!(proof.blind_proof_verify(&pk, Some(b"h"), None, Some(1), Some(&msgs[..1]), None, Some(&[0]), None).is_err());
    assert!(proof.blind_proof_verify(&pk, Some(b"h"), None, Some(2), Some(&msgs[..1]), None, Some(&[0]), None).is_err());
    assert!(proof.blind_proof_verify(&pk, Some(b"h"), None, Some(0), Some(&msgs[..1]), None, Some(&[0]), None).is_err());
}
#[test]
fn f18_plain_artefacts_refused_by_blind_verifiers() {
    both!(plain_vs_blind);
}

// the other suite must refuse
#[test]
fn f19_suites_do_not_mix() {
    let (sk, pk) = lib_keypair::<Bls12381Sha256>();
    let msgs = msgs_n(2);
    let sig = Signature::<BBSplus<Bls12381Sha256>>::sign(Some(&msgs), &sk, &pk, None).unwrap();
    let other = Signature::<BBSplus<Bls12381Shake256>>::from_bytes(&sig.to_bytes()).unwrap();
    assert!(other.verify(&pk, Some(&msgs), None).is_err());
    assert!(!ref_verify(Suite::Shake, &pk.to_bytes(), &sig.to_bytes(), &[], &msgs));
    let proof = PoKSignature::<BBSplus<Bls12381Sha256>>::proof_gen(&pk, &sig.to_bytes(), None, None, Some(&msgs), None).unwrap();
    let other = PoKSignature::<BBSplus<Bls12381Shake256>>::from_bytes(&proof.to_bytes()).unwrap();
    assert!(other.proof_verify(&pk, None, None, None, None).is_err());
    assert!(proof.proof_verify(&pk, None, None, None, None).is_ok());
}

// commitment decoder: mutated / malformed commitment_with_proof handed to blind_sign
fn commitment_mutations<CS: BbsCiphersuite>(_s: Suite)
where
    CS::Expander: for<'a> ExpandMsg<'a>,
{
    let (sk, pk) = lib_keypair::<CS>();
    let committed: Vec<Vec<u8>> = vec![b"c0".to_vec(), b"c1".to_vec()];
    let (c, _b) = Commitment::<BBSplus<CS>>::commit(Some(&committed)).unwrap();
    let cb = c.to_bytes();
    let sign = |x: &[u8]| BlindSignature::<BBSplus<CS>>::blind_sign(&sk, &pk, Some(x), None, None);
    assert!(sign(&cb).is_ok());
    for pos in [0usize, 47, 48, 79, 80, 111, 112, 143, 144, 175] {
        let mut x = cb.clone();
        x[pos] ^= 1;
        assert!(sign(&x).is_err(), "mutated commitment byte {} accepted", pos);
    }
    for l in [1usize, 47, 48, 79, 80, 111, 112, 143, 144, 175] {
        assert!(sign(&cb[..l]).is_err(), "truncated commitment len {} accepted", l);
    }
    let mut x = cb.clone();
    x.extend_from_slice(&[0u8; 32]);
    assert!(sign(&x).is_err());
    let mut x = cb.clone();
    x.push(0);
    assert!(sign(&x).is_err());
    // m^ swapped
    let mut x = cb.clone();
    let (a, b) = (x[80..112].to_vec(), x[112..144].to_vec());
    x[80..112].copy_from_slice(&b);
    x[112..144].copy_from_slice(&a);
    assert!(sign(&x).is_err());
    // a commitment made for the other suite
    // (checked in f19 style: different api_id => different challenge)
}
#[test]
fn f20_commitment_mutations_refused() {
    both!(commitment_mutations);
}

#[test]
fn f21_commitment_of_other_suite_refused() {
    let (sk, pk) = lib_keypair::<Bls12381Sha256>();
    let (c, _b) = Commitment::<BBSplus<Bls12381Shake256>>::commit(Some(&[b"m".to_vec()])).unwrap();
    assert!(BlindSignature::<BBSplus<Bls12381Sha256>>::blind_sign(&sk, &pk, Some(&c.to_bytes()), None, None).is_err());
}

// identity public key under the blind signature verifier (same core_verify)
fn blind_pk_identity<CS: BbsCiphersuite>(_s: Suite)
where
    CS::Expander: for<'a> ExpandMsg<'a>,
{
    // With SK = 0 the blind "signature" is A = B/e for a public e: compute it with the library itself and no secret.
    let lib = match BBSplusSecretKey::from_bytes(&[0u8; 32]) {
        Err(_) => false,
        Ok(sk0) => {
            let pk0 = sk0.public_key();
            let msgs = msgs_n(1);
            let sig = BlindSignature::<BBSplus<CS>>::blind_sign(&sk0, &pk0, None, None, Some(&msgs));
            match sig {
                Err(_) => false,
                Ok(sig) => sig.verify_blind_sign(&pk0, None, Some(&msgs), None, None).is_ok(),
            }
        }
    };
    assert!(!lib, "blind verifier accepts a signature under PK = Identity_G2 (SK = 0)");
}
#[test]
fn f22_blind_verifier_under_identity_pk() {
    both!(blind_pk_identity);
}

// ---------------------------------------------------------------------------------------------
// 11. Interleavings on 16 threads
// ---------------------------------------------------------------------------------------------

fn threads<CS: BbsCiphersuite + Send + Sync>(s: Suite)
where
    CS::Expander: for<'a> ExpandMsg<'a>,
{
    let skr = ref_keygen(s, IKM, KEY_INFO, None).unwrap();
    let pkr = ref_sk_to_pk(&skr);
    let expected: Vec<[u8; 80]> = (0..4).map(|l| ref_sign(s, &skr, &pkr, b"t", &msgs_n(l)).unwrap()).collect();
    let gens: Vec<[u8; 48]> = ref_generators(s, 5, &s.api_id()).iter().map(g1c).collect();
    std::thread::scope(|sc| {
        for t in 0..16usize {
            let expected = &expected;
            let gens = &gens;
            sc.spawn(move || {
                for round in 0..3 {
                    let l = (t + round) % 4;
                    let kp = KeyPair::<BBSplus<CS>>::generate(IKM, Some(KEY_INFO), None).unwrap();
                    let msgs = msgs_n(l);
                    let sig = Signature::<BBSplus<CS>>::sign(Some(&msgs), kp.private_key(), kp.public_key(), Some(b"t")).unwrap();
                    assert_eq!(sig.to_bytes(), expected[l]);
                    assert!(sig.verify(kp.public_key(), Some(&msgs), Some(b"t")).is_ok());
                    let g = Generators::create::<CS>(5 - l, Some(CS::API_ID));
                    for (i, p) in g.values.iter().enumerate() {
                        assert_eq!(g1c(p), gens[i]);
                    }
                    let p = PoKSignature::<BBSplus<CS>>::proof_gen(kp.public_key(), &sig.to_bytes(), Some(b"t"), None, Some(&msgs), None).unwrap();
                    assert!(p.proof_verify(kp.public_key(), None, None, Some(b"t"), None).is_ok());
                }
            });
        }
    });
}
#[test]
fn f23_sixteen_threads() {
    both!(threads);
}

// ---------------------------------------------------------------------------------------------
// 12. Non-canonical JSON representatives (x + r) of scalars / secret keys must not decode to x
// ---------------------------------------------------------------------------------------------

#[test]
fn f24_json_non_canonical_scalar_refused() {
    let (sk, _) = lib_keypair::<Bls12381Sha256>();
    let j = serde_json::to_string(&sk).unwrap();
    // JSON of a scalar is a hex string; find a representation of r (= 0 mod r) and of 2^256-1
    let zero = serde_json::to_string(&BBSplusSecretKey(Scalar::ZERO)).unwrap();
    assert_eq!(zero.len(), j.len());
    let r_be = "73eda753299d7d483339d80809a1d80553bda402fffe5bfeffffffff00000001";
    for cand in [format!("\"{}\"", r_be), format!("\"{}\"", "ff".repeat(32))] {
        let d = serde_json::from_str::<BBSplusSecretKey>(&cand);
        assert!(d.is_err(), "non canonical scalar {} decoded to {:?}", cand, d.map(|k| hex::encode(k.to_bytes())));
    }
    // byte decoders
    assert!(BBSplusSecretKey::from_bytes(&hex::decode(r_be).unwrap()).is_err());
    assert!(BlindFactor::from_bytes(&hex::decode(r_be).unwrap().try_into().unwrap()).is_err());
    assert!(BBSplusMessage::from_bytes_be(&hex::decode(r_be).unwrap().try_into().unwrap()).is_err());
}

// ---------------------------------------------------------------------------------------------
// 13. Points outside the prime-order subgroup (octets_to_pubkey: subgroup_check_G2; octets_to_point_E1 for A)
//     W' = W + T with T of order coprime to r pairs exactly like W, so whatever decodes W' accepts W's signatures.
// ---------------------------------------------------------------------------------------------

fn g2_torsion_point() -> G2Projective {
    for k in 1u8..=200 {
        let mut b = [0u8; 96];
        b[0] = 0x80;
        b[95] = k; // x = (c1 = 0, c0 = k)
        if let Some(a) = Option::<G2Affine>::from(G2Affine::from_compressed_unchecked(&b)) {
            if bool::from(a.is_on_curve()) && !bool::from(a.is_torsion_free()) {
                return G2Projective::from(a);
            }
        }
    }
    panic!("no G2 point outside the subgroup found");
}

fn g1_torsion_point() -> G1Projective {
    for k in 1u8..=200 {
        let mut b = [0u8; 48];
        b[0] = 0x80;
        b[47] = k;
        if let Some(a) = Option::<G1Affine>::from(G1Affine::from_compressed_unchecked(&b)) {
            if bool::from(a.is_on_curve()) && !bool::from(a.is_torsion_free()) {
                return G1Projective::from(a);
            }
        }
    }
    panic!("no G1 point outside the subgroup found");
}

fn non_subgroup_pk<CS: BbsCiphersuite>(s: Suite)
where
    CS::Expander: for<'a> ExpandMsg<'a>,
{
    let (sk, pk) = lib_keypair::<CS>();
    let msgs = msgs_n(2);
    let sig = Signature::<BBSplus<CS>>::sign(Some(&msgs), &sk, &pk, None).unwrap();
    let w2 = (pk.0 + g2_torsion_point()).to_affine();
    assert!(bool::from(w2.is_on_curve()) && !bool::from(w2.is_torsion_free()));
    let w2b = w2.to_compressed();
    assert_ne!(w2b, pk.to_bytes());
    // reference and byte decoder refuse the key
    assert!(!ref_verify(s, &w2b, &sig.to_bytes(), &[], &msgs));
    assert!(BBSplusPublicKey::from_bytes(&w2b).is_err());
    // JSON decoder of the public type
    let json = format!("\"{}\"", hex::encode(w2b));
    let lib = match serde_json::from_str::<BBSplusPublicKey>(&json) {
        Err(_) => false,
        Ok(pk2) => {
            // the domain binds PK octets, so sign for that encoding with the real secret: the question is only whether
            // a key outside G2 is usable by the verifier at all
            let sig2 = Signature::<BBSplus<CS>>::sign(Some(&msgs), &sk, &pk2, None).unwrap();
            sig2.verify(&pk2, Some(&msgs), None).is_ok()
        }
    };
    assert!(!lib, "{:?}: public key outside the G2 subgroup decoded from JSON and used by verify", s);
}
#[test]
fn f25_public_key_outside_subgroup_through_serde_json() {
    both!(non_subgroup_pk);
}

fn non_subgroup_A<CS: BbsCiphersuite>(s: Suite)
where
    CS::Expander: for<'a> ExpandMsg<'a>,
{
    let (sk, pk) = lib_keypair::<CS>();
    let msgs = msgs_n(2);
    let sig = Signature::<BBSplus<CS>>::sign(Some(&msgs), &sk, &pk, None).unwrap();
    let a2 = (sig.a() + g1_torsion_point()).to_affine();
    assert!(bool::from(a2.is_on_curve()) && !bool::from(a2.is_torsion_free()));
    let mut octets = sig.to_bytes();
    octets[..48].copy_from_slice(&a2.to_compressed());
    assert!(!ref_verify(s, &pk.to_bytes(), &octets, &[], &msgs));
    assert!(Signature::<BBSplus<CS>>::from_bytes(&octets).is_err());
    let honest_json = serde_json::to_string(&sig).unwrap();
    let json = honest_json.replace(&hex::encode(&sig.to_bytes()[..48]), &hex::encode(a2.to_compressed()));
    assert_ne!(json, honest_json);
    let lib = match serde_json::from_str::<Signature<BBSplus<CS>>>(&json) {
        Err(_) => false,
        Ok(sg) => sg.verify(&pk, Some(&msgs), None).is_ok(),
    };
    assert!(!lib, "{:?}: signature whose A is outside G1 decoded from JSON and accepted", s);
}
#[test]
fn f26_signature_point_outside_subgroup_through_serde_json() {
    both!(non_subgroup_A);
}

// ---------------------------------------------------------------------------------------------
// 14. Values of the wrong enum variant built through serde: verifiers must return Err, not panic
// ---------------------------------------------------------------------------------------------

#[test]
fn f27_unreachable_variant_is_an_error_not_a_panic() {
    let (_, pk) = lib_keypair::<Bls12381Sha256>();
    let sig: Signature<BBSplus<Bls12381Sha256>> = serde_json::from_str("{\"_Unreachable\":null}").unwrap();
    assert!(sig.verify(&pk, None, None).is_err());
    let p: PoKSignature<BBSplus<Bls12381Sha256>> = serde_json::from_str("{\"_Unreachable\":null}").unwrap();
    assert!(p.proof_verify(&pk, None, None, None, None).is_err());
    assert!(p.blind_proof_verify(&pk, None, None, None, None, None, None, None).is_err());
    let b: BlindSignature<BBSplus<Bls12381Sha256>> = serde_json::from_str("{\"_Unreachable\":null}").unwrap();
    assert!(b.verify_blind_sign(&pk, None, None, None, None).is_err());
}

// ---------------------------------------------------------------------------------------------
// 15. Proof JSON with identity points / proof under the identity key: must be refused
// ---------------------------------------------------------------------------------------------

fn proof_json_identity<CS: BbsCiphersuite>(_s: Suite)
where
    CS::Expander: for<'a> ExpandMsg<'a>,
{
    let (sk, pk) = lib_keypair::<CS>();
    let msgs = msgs_n(2);
    let sig = Signature::<BBSplus<CS>>::sign(Some(&msgs), &sk, &pk, None).unwrap();
    let proof = PoKSignature::<BBSplus<CS>>::proof_gen(&pk, &sig.to_bytes(), None, None, Some(&msgs), None).unwrap();
    let pb = proof.to_bytes();
    let json = serde_json::to_string(&proof).unwrap();
    let inf = format!("c0{}", "00".repeat(47));
    for k in 0..3 {
        let j2 = json.replace(&hex::encode(&pb[48 * k..48 * (k + 1)]), &inf);
        assert_ne!(j2, json);
        let ok = match serde_json::from_str::<PoKSignature<BBSplus<CS>>>(&j2) {
            Err(_) => false,
            Ok(p) => p.proof_verify(&pk, None, None, None, None).is_ok(),
        };
        assert!(!ok, "identity point {} accepted", k);
    }
    // identity key (JSON) against an honest proof and against Abar = anything, Bbar = identity
    if let Ok(pk0) = serde_json::from_str::<BBSplusPublicKey>(&format!("\"c0{}\"", "00".repeat(95))) {
        assert!(proof.proof_verify(&pk0, None, None, None, None).is_err());
    }
}
#[test]
fn f28_proof_json_identity_points() {
    both!(proof_json_identity);
}

// ---------------------------------------------------------------------------------------------
// 16. Blind extension: an independent implementation that first reproduces the blind signature / commitment
//     fixtures, then is compared with the library on other shapes (L, M in {0,1,2}, None vs empty, header lengths)
// ---------------------------------------------------------------------------------------------

fn blind_api(s: Suite) -> Vec<u8> {
    [s.id(), b"BLIND_H2G_HM2S_"].concat()
}

/// returns (commit, M) or None when the commitment or its proof is invalid
fn ref_commit_verify(s: Suite, cwp: &[u8]) -> Option<(G1Projective, usize)> {
    if cwp.is_empty() {
        return Some((G1Projective::IDENTITY, 0));
    }
    let api = blind_api(s);
    if cwp.len() < 48 + 64 || (cwp.len() - 48) % 32 != 0 {
        return None;
    }
    let cb: [u8; 48] = cwp[..48].try_into().unwrap();
    let commit = G1Projective::from(Option::<G1Affine>::from(G1Affine::from_compressed(&cb))?);
    let mut sc = Vec::new();
    for c in cwp[48..].chunks(32) {
        sc.push(Option::<Scalar>::from(Scalar::from_be_bytes(c.try_into().unwrap()))?);
    }
    let M = sc.len() - 2;
    let bg = ref_generators(s, M + 1, &[b"BLIND_", &api[..]].concat());
    let c = sc[M + 1];
    let mut Cbar = bg[0] * sc[0];
    for i in 0..M {
        Cbar += bg[i + 1] * sc[i + 1];
    }
    Cbar -= commit * c;
    let mut inp = (M as u64).to_be_bytes().to_vec();
    for g in &bg {
        inp.extend_from_slice(&g1c(g));
    }
    inp.extend_from_slice(&g1c(&commit));
    inp.extend_from_slice(&g1c(&Cbar));
    let cv = ref_h2s(s, &inp, &[&api[..], b"H2S_"].concat())?;
    if cv == c {
        Some((commit, M))
    } else {
        None
    }
}

fn ref_blind_sign(s: Suite, sk: &Scalar, pk: &[u8], cwp: &[u8], header: &[u8], msgs: &[Vec<u8>]) -> Option<[u8; 80]> {
    let api = blind_api(s);
    let (commit, M) = ref_commit_verify(s, cwp)?;
    let gens = ref_generators(s, msgs.len() + 1, &api);
    let bg = ref_generators(s, M + 1, &[b"BLIND_", &api[..]].concat());
    let ms = ref_msgs(s, msgs, &api)?;
    let mut B = s.p1();
    for (h, m) in gens[1..].iter().zip(ms.iter()) {
        B += h * m;
    }
    B += commit;
    if B == G1Projective::IDENTITY {
        return None;
    }
    let hs: Vec<G1Projective> = gens[1..].iter().chain(bg.iter()).copied().collect();
    let domain = ref_domain(s, pk, &gens[0], &hs, header, &api)?;
    B += gens[0] * domain;
    let mut e_in = sc_be(sk).to_vec();
    e_in.extend_from_slice(&g1c(&B));
    let e = ref_h2s(s, &e_in, &[&api[..], b"H2S_"].concat())?;
    let A = B * Option::<Scalar>::from((sk + e).invert())?;
    let mut out = [0u8; 80];
    out[..48].copy_from_slice(&g1c(&A));
    out[48..].copy_from_slice(&sc_be(&e));
    Some(out)
}

fn ref_blind_verify(s: Suite, pk: &[u8], sig: &[u8], header: &[u8], msgs: &[Vec<u8>], committed: &[Vec<u8>], blind: &Scalar) -> bool {
    let api = blind_api(s);
    let Some((A, e)) = ref_octets_to_signature(sig) else { return false };
    let Some(W) = ref_octets_to_pubkey(pk) else { return false };
    let gens = ref_generators(s, msgs.len() + 1, &api);
    let bg = ref_generators(s, committed.len() + 1, &[b"BLIND_", &api[..]].concat());
    let Some(mut sc) = ref_msgs(s, msgs, &api) else { return false };
    sc.push(*blind);
    let Some(cm) = ref_msgs(s, committed, &api) else { return false };
    sc.extend(cm);
    let hs: Vec<G1Projective> = gens[1..].iter().chain(bg.iter()).copied().collect();
    let Some(domain) = ref_domain(s, pk, &gens[0], &hs, header, &api) else { return false };
    let mut B = s.p1() + gens[0] * domain;
    for (h, m) in hs.iter().zip(sc.iter()) {
        B += h * m;
    }
    pairing(&A.to_affine(), &(W + G2Projective::GENERATOR * e).to_affine()) == pairing(&B.to_affine(), &G2Affine::generator())
}

fn opt_hex(v: &serde_json::Value) -> Vec<u8> {
    v.as_str().map(|x| hex::decode(x).unwrap()).unwrap_or_default()
}
fn opt_hex_list(v: &serde_json::Value) -> Vec<Vec<u8>> {
    v.as_array().map(|a| a.iter().map(hx).collect()).unwrap_or_default()
}

#[test]
fn f29_blind_reference_reproduces_blind_fixtures() {
    for s in [Suite::Sha, Suite::Shake] {
        let base = format!("./fixture_data_blind/{}/", s.dir());
        // generators
        let j = read_json(&format!("{}generators.json", base));
        for (key, api) in [("generators", blind_api(s)), ("blindGenerators", [b"BLIND_", &blind_api(s)[..]].concat())] {
            assert_eq!(j[key]["api_id"].as_str().unwrap().as_bytes(), &api[..]);
            let exp: Vec<Vec<u8>> = j[key]["MsgGenerators"].as_array().unwrap().iter().map(hx).collect();
            let g = ref_generators(s, exp.len() + 1, &api);
            assert_eq!(g1c(&g[0]).to_vec(), hx(&j[key]["Q1"]));
            for (a, b) in g[1..].iter().zip(exp.iter()) {
                assert_eq!(&g1c(a).to_vec(), b);
            }
        }
        for n in 1..=2 {
            let j = read_json(&format!("{}commit/commit{:03}.json", base, n));
            let cwp = hx(&j["commitmentWithProof"]);
            let got = ref_commit_verify(s, &cwp);
            assert_eq!(got.is_some(), j["result"]["valid"].as_bool().unwrap());
            assert_eq!(got.unwrap().1, opt_hex_list(&j["committedMessages"]).len());
        }
        for n in 1..=5 {
            let j = read_json(&format!("{}signature/signature{:03}.json", base, n));
            let sk = Option::<Scalar>::from(Scalar::from_be_bytes(&hx(&j["signerKeyPair"]["secretKey"]).try_into().unwrap())).unwrap();
            let pk = hx(&j["signerKeyPair"]["publicKey"]);
            let cwp = opt_hex(&j["commitmentWithProof"]);
            let header = opt_hex(&j["header"]);
            let msgs = opt_hex_list(&j["messages"]);
            let committed = opt_hex_list(&j["committedMessages"]);
            let blind = j["proverBlind"].as_str().map(|b| Option::<Scalar>::from(Scalar::from_be_bytes(&hex::decode(b).unwrap().try_into().unwrap())).unwrap()).unwrap_or(Scalar::ZERO);
            let sig = ref_blind_sign(s, &sk, &pk, &cwp, &header, &msgs).unwrap();
            assert_eq!(sig.to_vec(), hx(&j["signature"]), "{:?} blind signature {}", s, n);
            assert_eq!(ref_blind_verify(s, &pk, &sig, &header, &msgs, &committed, &blind), j["result"]["valid"].as_bool().unwrap());
        }
    }
}

fn blind_vs_reference<CS: BbsCiphersuite>(s: Suite)
where
    CS::Expander: for<'a> ExpandMsg<'a>,
{
    let (sk, pk) = lib_keypair::<CS>();
    let skr = ref_keygen(s, IKM, KEY_INFO, None).unwrap();
    let pkb = pk.to_bytes();
    let hdr: Vec<u8> = (0..70000usize).map(|i| (i % 253) as u8).collect();
    for L in [0usize, 2] {
        for M in [None, Some(0usize), Some(2)] {
            for hl in [None, Some(256usize), Some(65536)] {
                if hl.map(|h| h > 256).unwrap_or(false) && !(L == 2 && M == Some(2)) {
                    continue;
                }
                if hl.is_none() && L == 2 && M == Some(0) {
                    continue;
                }
                let tag = format!("{:?} L {} M {:?} header {:?}", s, L, M, hl);
                let msgs = msgs_n(L);
                let committed: Vec<Vec<u8>> = (0..M.unwrap_or(0)).map(|i| vec![i as u8; i]).collect();
                let header = hl.map(|h| &hdr[..h]);
                let (cwp, blind) = match M {
                    None => (vec![], Scalar::ZERO),
                    Some(_) => {
                        let (c, b) = Commitment::<BBSplus<CS>>::commit(Some(&committed)).unwrap();
                        (c.to_bytes(), Option::<Scalar>::from(Scalar::from_be_bytes(&b.to_bytes())).unwrap())
                    }
                };
                // commitment verifier decision
                let r_c = ref_commit_verify(s, &cwp);
                assert_eq!(r_c.map(|x| x.1), Some(M.unwrap_or(0)), "{}", tag);
                let lib = BlindSignature::<BBSplus<CS>>::blind_sign(&sk, &pk, if M.is_none() { None } else { Some(&cwp) }, header, Some(&msgs));
                let r = ref_blind_sign(s, &skr, &pkb, &cwp, header.unwrap_or(&[]), &msgs);
                assert_eq!(lib.as_ref().ok().map(|x| x.to_bytes()), r, "{}", tag);
                let sig = r.unwrap();
                let bf = BlindFactor::from_bytes(&sc_be(&blind)).unwrap();
                let l_ok = lib.unwrap().verify_blind_sign(&pk, header, Some(&msgs), Some(&committed), Some(&bf)).is_ok();
                let r_ok = ref_blind_verify(s, &pkb, &sig, header.unwrap_or(&[]), &msgs, &committed, &blind);
                assert!(l_ok && r_ok, "{}", tag);
                // mutated
                for pos in [47usize, 48] {
                    let mut x = sig;
                    x[pos] ^= 1;
                    let l = BlindSignature::<BBSplus<CS>>::from_bytes(&x).map(|b| b.verify_blind_sign(&pk, header, Some(&msgs), Some(&committed), Some(&bf)).is_ok()).unwrap_or(false);
                    let r = ref_blind_verify(s, &pkb, &x, header.unwrap_or(&[]), &msgs, &committed, &blind);
                    assert_eq!(l, r, "{} sig byte {}", tag, pos);
                    assert!(!l);
                }
                // commitment mutations: decision of the commitment verifier inside blind_sign
                if !cwp.is_empty() {
                    for pos in [48usize, cwp.len() - 1] {
                        let mut x = cwp.clone();
                        x[pos] ^= 1;
                        let l = BlindSignature::<BBSplus<CS>>::blind_sign(&sk, &pk, Some(&x), header, Some(&msgs)).is_ok();
                        let r = ref_commit_verify(s, &x).is_some();
                        assert_eq!(l, r, "{} commitment byte {}", tag, pos);
                    }
                    for cut in [cwp.len() - 1, cwp.len() - 32, 48] {
                        let l = BlindSignature::<BBSplus<CS>>::blind_sign(&sk, &pk, Some(&cwp[..cut]), header, Some(&msgs)).is_ok();
                        let r = ref_commit_verify(s, &cwp[..cut]).is_some();
                        assert_eq!(l, r, "{} commitment cut {}", tag, cut);
                    }
                }
            }
        }
    }
}
#[test]
fn f30_blind_sign_and_verify_vs_reference() {
    both!(blind_vs_reference);
}
