// Red-team candidates for PROPERTY C06 (Blind BBS soundness), second pass.
//
// Every test ASSERTS WHAT THE PROPERTY REQUIRES: a failing test is a violation on this tree,
// a passing one documents a family for which the property held.
//
// Reading used for panics: the statement asks for a refusal (Err) of bad artefacts; a panic inside the
// library on attacker-controlled input is reported as a violation only where the statement says
// "= Err" (blind_sign / verify_blind_sign / blind_proof_verify); `guard` turns such a panic into a test failure.
//
// Run with `cargo test --offline --release --test falsify` (about 20 s in all); the exhaustive bit-flip families
// (c01, c02, c11, c17) take 1-3 minutes each in the unoptimised profile, where the suite was run once as well to
// catch arithmetic-overflow panics. Commitments and proofs use the library's real randomness (the mocked scalars
// exist only under cfg(test) of the library), keys / messages / headers are fixed.
#![allow(non_snake_case)]

use bls12_381_plus::{G1Projective, Scalar};
use elliptic_curve::hash2curve::ExpandMsg;
use std::panic::{catch_unwind, AssertUnwindSafe};
use zkryptium::{
    bbsplus::{
        ciphersuites::{BbsCiphersuite, Bls12381Sha256, Bls12381Shake256},
        commitment::{BBSplusCommitment, BlindFactor},
        generators::Generators,
        keys::{BBSplusPublicKey, BBSplusSecretKey},
        proof::BBSplusZKPoK,
        signature::BBSplusSignature,
    },
    errors::Error,
    keys::pair::KeyPair,
    schemes::{
        algorithms::BBSplus,
        generics::{BlindSignature, Commitment, PoKSignature, Signature},
    },
};

type Sha = Bls12381Sha256;
type Shake = Bls12381Shake256;

// group order r of BLS12-381, big endian
const R_HEX: &str = "73eda753299d7d483339d80809a1d80553bda402fffe5bfeffffffff00000001";

fn guard<T>(f: impl FnOnce() -> Result<T, Error>) -> Result<T, String> {
    match catch_unwind(AssertUnwindSafe(f)) {
        Ok(Ok(v)) => Ok(v),
        Ok(Err(e)) => Err(format!("{e:?}")),
        Err(_) => panic!("the library panicked where the statement requires an error value"),
    }
}

fn keys<CS: BbsCiphersuite>(seed: u8) -> (BBSplusSecretKey, BBSplusPublicKey)
where
    CS::Expander: for<'a> ExpandMsg<'a>,
{
    let kp = KeyPair::<BBSplus<CS>>::generate(&[seed; 32], None, None).unwrap();
    kp.into_parts()
}

fn msgs(tag: &str, n: usize) -> Vec<Vec<u8>> {
    (0..n).map(|i| format!("{tag}-message-{i}").into_bytes()).collect()
}

struct Run {
    sk: BBSplusSecretKey,
    pk: BBSplusPublicKey,
    header: Vec<u8>,
    messages: Vec<Vec<u8>>,
    committed: Vec<Vec<u8>>,
    cwp: Option<Vec<u8>>,
    blind: Option<[u8; 32]>,
    sig: [u8; 80],
}

impl Run {
    fn blind(&self) -> Option<BlindFactor> {
        self.blind.map(|b| BlindFactor::from_bytes(&b).unwrap())
    }
}

fn honest<CS: BbsCiphersuite>(l: usize, m: usize, with_commitment: bool) -> Run
where
    CS::Expander: for<'a> ExpandMsg<'a>,
{
    let (sk, pk) = keys::<CS>(7);
    let header = b"a header".to_vec();
    let messages = msgs("signer", l);
    let committed = msgs("prover", m);
    let (cwp, blind) = if with_commitment {
        let (c, b) = Commitment::<BBSplus<CS>>::commit(Some(&committed)).unwrap();
        (Some(c.to_bytes()), Some(b.to_bytes()))
    } else {
        assert_eq!(m, 0);
        (None, None)
    };
    let sig = BlindSignature::<BBSplus<CS>>::blind_sign(&sk, &pk, cwp.as_deref(), Some(&header), Some(&messages))
        .expect("honest blind_sign");
    let run = Run { sk, pk, header, messages, committed, cwp, blind, sig: sig.to_bytes() };
    vbs::<CS>(&run.sig, &run.pk, Some(&run.header), &run.messages, &run.committed, run.blind().as_ref())
        .expect("honest verify_blind_sign");
    run
}

fn vbs<CS: BbsCiphersuite>(
    sig: &[u8; 80],
    pk: &BBSplusPublicKey,
    header: Option<&[u8]>,
    messages: &[Vec<u8>],
    committed: &[Vec<u8>],
    blind: Option<&BlindFactor>,
) -> Result<(), String>
where
    CS::Expander: for<'a> ExpandMsg<'a>,
{
    guard(|| {
        BlindSignature::<BBSplus<CS>>::from_bytes(sig)?.verify_blind_sign(pk, header, Some(messages), Some(committed), blind)
    })
}

fn bsign<CS: BbsCiphersuite>(run: &Run, cwp: &[u8]) -> Result<[u8; 80], String>
where
    CS::Expander: for<'a> ExpandMsg<'a>,
{
    guard(|| {
        BlindSignature::<BBSplus<CS>>::blind_sign(&run.sk, &run.pk, Some(cwp), Some(&run.header), Some(&run.messages))
            .map(|s| s.to_bytes())
    })
}

fn add_r(be: &[u8]) -> Option<[u8; 32]> {
    // be + r as a 32 byte big endian integer, None on overflow
    let r = hex::decode(R_HEX).unwrap();
    let mut out = [0u8; 32];
    let mut carry = 0u16;
    for i in (0..32).rev() {
        let s = be[i] as u16 + r[i] as u16 + carry;
        out[i] = s as u8;
        carry = s >> 8;
    }
    if carry == 0 { Some(out) } else { None }
}

// ------------------------------------------------------------------------------------------------
// 1. commitment: every single-bit flip is refused (fresh commitments, both suites, M = 0, 1, 3)
// ------------------------------------------------------------------------------------------------
fn commit_bitflips<CS: BbsCiphersuite>()
where
    CS::Expander: for<'a> ExpandMsg<'a>,
{
    for m in [0usize, 1, 3] {
        let run = honest::<CS>(2, m, true);
        let cwp = run.cwp.clone().unwrap();
        assert_eq!(cwp.len(), 48 + 32 * (m + 2));
        for byte in 0..cwp.len() {
            for bit in 0..8 {
                let mut c = cwp.clone();
                c[byte] ^= 1 << bit;
                assert!(bsign::<CS>(&run, &c).is_err(), "M={m}: flip of bit {bit} of octet {byte} accepted");
            }
        }
    }
}
#[test]
fn c01_commitment_every_bit_flip_refused_sha256() { commit_bitflips::<Sha>(); }
#[test]
fn c01_commitment_every_bit_flip_refused_shake256() { commit_bitflips::<Shake>(); }

// the same on the two deterministic commitments of the repository's vectors
#[test]
fn c02_fixture_commitment_bit_flips_refused() {
    fn go<CS: BbsCiphersuite>(dir: &str) where CS::Expander: for<'a> ExpandMsg<'a> {
        for f in ["commit/commit001.json", "commit/commit002.json"] {
            let data = std::fs::read_to_string(format!("{dir}{f}")).unwrap();
            let j: serde_json::Value = serde_json::from_str(&data).unwrap();
            let cwp = hex::decode(j["commitmentWithProof"].as_str().unwrap()).unwrap();
            let mut run = honest::<CS>(1, 0, false);
            run.cwp = Some(cwp.clone());
            assert!(bsign::<CS>(&run, &cwp).is_ok(), "vector commitment refused");
            for byte in 0..cwp.len() {
                let bit = byte % 8;
                let mut c = cwp.clone();
                c[byte] ^= 1 << bit;
                assert!(bsign::<CS>(&run, &c).is_err(), "{f}: flip of bit {bit} of octet {byte} accepted");
            }
        }
    }
    go::<Sha>("./fixture_data_blind/bls12-381-sha-256/");
    go::<Shake>("./fixture_data_blind/bls12-381-shake-256/");
}

// ------------------------------------------------------------------------------------------------
// 3. cross-suite replay, in both directions, for several M; also the vectors of the other suite
// ------------------------------------------------------------------------------------------------
#[test]
fn c03_commitment_cross_suite_replay_refused() {
    for m in [0usize, 1, 2, 5] {
        let a = honest::<Sha>(2, m, true);
        let b = honest::<Shake>(2, m, true);
        assert!(bsign::<Shake>(&b, a.cwp.as_ref().unwrap()).is_err(), "sha256 commitment accepted by shake256 signer (M={m})");
        assert!(bsign::<Sha>(&a, b.cwp.as_ref().unwrap()).is_err(), "shake256 commitment accepted by sha256 signer (M={m})");
    }
}

// ------------------------------------------------------------------------------------------------
// 4. a proof made for other committed messages / another commitment
// ------------------------------------------------------------------------------------------------
#[test]
fn c04_commitment_with_foreign_proof_refused() {
    fn go<CS: BbsCiphersuite>() where CS::Expander: for<'a> ExpandMsg<'a> {
        let run = honest::<CS>(1, 2, true);
        let (c1, _) = Commitment::<BBSplus<CS>>::commit(Some(&msgs("one", 2))).unwrap();
        let (c2, _) = Commitment::<BBSplus<CS>>::commit(Some(&msgs("two", 2))).unwrap();
        // same messages, another run (other blind factor)
        let (c3, _) = Commitment::<BBSplus<CS>>::commit(Some(&msgs("one", 2))).unwrap();
        let (b1, b2, b3) = (c1.to_bytes(), c2.to_bytes(), c3.to_bytes());
        for (x, y) in [(&b1, &b2), (&b2, &b1), (&b1, &b3), (&b3, &b1)] {
            let mixed = [&x[..48], &y[48..]].concat();
            assert!(bsign::<CS>(&run, &mixed).is_err(), "commitment with the proof of another commitment accepted");
            // only the responses of the other proof, own challenge; only the challenge of the other proof
            let n = x.len();
            let mixed = [&x[..48], &y[48..n - 32], &x[n - 32..]].concat();
            assert!(bsign::<CS>(&run, &mixed).is_err());
            let mixed = [&x[..n - 32], &y[n - 32..]].concat();
            assert!(bsign::<CS>(&run, &mixed).is_err());
        }
        // proof for a different NUMBER of messages attached to the commitment
        let (c4, _) = Commitment::<BBSplus<CS>>::commit(Some(&msgs("one", 3))).unwrap();
        let b4 = c4.to_bytes();
        assert!(bsign::<CS>(&run, &[&b1[..48], &b4[48..]].concat()).is_err());
        assert!(bsign::<CS>(&run, &[&b4[..48], &b1[48..]].concat()).is_err());
        // negated commitment with the original proof, and the proof with negated responses
        let c = BBSplusCommitment::from_bytes(&b1).unwrap();
        let neg = BBSplusCommitment { commitment: -c.commitment, proof: c.proof.clone() };
        assert!(bsign::<CS>(&run, &neg.to_bytes()).is_err());
        // honest ones are accepted
        assert!(bsign::<CS>(&run, &b1).is_ok());
        assert!(bsign::<CS>(&run, &b4).is_ok());
    }
    go::<Sha>();
    go::<Shake>();
}

// ------------------------------------------------------------------------------------------------
// 5. truncation / extension by whole scalars, at every position, with zero / copied / random scalars
// ------------------------------------------------------------------------------------------------
#[test]
fn c05_commitment_scalar_granular_truncation_and_extension_refused() {
    fn go<CS: BbsCiphersuite>() where CS::Expander: for<'a> ExpandMsg<'a> {
        for m in [0usize, 1, 3] {
            let run = honest::<CS>(1, m, true);
            let cwp = run.cwp.clone().unwrap();
            let scalars = (cwp.len() - 48) / 32;
            // removal of any one scalar, of any suffix / prefix of scalars
            for k in 0..scalars {
                let mut c = cwp[..48 + 32 * k].to_vec();
                c.extend_from_slice(&cwp[48 + 32 * (k + 1)..]);
                assert!(bsign::<CS>(&run, &c).is_err(), "M={m}: scalar {k} removed and accepted");
                let c = cwp[..48 + 32 * k].to_vec(); // truncated after k scalars (k = 0: the bare point)
                assert!(bsign::<CS>(&run, &c).is_err(), "M={m}: truncated to {k} scalars and accepted");
            }
            // insertion of one scalar at any position
            let one = { let mut o = [0u8; 32]; o[31] = 1; o };
            let fills: Vec<[u8; 32]> = vec![[0u8; 32], one, cwp[48..80].try_into().unwrap(), cwp[cwp.len() - 32..].try_into().unwrap()];
            for k in 0..=scalars {
                for f in &fills {
                    let mut c = cwp[..48 + 32 * k].to_vec();
                    c.extend_from_slice(f);
                    c.extend_from_slice(&cwp[48 + 32 * k..]);
                    assert!(bsign::<CS>(&run, &c).is_err(), "M={m}: scalar inserted at {k} and accepted");
                }
            }
            // two and five more zero scalars before the challenge (more generators, same Cbar)
            for extra in [2usize, 5] {
                let mut c = cwp[..cwp.len() - 32].to_vec();
                c.extend(std::iter::repeat(0u8).take(32 * extra));
                c.extend_from_slice(&cwp[cwp.len() - 32..]);
                assert!(bsign::<CS>(&run, &c).is_err());
            }
        }
    }
    go::<Sha>();
    go::<Shake>();
}

// ------------------------------------------------------------------------------------------------
// 6. every octet-granular prefix / every length around the structural limits
// ------------------------------------------------------------------------------------------------
#[test]
fn c06_commitment_every_proper_prefix_and_padding_refused() {
    let run = honest::<Sha>(1, 2, true);
    let cwp = run.cwp.clone().unwrap();
    for len in 1..cwp.len() {
        assert!(bsign::<Sha>(&run, &cwp[..len]).is_err(), "prefix of {len} octets accepted");
    }
    for extra in 1..=65 {
        let mut c = cwp.clone();
        c.extend(std::iter::repeat(0u8).take(extra));
        assert!(bsign::<Sha>(&run, &c).is_err(), "{extra} padding octets accepted");
        let mut c = vec![0u8; extra];
        c.extend_from_slice(&cwp);
        assert!(bsign::<Sha>(&run, &c).is_err(), "{extra} leading octets accepted");
    }
    // all-zero and all-0xff strings of the structural lengths
    for len in [1usize, 47, 48, 79, 80, 111, 112, 113, 144, 176] {
        assert!(bsign::<Sha>(&run, &vec![0u8; len]).is_err());
        assert!(bsign::<Sha>(&run, &vec![0xffu8; len]).is_err());
    }
}

// ------------------------------------------------------------------------------------------------
// 7. non-canonical scalars (x + r) and identity / forged points in the octet form
// ------------------------------------------------------------------------------------------------
#[test]
fn c07_commitment_non_canonical_scalars_and_forged_points_refused() {
    let run = honest::<Sha>(1, 2, true);
    let cwp = run.cwp.clone().unwrap();
    let scalars = (cwp.len() - 48) / 32;
    let mut tried = 0;
    for k in 0..scalars {
        let off = 48 + 32 * k;
        if let Some(nc) = add_r(&cwp[off..off + 32]) {
            let mut c = cwp.clone();
            c[off..off + 32].copy_from_slice(&nc);
            assert!(bsign::<Sha>(&run, &c).is_err(), "scalar {k} + r accepted");
            tried += 1;
        }
    }
    assert!(tried > 0);
    // the identity as commitment with the proof of another commitment, with an all-zero proof, with challenge 0
    let mut c = cwp.clone();
    c[..48].copy_from_slice(&[0u8; 48]);
    c[0] = 0xc0;
    assert!(bsign::<Sha>(&run, &c).is_err(), "identity commitment with a foreign proof accepted");
    let mut z = vec![0u8; cwp.len()];
    z[0] = 0xc0;
    assert!(bsign::<Sha>(&run, &z).is_err(), "identity commitment with the all-zero proof accepted");
    // the commitment point itself with an all-zero proof (Cbar = identity - C*0)
    let mut z = vec![0u8; cwp.len()];
    z[..48].copy_from_slice(&cwp[..48]);
    assert!(bsign::<Sha>(&run, &z).is_err(), "all-zero proof accepted");
    // challenge zero with the honest responses
    let mut z = cwp.clone();
    let n = z.len();
    z[n - 32..].copy_from_slice(&[0u8; 32]);
    assert!(bsign::<Sha>(&run, &z).is_err());
    // a generator as the commitment (C = Q2, "opening" known) but with a foreign proof
    let gens = Generators::create::<Sha>(3, Some(&[b"BLIND_", <Sha as BbsCiphersuite>::API_ID_BLIND].concat()));
    let forged = BBSplusCommitment {
        commitment: gens.values[0],
        proof: BBSplusCommitment::from_bytes(&cwp).unwrap().proof,
    };
    assert!(bsign::<Sha>(&run, &forged.to_bytes()).is_err());
}

// ------------------------------------------------------------------------------------------------
// 8. the public helper `deserialize_and_validate_commit` (other entry point to the same validation):
//    longer generator lists, other api ids, wrong-suite generator lists must not make a bad commitment pass,
//    and a commitment whose proof was made over a LONGER generator list is not accepted for a shorter one
// ------------------------------------------------------------------------------------------------
#[test]
fn c08_helper_entry_point_validates_alike() {
    let run = honest::<Sha>(1, 2, true);
    let cwp = run.cwp.clone().unwrap();
    let api = <Sha as BbsCiphersuite>::API_ID_BLIND;
    let dst = [b"BLIND_", api].concat();
    for n in [3usize, 4, 8] {
        let g = Generators::create::<Sha>(n, Some(&dst));
        assert!(Commitment::<BBSplus<Sha>>::deserialize_and_validate_commit(Some(&cwp), &g, Some(api)).is_ok());
        for byte in (0..cwp.len()).step_by(5) {
            let mut c = cwp.clone();
            c[byte] ^= 0x04;
            assert!(Commitment::<BBSplus<Sha>>::deserialize_and_validate_commit(Some(&c), &g, Some(api)).is_err());
        }
    }
    // too few generators: refusal, not a panic
    for n in [0usize, 1, 2] {
        let g = Generators::create::<Sha>(n, Some(&dst));
        let r = guard(|| Commitment::<BBSplus<Sha>>::deserialize_and_validate_commit(Some(&cwp), &g, Some(api)));
        assert!(r.is_err());
    }
    // generators of the signer messages instead of the blind ones, other api id, the other suite
    let g = Generators::create::<Sha>(3, Some(api));
    assert!(Commitment::<BBSplus<Sha>>::deserialize_and_validate_commit(Some(&cwp), &g, Some(api)).is_err());
    let g = Generators::create::<Sha>(3, Some(&dst));
    assert!(Commitment::<BBSplus<Sha>>::deserialize_and_validate_commit(Some(&cwp), &g, None).is_err());
    assert!(Commitment::<BBSplus<Sha>>::deserialize_and_validate_commit(Some(&cwp), &g, Some(<Sha as BbsCiphersuite>::API_ID)).is_err());
    assert!(Commitment::<BBSplus<Shake>>::deserialize_and_validate_commit(Some(&cwp), &g, Some(api)).is_err());
}

// ------------------------------------------------------------------------------------------------
// 9. serde JSON form of the commitment: edited JSON never yields an accepted, different commitment;
//    non canonical scalars in the JSON are refused or normalised to the very same octets
// ------------------------------------------------------------------------------------------------
#[test]
fn c09_commitment_json_path() {
    let run = honest::<Sha>(1, 2, true);
    let cwp = run.cwp.clone().unwrap();
    let c = Commitment::<BBSplus<Sha>>::from_bytes(&cwp).unwrap();
    let js = serde_json::to_string(&c).unwrap();
    let back: Commitment<BBSplus<Sha>> = serde_json::from_str(&js).unwrap();
    assert_eq!(back.to_bytes(), cwp);
    // the same JSON read as a commitment of the other suite is refused by the other suite's signer
    let other: Commitment<BBSplus<Shake>> = serde_json::from_str(&js).unwrap();
    let run2 = honest::<Shake>(1, 0, false);
    assert!(bsign::<Shake>(&run2, &other.to_bytes()).is_err());
    // every hex digit of the JSON changed: either no longer parses, or the signer refuses it
    let bytes = js.as_bytes();
    let mut changed = 0;
    for i in 0..bytes.len() {
        if !(bytes[i] as char).is_ascii_hexdigit() { continue; }
        let mut e = bytes.to_vec();
        e[i] = if e[i] == b'1' { b'2' } else { b'1' };
        let Ok(s) = String::from_utf8(e) else { continue };
        if let Ok(Ok(dec)) = catch_unwind(|| serde_json::from_str::<Commitment<BBSplus<Sha>>>(&s)) {
            let b = dec.to_bytes();
            if b != cwp {
                changed += 1;
                assert!(bsign::<Sha>(&run, &b).is_err(), "edited JSON commitment accepted (pos {i})");
            }
        }
    }
    assert!(changed > 50);
}

// ------------------------------------------------------------------------------------------------
// 10. verify_blind_sign: single edits of signer messages / committed messages
// ------------------------------------------------------------------------------------------------
fn sig_message_edits<CS: BbsCiphersuite>()
where
    CS::Expander: for<'a> ExpandMsg<'a>,
{
    for (l, m) in [(3usize, 2usize), (1, 1), (0, 2), (2, 0)] {
        let run = honest::<CS>(l, m, true);
        let b = run.blind();
        let ok = |ms: &[Vec<u8>], cs: &[Vec<u8>]| vbs::<CS>(&run.sig, &run.pk, Some(&run.header), ms, cs, b.as_ref()).is_ok();
        assert!(ok(&run.messages, &run.committed));
        // every message, in either list: bit flip, emptied, extended, replaced by a neighbour, dropped
        for which in 0..2 {
            let n = if which == 0 { l } else { m };
            for i in 0..n {
                let base = if which == 0 { run.messages.clone() } else { run.committed.clone() };
                let mut edits: Vec<Vec<Vec<u8>>> = Vec::new();
                let mut e = base.clone(); e[i][0] ^= 1; edits.push(e);
                let mut e = base.clone(); let k = e[i].len() - 1; e[i][k] ^= 0x80; edits.push(e);
                let mut e = base.clone(); e[i].clear(); edits.push(e);
                let mut e = base.clone(); e[i].push(0); edits.push(e);
                let mut e = base.clone(); e[i].insert(0, 0); edits.push(e);
                let mut e = base.clone(); e.remove(i); edits.push(e);
                let mut e = base.clone(); e.insert(i, base[i].clone()); edits.push(e);
                if n > 1 { let mut e = base.clone(); e.swap(i, (i + 1) % n); edits.push(e); }
                for e in edits {
                    let accepted = if which == 0 { ok(&e, &run.committed) } else { ok(&run.messages, &e) };
                    assert!(!accepted, "L={l} M={m}: edited message list {which}/{i} accepted");
                }
            }
        }
        // appended messages, lists exchanged, lists merged, a message moved across the boundary
        let mut e = run.messages.clone(); e.push(b"extra".to_vec());
        assert!(!ok(&e, &run.committed));
        let mut e = run.committed.clone(); e.push(b"extra".to_vec());
        assert!(!ok(&run.messages, &e));
        let mut e = run.committed.clone(); e.push(Vec::new());
        assert!(!ok(&run.messages, &e));
        if l != m || l > 0 { assert!(!ok(&run.committed, &run.messages), "lists exchanged and accepted"); }
        let all: Vec<Vec<u8>> = run.messages.iter().chain(run.committed.iter()).cloned().collect();
        for split in 0..=all.len() {
            if split == l { continue; }
            assert!(!ok(&all[..split], &all[split..]), "L={l} M={m}: accepted with the boundary at {split}");
        }
    }
}
#[test]
fn c10_signature_message_edits_refused_sha256() { sig_message_edits::<Sha>(); }
#[test]
fn c10_signature_message_edits_refused_shake256() { sig_message_edits::<Shake>(); }

// ------------------------------------------------------------------------------------------------
// 11. verify_blind_sign: blinding factor, header, pk, signature, suite
// ------------------------------------------------------------------------------------------------
#[test]
fn c11_signature_blind_header_pk_edits_refused() {
    fn go<CS: BbsCiphersuite>() where CS::Expander: for<'a> ExpandMsg<'a> {
        let run = honest::<CS>(2, 2, true);
        let bb = run.blind.unwrap();
        let b = run.blind();
        let v = |pk: &BBSplusPublicKey, h: Option<&[u8]>, bl: Option<&BlindFactor>| {
            vbs::<CS>(&run.sig, pk, h, &run.messages, &run.committed, bl).is_ok()
        };
        assert!(v(&run.pk, Some(&run.header), b.as_ref()));
        // blinding factor: absent, zero, every bit, negated, the one of another commitment, b + r (non canonical)
        assert!(!v(&run.pk, Some(&run.header), None));
        assert!(!v(&run.pk, Some(&run.header), Some(&BlindFactor::from_bytes(&[0u8; 32]).unwrap())));
        for byte in 0..32 {
            for bit in 0..8 {
                let mut e = bb; e[byte] ^= 1 << bit;
                if let Ok(f) = BlindFactor::from_bytes(&e) {
                    assert!(!v(&run.pk, Some(&run.header), Some(&f)), "blind factor bit {byte}/{bit}");
                }
            }
        }
        let neg = (-Scalar::from_be_bytes(&bb).unwrap()).to_be_bytes();
        assert!(!v(&run.pk, Some(&run.header), Some(&BlindFactor::from_bytes(&neg).unwrap())));
        let (_, other) = Commitment::<BBSplus<CS>>::commit(Some(&run.committed)).unwrap();
        assert!(!v(&run.pk, Some(&run.header), Some(&other)));
        if let Some(nc) = add_r(&bb) {
            assert!(BlindFactor::from_bytes(&nc).is_err(), "non canonical blind factor decoded");
        }
        // header
        assert!(!v(&run.pk, None, b.as_ref()));
        assert!(!v(&run.pk, Some(b""), b.as_ref()));
        for i in 0..run.header.len() {
            let mut h = run.header.clone(); h[i] ^= 0x10;
            assert!(!v(&run.pk, Some(&h), b.as_ref()));
            assert!(!v(&run.pk, Some(&run.header[..i]), b.as_ref()));
        }
        let mut h = run.header.clone(); h.push(0);
        assert!(!v(&run.pk, Some(&h), b.as_ref()));
        let mut h = run.header.clone(); h.insert(0, 0);
        assert!(!v(&run.pk, Some(&h), b.as_ref()));
        // public key: another key, the negated key, every 7th bit of the encoding
        let (_, pk2) = keys::<CS>(9);
        assert!(!v(&pk2, Some(&run.header), b.as_ref()));
        assert!(!v(&BBSplusPublicKey(-run.pk.0), Some(&run.header), b.as_ref()));
        let pkb = run.pk.to_bytes();
        for k in (0..pkb.len() * 8).step_by(7) {
            let mut e = pkb; e[k / 8] ^= 1 << (k % 8);
            if let Ok(p) = BBSplusPublicKey::from_bytes(&e) {
                assert!(!v(&p, Some(&run.header), b.as_ref()), "pk bit {k}");
            }
        }
        // signature octets
        for k in (0..80 * 8).step_by(3) {
            let mut e = run.sig; e[k / 8] ^= 1 << (k % 8);
            let r = guard(|| BlindSignature::<BBSplus<CS>>::from_bytes(&e)?
                .verify_blind_sign(&run.pk, Some(&run.header), Some(&run.messages), Some(&run.committed), b.as_ref()));
            assert!(r.is_err(), "signature bit {k}");
        }
        if let Some(nc) = add_r(&run.sig[48..]) {
            let mut e = run.sig; e[48..].copy_from_slice(&nc);
            assert!(BlindSignature::<BBSplus<CS>>::from_bytes(&e).is_err(), "e + r decoded");
        }
        // the plain interface does not accept the blind signature and vice versa
        let all: Vec<Vec<u8>> = run.messages.iter().chain(run.committed.iter()).cloned().collect();
        let plain = Signature::<BBSplus<CS>>::from_bytes(&run.sig).unwrap();
        assert!(plain.verify(&run.pk, Some(&all), Some(&run.header)).is_err());
        assert!(plain.verify(&run.pk, Some(&run.messages), Some(&run.header)).is_err());
        let ps = Signature::<BBSplus<CS>>::sign(Some(&run.messages), &run.sk, &run.pk, Some(&run.header)).unwrap();
        assert!(vbs::<CS>(&ps.to_bytes(), &run.pk, Some(&run.header), &run.messages, &[], None).is_err());
    }
    go::<Sha>();
    go::<Shake>();
    // other suite
    let run = honest::<Sha>(2, 2, true);
    assert!(vbs::<Shake>(&run.sig, &run.pk, Some(&run.header), &run.messages, &run.committed, run.blind().as_ref()).is_err());
}

// ------------------------------------------------------------------------------------------------
// 12. signature with / without commitment: the blind factor is checked in both directions;
//     the commitment to the empty list is not interchangeable with "no commitment"
// ------------------------------------------------------------------------------------------------
#[test]
fn c12_no_commitment_versus_empty_commitment() {
    let a = honest::<Sha>(2, 0, false); // no commitment
    let b = honest::<Sha>(2, 0, true); // commitment to no message, blind factor b
    let one = BlindFactor::from_bytes(&{ let mut o = [0u8; 32]; o[31] = 1; o }).unwrap();
    assert!(vbs::<Sha>(&a.sig, &a.pk, Some(&a.header), &a.messages, &[], Some(&one)).is_err());
    assert!(vbs::<Sha>(&a.sig, &a.pk, Some(&a.header), &a.messages, &[], b.blind().as_ref()).is_err());
    assert!(vbs::<Sha>(&b.sig, &b.pk, Some(&b.header), &b.messages, &[], None).is_err());
    assert!(vbs::<Sha>(&b.sig, &b.pk, Some(&b.header), &b.messages, &[], Some(&one)).is_err());
    // the zero blind factor and the absent one are the same value by definition
    let zero = BlindFactor::from_bytes(&[0u8; 32]).unwrap();
    assert!(vbs::<Sha>(&a.sig, &a.pk, Some(&a.header), &a.messages, &[], Some(&zero)).is_ok());
    // a committed message cannot be presented as the blind factor's neighbour: (L=2,M=1) vs (L=2,M=0)
    let c = honest::<Sha>(2, 1, true);
    assert!(vbs::<Sha>(&c.sig, &c.pk, Some(&c.header), &c.messages, &[], c.blind().as_ref()).is_err());
}

// ------------------------------------------------------------------------------------------------
// blind proofs
// ------------------------------------------------------------------------------------------------
struct Pres {
    proof: Vec<u8>,
    ph: Vec<u8>,
    di: Vec<usize>,
    dci: Vec<usize>,
    dm: Vec<Vec<u8>>,
    dcm: Vec<Vec<u8>>,
}

fn present<CS: BbsCiphersuite>(run: &Run, di: &[usize], dci: &[usize]) -> Pres
where
    CS::Expander: for<'a> ExpandMsg<'a>,
{
    let ph = b"presentation header".to_vec();
    let proof = PoKSignature::<BBSplus<CS>>::blind_proof_gen(
        &run.pk, &run.sig, Some(&run.header), Some(&ph), Some(&run.messages), Some(&run.committed),
        Some(di), Some(dci), run.blind().as_ref(),
    ).expect("honest blind_proof_gen");
    let p = Pres {
        proof: proof.to_bytes(), ph, di: di.to_vec(), dci: dci.to_vec(),
        dm: di.iter().map(|&i| run.messages[i].clone()).collect(),
        dcm: dci.iter().map(|&i| run.committed[i].clone()).collect(),
    };
    bpv::<CS>(&p.proof, &run.pk, Some(&run.header), Some(&p.ph), Some(run.messages.len()), &p.dm, &p.dcm, &p.di, &p.dci)
        .expect("honest blind_proof_verify");
    p
}

fn bpv<CS: BbsCiphersuite>(
    proof: &[u8], pk: &BBSplusPublicKey, header: Option<&[u8]>, ph: Option<&[u8]>, L: Option<usize>,
    dm: &[Vec<u8>], dcm: &[Vec<u8>], di: &[usize], dci: &[usize],
) -> Result<(), String>
where
    CS::Expander: for<'a> ExpandMsg<'a>,
{
    guard(|| {
        PoKSignature::<BBSplus<CS>>::from_bytes(proof)?
            .blind_proof_verify(pk, header, ph, L, Some(dm), Some(dcm), Some(di), Some(dci))
    })
}

// 13. honest runs at the edges of every count (completeness of the new range checks: last elements, empty lists)
#[test]
fn c13_honest_edge_runs_are_accepted() {
    fn go<CS: BbsCiphersuite>() where CS::Expander: for<'a> ExpandMsg<'a> {
        // (L, M, commitment?, disclosed, disclosed committed)
        let cases: Vec<(usize, usize, bool, Vec<usize>, Vec<usize>)> = vec![
            (0, 0, false, vec![], vec![]),
            (0, 0, true, vec![], vec![]),
            (1, 0, false, vec![0], vec![]),
            (0, 1, true, vec![], vec![0]),
            (0, 3, true, vec![], vec![2]),
            (3, 0, false, vec![2], vec![]),
            (3, 0, true, vec![0, 1, 2], vec![]),
            (3, 2, true, vec![0, 1, 2], vec![0, 1]),
            (3, 2, true, vec![2], vec![1]),
            (3, 2, true, vec![], vec![]),
            (1, 1, true, vec![0], vec![0]),
        ];
        for (l, m, c, di, dci) in cases {
            let run = honest::<CS>(l, m, c);
            let _ = present::<CS>(&run, &di, &dci);
        }
    }
    go::<Sha>();
    go::<Shake>();
}

// 14. blind_proof_verify: single edits of the disclosed data
fn proof_disclosed_edits<CS: BbsCiphersuite>()
where
    CS::Expander: for<'a> ExpandMsg<'a>,
{
    let run = honest::<CS>(4, 3, true);
    let l = 4usize;
    let p = present::<CS>(&run, &[1, 3], &[0, 2]);
    let v = |dm: &[Vec<u8>], dcm: &[Vec<u8>], di: &[usize], dci: &[usize]| {
        bpv::<CS>(&p.proof, &run.pk, Some(&run.header), Some(&p.ph), Some(l), dm, dcm, di, dci).is_ok()
    };
    assert!(v(&p.dm, &p.dcm, &p.di, &p.dci));
    // messages
    for i in 0..2 {
        let mut e = p.dm.clone(); e[i][0] ^= 1; assert!(!v(&e, &p.dcm, &p.di, &p.dci));
        let mut e = p.dm.clone(); e[i].push(0); assert!(!v(&e, &p.dcm, &p.di, &p.dci));
        let mut e = p.dm.clone(); e[i].clear(); assert!(!v(&e, &p.dcm, &p.di, &p.dci));
        let mut e = p.dcm.clone(); e[i][0] ^= 1; assert!(!v(&p.dm, &e, &p.di, &p.dci));
        let mut e = p.dcm.clone(); e[i].push(0); assert!(!v(&p.dm, &e, &p.di, &p.dci));
        // undisclosed (but signed) message in the place of the disclosed one
        let mut e = p.dm.clone(); e[i] = run.messages[0].clone(); assert!(!v(&e, &p.dcm, &p.di, &p.dci));
        let mut e = p.dcm.clone(); e[i] = run.committed[1].clone(); assert!(!v(&p.dm, &e, &p.di, &p.dci));
    }
    let mut e = p.dm.clone(); e.swap(0, 1); assert!(!v(&e, &p.dcm, &p.di, &p.dci));
    let mut e = p.dcm.clone(); e.swap(0, 1); assert!(!v(&p.dm, &e, &p.di, &p.dci));
    assert!(!v(&p.dcm, &p.dm, &p.di, &p.dci), "the two message lists exchanged");
    assert!(!v(&p.dcm, &p.dm, &p.dci, &p.di), "the two message lists and index lists exchanged");
    assert!(!v(&p.dm, &p.dcm, &p.dci, &p.di), "the two index lists exchanged");
    // every other value of each single index
    for pos in 0..2 {
        for x in 0..10usize {
            if x != p.di[pos] { let mut e = p.di.clone(); e[pos] = x; assert!(!v(&p.dm, &p.dcm, &e, &p.dci), "signer index {pos} -> {x}"); }
            if x != p.dci[pos] { let mut e = p.dci.clone(); e[pos] = x; assert!(!v(&p.dm, &p.dcm, &p.di, &e), "commitment index {pos} -> {x}"); }
        }
        for x in [usize::MAX, usize::MAX - 1, usize::MAX - 4, usize::MAX - 5, usize::MAX / 2] {
            let mut e = p.di.clone(); e[pos] = x; assert!(!v(&p.dm, &p.dcm, &e, &p.dci));
            let mut e = p.dci.clone(); e[pos] = x; assert!(!v(&p.dm, &p.dcm, &p.di, &e));
        }
    }
    // an entry dropped from / added to one list (message with or without its index)
    assert!(!v(&p.dm[..1], &p.dcm, &p.di[..1], &p.dci));
    assert!(!v(&p.dm, &p.dcm[..1], &p.di, &p.dci[..1]));
    assert!(!v(&p.dm[..1], &p.dcm, &p.di, &p.dci));
    assert!(!v(&p.dm, &p.dcm, &p.di[..1], &p.dci));
    assert!(!v(&p.dm, &p.dcm[..1], &p.di, &p.dci));
    assert!(!v(&p.dm, &p.dcm, &p.di, &p.dci[..1]));
    let mut dm = p.dm.clone(); dm.insert(0, run.messages[0].clone());
    let mut di = p.di.clone(); di.insert(0, 0);
    assert!(!v(&dm, &p.dcm, &di, &p.dci), "an undisclosed signed message added to the disclosed ones");
    let mut dcm = p.dcm.clone(); dcm.insert(1, run.committed[1].clone());
    let mut dci = p.dci.clone(); dci.insert(1, 1);
    assert!(!v(&p.dm, &dcm, &p.di, &dci));
    // a disclosed signer message re-labelled as committed (and back), all consistent combined positions
    // signer 3 <-> combined 3; committed j <-> combined L+1+j
    assert!(!v(&p.dm[..1], &[p.dm[1].clone(), p.dcm[0].clone(), p.dcm[1].clone()], &p.di[..1], &[0, 1, 2]));
    assert!(!v(&[p.dm[0].clone(), p.dm[1].clone(), p.dcm[0].clone()], &p.dcm[1..], &[1, 3, 4], &[2]));
    // duplicated and unsorted index lists
    assert!(!v(&[p.dm[0].clone(), p.dm[0].clone()], &p.dcm, &[1, 1], &p.dci));
    assert!(!v(&[p.dm[1].clone(), p.dm[0].clone()], &p.dcm, &[3, 1], &p.dci));
    assert!(!v(&p.dm, &[p.dcm[1].clone(), p.dcm[0].clone()], &p.di, &[2, 0]));
}
#[test]
fn c14_proof_disclosed_data_edits_refused_sha256() { proof_disclosed_edits::<Sha>(); }
#[test]
fn c14_proof_disclosed_data_edits_refused_shake256() { proof_disclosed_edits::<Shake>(); }

// 15. blind_proof_verify: every value of L (and None), for several shapes
#[test]
fn c15_proof_every_other_L_refused() {
    fn go<CS: BbsCiphersuite>() where CS::Expander: for<'a> ExpandMsg<'a> {
        let shapes: Vec<(usize, usize, bool, Vec<usize>, Vec<usize>)> = vec![
            (4, 3, true, vec![1, 3], vec![0, 2]),
            (4, 3, true, vec![], vec![]),
            (3, 0, false, vec![], vec![]),
            (3, 0, false, vec![0], vec![]),
            (0, 3, true, vec![], vec![1]),
            (0, 0, false, vec![], vec![]),
            (2, 2, true, vec![0, 1], vec![0, 1]),
        ];
        for (l, m, c, di, dci) in shapes {
            let run = honest::<CS>(l, m, c);
            let p = present::<CS>(&run, &di, &dci);
            for x in 0..=(l + m + 3) {
                if x == l { continue; }
                assert!(bpv::<CS>(&p.proof, &run.pk, Some(&run.header), Some(&p.ph), Some(x), &p.dm, &p.dcm, &p.di, &p.dci).is_err(),
                    "L={l} M={m}: accepted with L={x}");
            }
            for x in [usize::MAX, usize::MAX - 1, usize::MAX / 2, 1 << 32] {
                assert!(bpv::<CS>(&p.proof, &run.pk, Some(&run.header), Some(&p.ph), Some(x), &p.dm, &p.dcm, &p.di, &p.dci).is_err());
            }
            let none = bpv::<CS>(&p.proof, &run.pk, Some(&run.header), Some(&p.ph), None, &p.dm, &p.dcm, &p.di, &p.dci);
            assert_eq!(none.is_ok(), l == 0, "L absent means L = 0");
            // the whole disclosure re-expressed for another split L' (combined positions kept)
            let mut comb: Vec<(usize, Vec<u8>)> = p.di.iter().cloned().zip(p.dm.iter().cloned()).collect();
            comb.extend(p.dci.iter().map(|j| j + l + 1).zip(p.dcm.iter().cloned()));
            for x in 0..=(l + m) {
                if x == l { continue; }
                if comb.iter().any(|(i, _)| *i == x) { continue; }
                let (a, b): (Vec<_>, Vec<_>) = comb.iter().cloned().partition(|(i, _)| *i < x);
                let ai: Vec<usize> = a.iter().map(|(i, _)| *i).collect();
                let am: Vec<Vec<u8>> = a.into_iter().map(|(_, v)| v).collect();
                let bi: Vec<usize> = b.iter().map(|(i, _)| *i - x - 1).collect();
                let bm: Vec<Vec<u8>> = b.into_iter().map(|(_, v)| v).collect();
                assert!(bpv::<CS>(&p.proof, &run.pk, Some(&run.header), Some(&p.ph), Some(x), &am, &bm, &ai, &bi).is_err(),
                    "L={l} M={m}: accepted re-split at L={x}");
            }
        }
    }
    go::<Sha>();
    go::<Shake>();
}

// 16. blind_proof_verify: ph, header, pk
#[test]
fn c16_proof_ph_header_pk_edits_refused() {
    fn go<CS: BbsCiphersuite>() where CS::Expander: for<'a> ExpandMsg<'a> {
        let run = honest::<CS>(3, 2, true);
        let p = present::<CS>(&run, &[0, 2], &[1]);
        let v = |pk: &BBSplusPublicKey, h: Option<&[u8]>, ph: Option<&[u8]>| {
            bpv::<CS>(&p.proof, pk, h, ph, Some(3), &p.dm, &p.dcm, &p.di, &p.dci).is_ok()
        };
        assert!(v(&run.pk, Some(&run.header), Some(&p.ph)));
        assert!(!v(&run.pk, None, Some(&p.ph)));
        assert!(!v(&run.pk, Some(&run.header), None));
        assert!(!v(&run.pk, Some(b""), Some(&p.ph)));
        assert!(!v(&run.pk, Some(&run.header), Some(b"")));
        assert!(!v(&run.pk, Some(&p.ph), Some(&run.header)), "header and ph exchanged");
        for i in 0..p.ph.len() {
            let mut e = p.ph.clone(); e[i] ^= 1;
            assert!(!v(&run.pk, Some(&run.header), Some(&e)));
            assert!(!v(&run.pk, Some(&run.header), Some(&p.ph[..i])));
        }
        for i in 0..run.header.len() {
            let mut e = run.header.clone(); e[i] ^= 1;
            assert!(!v(&run.pk, Some(&e), Some(&p.ph)));
            assert!(!v(&run.pk, Some(&run.header[..i]), Some(&p.ph)));
        }
        let mut e = p.ph.clone(); e.push(0); assert!(!v(&run.pk, Some(&run.header), Some(&e)));
        let mut e = run.header.clone(); e.push(0); assert!(!v(&run.pk, Some(&e), Some(&p.ph)));
        // a byte moved from the end of the header to the front of the ph
        let mut h = run.header.clone(); let last = h.pop().unwrap();
        let mut e = vec![last]; e.extend_from_slice(&p.ph);
        assert!(!v(&run.pk, Some(&h), Some(&e)));
        let (_, pk2) = keys::<CS>(9);
        assert!(!v(&pk2, Some(&run.header), Some(&p.ph)));
        assert!(!v(&BBSplusPublicKey(-run.pk.0), Some(&run.header), Some(&p.ph)));
        let pkb = run.pk.to_bytes();
        for k in (0..pkb.len() * 8).step_by(11) {
            let mut e = pkb; e[k / 8] ^= 1 << (k % 8);
            if let Ok(q) = BBSplusPublicKey::from_bytes(&e) { assert!(!v(&q, Some(&run.header), Some(&p.ph))); }
        }
    }
    go::<Sha>();
    go::<Shake>();
}

// 17. blind_proof_verify: proof bits, scalar-granular truncation / extension, non canonical scalars, parts re-used
#[test]
fn c17_proof_bit_flips_and_reshaping_refused() {
    fn go<CS: BbsCiphersuite>(step: usize) where CS::Expander: for<'a> ExpandMsg<'a> {
        let run = honest::<CS>(2, 2, true);
        let p = present::<CS>(&run, &[1], &[0]);
        let v = |proof: &[u8]| bpv::<CS>(proof, &run.pk, Some(&run.header), Some(&p.ph), Some(2), &p.dm, &p.dcm, &p.di, &p.dci).is_ok();
        assert!(v(&p.proof));
        assert_eq!(p.proof.len(), 272 + 32 * 3);
        let mut k = 0;
        while k < p.proof.len() * 8 {
            let mut e = p.proof.clone(); e[k / 8] ^= 1 << (k % 8);
            assert!(!v(&e), "proof bit {k} flipped and accepted");
            k += step;
        }
        let n = p.proof.len();
        let scalars = (n - 144) / 32;
        for s in 0..scalars {
            let off = 144 + 32 * s;
            let mut e = p.proof[..off].to_vec(); e.extend_from_slice(&p.proof[off + 32..]);
            assert!(!v(&e), "scalar {s} removed");
            for fill in [[0u8; 32], p.proof[off..off + 32].try_into().unwrap()] {
                let mut e = p.proof[..off].to_vec(); e.extend_from_slice(&fill); e.extend_from_slice(&p.proof[off..]);
                assert!(!v(&e), "scalar inserted at {s}");
            }
            if let Some(nc) = add_r(&p.proof[off..off + 32]) {
                let mut e = p.proof.clone(); e[off..off + 32].copy_from_slice(&nc);
                assert!(!v(&e), "scalar {s} + r accepted");
            }
        }
        let mut e = p.proof.clone(); e.extend_from_slice(&[0u8; 32]); assert!(!v(&e));
        for len in [0usize, 1, 143, 144, 240, 271, 272, 273, n - 32, n - 1] { assert!(!v(&p.proof[..len])); }
        // a second proof of the same signature: points of one with the scalars of the other
        let q = present::<CS>(&run, &[1], &[0]);
        assert_ne!(q.proof, p.proof);
        assert!(!v(&[&p.proof[..144], &q.proof[144..]].concat()));
        assert!(!v(&[&q.proof[..144], &p.proof[144..]].concat()));
        assert!(!v(&[&p.proof[..n - 32], &q.proof[n - 32..]].concat()));
        // Abar and Bbar exchanged, D replaced by Abar
        let mut e = p.proof.clone(); e[..48].copy_from_slice(&p.proof[48..96]); e[48..96].copy_from_slice(&p.proof[..48]); assert!(!v(&e));
        let mut e = p.proof.clone(); e[96..144].copy_from_slice(&p.proof[..48]); assert!(!v(&e));
        // identity points
        for pt in 0..3 { let mut e = p.proof.clone(); e[48 * pt..48 * (pt + 1)].copy_from_slice(&[0u8; 48]); e[48 * pt] = 0xc0; assert!(!v(&e)); }
        // the plain verifier does not accept the blind proof, nor does the other suite's blind verifier
        let all_m: Vec<Vec<u8>> = p.dm.iter().chain(p.dcm.iter()).cloned().collect();
        let all_i: Vec<usize> = p.di.iter().cloned().chain(p.dci.iter().map(|j| j + 3)).collect();
        let plain = guard(|| PoKSignature::<BBSplus<CS>>::from_bytes(&p.proof)?.proof_verify(&run.pk, Some(&all_m), Some(&all_i), Some(&run.header), Some(&p.ph)));
        assert!(plain.is_err());
    }
    go::<Sha>(1);
    go::<Shake>(5);
    let run = honest::<Sha>(2, 2, true);
    let p = present::<Sha>(&run, &[1], &[0]);
    assert!(bpv::<Shake>(&p.proof, &run.pk, Some(&run.header), Some(&p.ph), Some(2), &p.dm, &p.dcm, &p.di, &p.dci).is_err());
}

// 18. a proof of one signature against the data of another (same key, same shape)
#[test]
fn c18_proof_of_another_credential_refused() {
    let a = honest::<Sha>(2, 2, true);
    let mut b = honest::<Sha>(2, 2, true); // other blind factor, same messages
    let pa = present::<Sha>(&a, &[0], &[1]);
    // b's credential with another committed message
    b.committed[0] = b"another".to_vec();
    let (c, bl) = Commitment::<BBSplus<Sha>>::commit(Some(&b.committed)).unwrap();
    let sig = BlindSignature::<BBSplus<Sha>>::blind_sign(&b.sk, &b.pk, Some(&c.to_bytes()), Some(&b.header), Some(&b.messages)).unwrap();
    b.sig = sig.to_bytes(); b.blind = Some(bl.to_bytes());
    let pb = present::<Sha>(&b, &[0], &[0]);
    // pb discloses committed[0] = "another"; present it as a's committed[0]
    assert!(bpv::<Sha>(&pb.proof, &a.pk, Some(&a.header), Some(&pb.ph), Some(2), &pb.dm, &[a.committed[0].clone()], &[0], &[0]).is_err());
    assert!(bpv::<Sha>(&pa.proof, &a.pk, Some(&a.header), Some(&pa.ph), Some(2), &pa.dm, &[b.committed[1].clone()], &[0], &[0]).is_err());
    // prover side: a proof generated with the wrong blind factor / wrong committed messages / none does not verify
    let wrong = PoKSignature::<BBSplus<Sha>>::blind_proof_gen(&a.pk, &a.sig, Some(&a.header), Some(&pa.ph), Some(&a.messages),
        Some(&a.committed), Some(&[0]), Some(&[1]), b.blind().as_ref()).unwrap();
    assert!(bpv::<Sha>(&wrong.to_bytes(), &a.pk, Some(&a.header), Some(&pa.ph), Some(2), &pa.dm, &pa.dcm, &pa.di, &pa.dci).is_err());
    let wrong = PoKSignature::<BBSplus<Sha>>::blind_proof_gen(&a.pk, &a.sig, Some(&a.header), Some(&pa.ph), Some(&a.messages),
        Some(&a.committed), Some(&[0]), Some(&[1]), None).unwrap();
    assert!(bpv::<Sha>(&wrong.to_bytes(), &a.pk, Some(&a.header), Some(&pa.ph), Some(2), &pa.dm, &pa.dcm, &pa.di, &pa.dci).is_err());
    let wrong = PoKSignature::<BBSplus<Sha>>::blind_proof_gen(&a.pk, &a.sig, Some(&a.header), Some(&pa.ph), Some(&a.messages),
        Some(&b.committed), Some(&[0]), Some(&[1]), a.blind().as_ref()).unwrap();
    assert!(bpv::<Sha>(&wrong.to_bytes(), &a.pk, Some(&a.header), Some(&pa.ph), Some(2), &pa.dm, &pa.dcm, &pa.di, &pa.dci).is_err());
    // a proof over a plain signature of the same messages presented to the blind verifier, and the reverse
    let all: Vec<Vec<u8>> = a.messages.iter().chain(a.committed.iter()).cloned().collect();
    let ps = Signature::<BBSplus<Sha>>::sign(Some(&all), &a.sk, &a.pk, Some(&a.header)).unwrap();
    let pp = PoKSignature::<BBSplus<Sha>>::proof_gen(&a.pk, &ps.to_bytes(), Some(&a.header), Some(&pa.ph), Some(&all), Some(&[0])).unwrap();
    for l in 0..=4 {
        assert!(bpv::<Sha>(&pp.to_bytes(), &a.pk, Some(&a.header), Some(&pa.ph), Some(l), &pa.dm, &[], &[0], &[]).is_err());
    }
}

// 19. prover side: index lists at the edges of the prover's range checks, unsorted / duplicated lists
#[test]
fn c19_prover_side_index_ranges() {
    let run = honest::<Sha>(2, 2, true);
    let ph = b"ph".to_vec();
    let gen = |di: &[usize], dci: &[usize]| guard(|| PoKSignature::<BBSplus<Sha>>::blind_proof_gen(&run.pk, &run.sig, Some(&run.header), Some(&ph),
        Some(&run.messages), Some(&run.committed), Some(di), Some(dci), run.blind().as_ref()));
    assert!(gen(&[2], &[]).is_err());
    assert!(gen(&[], &[2]).is_err());
    assert!(gen(&[usize::MAX], &[]).is_err());
    assert!(gen(&[], &[usize::MAX]).is_err());
    assert!(gen(&[], &[usize::MAX - 2]).is_err());
    assert!(gen(&[0, 1, 1], &[]).is_err());
    // unsorted lists: the prover sorts them; the proof verifies with the sorted lists only
    let p = gen(&[1, 0], &[1, 0]).unwrap().to_bytes();
    let m = &run.messages; let c = &run.committed;
    assert!(bpv::<Sha>(&p, &run.pk, Some(&run.header), Some(&ph), Some(2), m, c, &[0, 1], &[0, 1]).is_ok());
    assert!(bpv::<Sha>(&p, &run.pk, Some(&run.header), Some(&ph), Some(2), &[m[1].clone(), m[0].clone()], &[c[1].clone(), c[0].clone()], &[1, 0], &[1, 0]).is_err());
    // duplicated index: disclosed once
    let p = gen(&[1, 1], &[]).unwrap().to_bytes();
    assert!(bpv::<Sha>(&p, &run.pk, Some(&run.header), Some(&ph), Some(2), &m[1..], &[], &[1], &[]).is_ok());
    assert!(bpv::<Sha>(&p, &run.pk, Some(&run.header), Some(&ph), Some(2), &[m[1].clone(), m[1].clone()], &[], &[1, 1], &[]).is_err());
}

// 20. serde JSON forms of the blind signature and of the proof: an edited JSON is refused or is the same value
#[test]
fn c20_json_forms_of_signature_and_proof() {
    let run = honest::<Sha>(2, 1, true);
    let p = present::<Sha>(&run, &[1], &[0]);
    let proof = PoKSignature::<BBSplus<Sha>>::from_bytes(&p.proof).unwrap();
    let js = serde_json::to_string(&proof).unwrap();
    let back: PoKSignature<BBSplus<Sha>> = serde_json::from_str(&js).unwrap();
    assert_eq!(back.to_bytes(), p.proof);
    let bytes = js.as_bytes();
    let mut distinct = 0;
    for i in 0..bytes.len() {
        if !(bytes[i] as char).is_ascii_hexdigit() { continue; }
        let mut e = bytes.to_vec();
        e[i] = if e[i] == b'1' { b'2' } else { b'1' };
        let Ok(s) = String::from_utf8(e) else { continue };
        if let Ok(Ok(dec)) = catch_unwind(|| serde_json::from_str::<PoKSignature<BBSplus<Sha>>>(&s)) {
            if dec != proof {
                distinct += 1;
                let r = guard(|| dec.blind_proof_verify(&run.pk, Some(&run.header), Some(&p.ph), Some(2), Some(&p.dm), Some(&p.dcm), Some(&p.di), Some(&p.dci)));
                assert!(r.is_err(), "edited JSON proof accepted (pos {i})");
            }
        }
    }
    assert!(distinct > 100);
    // non canonical scalars in the JSON form: x + r in the place of x must not decode to an accepted proof
    let v: serde_json::Value = serde_json::from_str(&js).unwrap();
    fn walk(v: &serde_json::Value, out: &mut Vec<String>) {
        match v {
            serde_json::Value::String(s) if s.len() == 64 => out.push(s.clone()),
            serde_json::Value::Array(a) => a.iter().for_each(|x| walk(x, out)),
            serde_json::Value::Object(o) => o.values().for_each(|x| walk(x, out)),
            _ => {}
        }
    }
    let mut strs = Vec::new();
    walk(&v, &mut strs);
    assert!(!strs.is_empty(), "scalars are expected as 64 digit hex strings: {js}");
    for s in strs {
        let raw = hex::decode(&s).unwrap();
        // the crate may print the scalar in either byte order: try x + r in both
        let mut cands = Vec::new();
        if let Some(nc) = add_r(&raw) { cands.push(hex::encode(nc)); }
        let rev: Vec<u8> = raw.iter().rev().cloned().collect();
        if let Some(nc) = add_r(&rev) { cands.push(hex::encode(nc.iter().rev().cloned().collect::<Vec<u8>>())); }
        for c in cands {
            let edited = js.replacen(&s, &c, 1);
            if let Ok(Ok(dec)) = catch_unwind(|| serde_json::from_str::<PoKSignature<BBSplus<Sha>>>(&edited)) {
                let r = guard(|| dec.blind_proof_verify(&run.pk, Some(&run.header), Some(&p.ph), Some(2), Some(&p.dm), Some(&p.dcm), Some(&p.di), Some(&p.dci)));
                assert!(r.is_err(), "non canonical scalar {c} in the JSON proof decoded and the proof was accepted");
            }
        }
    }
    // the blind signature
    let sig = BlindSignature::<BBSplus<Sha>>::from_bytes(&run.sig).unwrap();
    let js = serde_json::to_string(&sig).unwrap();
    let bytes = js.as_bytes();
    for i in 0..bytes.len() {
        if !(bytes[i] as char).is_ascii_hexdigit() { continue; }
        let mut e = bytes.to_vec();
        e[i] = if e[i] == b'1' { b'2' } else { b'1' };
        let Ok(s) = String::from_utf8(e) else { continue };
        if let Ok(Ok(dec)) = catch_unwind(|| serde_json::from_str::<BlindSignature<BBSplus<Sha>>>(&s)) {
            if dec != sig {
                let r = guard(|| dec.verify_blind_sign(&run.pk, Some(&run.header), Some(&run.messages), Some(&run.committed), run.blind().as_ref()));
                assert!(r.is_err(), "edited JSON signature accepted (pos {i})");
            }
        }
    }
    // a signature value built directly (public fields) with the identity / e = 0 is refused by the verifier
    let inner = BBSplusSignature::from_bytes(&run.sig).unwrap();
    for forged in [
        BBSplusSignature { A: G1Projective::IDENTITY, e: inner.e },
        BBSplusSignature { A: inner.A, e: Scalar::ZERO },
        BBSplusSignature { A: -inner.A, e: inner.e },
        BBSplusSignature { A: inner.A, e: -inner.e },
    ] {
        let s = BlindSignature::<BBSplus<Sha>>::BBSplus(forged);
        let r = guard(|| s.verify_blind_sign(&run.pk, Some(&run.header), Some(&run.messages), Some(&run.committed), run.blind().as_ref()));
        assert!(r.is_err());
    }
}

// 21. commitments built through the public constructors (BBSplusZKPoK::new, public fields): a commitment the prover
//     cannot open over the blind generators (it contains a signer generator / P1 / Q1) is never signed
#[test]
fn c21_commitment_outside_the_blind_generators_refused() {
    let run = honest::<Sha>(2, 1, true);
    let api = <Sha as BbsCiphersuite>::API_ID_BLIND;
    let sg = Generators::create::<Sha>(3, Some(api));
    let honest_c = BBSplusCommitment::from_bytes(run.cwp.as_ref().unwrap()).unwrap();
    // C' = C + H_1 * x : would cancel / replace the signer's first message
    for extra in [sg.values[1], -sg.values[1], sg.values[0], sg.g1_base_point, -sg.g1_base_point] {
        let forged = BBSplusCommitment { commitment: honest_c.commitment + extra, proof: honest_c.proof.clone() };
        assert!(bsign::<Sha>(&run, &forged.to_bytes()).is_err());
    }
    // proofs with hand made scalars
    let one = Scalar::ONE;
    for proof in [
        BBSplusZKPoK::new(Scalar::ZERO, vec![Scalar::ZERO], Scalar::ZERO),
        BBSplusZKPoK::new(one, vec![one], one),
        BBSplusZKPoK::new(one, vec![], one),
        BBSplusZKPoK::new(one, vec![one, one], one),
    ] {
        let forged = BBSplusCommitment { commitment: honest_c.commitment, proof };
        assert!(bsign::<Sha>(&run, &forged.to_bytes()).is_err());
    }
    // -(P1 + H_1 m_1 + ...) style commitment making B the identity: refused (proof does not verify)
    let forged = BBSplusCommitment { commitment: -sg.g1_base_point, proof: BBSplusZKPoK::new(one, vec![], one) };
    assert!(bsign::<Sha>(&run, &forged.to_bytes()).is_err());
}

// 22. large counts around 255 / 256: honest run is accepted, last committed message is bound
#[test]
fn c22_counts_around_256() {
    let run = honest::<Sha>(1, 257, true);
    let p = present::<Sha>(&run, &[0], &[0, 255, 256]);
    let mut e = p.dcm.clone(); e[2][0] ^= 1;
    assert!(bpv::<Sha>(&p.proof, &run.pk, Some(&run.header), Some(&p.ph), Some(1), &p.dm, &e, &p.di, &p.dci).is_err());
    assert!(bpv::<Sha>(&p.proof, &run.pk, Some(&run.header), Some(&p.ph), Some(1), &p.dm, &p.dcm, &p.di, &[0, 255, 257]).is_err());
    assert!(bpv::<Sha>(&p.proof, &run.pk, Some(&run.header), Some(&p.ph), Some(1), &p.dm, &p.dcm, &p.di, &[0, 254, 256]).is_err());
    let mut c = run.committed.clone(); c[256].push(1);
    assert!(vbs::<Sha>(&run.sig, &run.pk, Some(&run.header), &run.messages, &c, run.blind().as_ref()).is_err());
    // the commitment with its last response removed / one zero response added
    let cwp = run.cwp.clone().unwrap();
    let n = cwp.len();
    let mut t = cwp[..n - 64].to_vec(); t.extend_from_slice(&cwp[n - 32..]);
    assert!(bsign::<Sha>(&run, &t).is_err());
    let mut t = cwp[..n - 32].to_vec(); t.extend_from_slice(&[0u8; 32]); t.extend_from_slice(&cwp[n - 32..]);
    assert!(bsign::<Sha>(&run, &t).is_err());
}

// 23. proofs without any hidden value (U = 0, 272 octets) can never be blind proofs (the blind factor is always hidden):
//     refused, without a panic, for every L and every shape of the disclosure
#[test]
fn c23_proof_without_hidden_values_refused() {
    let run = honest::<Sha>(2, 1, true);
    let p = present::<Sha>(&run, &[0, 1], &[0]);
    assert_eq!(p.proof.len(), 272 + 32);
    let short = [&p.proof[..240], &p.proof[272..]].concat();
    let all = [run.messages.clone(), run.committed.clone()].concat();
    for l in 0..=5usize {
        for (dm, dcm, di, dci) in [
            (p.dm.clone(), p.dcm.clone(), p.di.clone(), p.dci.clone()),
            (all.clone(), vec![], vec![0, 1, 2], vec![]),
            (vec![], all.clone(), vec![], vec![0, 1, 2]),
            (vec![], vec![], vec![], vec![]),
            (p.dm.clone(), vec![], p.di.clone(), vec![]),
        ] {
            assert!(bpv::<Sha>(&short, &run.pk, Some(&run.header), Some(&p.ph), Some(l), &dm, &dcm, &di, &dci).is_err());
        }
    }
    assert!(bpv::<Sha>(&short, &run.pk, Some(&run.header), Some(&p.ph), None, &[], &[], &[], &[]).is_err());
}

// 24. the identity as commitment with a VALID proof (opening: blind factor 0, no message) is the only way to have it signed;
//     the signature obtained is bound to the blind factor 0 (it is the signature issued without a commitment)
#[test]
fn c24_identity_commitment_is_bound_to_the_zero_opening() {
    use zkryptium::utils::util::bbsplus_utils::calculate_blind_challenge;
    let run = honest::<Sha>(2, 0, false);
    let api = <Sha as BbsCiphersuite>::API_ID_BLIND;
    let g = Generators::create::<Sha>(1, Some(&[b"BLIND_", api].concat()));
    let s_tilde = Scalar::from(123456789u64);
    let cbar = g.values[0] * s_tilde;
    let c = calculate_blind_challenge::<Sha>(G1Projective::IDENTITY, cbar, &g.values, Some(api)).unwrap();
    let cwp = BBSplusCommitment { commitment: G1Projective::IDENTITY, proof: BBSplusZKPoK::new(s_tilde, vec![], c) }.to_bytes();
    let sig = bsign::<Sha>(&run, &cwp).expect("a valid proof of the zero opening");
    assert_eq!(sig, run.sig);
    let one = BlindFactor::from_bytes(&{ let mut o = [0u8; 32]; o[31] = 1; o }).unwrap();
    assert!(vbs::<Sha>(&sig, &run.pk, Some(&run.header), &run.messages, &[], None).is_ok());
    assert!(vbs::<Sha>(&sig, &run.pk, Some(&run.header), &run.messages, &[], Some(&one)).is_err());
    // the same with the challenge computed for another statement (C = Q2) is refused
    let c2 = calculate_blind_challenge::<Sha>(g.values[0], cbar, &g.values, Some(api)).unwrap();
    let bad = BBSplusCommitment { commitment: G1Projective::IDENTITY, proof: BBSplusZKPoK::new(s_tilde, vec![], c2) }.to_bytes();
    assert!(bsign::<Sha>(&run, &bad).is_err());
    // a proof whose challenge was computed over a LONGER generator list than the one the signer derives from the length
    let g3 = Generators::create::<Sha>(3, Some(&[b"BLIND_", api].concat()));
    let c3 = calculate_blind_challenge::<Sha>(G1Projective::IDENTITY, cbar, &g3.values, Some(api)).unwrap();
    let bad = BBSplusCommitment { commitment: G1Projective::IDENTITY, proof: BBSplusZKPoK::new(s_tilde, vec![], c3) }.to_bytes();
    assert!(bsign::<Sha>(&run, &bad).is_err());
}

// 25. honest commitments are always accepted and every one of them binds its own blind factor (repeated fresh runs)
#[test]
fn c25_repeated_fresh_runs() {
    let (sk, pk) = keys::<Shake>(3);
    let cm = msgs("c", 2);
    let m = msgs("s", 1);
    let mut prev: Option<BlindFactor> = None;
    for _ in 0..12 {
        let (c, b) = Commitment::<BBSplus<Shake>>::commit(Some(&cm)).unwrap();
        let sig = BlindSignature::<BBSplus<Shake>>::blind_sign(&sk, &pk, Some(&c.to_bytes()), None, Some(&m)).unwrap();
        assert!(sig.verify_blind_sign(&pk, None, Some(&m), Some(&cm), Some(&b)).is_ok());
        assert!(sig.verify_blind_sign(&pk, Some(b""), Some(&m), Some(&cm), Some(&b)).is_ok(), "absent header = empty header");
        if let Some(p) = &prev { assert!(sig.verify_blind_sign(&pk, None, Some(&m), Some(&cm), Some(p)).is_err()); }
        prev = Some(b);
    }
}
